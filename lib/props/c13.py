"""C13 - Transpilation is total: a script or an error, never a crash or a hang."""
import random
import re

import common
import gen_lex
import gen_prog
import pipeline
import seeds

TOKEN_RE = re.compile(r'"(?:\\.|[^"\\])*"|`[^`]*`|[A-Za-z_][A-Za-z0-9_]*|\d+|\n|==|!=|<=|>=|&&|\|\||\+=|-=|\*=|/=|%=|:=|\+\+|--|[^\sA-Za-z0-9_]')

VOCAB = ["(", ")", "[", "]", "{", "}", "==", "!=", "<", "&&", "||", "+=", "=", ":=", "++", "--", "!", "+", "-", "*", "/", "%",
         ",", ":", ";", ".", "@", "|", "\n", "x", "f", "strings", "1", "-1", '"s"', "true", "nil", "import", "var", "func",
         "return", "if", "else", "switch", "case", "default", "for", "range", "break", "continue", "len", "print", "input",
         "copy", "itoa", "exists", "read", "write", "panic", "int", "bool", "string", "error", "[]int"]


def tokens_of(src):
    return TOKEN_RE.findall(src)


def render(toks):
    out = []
    for i, t in enumerate(toks):
        out.append(t)
        if t != "\n" and i + 1 < len(toks) and toks[i + 1] != "\n":
            out.append(" ")
    return "".join(out)


def edits(rng, toks, n_single, n_double):
    """single- and double-token edits of a token list"""
    res = []

    def one(ts):
        ts = list(ts)
        k = rng.random()
        i = rng.randrange(len(ts)) if ts else 0
        if k < 0.3 and ts:
            del ts[i]
        elif k < 0.5 and ts:
            ts.insert(i, ts[i])
        elif k < 0.85:
            if ts:
                ts[i] = rng.choice(VOCAB)
            else:
                ts.append(rng.choice(VOCAB))
        elif len(ts) > 1:
            j = min(i + 1, len(ts) - 1)
            ts[i], ts[j] = ts[j], ts[i]
        else:
            ts.insert(i, rng.choice(VOCAB))
        return ts

    for _ in range(n_single):
        res.append(one(toks))
    for _ in range(n_double):
        res.append(one(one(toks)))
    return res


def import_graphs(rng, n):
    """small sets of files importing each other: DAGs, cycles, self-imports, missing files, std"""
    cases = []
    names = ["a.tsh", "b.tsh", "c.tsh", "sub/d.tsh"]
    bodies = ['func F() int {\n\treturn 1\n}\n', 'var G int = 2\nfunc Get() int {\n\treturn G\n}\n', 'print("top")\nfunc H(x int) int {\n\treturn x + 1\n}\n', '',
              # every kind of top-level statement in a file that is IMPORTED (the statements of an imported file pass through the registration
              # loop of evaluateImports; round 9: C13-A, a type assertion there hit by `a, b := f()`)
              'func pair() (int, string) {\n\treturn 7, "seven"\n}\nNumber, word := pair()\nvar A, b = pair()\nNumber, word = pair()\n',
              'var so, se, code = @echo("x")\nO2, E2, C2 := @echo("y")\nso, se, code = @true()\n',
              'for i := 0; i < 2; i++ {\n\tprint(i)\n}\nfor k, v := range []int{1} {\n\tprint(k, v)\n}\nif true {\n\tprint("t")\n} else {\n\tprint("e")\n}\nswitch 1 {\ncase 1:\n\tprint("one")\ndefault:\n\tprint("d")\n}\n',
              'var Xs []int = []int{1}\nXs[2] = 5\nN := copy(Xs, []int{9})\nS := "abc"\nprint(len(Xs), S[1], S[0:2], N)\n',
              'A := 1\nB, A := 2, 3\nA, B = B, A\nA += 1\nA++\nprint(A, B)\n',
              'write("f.txt", "x")\nR := read("f.txt")\nE := exists("f.txt")\n@echo("side")\nI := input("p")\nprint(R, E, I)\n',
              'panic("stop")\n', 'var U int\nvar V, W string\nvar Z []string\nvar P, Q = 1, "q"\n',
              'func Void() {\n}\nfunc Two() (int, int) {\n\treturn 1, 2\n}\nVoid()\nTwo()\nprint(itoa(3), len("ab"))\n']
    # directed: each body as a file imported by the main file, and as a file imported by an imported file
    for body in bodies:
        cases.append({"a.tsh": b'import l "b.tsh"\nprint("main")\n', "b.tsh": body.encode()})
        cases.append({"a.tsh": b'import l "b.tsh"\nprint("main")\n', "b.tsh": b'import m "sub/d.tsh"\nprint("b")\n', "sub/d.tsh": body.encode()})
        cases.append({"a.tsh": b'import (\n\tl "b.tsh"\n\tk "c.tsh"\n)\nprint("main")\n', "b.tsh": body.encode(), "c.tsh": b'import l "b.tsh"\n'})
    for _ in range(n):
        k = rng.randrange(1, 5)
        files = {}
        used = names[:k]
        for nm in used:
            imps = []
            for tgt in rng.sample(names + ["missing.tsh", "strings", "os"], rng.randrange(0, 3)):
                alias = "m" + re.sub(r"[^a-z]", "", tgt)[:3] + str(rng.randrange(3))
                rel = tgt
                if nm.startswith("sub/") and not tgt.startswith("sub/") and tgt.endswith(".tsh"):
                    rel = "../" + tgt
                if tgt in ("strings", "os") and rng.random() < 0.7:
                    imps.append('"%s"' % tgt)
                else:
                    imps.append('%s "%s"' % (alias, rel))
            src = ""
            if imps:
                if len(imps) == 1 and rng.random() < 0.5:
                    src += "import " + imps[0] + "\n"
                else:
                    src += "import (\n" + "".join("\t" + i + "\n" for i in imps) + ")\n"
            src += rng.choice(bodies)
            if nm == "a.tsh":
                src += 'print("main")\n'
            files[nm] = src.encode()
        cases.append(files)
    return cases


ZOO_PRELUDE = """var i int = 3
var s string = "abc"
var b bool = true
var xs []int = []int{1, 2}
var ss []string = []string{"a"}
func qi() int {
\treturn 1
}
func qs() string {
\treturn "x"
}
func qxs() []int {
\treturn []int{4}
}
func qss() []string {
\treturn []string{"q"}
}
func q2() (int, string) {
\treturn 1, "y"
}
func qv() {
\tprint(1)
}
"""
ZOO = ["i", "s", "b", "xs", "ss", "qi()", "qs()", "qxs()", "qss()", "q2()", "qv()", "1", '"l"', "true", "[]int{7}", "[]string{}",
       "xs[0]", "s[0]", "s[0:1]", "len(xs)", "(i)", "i + 1", "@ls()", "nil", "undefined_name"]


def builtin_near_misses(rng, limit):
    """every builtin / operator position filled with every expression of a small zoo (well-typed and ill-typed alike):
    the answer must be a script or an error, never a crash"""
    forms, pairs = [], []
    for a in ZOO:
        forms += ["x := len(%s)" % a, "x := itoa(%s)" % a, "x := exists(%s)" % a, "x := read(%s)" % a, "x := input(%s)" % a, "print(%s)" % a,
                  "panic(%s)" % a, "for _, v := range %s {\n\tprint(v)\n}" % a, "x := %s[0]" % a, "x := %s[0:1]" % a, "x := s[%s]" % a,
                  "x := s[%s:%s]" % (a, a), "x := xs[%s]" % a, "xs[%s] = 1" % a, "xs[0] = %s" % a, "%s" % a, "x := %s" % a, "x, y := %s" % a,
                  "i = %s" % a, "i, s = %s" % a, "i += %s" % a, "if %s {\n\tprint(1)\n}" % a, "switch %s {\ncase 1:\n\tprint(1)\n}" % a,
                  "switch i {\ncase %s:\n\tprint(1)\n}" % a, "for %s {\n\tbreak\n}" % a, "x := !%s" % a, "x := qi(%s)" % a, "x := @ls(%s)" % a,
                  "x := []int{%s}" % a, "x := []string{%s}" % a, "func g() int {\n\treturn %s\n}" % a, "func g() (int, string) {\n\treturn %s\n}" % a,
                  "%s++" % a, "%s = 1" % a, "%s := 1" % a, "x := %s | @cat()" % a, "x := copy(%s, xs)" % a, "x := copy(xs, %s)" % a, "copy(%s, %s)" % (a, a)]
        for c in ZOO:
            pairs += ["x := %s + %s" % (a, c), "x := %s == %s" % (a, c), "x := %s && %s" % (a, c), "x := %s < %s" % (a, c), "write(%s, %s)" % (a, c),
                      "write(s, %s, %s)" % (a, c), "copy(%s, %s)" % (a, c)]
    rng.shuffle(pairs)
    return [ZOO_PRELUDE + f + "\n" for f in forms + pairs[:limit]]


WRAPPERS = ["if b {\n%s\n}", "if b {\n} else {\n%s\n}", "if b {\n} else if i == 1 {\n%s\n}", "for k := 0; k < 2; k++ {\n%s\n}",
            "for b {\n%s\n}", "for {\n%s\n}", "for _, v := range xs {\n%s\n}", "switch i {\ncase 1:\n%s\n}", "switch {\ncase b:\n%s\n}",
            "switch i {\ncase 1:\n\tprint(1)\ndefault:\n%s\n}", "func g() {\n%s\n}\ng()", "func h() int {\n%s\n\treturn 1\n}\nprint(h())"]
PLACED = ["break", "continue", "return", "return 1", "return 1, 2", "func inner() {\n\tprint(1)\n}", "x := 1", "import \"strings\"",
          "var xs2 = []int{1}", "panic(\"p\")", "qv()"]


HISTORY = ["for k0 := 0; k0 < 1; k0++ {\n\tprint(k0)\n}\n", "func g0() {\n\tfor b {\n\t\tbreak\n\t}\n}\ng0()\n", "if b {\n\tprint(1)\n}\n",
           "switch i {\ncase 1:\n\tprint(1)\n}\n", "for _, v0 := range xs {\n\tif b {\n\t\tcontinue\n\t}\n}\nfunc g1() int {\n\treturn 1\n}\nprint(g1())\n"]


def placement_cases(rng, depth3):
    """every control statement under every nesting of constructs (round 5: a `continue` the parser lets through crashes the
    Batch converter, which indexes its stack of open loops without a check): script or error, never a crash"""
    out = []
    nestings = [[w] for w in WRAPPERS] + [[w1, w2] for w1 in WRAPPERS for w2 in WRAPPERS]
    extra = [[w1, w2, w3] for w1 in WRAPPERS for w2 in WRAPPERS for w3 in WRAPPERS]
    rng.shuffle(extra)
    for nest in [[]] + nestings + extra[:depth3]:
        for st in PLACED:
            body = st
            for w in reversed(nest):
                body = w % body
            out.append(ZOO_PRELUDE + body + "\n")
    # the same after a construct that has been COMPLETED earlier in the transpilation (round 10: C13-C, the Batch converter asks "was any
    # loop ever emitted" instead of "is a loop open now" - counters and stacks that survive from one construct to the next)
    for nest in [[]] + [[w] for w in WRAPPERS]:
        for st in PLACED:
            body = st
            for w in reversed(nest):
                body = w % body
            for hist in HISTORY:
                out.append(ZOO_PRELUDE + hist + body + "\n")
    return out


def run(res, b, tier, seed):
    rng = random.Random(seed * 31337 + 13)
    pr = common.prove("C13")
    common.proof_coverage(res, pr)
    if b.harness_error or b.model_error:
        res.violation("build", dict(harness=b.harness_error, model=b.model_error), no_input=True)
        return
    quick = tier == "quick"
    sds = seeds.all_seeds()
    cfg = gen_prog.Cfg(funcs=True, slices=True, strops=True)
    for _ in range(10 if quick else 40):
        g = gen_prog.generate(rng, cfg)
        if g:
            sds.append(g[1])
    cases = []
    n = 0

    def add(kind, files, main="a.tsh"):
        nonlocal n
        cases.append(pipeline.Case("k%d" % n, files, main=main, meta=dict(kind=kind)))
        n += 1

    # every keyword / opener as the very last token of the file (no final newline), alone and after a valid prefix
    enders = ["import", 'import "strings"', 'import s "strings"', "import (", 'import (\n\t"strings"', "var", "var x", "var x int", "var x =", "func", "func f",
              "func f(", "func f()", "func f() {", "return", "if", "if true", "if true {", "else", "switch", "switch 1 {", "switch 1 {\ncase", "switch 1 {\ncase 1:",
              "for", "for i := 0;", "for i := 0; i < 1;", "for true {", "for i, v := range", "break", "continue", "len(", "print(", "print(1", "input(", "copy(",
              "itoa(", "exists(", "read(", "write(", 'write("a",', "panic(", "x :=", "x := 1 +", "x := []int{", "x := []int{1,", "x := s[", "x := s[1:", "@ls(",
              '@ls("a") |', "x, y :=", "x++", "x +=", "x.", "strings.", "!", "(", "[", "{", "}", ")", "]", ",", ":", ";", "nil", "true &&"]
    for e in enders:
        add("at-eof", {"a.tsh": e.encode()})
        add("at-eof", {"a.tsh": ("s := \"ab\"\nx := 1\n" + e).encode()})
        add("at-eof", {"a.tsh": ("func g() {\n\t" + e).encode()})
    for sd in sds:
        toks = tokens_of(sd)
        add("seed", {"a.tsh": sd.encode()})
        # truncations at token boundaries, without a final newline
        cuts = list(range(1, len(toks)))
        rng.shuffle(cuts)
        for cpos in cuts[:(6 if quick else 60)]:
            add("truncated", {"a.tsh": render(toks[:cpos]).rstrip("\n").encode()})
        for e in edits(rng, toks, 25 if quick else 200, 8 if quick else 80):
            add("edit", {"a.tsh": render(e).encode()})
    for _ in range(600 if quick else 8000):
        k = rng.random()
        data = gen_lex.gen_bytes(rng, 80) if k < 0.5 else (gen_lex.gen_near_string(rng) if k < 0.7 else gen_lex.gen_sequence(rng, 20)[0])
        add("bytes", {"a.tsh": data})
    for files in import_graphs(rng, 150 if quick else 1500):
        add("imports", files)
    for src in builtin_near_misses(rng, 500 if quick else 100000):
        add("near-miss", {"a.tsh": src.encode()})
    for src in placement_cases(rng, 60 if quick else 1728):
        add("placement", {"a.tsh": src.encode()})
    # call graphs with many paths to the same function (a diamond chain): every stage must stay polynomial
    for n_f in ((45,) if quick else (45, 60, 120)):
        src = "func f0() int {\n\treturn 1\n}\nfunc f1() int {\n\treturn 1\n}\n"
        for i in range(2, n_f):
            src += "func f%d() int {\n\treturn f%d() + f%d()\n}\n" % (i, i - 1, i - 2)
        add("call-dag", {"a.tsh": (src + "print(f%d())\n" % (n_f - 1)).encode()})
        nest = "x := 1\n" + "".join("\t" * d + "if x == %d {\n" % d for d in range(n_f)) + "\t" * n_f + "print(x)\n" + "".join("\t" * d + "}\n" for d in reversed(range(n_f)))
        add("deep-nesting", {"a.tsh": nest.encode()})
        add("long-expression", {"a.tsh": ("x := " + " + ".join(["1"] * (n_f * 20)) + "\nprint(x)\n").encode()})
        # nested round brackets, bare and with an operator at every level: DEPTH must not cost more than linear time (round 14: C13-G, a type
        # query that asked its child twice - 2^depth)
        add("deep-brackets", {"a.tsh": ("x := " + "(" * n_f + "1" + ")" * n_f + "\nprint(x)\n").encode()})
        nested = "a"
        for d in range(n_f):
            nested = "(" + nested + (" + 1" if d % 2 else " * 2") + ")"
        add("deep-brackets", {"a.tsh": ("a := 1\nx := " + nested + "\nprint(x)\n").encode()})
        add("deep-brackets", {"a.tsh": ("t := true\nif " + "(" * n_f + "t" + ")" * n_f + " {\n\tprint(1)\n}\nprint(len(" + "(" * n_f + "\"ab\"" + ")" * n_f + "))\n").encode()})
    # arithmetic on CONSTANTS, the degenerate values included (a zero divisor written as a literal or as a constant expression, the extreme
    # 32 / 64-bit values): whatever a stage does with constants at transpile time, it must not crash on them (round 13: C13-F, a constant
    # folder in the parser that divides in Go)
    zeros = ["0", "(1 - 1)", "(2 * 0)", "(3 % 3)", "-0", "(0)", "(5 - (2 + 3))"]
    consts = ["10", "-7", "0", "2147483647", "-2147483648", "9223372036854775807", "(4 + 6)"]
    arith = []
    for op in ("/", "%"):
        for l in consts:
            for z in zeros:
                arith.append("%s %s %s" % (l, op, z))
    for op in ("+", "-", "*", "/", "%"):
        for l in consts:
            for r_ in consts:
                arith.append("%s %s %s" % (l, op, r_))
    rng.shuffle(arith)
    ctxs = ["x := %s\nprint(x)\n", "print(%s)\n", "if %s == 1 {\n\tprint(1)\n}\n", "s := []int{1, 2}\nprint(s[%s])\n", "func f(a int) int {\n\treturn a + %s\n}\nprint(f(2))\n",
            "for i := %s; i < 3; i++ {\n\tprint(i)\n}\n", "a := 5\nb := a + 7 * (%s)\nprint(b)\n", "t := \"abc\"\nprint(t[%s:])\n", "switch %s {\ncase 1:\n\tprint(1)\n}\n"]
    for k, e in enumerate(arith[:(150 if quick else len(arith))]):
        add("constant-arithmetic", {"a.tsh": (ctxs[k % len(ctxs)] % e).encode()})
    for z in zeros:
        for c_ in ctxs:
            add("constant-arithmetic", {"a.tsh": (c_ % ("10 / " + z)).encode()})
            add("constant-arithmetic", {"a.tsh": (c_ % ("10 %% " + z).replace("%%", "%")).encode()})
    add("missing-main", {"other.tsh": b"print(1)\n"})
    add("dir-as-main", {"a.tsh/x": b""})
    pipeline.run_pipe(b, cases, "tasw", timeout=120)
    # lexer-class correspondence (model vs implementation) on every main file that exists
    lex_idx = [i for i, c in enumerate(cases) if isinstance(c.files.get(c.main), bytes)]
    answers = pipeline.model_lines(b, ["LEX " + cases[i].files[cases[i].main].hex() for i in lex_idx])
    dis = []
    for i, a in zip(lex_idx, answers):
        impl = cases[i].out.get("TOK", ("MISSING", ""))[0]
        if a.split(" ")[0] != impl:
            dis.append((cases[i], a.split(" ")[0], impl))
    classes = {}
    bad = []
    for c in cases:
        for st in ("TOK", "AST", "BASH", "BATCH"):
            cls, payload = c.out.get(st, ("MISSING", ""))
            classes[st + ":" + cls] = classes.get(st + ":" + cls, 0) + 1
            if cls == "OK":
                if st in ("BASH", "BATCH") and payload == "":
                    bad.append((c, st, "empty script without error"))
            elif cls == "ERR":
                if payload == "":
                    bad.append((c, st, "empty error message"))
            else:
                bad.append((c, st, cls + " " + (bytes.fromhex(payload).decode("utf-8", "replace") if payload and cls == "PANIC" else "")))
    # the same import graphs through the built COMMAND with the main file named by a RELATIVE path (the in-process harness hands over absolute
    # paths, as the test suite does): the run must end - a script or a regular error, never the Go runtime's "fatal error", a signal or the
    # watchdog - and with the verdict of the absolute run (round 15: C13-H, the cycle check compared absolute paths with a chain of paths as typed;
    # every cycle below a relative main path recursed until the memory was gone)
    rel_cases = [c for c in cases if c.meta["kind"] == "imports" and isinstance(c.files.get(c.main), bytes)]
    rel_runs = common.pmap_proc(_cli_relative, [(b.tsh, c.main, {k: v for k, v in c.files.items() if isinstance(v, bytes)}) for c in rel_cases], chunksize=4)
    rel_classes = {}
    for c, (cls, detail) in zip(rel_cases, rel_runs):
        rel_classes[cls] = rel_classes.get(cls, 0) + 1
        absolute = c.out.get("BASH", ("MISSING", ""))[0]
        if cls not in ("OK", "ERR"):
            bad.append((c, "CLI-RELATIVE", cls + " " + detail))
        elif absolute in ("OK", "ERR") and absolute != cls:
            bad.append((c, "CLI-RELATIVE", "relative main path: %s, absolute main path: %s %s" % (cls, absolute, detail)))
    distinct = len({(c.out.get("AST", ("", ""))[0], c.out.get("AST", ("", ""))[1][:200]) for c in cases})
    res.coverage.update(dict(
        evaluations=len(cases),
        distinct_nontrivial=distinct,
        rule="seed programs (repo tests, builtins, generated) with single/double token edits, every builtin/operator/statement position filled with every expression of a 25-element zoo (typed near misses), random bytes / near-miss strings / token soups as "
             "main file, import graphs over <=4 files incl. cycles, self-imports, missing files and std; every case runs lexer, parser and both "
             "targets in a worker with recover, a watchdog and crash attribution; distinct = distinct (class, AST-or-error prefix)",
        samples=[dict(kind=c.meta["kind"], files={k: v.decode("latin1")[:200] for k, v in c.files.items()}) for c in (cases[1], cases[-3], cases[len(cases) // 2])],
        classes=classes,
        correspondence=dict(stage="lexer result class (ok/error) of Model.Lexer vs lexer.Tokenize", compared=len(lex_idx), disagreements=len(dis)),
        oracle_failures=len(bad),
        relative_main_path=dict(stage="the built command, main file named by a relative path, on the import graphs", runs=len(rel_cases), classes=rel_classes),
    ))
    res.assumptions.append("wall-clock bound observed by a watchdog (120 s per chunk); 'bounded time' itself is represented by fuel sufficiency in the theorems")
    real = []
    for c, st, what in bad:
        fid = classify(c, st, what)
        if fid and res.known_finding(fid, what):
            continue
        real.append((c, st, what))
    for c, st, what in real[:3]:
        res.violation("oracle", dict(stage=st, what=what, generator=c.meta["kind"], main=c.main,
                                     files={k: v.decode("latin1") for k, v in c.files.items()},
                                     files_hex={k: v.hex() for k, v in c.files.items()}))
    if not real and (dis or not pr["ok"]):
        if dis:
            c, m, i = dis[0]
            res.violation("correspondence", dict(stage="lexer class", model=m, implementation=i, files_hex={k: v.hex() for k, v in c.files.items()}), no_input=True)
        else:
            res.violation("theorem", dict(broken=pr["broken"], log=pr["log"][-3000:]), no_input=True)


def _cli_relative(arg):
    """the tsh command in a scratch directory, main file given as typed (relative), address space and time limited"""
    import os, shutil, subprocess, tempfile
    tsh, main, files = arg
    d = tempfile.mkdtemp(prefix="tshrel-")
    try:
        for rel, data in files.items():
            q = os.path.join(d, rel)
            os.makedirs(os.path.dirname(q), exist_ok=True)
            if os.path.isdir(q):
                continue
            open(q, "wb").write(data)
        os.makedirs(os.path.join(d, "out-dir"), exist_ok=True)
        try:
            pr = subprocess.run(["bash", "-c", 'ulimit -v 3000000; exec "$0" -i "$1" -t bash -o out-dir', tsh, main], cwd=d, stdout=subprocess.PIPE,
                                stderr=subprocess.PIPE, timeout=60, env=dict(os.environ, GOMEMLIMIT="2GiB"))
        except subprocess.TimeoutExpired:
            return ("TIMEOUT", "no result after 60 s")
        err = pr.stderr.decode("utf-8", "replace")
        if pr.returncode < 0:
            return ("SIGNAL", "signal %d %s" % (-pr.returncode, err[:300]))
        if "fatal error:" in err or "runtime error" in err or "stack overflow" in err or "goroutine stack exceeds" in err:
            return ("CRASH", err[:400])
        if pr.returncode == 0:
            made = [f for f in os.listdir(os.path.join(d, "out-dir"))]
            return ("OK", "") if made else ("NOTHING", "exit 0 without a script")
        return ("ERR", err[:200])
    finally:
        shutil.rmtree(d, ignore_errors=True)


def classify(c, st, what):
    return None
