"""C10 - Program behaviour is independent of how identifiers are spelled."""
import random
import re

import common
import gen_prog
import pipeline
import semcheck
import cmdsim

# names the bash back-end owns or inherits from the shell (patterns); renaming INTO this set is the
# region of the known finding "reserved-identifiers-not-rejected"
RESERVED_PATTERNS = [r"_h\d+", r"_rv\d+", r"_fv\d+", r"_dv\d+", r"_ma\d+", r"_fa\d+", r"_dvc", r"_ret", r"_ls", r"_ll", r"_i", r"_l", r"_c", r"_n", r"_v", r"_len",
                     r"_sub", r"_sh", r"_e", r"_a", r"_te", r"_h", r"LF", r"_sah", r"_sch", r"_ssh", r"_ech", r"_ach", r"_frh", r"_fwh", r"_sls", r"_slg", r"_stsh",
                     r"_stlh", r"_seh", r"f\d+_.*", r"h[0-9a-f]{7}_.*", r"_eo_.*", r"_ret_.*", r"_f\d+", r"_e\d+", r"_i\d+", r"end"]
SHELL_NAMES = ["echo", "eval", "printf", "local", "test", "cat", "exit", "read", "true", "false_", "set", "unset", "shift", "wait", "exec", "kill", "cd", "let",
               "PATH", "IFS", "HOME", "PWD", "BASH", "RANDOM", "SECONDS", "LINENO", "UID", "EUID", "PPID", "BASHPID", "OPTIND", "REPLY", "_", "BASH_ARGV", "FUNCNAME",
               "PIPESTATUS", "HOSTNAME", "SHELLOPTS", "BASHOPTS", "OLDPWD", "PS4", "ENV", "BASH_ENV", "LANG", "LC_ALL", "TERM", "SHELL", "USER", "OSTYPE", "GROUPS"]
RESERVED_POOL = ["_h0", "_h1", "_h2", "_h10", "_rv0", "_rv1", "_fv0", "_fv1", "_dvc", "_dv1", "_dv2", "_ma0", "_ma1", "_ret", "_ls", "_ll", "_i", "_l", "_c", "_n", "_v",
                 "f1_x", "f1__h0", "f2_a", "_sah", "_sch", "_ssh"] + SHELL_NAMES
NEUTRAL_POOL = ["alpha", "Beta", "gamma9", "x", "X", "xx", "Xx", "value", "Value", "VALUE", "tmp", "res", "my_var", "a_1", "A_1", "counter", "Counter", "idx", "I", "zed",
                "h1234567x", "fx_1", "under_score", "camelCase", "PascalCase", "n0", "N0", "q", "Q", "name", "Name", "text", "Text", "flag", "Flag", "it", "It"]
# names that LOOK like the back-ends' own (same first characters) but are none of them: user names (round 6: C10-7, the function
# prefix dropped for every name that starts with `_h`)
LOOKALIKE_POOL = ["_host", "_hidden", "_height", "_rvalue", "_fvx", "_dvd", "_max", "_retval", "_x", "_y1", "_lsx", "_item", "_len2", "_h_", "_hh", "_ma",
                  "_rv", "_fv", "_dv", "_h0x", "_rv0_", "f1", "f2x", "h0", "_sahara", "_lla", "_cc", "_nn", "__", "_0"]
KEYWORDS = set(["import", "var", "func", "return", "if", "else", "switch", "case", "default", "for", "range", "break", "continue", "len", "print", "input", "copy", "itoa",
                "exists", "read", "write", "panic", "nil", "bool", "int", "string", "error", "true", "false"])


def is_reserved(name):
    return name in SHELL_NAMES or any(re.fullmatch(p, name) for p in RESERVED_PATTERNS)


def identifiers(prog):
    names = []

    def ex(e):
        if e is None:
            return
        if e[0] == "var":
            names.append(e[1])
        for x in e[1:]:
            if isinstance(x, tuple):
                ex(x)
            elif isinstance(x, list):
                for y in x:
                    if isinstance(y, tuple):
                        ex(y)

    def st(s):
        k = s[0]
        if k == "vardef":
            names.extend(s[2])
            for x in s[4] or []:
                ex(x)
        elif k == "func":
            names.append(s[1])
            names.extend(n for n, _ in s[2])
            for b in s[4]:
                st(b)
        elif k == "forrange":
            names.append(s[1])
            if s[2]:
                names.append(s[2])
            ex(s[3])
            for b in s[4]:
                st(b)
        else:
            for x in s[1:]:
                if isinstance(x, tuple):
                    (st if x and x[0] in STMT else ex)(x)
                elif isinstance(x, list):
                    for y in x:
                        if isinstance(y, tuple) and len(y) == 2 and isinstance(y[1], list):      # (cond, body) branches
                            ex(y[0])
                            for b in y[1]:
                                st(b)
                        elif isinstance(y, tuple):
                            (st if y and y[0] in STMT else ex)(y)
                        elif isinstance(y, str):
                            names.append(y)

    for s in prog:
        st(s)
    return list(dict.fromkeys(n for n in names if isinstance(n, str)))


STMT = {"vardef", "assign", "opassign", "incdec", "sliceassign", "if", "switch", "for3", "forcond", "forever", "forrange", "break", "continue", "print", "panic",
        "return", "exprstmt", "func", "write"}


def rename_prog(prog, m):
    """consistent renaming of variables, parameters and functions"""
    def ex(e):
        if e is None:
            return None
        if e[0] == "call":
            return ("call", m.get(e[1], e[1]), [ex(a) for a in e[2]], e[3])
        return gen_prog._subst_expr(e, m) if e[0] != "call" else e

    def deep_expr(e):
        if e is None:
            return None
        k = e[0]
        if k == "call":
            return ("call", m.get(e[1], e[1]), [deep_expr(a) for a in e[2]], e[3])
        if k == "var":
            return ("var", m.get(e[1], e[1])) + tuple(e[2:])
        if k in ("int", "bool", "str"):
            return e
        if k in ("bin", "cmp", "log"):
            return (k, e[1], deep_expr(e[2]), deep_expr(e[3])) + tuple(e[4:])
        if k in ("not", "group", "len", "itoa"):
            return (k, deep_expr(e[1]))
        if k == "slicelit":
            return ("slicelit", e[1], [deep_expr(a) for a in e[2]])
        if k == "index":
            return ("index", deep_expr(e[1]), deep_expr(e[2]), e[3])
        if k == "strindex":
            return ("strindex", deep_expr(e[1]), deep_expr(e[2]))
        if k == "substr":
            return ("substr", deep_expr(e[1]), deep_expr(e[2]), deep_expr(e[3]))
        if k == "copy":
            return ("copy", deep_expr(e[1]), deep_expr(e[2]))
        raise ValueError(k)

    def st(s):
        k = s[0]
        g = lambda n: m.get(n, n)
        B = lambda b: None if b is None else [st(x) for x in b]
        if k == "vardef":
            return ("vardef", s[1], [g(n) for n in s[2]], s[3], None if s[4] is None else [deep_expr(x) for x in s[4]])
        if k == "assign":
            return ("assign", [g(n) for n in s[1]], [deep_expr(x) for x in s[2]])
        if k == "opassign":
            return ("opassign", g(s[1]), s[2], deep_expr(s[3]))
        if k == "incdec":
            return ("incdec", g(s[1]), s[2])
        if k == "sliceassign":
            return ("sliceassign", g(s[1]), deep_expr(s[2]), deep_expr(s[3]))
        if k == "if":
            return ("if", [(deep_expr(c), B(b)) for c, b in s[1]], B(s[2]))
        if k == "switch":
            return ("switch", deep_expr(s[1]), [(deep_expr(c), B(b)) for c, b in s[2]], B(s[3]))
        if k == "for3":
            return ("for3", None if s[1] is None else st(s[1]), deep_expr(s[2]), None if s[3] is None else st(s[3]), B(s[4]))
        if k == "forcond":
            return ("forcond", deep_expr(s[1]), B(s[2]))
        if k == "forever":
            return ("forever", B(s[1]))
        if k == "forrange":
            return ("forrange", g(s[1]), g(s[2]) if s[2] else s[2], deep_expr(s[3]), B(s[4]))
        if k in ("break", "continue"):
            return s
        if k == "print":
            return ("print", [deep_expr(x) for x in s[1]])
        if k == "panic":
            return ("panic", deep_expr(s[1]))
        if k == "return":
            return ("return", [deep_expr(x) for x in s[1]])
        if k == "exprstmt":
            return ("exprstmt", deep_expr(s[1]))
        if k == "func":
            return ("func", g(s[1]), [(g(n), t) for n, t in s[2]], s[3], B(s[4]))
        raise ValueError(k)

    return [st(s) for s in prog]


def local_names(prog):
    """parameters and variables defined inside function bodies (the back-ends prefix those with the function number)"""
    out = set()
    for s in prog:
        if s[0] == "func":
            out.update(n for n, _ in s[2])
            acc = []
            gen_prog._defined_names(s[4], acc)
            out.update(acc)
    return out


# REGION of the known finding reserved-identifiers-not-rejected, by the ROLE of the renamed identifier - measured on the unchanged
# tree (every name of RESERVED_POOL in every role in programs that use all helper routines; round 6 regression: the region
# used to be "any reserved-looking name that is not a local", which also covered names that are harmless today - the helper
# routines keep `_i`, `_l`, `_n`, `_v` local - and so hid a mutation that makes one of them global):
# a function-local name is prefixed `f<k>_`; it can only meet the compiler's own prefixed names of that function
LOCAL_COLLIDES = r"_h\d+|_ma\d+"
# a global keeps its spelling: helper / return / loop-flag / slice / multi-assignment registers, the unprefixed scratch names the
# helper routines do NOT declare local, mangled names of function locals, and shell variables the script or bash itself uses
GLOBAL_COLLIDES = r"_h\d+|_rv\d+|_fv\d+|_dv\d+|_ma\d+|_dvc|_ret|_ls|_ll|_c|_|f\d+_.*"
SHELL_VARS_COLLIDE = {"BASHOPTS", "BASHPID", "BASH_ARGV", "EUID", "FUNCNAME", "GROUPS", "LC_ALL", "LINENO", "PPID", "RANDOM", "SHELLOPTS", "UID", "IFS", "OPTIND",
                      "PIPESTATUS", "SECONDS", "PATH", "_"}
# a function keeps its spelling too: the helper routines and the commands the script calls
FUNC_COLLIDES = r"_sah|_sch|_ssh|echo|eval|local|printf|cat|exit|read"      # exit: panic ends the script with it; read: input() (thorough tier, seed 1: a function renamed to exit)


# one identifier X in each role, in programs that use every helper routine of the bash back-end (slice literal / element store
# with gap / copy / substring / multi-value call / multi-assignment / nested loops with break and continue / range)
ROLE_TEMPLATES = {
 "global-scalar": '''%(X)s := 5
func f(a int, b string) (int, string) {
	t := a * 2
	return t, b + "!"
}
xs := []int{1, 2, 3}
ys := []int{0, 0, 0, 0}
n := copy(ys, xs)
xs[4] = 9
s := "hello"
u := s[1:3]
c := s[0]
p, q := f(3, "k")
p, %(X)s = %(X)s, p
for i := 0; i < 3; i++ {
	if i == 1 {
		continue
	}
	for j := 0; j < 2; j++ {
		if j == 1 {
			break
		}
		print(i, j, %(X)s)
	}
}
for k, v := range xs {
	print(k, v)
}
print(%(X)s, n, len(xs), u, c, p, q, len(ys), ys[2], xs[3])
''',
 "global-slice": '''%(X)s := []string{"a", "b"}
func f(a int, b string) (int, string) {
	t := a * 2
	return t, b + "!"
}
ys := []string{"", "", ""}
n := copy(ys, %(X)s)
%(X)s[3] = "z"
s := "hello"
u := s[1:3]
p, q := f(3, "k")
for k, v := range %(X)s {
	print(k, v)
}
print(len(%(X)s), n, u, p, q, ys[1], %(X)s[2] + "|")
''',
 "local": '''func g0(a int) (int, int) {
	return a, a + 1
}
func f(a int, b string) (int, string) {
	%(X)s := a * 2
	xs := []int{1, 2, 3}
	ys := []int{0, 0, 0, 0}
	n := copy(ys, xs)
	xs[4] = %(X)s
	s := "hello" + b
	u := s[1:3]
	m, k := g0(%(X)s)
	for i := 0; i < 2; i++ {
		if i == 1 {
			break
		}
		print(i, %(X)s, m, k)
	}
	return %(X)s + n + len(xs) + len(u), b + "!"
}
p, q := f(3, "k")
print(p, q)
''',
 "param": '''func g(a int) (int, int) {
	return a, a + 1
}
func f(%(X)s int, b string) (int, string) {
	xs := []int{1, 2, 3}
	ys := []int{0, 0, 0, 0}
	n := copy(ys, xs)
	xs[4] = %(X)s
	s := "hello" + b
	u := s[1:3]
	m, k := g(%(X)s)
	for i := 0; i < 2; i++ {
		print(i, %(X)s, m, k)
	}
	return %(X)s + n + len(xs) + len(u), b + "!"
}
p, q := f(3, "k")
print(p, q)
''',
 "function": '''func %(X)s(a int, b string) (int, string) {
	xs := []int{1, 2, 3}
	ys := []int{0, 0, 0, 0}
	n := copy(ys, xs)
	xs[4] = a
	s := "hello" + b
	u := s[1:3]
	return a + n + len(xs) + len(u), b + "!"
}
p, q := %(X)s(3, "k")
r, t := %(X)s(p, q)
print(p, q, r, t)
''',
}
ROLE_TEMPLATES["global-string-empty"] = '''%(X)s := ""
var other string
print("[" + %(X)s + "]", "[" + other + "]")
%(X)s = %(X)s + "x"
print(%(X)s, len(%(X)s))
'''
# a global that is only read, next to functions that swap and re-define other globals: the multi-assignment temporaries and helper
# variables of a FUNCTION are prefixed, so of the back-end's names only the return registers and the shell's own variables collide
# (measured on the unchanged tree; round 9: C10-A, the temporaries of a function's multi-assignment to globals made global)
ROLE_TEMPLATES["global-beside-function-multi-assignment"] = '''%(X)s := 7
a := 1
b := 2
func swap() {
	a, b = b, a
}
func three() (int, int, int) {
	return 1, 2, 3
}
func spread() {
	p, q, r := three()
	a, b = a + p, b + q + r
}
swap()
spread()
print(a, b, %(X)s)
'''
# a global that lives across input() calls at top level and inside a function (round 16: C10-I, input() through a nameless `read`, which
# leaves the line in the shell variable REPLY - a user variable of that name is overwritten by every input())
ROLE_TEMPLATES["global-string-across-input"] = '''%(X)s := "hello"
who := input()
print(%(X)s, who)
func ask() string {
	return input("sure? ")
}
a := ask()
print(a, %(X)s)
%(X)s = %(X)s + "!"
b := input()
print(%(X)s, b)
'''
ROLE_STDIN = {"global-string-across-input": b"world\nyes\nlast\n"}
ROLE_REGIONS = {"global-beside-function-multi-assignment": r"_rv\d+"}
ROLE_EXPECTED = {
    "global-beside-function-multi-assignment": ["3 6 7"],
    "global-string-empty": ["[] []", "x 1"],
    "global-string-across-input": ["hello world", "yes hello", "hello! last"],
    "global-scalar": ["0 0 6", "2 0 6", "0 1", "1 2", "2 3", "3 0", "4 9", "6 3 5 el h 5 k! 4 3 0"],
    "global-slice": ["0 a", "1 b", "2 ", "3 z", "4 2 el 6 k! b |"],
    "local": ["0 6 6 7", "16 k!"],
    "param": ["0 3 3 4", "1 3 3 4", "13 k!"],
    "function": ["13 k! 23 k!!"],
}


def func_names(prog):
    return {s[1] for s in prog if s[0] == "func"}


def in_region(new, old, locs, funcs):
    if old in funcs:
        return bool(re.fullmatch(FUNC_COLLIDES, new))
    if old in locs:
        return bool(re.fullmatch(LOCAL_COLLIDES, new))
    return bool(re.fullmatch(GLOBAL_COLLIDES, new)) or new in SHELL_VARS_COLLIDE


def _sim(script):
    try:
        out, st = cmdsim.run(script)
        return ("ok", out, st)
    except cmdsim.Stuck as e:
        return ("stuck", str(e), None)
    except cmdsim.Budget:
        return ("budget", "", None)
    except (RecursionError, MemoryError):
        return ("budget", "recursion/memory", None)


def case_clash(names):
    """two distinct identifiers that are equal when letter case is ignored (cmd.exe's view of names)"""
    low = {}
    for n in set(names):
        low.setdefault(n.lower(), set()).add(n)
    return sorted(sorted(v) for v in low.values() if len(v) > 1)


def run(res, b, tier, seed):
    rng = random.Random(seed * 6151 + 10)
    pr = common.prove("C10")
    common.proof_coverage(res, pr)
    if b.harness_error or b.model_error:
        res.violation("build", dict(harness=b.harness_error, model=b.model_error), no_input=True)
        return
    quick = tier == "quick"
    cfg = gen_prog.Cfg(funcs=True, slices=True, strops=True, max_stmts=5)
    cases = []
    nprog = 60 if quick else 600
    nren = 6 if quick else 14
    for pi in range(nprog):
        g = gen_prog.generate(rng, cfg)
        if g is None:
            continue
        prog, src, out, status, ks = g
        kf = dict(switch_break=bool(ks.get("_switch_break")), switch_tag_call=bool(ks.get("_switch_tag_call")), range_call=bool(ks.get("_range_call")))
        ids = identifiers(prog)
        if not ids:
            continue
        locs = local_names(prog)
        funcs = func_names(prog)
        # the program as generated: reference point of the Batch comparison below
        cases.append(pipeline.Case("p%d_orig" % pi, {"main.tsh": src.encode()},
                                   meta=dict(expected_out=out, expected_status=status, src=src, original=src, renaming="none (the program as generated)", reserved=[],
                                             group=pi, is_orig=True, clash=case_clash(ids), **kf)))
        # (c) a scope-consistent renaming that is not injective: locals / parameters of different functions get the
        #     same names, globals defined after a function reuse its local names (all legal, meaning unchanged)
        rp0 = gen_prog.reuse_names(rng, prog)
        rsrc0 = gen_prog.pp_program(rp0)
        if rsrc0 != src:
            cases.append(pipeline.Case("p%d_reuse" % pi, {"main.tsh": rsrc0.encode()},
                                       meta=dict(expected_out=out, expected_status=status, src=rsrc0, original=src, renaming="reuse of names across scopes", reserved=[],
                                                 group=pi, clash=case_clash(identifiers(rp0)), **kf)))
        # (d) the same, spelled with look-alikes of the compiler's names
        ids0 = identifiers(rp0)
        look = [n for n in LOOKALIKE_POOL if not is_reserved(n)]
        if ids0 and len(ids0) <= len(look):
            m0 = dict(zip(ids0, rng.sample(look, len(ids0))))
            rp1 = rename_prog(rp0, m0)
            rsrc1 = gen_prog.pp_program(rp1)
            cases.append(pipeline.Case("p%d_lookalike" % pi, {"main.tsh": rsrc1.encode()},
                                       meta=dict(expected_out=out, expected_status=status, src=rsrc1, original=src,
                                                 renaming="reuse of names across scopes, spelled like compiler names: %s" % m0, reserved=[],
                                                 group=pi, clash=case_clash(identifiers(rp1)), **kf)))
        for ri in range(nren):
            reserved = ri % 2 == 1
            pool = [n for n in (RESERVED_POOL if reserved else NEUTRAL_POOL) if n not in KEYWORDS]
            if reserved:
                # rename one or two identifiers into the reserved pool, the others neutrally
                k = rng.choice([1, 1, 2])
                hot = rng.sample(ids, min(k, len(ids)))
                names = rng.sample(pool, len(hot))
                m = dict(zip(hot, names))
                rest = [i for i in ids if i not in m]
                free = [n for n in NEUTRAL_POOL if n not in m.values()]
                rng.shuffle(free)
                for i, n in zip(rest, free):
                    if rng.random() < 0.5:
                        m[i] = n
            else:
                free = list(pool)
                rng.shuffle(free)
                m = dict(zip(ids, free)) if len(free) >= len(ids) else dict(zip(ids[:len(free)], free))
            if len(set(m.values())) != len(m) or set(m.values()) & (set(ids) - set(m)):
                continue
            rp = rename_prog(prog, m)
            rsrc = gen_prog.pp_program(rp)
            cases.append(pipeline.Case("p%d_%d" % (pi, ri), {"main.tsh": rsrc.encode()},
                                       meta=dict(expected_out=out, expected_status=status, src=rsrc, original=src, renaming=m, **kf,
                                                 group=pi, clash=case_clash(identifiers(rp)),
                                                 reserved=sorted(v for v in m.values() if is_reserved(v)),
                                                 reserved_known=sorted(v for k_, v in m.items() if is_reserved(v) and in_region(v, k_, locs, funcs)))))
    # directed programs (written from the property text): the same identifier spelled in several scopes at once
    import semprop
    for name, j in semprop.load_corpus("C02"):
        cases.append(pipeline.Case("corpus-" + name, semprop.corpus_files(j),
                                   meta=dict(expected_out=j["stdout"], expected_status=j["status"], src=j["src"], original=j["src"],
                                             renaming="directed program: one spelling used in several scopes", reserved=[])))
    for name, j in semprop.load_corpus("C10"):
        cases.append(pipeline.Case("corpus-" + name, semprop.corpus_files(j),
                                   meta=dict(expected_out=j["stdout"], expected_status=j["status"], src=j["src"], original=j["src"],
                                             renaming="directed program: " + j.get("note", ""), reserved=[])))
    # identifiers of the main file spelled like (private or public) names of an imported file, like its alias, like names of std/strings:
    # the same main program under several spellings, all with the same expected behaviour (files are separate name spaces)
    LIB = ('var counter int = 10\nvar Total int = 7\nfunc step(n int) int {\n\treturn n + 1\n}\nfunc Next() int {\n\tcounter = step(counter)\n\treturn counter\n}\n'
           'func helper(n int) int {\n\treturn n\n}\nfunc Twice(n int) int {\n\treturn helper(n) + helper(n)\n}\n')
    MAIN = ('import lib "lib.tsh"\nvar %(v)s int = 100\nfunc %(f)s(n int) int {\n\treturn n * 2\n}\nfunc %(g)s(n int) int {\n\treturn %(f)s(n) + 1\n}\n'
            '%(v)s = %(f)s(%(v)s)\nprint(%(v)s, lib.Next(), lib.Next(), %(g)s(3), lib.Twice(4))\n')
    MAIN2 = ('import (\n\tlib "lib.tsh"\n\t"strings"\n)\nvar %(v)s int = 100\nfunc %(f)s(n int) int {\n\treturn n * 2\n}\n'
             '%(v)s = %(f)s(%(v)s)\nprint(%(v)s, lib.Next(), strings.TrimSpace(" ab "), strings.Repeat("x", 2))\n')
    spell = [("total", "stride", "plus"), ("counter", "step", "helper"), ("Total", "Next", "Twice"), ("lib", "Lib", "libx"),
             ("Counter", "Step", "Helper"), ("step", "counter", "next")]
    for i, (v, f, g) in enumerate(spell):
        msrc = MAIN % dict(v=v, f=f, g=g)
        cases.append(pipeline.Case("mf%d" % i, {"main.tsh": msrc.encode(), "lib.tsh": LIB.encode()},
                                   meta=dict(expected_out=["200 11 12 7 8"], expected_status=0, src=msrc, original=MAIN % dict(v="total", f="stride", g="plus"),
                                             renaming="main-file identifiers spelled %s, %s, %s next to an imported file that has names of these spellings" % (v, f, g), reserved=[])))
    for i, (v, f) in enumerate([("total", "stride"), ("strings", "lib"), ("TrimSpace", "Repeat"), ("s", "count"), ("result", "i")]):
        msrc = MAIN2 % dict(v=v, f=f)
        cases.append(pipeline.Case("ms%d" % i, {"main.tsh": msrc.encode(), "lib.tsh": LIB.encode()},
                                   meta=dict(expected_out=["200 11 ab xx"], expected_status=0, src=msrc, original=MAIN2 % dict(v="total", f="stride"),
                                             renaming="main-file identifiers spelled %s, %s next to std/strings (its parameter, local and function names)" % (v, f), reserved=[])))
    # functions of the main file that WRAP functions of the imported file and are their only callers, spelled like the function they wrap, like
    # another function of that file, like a private one (round 15: C10-H, a "self call" recognised by the spelling at the call site - the
    # wrapper `Twice` calling `lib.Twice` - was left out of the call graph and the imported function removed as unused)
    WRAP = ('import lib "lib.tsh"\nfunc %(f)s(n int) int {\n\treturn lib.Twice(n) + 1\n}\nfunc %(g)s() int {\n\tr := lib.Next()\n\treturn r\n}\n'
            'func %(h)s(n int) int {\n\treturn %(f)s(n) + %(g)s()\n}\nprint(%(f)s(4), %(g)s(), %(h)s(1))\n')
    for i, (f_, g_, h_) in enumerate([("wrapTwice", "wrapNext", "wrapBoth"), ("Twice", "Next", "Both"), ("Twice", "wrapNext", "wrapBoth"), ("wrapTwice", "Next", "Twice"),
                                      ("twice", "next", "both"), ("Next", "Twice", "helper"), ("helper", "step", "counter"), ("Twice", "Next", "Total"),
                                      ("lib", "Twice", "Next"), ("Both", "Next", "Twice")]):
        wsrc = WRAP % dict(f=f_, g=g_, h=h_)
        cases.append(pipeline.Case("mw%d" % i, {"main.tsh": wsrc.encode(), "lib.tsh": LIB.encode()},
                                   meta=dict(expected_out=["9 11 15"], expected_status=0, src=wsrc, original=WRAP % dict(f="wrapTwice", g="wrapNext", h="wrapBoth"),
                                             renaming="main-file functions spelled %s, %s, %s that wrap (and are the only callers of) the imported Twice and Next" % (f_, g_, h_), reserved=[])))
    # two different files with the SAME base name and equally spelled top-level names: what a name means does not depend on how the
    # files are called either (round 8: C10-A)
    import os as _os
    import sys as _sys
    _sys.path.insert(0, _os.path.dirname(__file__))
    import c09
    for name, files, want in c09.same_base_name_cases() + [g for g in c09.global_cases() if g[0].startswith("local-shadows")]:
        cases.append(pipeline.Case("sb-" + name, {k: v.encode() for k, v in files.items()},
                                   meta=dict(expected_out=want.split("\n")[:-1], expected_status=0, src="\n".join("// file %s\n%s" % kv for kv in files.items()),
                                             original=files["main.tsh"], renaming="equally spelled names in two files of the same base name", reserved=[])))
    # one spelling for a local of a function, a local of the function it calls, a parameter and a global defined after both:
    # four different variables whatever the spelling is, in particular when it looks like a name of the back-ends
    SCOPES = ('func inner(%(p)s string) string {\n\t%(n)s := "inner"\n\treturn %(n)s + %(p)s\n}\nfunc outer() string {\n\t%(n)s := "outer"\n\tx := inner("!")\n'
              '\treturn %(n)s + " " + x\n}\nfunc third(%(n)s string) string {\n\ty := outer()\n\treturn %(n)s + " " + y\n}\nprint(outer())\n%(n)s := "global"\n'
              'print(inner("?"), %(n)s)\nprint(third("param"), %(n)s)\n')
    for i, nm in enumerate(["name", "q"] + [n for n in LOOKALIKE_POOL if not is_reserved(n)]):
        ssrc = SCOPES % dict(n=nm, p="p" if nm != "p" else "q")
        cases.append(pipeline.Case("sc%d" % i, {"main.tsh": ssrc.encode()},
                                   meta=dict(expected_out=["outer inner!", "inner? global", "param outer inner! global"], expected_status=0, src=ssrc,
                                             original=SCOPES % dict(n="name", p="p"),
                                             renaming="one spelling (%s) for locals of caller and callee, a parameter and a later global" % nm, reserved=[])))
    # FUNCTION names that differ only in letter case (round 10: C10-C, the number in the prefix of a function's locals looked up by name
    # ignoring case): both functions have a local and a parameter of the same spelling, one calls the other while its local is live.
    # Bash keeps names apart by case, so the behaviour must not depend on the spelling (the Batch side of such names is the known
    # finding batch-names-case-insensitive and is not executed here)
    CASEFN = ('func %(f)s(n int) int {\n\tacc := 0\n\tfor i := 1; i <= n; i++ {\n\t\tacc += i\n\t}\n\treturn acc\n}\n'
              'func %(g)s(n int) int {\n\tacc := 100\n\tfor i := 1; i <= n; i++ {\n\t\tacc += %(f)s(i)\n\t}\n\treturn acc\n}\n'
              'func %(h)s(n int) int {\n\tacc := %(g)s(n)\n\tacc2 := %(f)s(n)\n\treturn acc - acc2\n}\nprint(%(f)s(3), %(g)s(3), %(h)s(2))\n')
    for i, (f_, g_, h_) in enumerate([("total", "grand", "third"), ("total", "Total", "third"), ("total", "TOTAL", "tOTAL"), ("sumUp", "sumup", "SumUp"),
                                      ("a", "A", "b"), ("f1", "F1", "f2"), ("grand", "total", "Grand"), ("x", "y", "X")]):
        csrc = CASEFN % dict(f=f_, g=g_, h=h_)
        cases.append(pipeline.Case("fc%d" % i, {"main.tsh": csrc.encode()},
                                   meta=dict(expected_out=["6 110 101"], expected_status=0, src=csrc, original=CASEFN % dict(f="total", g="grand", h="third"),
                                             renaming="functions spelled %s / %s / %s (case variants of one another), equal local names" % (f_, g_, h_), reserved=[])))
    # range over a CALL (round 14: C10-G kept the call's result in a hidden, unregistered variable named after the index): a variable that is live
    # across the loop, the index and the element variable take spellings built from each other's names and from the back-ends' prefixes
    RANGECALL = ('func mk() []int {\n\treturn []int{20, 40, 60}\n}\nfunc twice(n int) int {\n\treturn n * 2\n}\n%(note)s := "keep"\n'
                 'for %(i)s, %(v)s := range mk() {\n\tprint(%(note)s, %(i)s, twice(%(v)s) / 2)\n}\nprint(%(note)s)\n')
    RANGECALL_FN = ('func mk() []int {\n\treturn []int{20, 40, 60}\n}\nfunc twice(n int) int {\n\treturn n * 2\n}\n'
                    'func inner() string {\n\t%(note)s := "in"\n\tfor %(i)s, %(v)s := range mk() {\n\t\t%(note)s += itoa(%(i)s) + itoa(twice(%(v)s))\n\t}\n\treturn %(note)s\n}\nprint(inner())\n')
    for i, (n_, i_, v_) in enumerate([("note", "i", "v"), ("_ri", "i", "v"), ("_rv", "i", "v"), ("_r", "i", "v"), ("note", "v0", "v"), ("note", "v1", "w"), ("_rk", "k", "e"),
                                      ("_ridx", "idx", "val"), ("r_i", "i", "v"), ("_i_r", "i", "v"), ("i_v", "i", "v"), ("note", "h0", "v"), ("note", "a0", "v"),
                                      ("rng", "i", "_ri"), ("_rnote", "note", "v")]):
        for tmpl, tag, exp in ((RANGECALL, "top", ["keep 0 20", "keep 1 40", "keep 2 60", "keep"]), (RANGECALL_FN, "fn", ["in0401802120"])):
            rsrc = tmpl % dict(note=n_, i=i_, v=v_)
            cases.append(pipeline.Case("rc%s%d" % (tag, i), {"main.tsh": rsrc.encode()},
                                       meta=dict(expected_out=exp, expected_status=0, src=rsrc, original=tmpl % dict(note="note", i="i", v="v"),
                                                 renaming="range over a call (%s): live variable %s, index %s, element %s" % (tag, n_, i_, v_), reserved=[])))
    for role, t in ROLE_TEMPLATES.items():
        for i, nm in enumerate(["neutralname"] + [n for n in RESERVED_POOL if n not in KEYWORDS] + [n for n in LOOKALIKE_POOL if not is_reserved(n)]):
            rsrc = t % dict(X=nm)
            if role in ROLE_REGIONS:
                known = is_reserved(nm) and (bool(re.fullmatch(ROLE_REGIONS[role], nm)) or nm in SHELL_VARS_COLLIDE)
            else:
                known = is_reserved(nm) and in_region(nm, "X", {"X"} if role in ("local", "param") else set(), {"X"} if role == "function" else set())
            cases.append(pipeline.Case("role-%s-%d" % (role, i), {"main.tsh": rsrc.encode()},
                                       meta=dict(expected_out=ROLE_EXPECTED[role], expected_status=0, src=rsrc, original=t % dict(X="neutralname"),
                                                 stdin=ROLE_STDIN.get(role, b""),
                                                 renaming="the identifier X of the role program (%s) spelled %s" % (role, nm),
                                                 reserved=[nm] if is_reserved(nm) else [], reserved_known=[nm] if known else [])))
    dis, fails = semcheck.check_cases(b, cases, stages="asw")
    dis += [(c, "batch script: " + c.meta.get("model_batch", "")[:300], str(c.out.get("BATCH"))[:300]) for c in pipeline.batch_disagreements(b, cases)]
    # Batch target, metamorphic: the script of a renamed program must behave (under the cmd model) like the script of the program
    # as generated - whatever that behaviour is (64-bit literals etc. are outside the cmd model's reference, equality is not)
    groups = {}
    for c in cases:
        if "group" in c.meta and c.out.get("BATCH", ("", ""))[0] == "OK":
            groups.setdefault(c.meta["group"], []).append(c)
    todo = [c for g in groups.values() if any(x.meta.get("is_orig") for x in g) for c in g]
    sims = common.pmap_proc(_sim, [bytes.fromhex(c.out["BATCH"][1]).decode("utf-8", "replace") for c in todo], chunksize=4)
    for c, r in zip(todo, sims):
        c.meta["cmd"] = r
    nbatch = 0
    for g in groups.values():
        orig = [x for x in g if x.meta.get("is_orig")]
        if not orig or orig[0].meta["cmd"][0] != "ok":
            continue
        r0 = orig[0].meta["cmd"]
        for c in g:
            if c.meta.get("is_orig"):
                continue
            nbatch += 1
            if c.meta["cmd"] != r0:
                fails.append((c, "batch-behaviour", dict(original_under_cmd_model=str(r0)[:400], renamed_under_cmd_model=str(c.meta["cmd"])[:400],
                                                         names_equal_ignoring_case=c.meta.get("clash") or orig[0].meta.get("clash"))))
    # Batch target, directed: the programs with a hand-computed result (one spelling in several scopes, names shaped like the back-end's
    # own) must give that result under the cmd model too (round 8: C10-B, Batch locals named <function>_<local>)
    directed = [c for c in cases if c.id.startswith(("corpus-", "sc")) and c.out.get("BATCH", ("", ""))[0] == "OK"]
    dsims = common.pmap_proc(_sim, [bytes.fromhex(c.out["BATCH"][1]).decode("utf-8", "replace") for c in directed], chunksize=4)
    ndirected = 0
    for c, r in zip(directed, dsims):
        if r[0] == "stuck":
            continue                                   # files / programs: outside the cmd model
        ndirected += 1
        want = "".join(l + "\n" for l in c.meta["expected_out"])
        if r[0] != "ok" or r[1] != want or r[2] != c.meta["expected_status"]:
            fails.append((c, "batch-behaviour-directed", dict(expected_stdout=want, under_cmd_model=str(r)[:600])))
    res.coverage.update(dict(
        evaluations=len(cases),
        batch_directed=ndirected,
        distinct_nontrivial=len({c.meta["src"] for c in cases}),
        rule="generated programs (functions, slices, strings) x injective renamings of all their variables, parameters and functions: (a) into neutral legal "
             "identifiers incl. names differing only in letter case, (b) one or two identifiers into the pool of names the bash back-end reserves for itself "
             "or inherits from the shell (%d names), (c) one scope-consistent non-injective renaming per program (locals of different functions share names); reference = behaviour of the original program; a transpile error is also acceptable; distinct = distinct "
             "renamed programs; Batch target: the script of every renamed program is run under the cmd model and must behave like the script of the program as generated" % len(RESERVED_POOL),
        samples=[dict(renaming=cases[1].meta["renaming"], program=cases[1].meta["src"][:400])],
        correspondence=dict(stage="AST + bash script (whole model pipeline)", compared=len(cases), disagreements=len(dis)),
        oracle_failures=len(fails),
        batch_comparisons=nbatch,
        renamings=dict(neutral=sum(1 for c in cases if not c.meta["reserved"]), into_reserved=sum(1 for c in cases if c.meta["reserved"])),
    ))
    real = []
    for c, kind, detail in fails:
        if kind in ("rejected", "emit-failed"):
            if c.meta.get("original") is not None and c.meta["src"] == c.meta["original"] and not c.meta.get("reserved"):
                real.append((c, "directed program rejected in its ORIGINAL spelling (a broken template of this check, or a change of the language)", detail))
            continue                                   # "or makes transpilation fail with an error"
        # the known finding: a GLOBAL variable or a function spelled like a name the back-end or the shell owns, or a local
        # spelled like a helper / temporary of its own function; a local spelled like an unprefixed compiler name does not collide
        if c.meta.get("reserved_known") and res.known_finding("reserved-identifiers-not-rejected", kind):
            continue
        # Batch: names that differ only in letter case are one name for cmd.exe
        if kind == "batch-behaviour" and detail.get("names_equal_ignoring_case") and res.known_finding("batch-names-case-insensitive", kind):
            continue
        if kind == "batch-behaviour" and c.meta.get("reserved") and res.known_finding("reserved-identifiers-not-rejected", kind):
            continue
        if kind == "behaviour" and c.meta.get("switch_break") and res.known_finding("break-in-switch", kind):
            continue
        if kind == "behaviour" and c.meta.get("switch_tag_call") and res.known_finding("switch-tag-evaluated-per-case", kind):
            continue
        if kind == "behaviour" and c.meta.get("range_call") and res.known_finding("range-expression-re-evaluated", kind):
            continue
        real.append((c, kind, detail))
    for c, kind, detail in real[:3]:
        res.violation("oracle", dict(what=kind, renaming=c.meta["renaming"], original=c.meta["original"], renamed=c.meta["src"], detail=detail))
    if not real and (dis or not pr["ok"]):
        if dis:
            c, m, i = dis[0]
            res.violation("correspondence", dict(stage="AST/script", src=c.meta["src"], model=m[:2000], implementation=i[:2000]), no_input=True)
        else:
            res.violation("theorem", dict(broken=pr["broken"], log=pr["log"][-3000:]), no_input=True)
