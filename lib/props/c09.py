"""C09 - Multi-file programs link correctly and unused-function removal is safe."""
import random
import re

import common
import pipeline
import semcheck


class Lib:
    def __init__(self, k, rng):
        self.k = k
        self.dep = None            # index of the lib whose F it calls (imported under alias d)
        self.extra_imports = []    # further imported libs (only imported, F not called by F<k>)
        self.trace = rng.random() < 0.5
        self.toplevel = rng.random() < 0.6
        self.topcall = rng.random() < 0.5
        self.toploop = rng.random() < 0.4
        self.glob_in_func = rng.random() < 0.7
        self.std = rng.random() < 0.25
        self.early = rng.random() < 0.3          # a statement between the imports and the first definition of the file
        self.salt = rng.randrange(1000)

    def source(self):
        k = self.k
        out = []
        imps = []
        if self.dep is not None:
            imps.append('d "lib%d.tsh"' % self.dep)
        for j, e in enumerate(self.extra_imports):
            imps.append('e%d "lib%d.tsh"' % (j, e))
        if self.std:
            imps.append('"strings"')
        if len(imps) == 1:
            out.append("import " + imps[0])
        elif imps:
            out.append("import (")
            out += ["\t" + i for i in imps]
            out.append(")")
        out.append("// salt %d" % self.salt)
        if self.early:
            out.append('print("early %d")' % k)
        out.append("var G%d int = %d" % (k, 10 * k))
        out.append("var g%d int = %d" % (k, k))
        out.append("func helper%d(x int) int {" % k)
        out.append("\treturn x + %s" % ("g%d" % k if self.glob_in_func else str(k)))
        out.append("}")
        out.append("func F%d(x int) int {" % k)
        if self.trace:
            out.append('\tprint("F%d", x)' % k)
        out.append("\ty := helper%d(x)" % k)
        if self.dep is not None:
            out.append("\ty = y + d.F%d(x)" % self.dep)
        if self.std:
            out.append('\ty = y + len(strings.Repeat("ab", 2))')
        if self.glob_in_func:
            out.append("\tG%d = G%d + 1" % (k, k))
        out.append("\treturn y")
        out.append("}")
        # the same two names in every file: equal names in different files must not interfere
        out.append("func same() int {")
        out.append("\treturn %d" % (7 * k))
        out.append("}")
        out.append("func Same() int {")
        out.append("\treturn same() + %d" % k)
        out.append("}")
        out.append("func unused%d() {" % k)
        out.append('\tprint("unused %d")' % k)
        out.append("}")
        out.append("func T%d() {" % k)
        out.append('\tprint("top-called %d", helper%d(1))' % (k, k))
        out.append("}")
        if self.toplevel:
            out.append('print("init %d", G%d)' % (k, k))
        if self.topcall:
            out.append("T%d()" % k)
        if self.toploop:
            out.append("for i := 0; i < 2; i++ {")
            out.append('\tprint("loop %d", i, g%d)' % (k, k))
            out.append("}")
        return "\n".join(out) + "\n"


class World:
    """reference semantics of the module graph (Spec.Link): each distinct file initialised once,
    depth first, before its importer"""

    def __init__(self, libs, duplicate=False):
        self.libs = libs
        self.duplicate = duplicate       # model of the known finding: one initialisation per import path
        self.G = {k: 10 * k for k in libs}
        self.out = []
        self.inited = []

    def F(self, k, x):
        l = self.libs[k]
        if l.trace:
            self.out.append("F%d %d" % (k, x))
        y = x + k
        if l.dep is not None:
            y += self.F(l.dep, x)
        if l.std:
            y += 4
        if l.glob_in_func:
            self.G[k] += 1
        return y

    def init(self, k):
        if k in self.inited and not self.duplicate:
            return
        self.G[k] = 10 * k          # the global's initialisation statement
        l = self.libs[k]
        deps = ([l.dep] if l.dep is not None else []) + l.extra_imports
        for d in deps:
            self.init(d)
        self.inited.append(k)
        if l.early:
            self.out.append("early %d" % k)
        if l.toplevel:
            self.out.append("init %d %d" % (k, self.G[k]))
        if l.topcall:
            self.out.append("top-called %d %d" % (k, 1 + k))
        if l.toploop:
            for i in range(2):
                self.out.append("loop %d %d %d" % (k, i, k))


def multipath(libs, main_imports):
    """files reached along more than one import path (incl. the same file under two aliases)"""
    count = {}

    def walk(k):
        count[k] = count.get(k, 0) + 1
        l = libs[k]
        for d in ([l.dep] if l.dep is not None else []) + l.extra_imports:
            walk(d)

    for k in main_imports:
        walk(k)
    return {k for k, n in count.items() if n > 1}


def gen_case(rng, idx):
    n = rng.randrange(1, 4)
    libs = {k: Lib(k, rng) for k in range(1, n + 1)}
    for k in libs:
        later = [j for j in libs if j > k]
        if later and rng.random() < 0.6:
            libs[k].dep = rng.choice(later)
            rest = [j for j in later if j != libs[k].dep]
            if rest and rng.random() < 0.3:
                libs[k].extra_imports = [rng.choice(rest)]
    main_imports = rng.sample(sorted(libs), rng.randrange(1, n + 1))
    if rng.random() < 0.2:
        main_imports.append(rng.choice(main_imports))           # same file under a second alias
    return build_case(rng, idx, libs, main_imports)


def directed_graphs(rng):
    """every small graph with a file reached twice x the importing files with / without top-level code, while the file that is
    reached twice has NO top-level effects (so the programs are outside the region of the known finding multipath-import-runs-twice):
    round 6 regression, C09-3 (everything after a duplicate definition dropped from the importing file) was a matter of luck"""
    shapes = [({1: (3, []), 2: (3, []), 3: (None, [])}, [1, 2]), ({1: (None, [])}, [1, 1]), ({1: (2, [3]), 2: (3, []), 3: (None, [])}, [1]),
              ({1: (2, []), 2: (3, []), 3: (None, [])}, [1, 3]), ({1: (2, []), 2: (None, [])}, [1, 2, 1])]
    flagsets = [dict(toplevel=a, topcall=b_, toploop=c, glob_in_func=d, early=e) for a, b_, c, d, e in
                ((True, True, True, True, True), (False, False, False, False, False), (True, False, False, False, False), (False, True, False, False, False),
                 (False, False, True, False, False), (False, False, False, True, False), (False, False, False, False, True))]
    out = []
    i = 0
    for graph, main_imports in shapes:
        for fl in flagsets:
            for std in (False, True):
                libs = {k: Lib(k, rng) for k in graph}
                for k, (dep, extra) in graph.items():
                    libs[k].dep, libs[k].extra_imports = dep, list(extra)
                    libs[k].std = std and k == min(graph)
                    libs[k].trace = False
                mp = multipath(libs, main_imports)
                for k in libs:
                    for f_, v in fl.items():
                        setattr(libs[k], f_, v and k not in mp)
                out.append(build_case(rng, "d%d" % i, libs, main_imports))
                i += 1
    return out


def build_case(rng, idx, libs, main_imports):
    n = len(libs)
    aliases = ["m%d" % i for i in range(len(main_imports))]
    w = World(libs)
    w2 = World(libs, duplicate=True)
    lines = []
    imps = ['%s "lib%d.tsh"' % (a, k) for a, k in zip(aliases, main_imports)]
    main_std = rng.random() < 0.3
    if main_std:
        imps.append('"strings"')
    if len(imps) == 1 and rng.random() < 0.5:
        lines.append("import " + imps[0])
    else:
        lines.append("import (")
        lines += ["\t" + i for i in imps]
        lines.append(")")
    for k in main_imports:
        w.init(k)
        w2.init(k)
    same = rng.random() < 0.5
    if same:
        k0 = main_imports[0]
        lines += ["func F%d(x int) int {" % k0, "\treturn x * 100", "}", "var g%d int = 77" % k0]
    for a, k in zip(aliases, main_imports):
        for _ in range(rng.randrange(1, 3)):
            x = rng.randrange(0, 9)
            lines.append("print(%s.F%d(%d))" % (a, k, x))
            w.out.append(str(w.F(k, x)))
            w2.out.append(str(w2.F(k, x)))
    for a, k in zip(aliases, main_imports):
        lines.append("print(%s.Same())" % a)
        w.out.append(str(8 * k))
        w2.out.append(str(8 * k))
    if same:
        lines.append("print(F%d(2), g%d)" % (k0, k0))
        w.out.append("200 77")
        w2.out.append("200 77")
    if main_std:
        lines.append('print(strings.Repeat("xy", 2))')
        w.out.append("xyxy")
        w2.out.append("xyxy")
    files = {"main.tsh": ("\n".join(lines) + "\n").encode()}
    for k, l in libs.items():
        if k in w.inited or True:
            files["lib%d.tsh" % k] = l.source().encode()
    mp = multipath(libs, main_imports)
    dup_effects = any(libs[k].toplevel or libs[k].topcall or libs[k].toploop or libs[k].glob_in_func or libs[k].early for k in mp)
    return pipeline.Case("g%s" % idx, files, meta=dict(expected_out=w.out, expected_status=0, multipath=sorted(mp), dup_effects=dup_effects, defect_out=w2.out,
                                                       src="\n".join("// ---- %s\n%s" % (n_, c.decode()) for n_, c in files.items())))


NEGATIVE = [
    ("private-func", {"main.tsh": 'import m "lib.tsh"\nprint(m.priv())\n', "lib.tsh": 'func priv() int {\n\treturn 2\n}\n'}),
    ("undefined-func", {"main.tsh": 'import m "lib.tsh"\nprint(m.Nope())\n', "lib.tsh": 'func Pub() int {\n\treturn 2\n}\n'}),
    ("missing-file", {"main.tsh": 'import m "nolib.tsh"\nprint(1)\n'}),
]


# alias resolution, written from the property text: `alias.Func` reaches exactly the public function of that file; private and undefined
# names, names of other files and names of the importing file itself are rejected behind an alias; an alias that is not imported is rejected
_LIB1 = 'func Pub1() int {\n\treturn 1\n}\nfunc priv1() int {\n\treturn 2\n}\nfunc _und1() int {\n\treturn 7\n}\nfunc pUB1() int {\n\treturn 9\n}\n'
_LIB2 = 'func Pub2() int {\n\treturn 3\n}\nfunc priv2() int {\n\treturn 4\n}\nfunc _Und2() int {\n\treturn 8\n}\n'
_MAIN_HEAD = 'import (\n\tm "lib1.tsh"\n\tm2 "lib2.tsh"\n)\nfunc Own() int {\n\treturn 5\n}\nfunc own() int {\n\treturn 6\n}\nfunc _own() int {\n\treturn 10\n}\n'
_VALUES = {"Pub1": 1, "priv1": 2, "Pub2": 3, "priv2": 4, "Own": 5, "own": 6, "_und1": 7, "_Und2": 8, "pUB1": 9, "_own": 10}


def alias_matrix():
    """(name, files, expected stdout or None when the program has to be rejected)"""
    out = []
    for alias in ("m", "m2", "x", ""):
        # public = first character is an upper-case letter: `_und1`, `_Und2` (underscore first) and `pUB1` are private (round 6: C09-7)
        for name in ("Pub1", "priv1", "Pub2", "priv2", "Own", "own", "Nope", "_und1", "_Und2", "pUB1", "_own"):
            ok = (alias, name) in (("m", "Pub1"), ("m2", "Pub2"), ("", "Own"), ("", "own"), ("", "_own"))
            call = (alias + "." if alias else "") + name + "()"
            for form, body in (("expr", "print(%s)\n" % call), ("in-func", "func w9() int {\n\treturn %s\n}\nprint(w9())\n" % call),
                               ("stmt", "%s\nprint(0)\n" % call)):
                exp = None
                if ok:
                    exp = ("0\n" if form == "stmt" else "%d\n" % _VALUES[name])
                out.append(("alias-%s-%s-%s" % (alias or "none", name, form),
                            {"main.tsh": _MAIN_HEAD + body, "lib1.tsh": _LIB1, "lib2.tsh": _LIB2}, exp))
    return out


def directory_cases():
    """files in several directories: a relative import path is resolved from the directory of the IMPORTING file (round 7: C09-8,
    resolved from the directory of the main program instead - a file of the same name there is linked silently)"""
    util4 = 'func Scale(x int) int {\n\treturn x * 4\n}\n'
    util200 = 'func Scale(x int) int {\n\treturn x * 200\n}\n'
    geo = 'import u "util.tsh"\nfunc Area(a int, b int) int {\n\treturn u.Scale(a * b)\n}\n'
    geo_up = 'import u "../util.tsh"\nfunc Area(a int, b int) int {\n\treturn u.Scale(a * b)\n}\n'
    geo_down = 'import u "inner/util.tsh"\nfunc Area(a int, b int) int {\n\treturn u.Scale(a * b)\n}\n'
    main = 'import g "lib/geometry.tsh"\nprint(g.Area(2, 3))\n'
    main_both = 'import (\n\tg "lib/geometry.tsh"\n\tu "util.tsh"\n)\nprint(g.Area(2, 3), u.Scale(1))\n'
    return [
        ("dir-sibling-with-decoy-in-root", {"main.tsh": main, "lib/geometry.tsh": geo, "lib/util.tsh": util4, "util.tsh": util200}, "24\n"),
        ("dir-sibling", {"main.tsh": main, "lib/geometry.tsh": geo, "lib/util.tsh": util4}, "24\n"),
        ("dir-sibling-missing", {"main.tsh": main, "lib/geometry.tsh": geo, "util.tsh": util200}, None),
        ("dir-parent", {"main.tsh": main, "lib/geometry.tsh": geo_up, "lib/util.tsh": util4, "util.tsh": util200}, "1200\n"),
        ("dir-child", {"main.tsh": main, "lib/geometry.tsh": geo_down, "lib/inner/util.tsh": util4, "inner/util.tsh": util200, "util.tsh": util200}, "24\n"),
        ("dir-both-utils", {"main.tsh": main_both, "lib/geometry.tsh": geo, "lib/util.tsh": util4, "util.tsh": util200}, "24 200\n"),
    ] + same_base_name_cases()


def same_base_name_cases():
    """two DIFFERENT files with the same base name in different directories, with equally spelled private / public functions and
    globals: equal names in different files never interfere (round 8: C10-A, the prefix of an imported file taken from its base name)"""
    geo = 'var unit = 10\nvar Calls = 0\nfunc scale(n int) int {\n\tCalls = Calls + 1\n\treturn n * unit\n}\nfunc Area(w int, h int) int {\n\treturn scale(w * h)\n}\nfunc Size(n int) int {\n\treturn scale(n) + Calls\n}\n'
    txt = 'var unit = 1\nvar Calls = 100\nfunc scale(n int) int {\n\tCalls = Calls + 1\n\treturn n + unit\n}\nfunc Width(s string) int {\n\treturn scale(len(s))\n}\nfunc Size(n int) int {\n\treturn scale(n) + Calls\n}\n'
    main = 'import (\n\tgeo "geo/util.tsh"\n\ttxt "txt/util.tsh"\n)\nprint(geo.Area(2, 3))\nprint(txt.Width("abcd"))\nprint(geo.Size(1), txt.Size(1))\n'
    main_rev = 'import (\n\ttxt "txt/util.tsh"\n\tgeo "geo/util.tsh"\n)\nprint(geo.Area(2, 3))\nprint(txt.Width("abcd"))\nprint(geo.Size(1), txt.Size(1))\n'
    via = 'import t "../txt/util.tsh"\nfunc scale(n int) int {\n\treturn n * 10\n}\nfunc Area(w int, h int) int {\n\treturn scale(w * h) + t.Width("ab")\n}\n'
    return [
        ("same-base-name-two-directories", {"main.tsh": main, "geo/util.tsh": geo, "txt/util.tsh": txt}, "60\n5\n12 104\n"),
        ("same-base-name-two-directories-other-order", {"main.tsh": main_rev, "geo/util.tsh": geo, "txt/util.tsh": txt}, "60\n5\n12 104\n"),
        ("same-base-name-imported-by-its-namesake", {"main.tsh": 'import geo "geo/util.tsh"\nprint(geo.Area(2, 3))\n', "geo/util.tsh": via, "txt/util.tsh": txt}, "63\n"),
        ("same-base-name-as-main", {"main.tsh": 'import u "sub/main.tsh"\nfunc scale(n int) int {\n\treturn n * 2\n}\nprint(scale(4), u.Width("abc"))\n', "sub/main.tsh": txt}, "8 4\n"),
    ]


def global_cases():
    """imported files whose top-level definitions assign to names that an earlier statement of the same file has defined: every
    statement of an imported file takes part in the program (fix 9b1b14d: `B, A := 2, 3` after `A := 1` was taken for a duplicate of
    an earlier definition - the de-duplication looked at the last variable only - and removed, so B was never set)"""
    main = 'import l "lib.tsh"\nprint(l.Get())\n'
    get = 'func Get() int {\n\treturn A * 100 + B * 10 + c\n}\n'
    out = []
    for name, defs, want in (
            ("last-exists", 'A := 1\nB, A := 2, 3\nc := 4\n', "324\n"),
            ("first-exists", 'A := 1\nA, B := 3, 2\nc := 4\n', "324\n"),
            ("private-then-public", 'c := 1\nA, c := 3, 4\nB := 2\n', "324\n"),
            ("public-then-private", 'A := 1\nc, A := 4, 3\nB := 2\n', "324\n"),
            ("three-names-middle-new", 'A := 1\nc := 0\nA, B, c := 3, 2, 4\n', "324\n"),
            ("from-call", 'func two() (int, int) {\n\treturn 2, 3\n}\nA := 1\nB, A := two()\nc := 4\n', "324\n"),
            ("var-form", 'var A, B int = 3, 2\nvar c = 4\n', "324\n"),
            ("reassigned", 'A := 1\nB := 1\nA, B = 3, 2\nc := 4\n', "324\n")):
        out.append(("global-" + name, {"main.tsh": main, "lib.tsh": defs + get + 'print("lib", A, B, c)\n'}, "lib 3 2 4\n" + want))
        # the same file as the program itself
        out.append(("global-" + name + "-main", {"main.tsh": defs + get + 'print("lib", A, B, c)\nprint(Get())\n'}, "lib 3 2 4\n" + want))
    # a PUBLIC global of a file that is reached along several paths / under several aliases is ONE variable, initialised once (the
    # file has no private definitions and no top-level statements: outside the known finding multipath-import-runs-twice);
    # round 8: C09-B, "public" read off the stored (prefixed) name - the definition was emitted once per path and reset the counter
    counter = 'var Count = 0\nfunc Next() int {\n\tCount = Count + 1\n\treturn Count\n}\n'
    fa = 'import c "lib/counter.tsh"\nvar id = c.Next()\nfunc Id() int {\n\treturn id\n}\n'
    fb = 'import c "lib/counter.tsh"\nvar ticket = c.Next()\nfunc Ticket() int {\n\treturn ticket\n}\n'
    # functions with an EMPTY body are functions: defined in the script, callable from every file (round 9: C09-B, empty functions not
    # emitted while the calls stayed - "command not found")
    hooks = 'var Steps = 0\nfunc Before() {\n}\nfunc After() {\n}\nfunc trace(msg string) {\n}\nfunc Step(name string) {\n\ttrace(name)\n\tSteps = Steps + 1\n\tprint("step", name, Steps)\n}\n'
    out.append(("empty-functions-of-import", {"main.tsh": 'import hooks "hooks.tsh"\nhooks.Before()\nhooks.Step("one")\nhooks.Step("two")\nhooks.After()\n', "hooks.tsh": hooks},
                "step one 1\nstep two 2\n"))
    out.append(("empty-functions-of-main", {"main.tsh": 'func nop() {\n}\nfunc nop2(a int, b string) {\n}\nfunc run() {\n\tnop()\n\tnop2(1, "x")\n\tprint("ran")\n}\nnop()\nrun()\nnop2(2, "y")\n'},
                "ran\n"))
    # a function's own variable with the name of a global of its (imported) file is the function's variable from then on (round 9:
    # C10-B, the lookup tried the file-prefixed name before the plain one)
    shadow = ('total := 1\nCount := 10\nfunc Bump() int {\n\ttotal, step := 5, 6\n\ttotal = total + step\n\ttotal++\n\treturn total\n}\n'
              'func Twice() int {\n\tCount, extra := 2, 3\n\tCount += extra\n\tfor i := 0; i < 2; i++ {\n\t\tCount = Count * 2\n\t}\n\treturn Count\n}\n'
              'func Get() int {\n\treturn total * 100 + Count\n}\n')
    out.append(("local-shadows-global-of-import", {"main.tsh": 'import l "lib.tsh"\nprint(l.Bump(), l.Twice(), l.Get())\n', "lib.tsh": shadow}, "12 20 110\n"))
    out.append(("local-shadows-global-of-main", {"main.tsh": shadow + 'print(Bump(), Twice(), Get())\n'}, "12 20 110\n"))
    out.append(("shared-public-global-three-paths", {"main.tsh": 'import (\n\ta "a.tsh"\n\tb "b.tsh"\n\tc "lib/counter.tsh"\n)\nprint(a.Id())\nprint(b.Ticket())\nprint(c.Next())\n',
                                                     "a.tsh": fa, "b.tsh": fb, "lib/counter.tsh": counter}, "1\n2\n3\n"))
    out.append(("shared-public-global-two-aliases", {"main.tsh": 'import (\n\tc1 "counter.tsh"\n\tc2 "counter.tsh"\n)\nprint(c1.Next(), c2.Next(), c1.Next())\n',
                                                     "counter.tsh": counter}, "1 2 3\n"))
    out.append(("shared-public-global-diamond", {"main.tsh": 'import (\n\ta "a.tsh"\n\tb "b.tsh"\n)\nprint(a.Id(), b.Ticket())\n',
                                                 "a.tsh": fa, "b.tsh": fb, "lib/counter.tsh": counter}, "1 2\n"))
    return out


def toplevel_call_families():
    """diamonds in which every file CALLS functions at top level (round 10: C09-C, a cache of parsed imports shared the call-graph slices
    of a file between its importers; which callee got lost depended on the NUMBER of top-level callees): the file reached twice calls k of
    its own public functions, the first importer j of its own, the second one of its own; every function only stores into a public global
    (running an initialisation twice - the known finding for files reached twice - changes nothing), main prints the globals"""
    out = []
    for k in range(1, 8):
        for j in (1, 2, 3):
            shared = ["var A%d int = 0" % i for i in range(k)]
            for i in range(k):
                shared += ["func S%d() {" % i, "\tA%d = %d" % (i, i + 1), "}"]
            shared += ["func Sum() int {", "\treturn " + " + ".join("A%d" % i for i in range(k)), "}"]
            shared += ["S%d()" % i for i in range(k)]
            left = ['import s "shared.tsh"'] + ["var L%d int = 0" % i for i in range(j)]
            for i in range(j):
                left += ["func SetL%d() {" % i, "\tL%d = s.Sum() + %d" % (i, 10 * (i + 1)), "}"]
            left += ["func LeftSum() int {", "\treturn " + " + ".join("L%d" % i for i in range(j)), "}"]
            left += ["SetL%d()" % i for i in range(j)]
            right = ['import s "shared.tsh"', "var R0 int = 0", "func SetR0() {", "\tR0 = s.Sum() * 2", "}", "func RightSum() int {", "\treturn R0", "}", "SetR0()"]
            main = ['import (', '\tl "left.tsh"', '\tr "right.tsh"', ')', "print(l.LeftSum(), r.RightSum())"]
            ssum = sum(range(1, k + 1))
            exp = "%d %d\n" % (sum(ssum + 10 * (i + 1) for i in range(j)), 2 * ssum)
            out.append(("toplevel-calls-%d-%d" % (k, j), {"main.tsh": "\n".join(main) + "\n", "left.tsh": "\n".join(left) + "\n",
                                                         "right.tsh": "\n".join(right) + "\n", "shared.tsh": "\n".join(shared) + "\n"}, exp))
    return out


def adjacent_call_site_cases():
    """two CONSECUTIVE call sites of one helper on either side of a boundary - the end of a function that nothing calls, the end of a function
    that is called, top-level code - in the main file and in an imported file (round 16: C09-I, the call-graph bookkeeping skipped for "the same
    callee as the previous call", the memo reset at the START of a function body only: a helper called last in an unused function and next at
    top level loses its only recorded caller and is removed)"""
    out = []
    for c1 in "UGT":
        for c2 in "UGT":
            if c1 == "T" and c2 == "T":
                continue
            body = ["func note(s string) {", "\tprint(\"note\", s)", "}"]
            exp, late = [], []
            for k, c in ((1, c1), (2, c2)):
                if c == "U":
                    body += ["func Unused%d() {" % k, "\tprint(\"never\")", "\tnote(\"%d\")" % k, "}"]
                elif c == "G":
                    body += ["func Used%d() {" % k, "\tnote(\"%d\")" % k, "}"]
                    late.append(k)
                else:
                    body += ["note(\"%d\")" % k]
                    exp.append("note %d" % k)
            for k in late:
                body.append("Used%d()" % k)
                exp.append("note %d" % k)
            single = body + ["print(\"end\")"]
            out.append(("adjacent-calls-%s%s-main" % (c1, c2), {"main.tsh": "\n".join(single) + "\n"}, "".join(e + "\n" for e in exp) + "end\n"))
            lib = body + ["func Done() int {", "\treturn 7", "}"]
            out.append(("adjacent-calls-%s%s-lib" % (c1, c2), {"main.tsh": 'import l "lib.tsh"\nprint("main", l.Done())\n', "lib.tsh": "\n".join(lib) + "\n"},
                        "".join(e + "\n" for e in exp) + "main 7\n"))
    return out


def initialisation_order_cases():
    """top-level statements and global definitions of an imported file run in the order in which the file has them, before the importer's
    own (round 11: C09-D hoisted all imported definitions above all imported top-level code)"""
    out = []
    acc = ('var Total int = 0\nfunc Add(n int) {\n\tTotal = Total + n\n}\nAdd(5)\nAdd(7)\nvar Snapshot int = Total\nAdd(1)\nvar Later int = Total * 2\n'
           'func Show() string {\n\treturn itoa(Snapshot) + " " + itoa(Later) + " " + itoa(Total)\n}\n')
    out.append(("init-order-one-file", {"main.tsh": 'import a "acc.tsh"\nprint(a.Show())\n', "acc.tsh": acc}, "12 26 13\n"))
    counter = 'var N int = 0\nfunc Next() int {\n\tN = N + 1\n\treturn N\n}\nprint("counter ready", Next())\n'
    report = ('import c "counter.tsh"\nvar First int = c.Next()\nprint("first", First)\nvar Second int = c.Next() + First\n'
              'func Show() string {\n\treturn itoa(First) + " " + itoa(Second)\n}\n')
    out.append(("init-order-chain", {"main.tsh": 'import r "report.tsh"\nprint(r.Show())\n', "report.tsh": report, "counter.tsh": counter},
                "counter ready 1\nfirst 2\n2 5\n"))
    two = ('var Log string = ""\nfunc Note(s string) {\n\tLog = Log + s\n}\nNote("a")\nvar Mid string = Log + "|"\nNote("b")\n'
           'func Show() string {\n\treturn Mid + " " + Log\n}\n')
    out.append(("init-order-strings", {"main.tsh": 'import t "two.tsh"\nt.Note("c")\nprint(t.Show())\n', "two.tsh": two}, "a| abc\n"))
    return out


def similar_name_cases():
    """private globals and functions of an imported file whose names differ only in front - by `h`, `_` or hexadecimal digits, the characters of
    the file prefix h<7 hex digits>_ - stay different names, whatever the content hash of the file is: eight variants of each file (a number
    in a comment changes the hash, so the hexadecimal digits of the prefixes vary) (round 12: C09-E built the prefixed name with
    strings.TrimLeft(name, prefix), which takes a SET of characters: hits / its, _tmp / tmp, a / b became one name)"""
    out = []
    for v in range(8):
        stats = ('// variant %d\nhits, its := 10, 20\nfunc Hit() {\n\thits = hits + 1\n}\nfunc Report() string {\n\treturn itoa(hits) + " " + itoa(its)\n}\n' % v)
        out.append(("similar-hits-its-%d" % v, {"main.tsh": 'import st "stats.tsh"\nst.Hit()\nprint(st.Report())\n', "stats.tsh": stats}, "11 20\n"))
        pair = ('// variant %d\na, b := 1, 2\nc, d, e, f := 3, 4, 5, 6\nfunc Sum() string {\n\ta = a + 10\n\treturn itoa(a) + "+" + itoa(b) + "+" + itoa(c) + itoa(d) + itoa(e) + itoa(f)\n}\n' % v)
        out.append(("similar-hex-letters-%d" % v, {"main.tsh": 'import p "pair.tsh"\nprint(p.Sum())\n', "pair.tsh": pair}, "11+2+3456\n"))
        sep = ('// variant %d\nvar a int = 1\nvar b int = 2\nvar _tmp string = "u"\nvar tmp string = "t"\nvar hx int = 7\nvar x int = 8\n'
               'func add(n int) int {\n\treturn n + a\n}\nfunc dd(n int) int {\n\treturn n + b\n}\nfunc fCount() int {\n\treturn hx\n}\nfunc count() int {\n\treturn x\n}\n'
               'func Show() string {\n\treturn itoa(add(10)) + " " + itoa(dd(10)) + " " + _tmp + tmp + " " + itoa(fCount()) + itoa(count())\n}\n' % v)
        out.append(("similar-separate-definitions-%d" % v, {"main.tsh": 'import s "sep.tsh"\nprint(s.Show())\n', "sep.tsh": sep}, "11 12 ut 78\n"))
    # an undefined name is not found through a longer or shorter one
    lib = 'func hFoo() int {\n\treturn 1\n}\nfunc Foo() int {\n\treturn 2\n}\nfunc Both() int {\n\treturn hFoo() * 10 + Foo()\n}\n'
    out.append(("similar-public-private", {"main.tsh": 'import l "lib.tsh"\nprint(l.Foo(), l.Both())\n', "lib.tsh": lib}, "2 12\n"))
    out.append(("similar-private-through-alias", {"main.tsh": 'import l "lib.tsh"\nprint(l.hFoo())\n', "lib.tsh": lib}, None))
    out.append(("similar-undefined-in-import", {"main.tsh": 'import l "lib.tsh"\nprint(l.Get())\n', "lib.tsh": 'var hx int = 3\nfunc Get() int {\n\treturn x\n}\n'}, None))
    return out


def defined_before_use(script):
    """every function the script invokes is defined in it before its first call (text level)"""
    defined = set()
    problems = []
    for ln in script.splitlines():
        m = re.match(r"^([A-Za-z_][A-Za-z0-9_]*)\(\) \{$", ln)
        if m:
            defined.add(m.group(1))
            continue
        m = re.match(r"^((?:h[0-9a-f]{7}_)?[A-Za-z_][A-Za-z0-9_]*) (?:\"|$)", ln)
        if m and re.match(r"^(h[0-9a-f]{7}_\w+|F\d+|T\d+|helper\d+|unused\d+)$", m.group(1)) and m.group(1) not in defined:
            problems.append(m.group(1))
    return problems


def run(res, b, tier, seed):
    rng = random.Random(seed * 9176 + 9)
    pr = common.prove("C09")
    common.proof_coverage(res, pr)
    if b.harness_error or b.model_error:
        res.violation("build", dict(harness=b.harness_error, model=b.model_error), no_input=True)
        return
    n = 300 if tier == "quick" else 4000
    cases = directed_graphs(random.Random(9)) + [gen_case(rng, i) for i in range(n)]
    neg = [pipeline.Case("n" + name, {k: v.encode() for k, v in files.items()}, meta=dict(negative=True, src=files["main.tsh"])) for name, files in NEGATIVE]
    dis, fails = semcheck.check_cases(b, cases)
    pipeline.run_pipe(b, neg, "as")
    for c in neg:
        if c.out.get("BASH", ("", ""))[0] != "ERR":
            fails.append((c, "negative-accepted", dict(cls=c.out.get("BASH", ("", ""))[0])))
    # alias resolution matrix: rejected exactly when the property says so, accepted programs print the value of the function meant
    am = [pipeline.Case("a" + name, {k: v.encode() for k, v in files.items()}, meta=dict(src=files["main.tsh"], expect=exp)) for name, files, exp in alias_matrix() + directory_cases() + global_cases() + toplevel_call_families() + adjacent_call_site_cases() + initialisation_order_cases() + similar_name_cases()]
    pipeline.run_pipe(b, am, "as")
    acc = [c for c in am if c.out.get("BASH", ("", ""))[0] == "OK"]
    runs = common.pmap_proc(semcheck._exec, [(bytes.fromhex(c.out["BASH"][1]), b"") for c in acc])
    got = {c.id: r for c, r in zip(acc, runs)}
    for c in am:
        cls = c.out.get("BASH", ("", ""))[0]
        if c.meta["expect"] is None:
            if cls != "ERR":
                fails.append((c, "negative-accepted", dict(cls=cls, case=c.id, stdout=got[c.id]["stdout"].decode("latin1")[:200] if c.id in got else None)))
        elif cls != "OK" or got[c.id]["stdout"].decode("latin1") != c.meta["expect"] or got[c.id]["status"] != 0 or got[c.id].get("stderr", b"") != b"":
            fails.append((c, "alias-resolution", dict(cls=cls, case=c.id, want=c.meta["expect"], stdout=got[c.id]["stdout"].decode("latin1")[:200] if c.id in got else None)))
    for c in cases:
        if c.out.get("BASH", ("", ""))[0] == "OK":
            probs = defined_before_use(bytes.fromhex(c.out["BASH"][1]).decode("utf-8", "replace"))
            if probs:
                fails.append((c, "called-but-not-defined-before", dict(names=probs)))
    # hypothesis of C09.unused_function_removal_is_safe, evaluated on every program (model side: the call graph and the statements the
    # model parser has - the same AST as the implementation's wherever the correspondence above holds)
    cover = pipeline.model_lines(b, ["COVER" + pipeline.parse_request(c)[5:] for c in cases])
    ncover = dropped = 0
    for c, a in zip(cases, cover):
        parts = a.split(" ")
        if parts[0] == "COVER" and len(parts) == 4:
            if parts[1] == "1":
                ncover += 1
                dropped += int(parts[2]) - int(parts[3])
            elif c.out.get("AST", ("", ""))[0] == "OK":
                dis.append((c, "COVER: the call graph of the model parser does not cover every call of the kept code (" + a + ")", "COVER 1"))
        elif c.out.get("AST", ("", ""))[0] == "OK":
            dis.append((c, "COVER: " + a[:100], "COVER 1"))
    shapes = {}
    for c in cases:
        k = (len(c.files), len(c.meta["multipath"]) > 0)
        shapes[str(k)] = shapes.get(str(k), 0) + 1
    res.coverage.update(dict(
        evaluations=len(cases) + len(neg) + len(am),
        distinct_nontrivial=len({tuple(sorted(c.files.items())) for c in cases}),
        rule="random acyclic import graphs over 1-3 library files (chains, diamonds, the same file under two aliases, std + local), each library with "
             "public/private functions, public/private globals, optional top-level statements, top-level calls and a top-level loop, transitive "
             "cross-file calls, equal names in main and library; reference semantics = each distinct file initialised once, depth first "
             "(Spec.Link); every script is run under bash; distinct = distinct file sets",
        samples=[dict(files={k: v.decode() for k, v in cases[0].files.items()}, expected_stdout=cases[0].meta["expected_out"])],
        graph_shapes=shapes,
        correspondence=dict(stage="AST and bash script of the whole model pipeline (lexer, parser incl. import linking and unused-function removal, emitter)",
                            compared=len(cases), disagreements=len(dis)),
        oracle_failures=len(fails),
        removal_theorem_hypothesis=dict(programs=len(cases), call_graph_covers_kept_code=ncover, definitions_removed=dropped,
                                        rule="graphCovers of C09.unused_function_removal_is_safe evaluated by the Lean driver on the statements and the call graph of every parsed program"),
    ))
    real = []
    for c, kind, detail in fails:
        if kind == "behaviour" and c.meta.get("dup_effects"):
            # inside the region of the known finding only if the output is exactly what one initialisation per import path gives
            want = "".join(l + "\n" for l in c.meta["defect_out"])
            if detail["got_stdout"] == want and detail["got_status"] == 0 and detail["stderr"] == "" \
                    and res.known_finding("multipath-import-runs-twice", kind):
                continue
        real.append((c, kind, detail))
    for c, kind, detail in real[:3]:
        res.violation("oracle", dict(what=kind, detail=detail, files={k: v.decode() for k, v in c.files.items()},
                                     script=bytes.fromhex(c.out["BASH"][1]).decode("utf-8", "replace") if c.out.get("BASH", ("",))[0] == "OK" else None))
    if not real and (dis or not pr["ok"]):
        if dis:
            c, m, i = dis[0]
            res.violation("correspondence", dict(stage="AST/script", files={k: v.decode() for k, v in c.files.items()}, model=m[:3000], implementation=i[:3000], disagreements=len(dis)), no_input=True)
        else:
            res.violation("theorem", dict(broken=pr["broken"], log=pr["log"][-3000:]), no_input=True)
