"""C07 - Names resolve lexically; out-of-scope or misplaced constructs are rejected."""
import common
import gen_scope
import pipeline
import semcheck
import semprop

IMPORT_CASES = [
    ("import-public-func", {"main.tsh": 'import m "lib.tsh"\nprint(m.Pub())\n', "lib.tsh": 'func Pub() int {\n\treturn 1\n}\nfunc priv() int {\n\treturn 2\n}\n'}, True),
    ("import-private-func", {"main.tsh": 'import m "lib.tsh"\nprint(m.priv())\n', "lib.tsh": 'func Pub() int {\n\treturn 1\n}\nfunc priv() int {\n\treturn 2\n}\n'}, False),
    ("import-without-alias-use", {"main.tsh": 'import m "lib.tsh"\nprint(Pub())\n', "lib.tsh": 'func Pub() int {\n\treturn 1\n}\n'}, False),
    ("import-wrong-alias", {"main.tsh": 'import m "lib.tsh"\nprint(n.Pub())\n', "lib.tsh": 'func Pub() int {\n\treturn 1\n}\n'}, False),
    ("import-undefined-func", {"main.tsh": 'import m "lib.tsh"\nprint(m.Nope())\n', "lib.tsh": 'func Pub() int {\n\treturn 1\n}\n'}, False),
    ("import-private-var", {"main.tsh": 'import m "lib.tsh"\nprint(secret)\n', "lib.tsh": 'var secret int = 1\nfunc Pub() int {\n\treturn 1\n}\n'}, False),
    ("import-sees-main-global", {"main.tsh": 'import m "lib.tsh"\nx := 1\nprint(m.Pub())\n', "lib.tsh": 'func Pub() int {\n\treturn x\n}\n'}, False),
    ("import-same-names", {"main.tsh": 'import m "lib.tsh"\nfunc Pub() int {\n\treturn 5\n}\nx := 2\nprint(m.Pub(), Pub(), x)\n', "lib.tsh": 'func Pub() int {\n\tx := 1\n\treturn x\n}\n'}, True),
    ("import-duplicate-alias", {"main.tsh": 'import (\n\tm "lib.tsh"\n\tm "lib2.tsh"\n)\nprint(m.Pub())\n', "lib.tsh": 'func Pub() int {\n\treturn 1\n}\n', "lib2.tsh": 'func Pub2() int {\n\treturn 1\n}\n'}, False),
    ("import-underscore-func", {"main.tsh": 'import m "lib.tsh"\nprint(m._secret())\n', "lib.tsh": 'func Pub() int {\n\treturn 1\n}\nfunc _secret() int {\n\treturn 2\n}\n'}, False),
    ("import-underscore-func-used-inside", {"main.tsh": 'import m "lib.tsh"\nprint(m.Pub())\n', "lib.tsh": 'func _secret() int {\n\treturn 2\n}\nfunc Pub() int {\n\treturn _secret()\n}\n'}, True),
    ("import-digit-second-char", {"main.tsh": 'import m "lib.tsh"\nprint(m.p1())\n', "lib.tsh": 'func p1() int {\n\treturn 2\n}\n'}, False),
    ("import-upper-later", {"main.tsh": 'import m "lib.tsh"\nprint(m.pUB())\n', "lib.tsh": 'func pUB() int {\n\treturn 2\n}\n'}, False),
    ("import-underscore-upper", {"main.tsh": 'import m "lib.tsh"\nprint(m._Pub())\n', "lib.tsh": 'func _Pub() int {\n\treturn 2\n}\n'}, False),
    # a qualified name resolves only through an alias that IS imported - never to a function of the file itself (round 7: C07-9)
    ("unknown-alias-own-func", {"main.tsh": 'func double(n int) int {\n\treturn n * 2\n}\nprint(util.double(21))\n'}, False),
    ("unknown-alias-own-func-stmt", {"main.tsh": 'func hello() {\n\tprint("hi")\n}\nutil.hello()\n'}, False),
    ("unknown-alias-own-func-in-func", {"main.tsh": 'func double(n int) int {\n\treturn n * 2\n}\nfunc q() int {\n\treturn util.double(1)\n}\nprint(q())\n'}, False),
    ("std-like-alias-own-func", {"main.tsh": 'func Upper(s string) string {\n\treturn s + "!"\n}\nprint(strings.Upper("abc"))\n'}, False),
    ("other-alias-own-func", {"main.tsh": 'import m "lib.tsh"\nfunc Own() int {\n\treturn 5\n}\nprint(n.Own(), m.Pub())\n', "lib.tsh": 'func Pub() int {\n\treturn 1\n}\n'}, False),
    ("imported-alias-own-func", {"main.tsh": 'import m "lib.tsh"\nfunc Own() int {\n\treturn 5\n}\nprint(m.Own())\n', "lib.tsh": 'func Pub() int {\n\treturn 1\n}\n'}, False),
    ("own-func-unqualified-next-to-import", {"main.tsh": 'import m "lib.tsh"\nfunc Own() int {\n\treturn 5\n}\nprint(Own(), m.Pub())\n', "lib.tsh": 'func Pub() int {\n\treturn 1\n}\n'}, True),
    # known finding imported-public-name-reachable-under-mangled-name: the public names of an imported file are registered in the importing
    # file's tables under their emitted name h<hash>_<Name>, so that spelling - which is defined nowhere in the main file - resolves without alias
    ("mangled-import-func-without-alias", {"main.tsh": 'import m "lib.tsh"\nprint(%s_Pub())\n', "lib.tsh": 'var Count = 5\nfunc Pub() int {\n\treturn Count\n}\n'}, False),
    ("mangled-import-var-without-alias", {"main.tsh": 'import m "lib.tsh"\nprint(m.Pub(), %s_Count)\n', "lib.tsh": 'var Count = 5\nfunc Pub() int {\n\treturn Count\n}\n'}, False),
    ("mangled-import-private-func-without-alias", {"main.tsh": 'import m "lib.tsh"\nprint(m.Pub(), %s_priv())\n', "lib.tsh": 'func priv() int {\n\treturn 1\n}\nfunc Pub() int {\n\treturn priv()\n}\n'}, False),
    ("import-local-without-alias", {"main.tsh": 'import "lib.tsh"\nprint(1)\n', "lib.tsh": 'func Pub() int {\n\treturn 1\n}\n'}, False),
]


def run(res, b, tier, seed):
    pr = common.prove("C07")
    common.proof_coverage(res, pr)
    if b.harness_error or b.model_error:
        res.violation("build", dict(harness=b.harness_error, model=b.model_error), no_input=True)
        return
    rows = list(gen_scope.cases())
    cases = [pipeline.Case("s%d" % i, {"main.tsh": r["src"].encode()}, meta=r) for i, r in enumerate(rows)]
    # the same skeletons as an IMPORTED file: names resolve in an imported file as in a program (round 6: C07-7, a parameter named
    # like a global of the imported file - globals of imported files are stored under a prefixed name)
    for i, r in enumerate(rows):
        cases.append(pipeline.Case("m%d" % i, {"main.tsh": b'import l "lib.tsh"\nprint(1)\n', "lib.tsh": r["src"].encode()},
                                   meta=dict(r, name=r["name"] + "@imported", src='// lib.tsh, imported by: import l "lib.tsh"; print(1)\n' + r["src"])))
    import hashlib
    for name, files, expect in IMPORT_CASES:
        if name.startswith("mangled-import-"):
            files = dict(files, **{"main.tsh": files["main.tsh"] % ("h" + hashlib.sha256(files["lib.tsh"].encode()).hexdigest()[:7])})
            cases.append(pipeline.Case("i" + name, {k: v.encode() for k, v in files.items()},
                                       meta=dict(name=name, expect=expect, src=files["main.tsh"], d=-9, u=-9, known="mangled-import-name" if "private" not in name else None)))
            continue
        cases.append(pipeline.Case("i" + name, {k: v.encode() for k, v in files.items()}, meta=dict(name=name, expect=expect, src=files["main.tsh"], d=-9, u=-9)))
    pipeline.run_pipe(b, cases, "as")
    pipeline.model_parse(b, cases)
    dis, fails = [], []
    counts = dict(accept=0, reject=0)
    # the conclusion of C07.accepted_programs_use_visible_variables evaluated on the ASTs of the REAL parser (single files, and a
    # main file that imports one leaf file: there the program is the leaf's statements followed by the main file's)
    with_ast = [c for c in cases if c.out.get("AST", ("", ""))[0] == "OK" and not c.id.startswith("i")]
    use_answers = pipeline.model_lines(b, ["PTCHECK " + c.out["AST"][1] for c in with_ast])
    use_stats = dict(asts=len(with_ast), variables_visible=0)
    for c, a in zip(with_ast, use_answers):
        f = a.split(" ")
        if len(f) != 6 or f[0] != "PT":
            fails.append((c, "ptcheck-failed", a[:200]))
        elif f[5] != "1":
            fails.append((c, "accepted-ast-uses-invisible-variable", "a variable in the accepted AST is used where no definition, parameter list or loop header "
                                                                     "visible at that place introduced it (PT.useSs, conclusion of C07.accepted_programs_use_visible_variables)"))
        else:
            use_stats["variables_visible"] += 1
    for c in cases:
        r = c.meta
        ast, sh = c.out.get("AST", ("MISSING", ""))[0], c.out.get("BASH", ("MISSING", ""))[0]
        if r["model_ast"] != pipeline.impl_ast_canon(c):
            dis.append(c)
        if ast not in ("OK", "ERR"):
            fails.append((c, "crash", ast))
            continue
        accepted = sh == "OK"
        counts["accept" if r["expect"] else "reject"] += 1
        if accepted != r["expect"]:
            fails.append((c, "in-scope-use-rejected" if r["expect"] else "out-of-scope-or-misplaced-accepted",
                          bytes.fromhex(c.out["AST"][1]).decode("utf-8", "replace") if ast == "ERR" else ""))
    # names resolve lexically in the SCRIPT too: directed programs whose behaviour shows which variable a name reached (a callee's local
    # against the caller's local / loop variable / parameter of the same spelling), executed (round 8: C07-B)
    rt = [pipeline.Case("rt-" + name, semprop.corpus_files(j), meta=dict(expected_out=j["stdout"], expected_status=j["status"], src=j["src"], name="runtime:" + name))
          for prop in ("C07", "C02") for name, j in semprop.load_corpus(prop)]
    rt_dis, rt_fails = semcheck.check_cases(b, rt, stages="as")
    for c, kind, detail in rt_fails:
        fails.append((c, "name-reached-another-variable" if kind == "behaviour" else kind, str(detail)[:1500]))
        c.meta.setdefault("expect", True)
    dis += [c for c, _, _ in rt_dis]
    res.coverage.update(dict(
        evaluations=len(cases) + len(rt),
        executed_scope_programs=len(rt),
        distinct_nontrivial=len({(r["name"], r.get("d"), r.get("u")) for r in (c.meta for c in cases)}),
        exhaustive=True,
        rule="all (definition slot, use slot) pairs over a block skeleton with 21 slots (top level, function body, if/else, for body, nested if, switch "
             "cases, second function) for use / assignment / redefinition; parameters, for- and range-variables at every slot; function definition "
             "placement, duplicates, use-before-definition, self call; break / continue / return at every slot; import-boundary cases; verdict from the "
             "block structure; distinct = distinct (kind, def slot, use slot)",
        samples=[dict(kind=c.meta["name"], d=c.meta.get("d"), u=c.meta.get("u"), expect=c.meta["expect"], src=c.meta["src"]) for c in (cases[5], cases[700], cases[-1])],
        expected=counts,
        variable_theorem_on_real_asts=use_stats,
        correspondence=dict(stage="AST (Model.Parser vs parser.Parse incl. verdict)", compared=len(cases), disagreements=len(dis)),
        oracle_failures=len(fails),
    ))
    real = []
    for c, kind, detail in fails:
        if c.meta.get("known") == "nested-return-void" and res.known_finding("return-in-void-function-nested", kind):
            continue
        if c.meta.get("known") == "mangled-import-name" and kind == "out-of-scope-or-misplaced-accepted" and \
                res.known_finding("imported-public-name-reachable-under-mangled-name", kind):
            continue
        real.append((c, kind, detail))
    for c, kind, detail in real[:3]:
        res.violation("oracle", dict(what=kind, detail=detail, case=c.meta["name"], d=c.meta.get("d"), u=c.meta.get("u"),
                                     expected="accept" if c.meta["expect"] else "reject", files={k: v.decode() for k, v in c.files.items()}))
    if not real and (dis or not pr["ok"]):
        if dis:
            c = dis[0]
            res.violation("correspondence", dict(stage="AST", src=c.meta["src"], model=c.meta["model_ast"][:2000], implementation=pipeline.impl_ast_canon(c)[:2000],
                                                 disagreements=len(dis)), no_input=True)
        else:
            res.violation("theorem", dict(broken=pr["broken"], log=pr["log"][-3000:]), no_input=True)
