"""C11 - Tokenisation is faithful.
proof: Props/C11.lean (totality, partition, positions, maximal identifiers, first-terminator comments,
       longest-first punctuation table) over Model/Lexer.lean;
tie:   regenerated tables (tools/extract) + token-level correspondence harness vs. driver;
oracle (search): expected tokens known by construction of rendered token sequences; Go's strconv.Unquote."""
import json
import os
import random

import common
import gen_lex


def parse_out(line):
    """Canonical form of one answer line of either side: ('OK', [(ty, valhex, row, col)]) | ('ERR',) ..."""
    f = line.split(" ")
    if f[0] == "OK":
        toks = []
        for t in f[1:]:
            if t:
                ty, v, r, c = t.split(":")
                toks.append((int(ty), v, int(r), int(c)))
        return ("OK", toks)
    return (f[0],)


def lex_both(b, sources):
    lines = [s.hex() for s in sources]
    parts = common.chunks(list(range(len(lines))), common.NCPU)

    def work(idx):
        rc1, o1, e1 = common.run_lines([b.tshdump, "lex"], [lines[i] for i in idx])
        rc2, o2, e2 = common.run_lines([b.tshmodel], ["LEX " + lines[i] for i in idx])
        if len(o1) != len(idx):
            o1 = o1 + ["CRASH"] * (len(idx) - len(o1))
        if len(o2) != len(idx):
            o2 = o2 + ["CRASH"] * (len(idx) - len(o2))
        return [(parse_out(a), parse_out(m)) for a, m in zip(o1, o2)]

    out = []
    for r in common.pmap(work, parts):
        out.extend(r)
    return out


def shrink(b, src, pred):
    """Greedy byte-deletion shrinking of a failing source w.r.t. predicate pred(src)->bool."""
    cur = src
    changed = True
    while changed and len(cur) > 1:
        changed = False
        step = max(1, len(cur) // 2)
        while step >= 1:
            i = 0
            while i < len(cur):
                cand = cur[:i] + cur[i + step:]
                if cand != cur and pred(cand):
                    cur = cand
                    changed = True
                else:
                    i += step
            step //= 2
    return cur


def load_corpus():
    d = os.path.join(common.VERIF, "corpus", "C11")
    out = []
    if not os.path.isdir(d):            # no minimised past failures kept (an empty directory is not part of a git checkout)
        return out
    for f in sorted(os.listdir(d)):
        if f.endswith(".json"):
            j = json.load(open(os.path.join(d, f)))
            exp = [(t[0], bytes.fromhex(t[1]), t[2], t[3]) for t in j["expected"]] if j.get("expected") is not None else None
            out.append((f, bytes.fromhex(j["src"]), exp, j.get("error", False)))
    return out


def _run_script(script):
    import semcheck
    return semcheck.run_bash(script, timeout=20)


def run(res, b, tier, seed):
    rng = random.Random(seed * 7919 + 11)
    pr = common.prove("C11")
    common.proof_coverage(res, pr)
    nseq, nbytes = (3000, 2500) if tier == "quick" else (60000, 40000)
    maxtok = 30 if tier == "quick" else 120
    cases = []   # (kind, src, expected or None, expect_error)
    for name, src, exp, err in load_corpus():
        cases.append(("corpus:" + name, src, exp, err))
    for src, exp in gen_lex.directed_sequences():
        cases.append(("directed", src, exp, False))
    for src in gen_lex.unknown_character_sources():
        cases.append(("unknown-character", src, None, True))
    for _ in range(nseq):
        src, exp = gen_lex.gen_sequence(rng, rng.choice([3, 8, maxtok]))
        cases.append(("seq", src, exp, False))
    for _ in range(nbytes):
        k = rng.random()
        cases.append(("bytes", gen_lex.gen_bytes(rng) if k < 0.6 else gen_lex.gen_near_string(rng), None, None))
    if b.harness_error or b.model_error:
        res.violation("build", dict(harness=b.harness_error, model=b.model_error,
                                    note="the harness or the Lean driver no longer builds against /repo"), no_input=True)
        return
    outs = lex_both(b, [c[1] for c in cases])
    disagreements = []
    oracle_fail = []
    stats = dict(ok=0, err=0, panic=0, tokens=0, by_kind={})
    distinct = set()
    for (kind, src, exp, experr), (impl, model) in zip(cases, outs):
        stats["by_kind"][kind.split(":")[0]] = stats["by_kind"].get(kind.split(":")[0], 0) + 1
        if impl[0] == "OK":
            stats["ok"] += 1
            stats["tokens"] += len(impl[1])
            if len(impl[1]) > 2:
                distinct.add(tuple((t[0], t[1]) for t in impl[1]))
        elif impl[0] == "ERR":
            stats["err"] += 1
        else:
            stats["panic"] += 1
        if impl != model:
            disagreements.append((kind, src, impl, model))
        # oracle: expected tokens by construction (type, value, row, column of every token)
        if exp is not None:
            want = ("OK", [(t, v.hex(), r, c) for t, v, r, c in exp])
            if impl != want:
                oracle_fail.append((kind, src, impl, want))
        elif experr:
            if impl[0] != "ERR":
                oracle_fail.append((kind, src, impl, ("ERR",)))
        if impl[0] in ("PANIC", "CRASH"):
            oracle_fail.append((kind, src, impl, ("OK-or-ERR",)))
    res.coverage.update(dict(
        evaluations=len(cases),
        distinct_nontrivial=len(distinct),
        rule="rendered token sequences (vocabulary x separators x comments x LF/CRLF) with expected tokens known by construction, "
             "plus raw byte strings and near-miss string literals; distinct = distinct (type,value) sequences of >2 tokens returned by the implementation",
        samples=[dict(kind=c[0], src=c[1][:80].decode("latin1")) for c in cases[:3] + cases[-2:]],
        correspondence=dict(stage="tokens", compared=len(cases), disagreements=len(disagreements)),
        generator_distribution=stats,
        oracle_failures=len(oracle_fail),
    ))
    # "integers keep their value": the value the program gets for a number literal (the token text is converted by the parser)
    import pipeline
    lits = [("0", 0), ("7", 7), ("010", 10), ("0100", 100), ("007", 7), ("08", 8), ("0019", 19), ("00", 0), ("-017", -17), ("-0", 0), ("1234567890", 1234567890),
            ("9223372036854775807", 9223372036854775807), ("-9223372036854775808", -9223372036854775808), ("0010", 10), ("-08", -8), ("000000000001", 1)]
    lcases = [pipeline.Case("lit%d" % i, {"main.tsh": ("x := %s\nprint(x)\n" % t).encode()}, meta=dict(text=t, value=v)) for i, (t, v) in enumerate(lits)]
    pipeline.run_pipe(b, lcases, "a")
    for c in lcases:
        cls, payload = c.out.get("AST", ("MISSING", ""))
        if cls != "OK" or ("(int %d)" % c.meta["value"]) not in payload:
            oracle_fail.append(("number-literal-value", c.files["main.tsh"], (cls, payload[:200]), ("OK", "... (int %d) ..." % c.meta["value"])))
    # the text the lexer gets is the FILE's text, byte for byte (only CR LF counts as LF): characters that an editor or a reader might
    # "normalise" - a lone carriage return, form feed, vertical tab, NUL, a byte order mark - inside string literals, raw literals and
    # comments, and between tokens; through the whole front end, main file and imported file (round 8: C11-B, line ends "normalised"
    # where the source file is read)
    import semcheck
    fcases = []
    for nm, ch in (("CR", b"\r"), ("FF", b"\x0c"), ("VT", b"\x0b"), ("DEL", b"\x7f"), ("NBSP", b"\xc2\xa0"), ("BOM", b"\xef\xbb\xbf"),
                   ("NEL", b"\xc2\x85"), ("LS", b"\xe2\x80\xa8")):
        n = len(ch)
        fcases += [
            (nm + "-in-string", b's := "ab' + ch + b'cd"\nprint(len(s))\n', b"%d\n" % (4 + n)),
            (nm + "-in-raw-string", b"t := `x" + ch + b"y`\nprint(len(t))\n", b"%d\n" % (2 + n)),
            (nm + "-in-line-comment", b'print("one") // remark' + ch + b'print("two")\nprint("three")\n', b"one\nthree\n"),
            (nm + "-in-block-comment", b"/* a" + ch + b"b */ print(1)\n", b"1\n"),
            (nm + "-between-statements", b'print("first")' + ch + b'print("second")\n', None),
            (nm + "-at-end-of-file", b"print(1)" + ch, None),
            (nm + "-at-start-of-file", ch + b"print(1)\n", None),
        ]
    fc = []
    for nm, src, want in fcases:
        fc.append(pipeline.Case("f-" + nm, {"main.tsh": src}, meta=dict(want=want, src=src, where="main file")))
        if want is not None:
            fc.append(pipeline.Case("fi-" + nm, {"main.tsh": b'import l "lib.tsh"\n', "lib.tsh": src}, meta=dict(want=want, src=src, where="imported file")))
    pipeline.run_pipe(b, fc, "as")
    pipeline.model_parse(b, fc)
    runnable = [c for c in fc if c.out.get("BASH", ("", ""))[0] == "OK"]
    for c, r in zip(runnable, common.pmap_proc(_run_script, [bytes.fromhex(c.out["BASH"][1]) for c in runnable])):
        c.meta["stdout"] = r["stdout"]
    for c in fc:
        cls = c.out.get("BASH", ("MISSING", ""))[0]
        if c.meta["model_ast"] != pipeline.impl_ast_canon(c):
            disagreements.append(("file-text:" + c.id, c.meta["src"], pipeline.impl_ast_canon(c)[:300], c.meta["model_ast"][:300]))
        if c.meta["want"] is None:
            if cls != "ERR":
                oracle_fail.append(("file-text:" + c.id + " (" + c.meta["where"] + ")", c.meta["src"], (cls, c.meta.get("stdout", b"").decode("latin1")), ("ERR", "a character outside the token grammar between tokens")))
        elif cls != "OK" or c.meta.get("stdout") != c.meta["want"]:
            oracle_fail.append(("file-text:" + c.id + " (" + c.meta["where"] + ")", c.meta["src"], (cls, c.meta.get("stdout", b"").decode("latin1")), ("OK", c.meta["want"].decode("latin1"))))
    res.coverage["file_text_cases"] = len(fc)
    res.coverage["number_literal_values"] = len(lcases)
    res.coverage["oracle_failures"] = len(oracle_fail)
    res.assumptions += ["Go's regexp/strconv behave as modelled by the hand-written scanners (validated only through the differential run)",
                        "generator's expected tokens are correct by construction (needs_sep is conservative)"]
    # decide
    for kind, src, impl, want in oracle_fail[:5]:
        def pred(s, want=want):
            return False
        res.violation("oracle", dict(stage="tokens", generator=kind, src_hex=src.hex(), src=src.decode("latin1"),
                                     implementation=impl, expected=want,
                                     what="implementation's tokens differ from the token grammar (type/value/row/column)"))
    if not oracle_fail and (disagreements or not pr["ok"]):
        # proof or correspondence broken but the oracle found no failing input on this run: extended search
        extra = []
        for s2 in range(4):
            r2 = random.Random(seed * 104729 + s2)
            for _ in range(nseq):
                extra.append(gen_lex.gen_sequence(r2, rng.choice([5, 40])))
        outs2 = lex_both(b, [c[0] for c in extra])
        found = None
        for (src, exp), (impl, model) in zip(extra, outs2):
            want = ("OK", [(t, v.hex(), r, c) for t, v, r, c in exp])
            if impl != want:
                found = (src, impl, want)
                break
        if found:
            res.violation("oracle", dict(stage="tokens", src_hex=found[0].hex(), src=found[0].decode("latin1"),
                                         implementation=found[1], expected=found[2]))
        else:
            if disagreements:
                kind, src, impl, model = disagreements[0]
                res.violation("correspondence", dict(stage="tokens", src_hex=src.hex(), src=src.decode("latin1"), implementation=impl, model=model,
                                                     what="Model.Lexer.tokenize and lexer.Tokenize disagree; theorems of Props/C11.lean no longer speak about this code",
                                                     disagreements=len(disagreements)), no_input=True)
            else:
                res.violation("theorem", dict(broken=pr["broken"], log=pr["log"][-3000:],
                                              what="proof obligations of Props/C11.lean no longer check (regenerated tables or model changed)"), no_input=True)
