"""C12 - Program meaning is independent of layout."""
import random

import common
import gen_lex
import gen_prog
import gen_typed
import pipeline
import seeds

SPACE, COMMENT, NEWLINE = 26, 1, 27
BLOCK_BODIES = [b"", b" c ", b"x := 1", b" * / ", b"**", b" \"q\" ", b"//", b" a\n b ",
                # bodies that start or end with the characters of the delimiters (round 5: C12-6, `/*/` taken as a whole comment)
                b"/", b"/ x := 2 /", b"*", b"/*", b"/ print(\"hidden\")\n/", b"* /", b"/ *", b"\n/", b"/\n", b"/**", b"//*"]


def rand_block_body(rng):
    while True:
        body = "".join(rng.choice("/* x\n\"/*") for _ in range(rng.randint(0, 6))).encode()
        if b"*/" not in body and not body.endswith(b"*"):
            return body
LINE_BODIES = [b"", b" note", b" /* not a block", b" */ x", b"\"", b"// more"]


def relayout(rng, lexemes):
    """lexemes: [(ty, text bytes)] of the original (blanks/comments included).  Returns a source with
    the same kept-token sequence (up to the length of NEWLINE runs) and a different layout."""
    kept = [(ty, tx) for ty, tx in lexemes if ty not in (SPACE, COMMENT)]
    # line ends: all LF, all CR LF, or MIXED within one file - each line break on its own, the first one forced either way (round 16:
    # C12-I, CR LF folded only when the FIRST line break of the file is CR LF)
    crlf = rng.choice(["lf", "lf", "crlf", "mixed-lf-first", "mixed-crlf-first"])
    out = bytearray()
    prev = None          # (text, ty) of the previous kept token if it directly precedes
    before_prev = 0
    last_kept = 0
    style = rng.choice(["dense", "airy", "mixed", "tight"])

    def sep(force):
        s = bytearray()
        n = 0 if style == "tight" else rng.choice([0, 0, 1]) if style == "dense" else rng.choice([1, 1, 2, 3]) if style == "airy" else rng.choice([0, 1, 1, 2])
        if force and n == 0:
            n = 1
        for _ in range(n):
            k = rng.random()
            if k < 0.6:
                s += b" "
            elif k < 0.75:
                s += b"\t"
            else:
                s += b"/*" + (rng.choice(BLOCK_BODIES) if rng.random() < 0.7 else rand_block_body(rng)) + b"*/"
        return bytes(s)

    def newline_run():
        """an existing line break: optional trailing blanks / line comment, then extra blank or comment-only lines"""
        s = bytearray()
        if rng.random() < 0.3:
            s += rng.choice([b" ", b"\t", b"  "])
        if rng.random() < 0.25:
            s += b"//" + rng.choice(LINE_BODIES)
        s += b"\n"
        for _ in range(rng.choice([0, 0, 0, 1, 2])):
            k = rng.random()
            if k < 0.4:
                s += b"\n"
            elif k < 0.6:
                s += rng.choice([b" ", b"\t\t"]) + b"\n"
            elif k < 0.8:
                s += rng.choice([b"", b"\t"]) + b"//" + rng.choice(LINE_BODIES) + b"\n"
            else:
                s += b"/*" + (rng.choice(BLOCK_BODIES) if rng.random() < 0.7 else rand_block_body(rng)) + b"*/\n"
        return bytes(s)

    i = 0
    n = len(kept)
    at_line_start = True
    while i < n:
        ty, tx = kept[i]
        if ty == NEWLINE:
            # collapse the whole run of NEWLINE tokens into one (possibly longer or shorter) run
            while i + 1 < n and kept[i + 1][0] == NEWLINE:
                i += 1
            if prev is not None and prev[0].endswith(b"/"):
                out += b" "
            out += newline_run()
            prev = None
            last_kept, before_prev = NEWLINE, last_kept
            at_line_start = True
            i += 1
            continue
        if at_line_start:
            out += rng.choice([b"", b"\t", b"    ", b"\t\t", b" "])      # indentation
            at_line_start = False
            s = b""
        else:
            force = prev is not None and gen_lex.needs_sep(prev[0], prev[1], before_prev, tx, ty)
            s = sep(force)
            if prev is not None and prev[0].endswith(b"/") and s[:1] == b"/":
                s = b" " + s
            if force and not s:
                s = b" "
        out += s
        out += tx
        before_prev = last_kept
        last_kept = ty
        prev = (tx, ty)
        i += 1
    # final newline present or absent (only if the source did not end in a line break)
    res = bytes(out)
    if res.endswith(b"\n") and rng.random() < 0.3 and kept and kept[-1][0] == NEWLINE:
        res = res[:-1]
        # removing the last line break must not glue a line comment to EOF issues: fine, comment runs to EOF
    if crlf == "crlf":
        res = res.replace(b"\n", b"\r\n")
    elif crlf != "lf":
        parts = res.split(b"\n")
        buf = bytearray()
        for k, part in enumerate(parts[:-1]):
            buf += part
            if k == 0:
                buf += b"\n" if crlf == "mixed-lf-first" else b"\r\n"
            else:
                buf += b"\r\n" if rng.random() < 0.6 else b"\n"
        buf += parts[-1]
        res = bytes(buf)
    return res


def trace(b, sources):
    answers = pipeline.model_lines(b, ["TRACE " + s.hex() for s in sources])
    out = []
    for a in answers:
        if not a.startswith("OK"):
            out.append(None)
            continue
        lex = []
        for t in a.split(" ")[1:]:
            if t:
                ty, tx = t.split(":")
                lex.append((int(ty), bytes.fromhex(tx)))
        out.append(lex)
    return out


def run(res, b, tier, seed):
    rng = random.Random(seed * 65537 + 12)
    pr = common.prove("C12")
    common.proof_coverage(res, pr)
    if b.harness_error or b.model_error:
        res.violation("build", dict(harness=b.harness_error, model=b.model_error), no_input=True)
        return
    quick = tier == "quick"
    progs = list(seeds.all_seeds())
    cfg = gen_prog.Cfg(funcs=True, slices=True, strops=True)
    for _ in range(60 if quick else 600):
        g = gen_prog.generate(rng, cfg)
        if g:
            progs.append(g[1])
    rows = list(gen_typed.table(full=False))
    rng.shuffle(rows)
    for r in rows[:60 if quick else 600]:
        progs.append(r["src"])                       # rejected and accepted near-miss programs
    progs.append('import (\n\t"strings"\n)\nx := 2\nswitch x {\ncase 2:\n\tprint(strings.Repeat("a", 2))\n}\nprint(x-1, x -1, x- 1, x - 1)\n')
    # every binary operator after every kind of token that can end an operand (name, literals, closing round and square bracket), and
    # signed literals after every operator: with blanks here, glued by the "tight" re-layouts (round 8: C12-A / C01-A, a minus sign in
    # front of a digit after "]" or ")")
    progs.append('nums := []int{10, 20, 30}\ns := "hello"\na := 7\nb := 2\nt := true\n'
                 'print(nums[2] - 1, nums[0] - 5, len(s) - 1, (a + b) - 1, a - 1, 3 - 1, s[1:len(s) - 1], nums[b - 1] - nums[0])\n'
                 'print(nums[2] + 1, (a) + 1, a + 1, 3 + 1, nums[1] * 2, (a) * 2, nums[1] / 2, (a) / 2, nums[1] % 7, (a) % 2)\n'
                 'print(a * -1, a - -1, a + -1, a / -1, a % -2, a == -1, a < -1, a >= -1, a != -1, a <= -1, a > -1)\n'
                 'print(nums[0] == 10, (a) == 7, nums[0] < 1, (a) < 1, nums[0] >= 1, (a) >= 1, s[0] == "h", "a" + "b" == "ab", t && !t, (t) || t)\n'
                 'c := a - 1\nc -= 1\nc = -1\nc += -1\nnums[0] = -1\nnums[1] = nums[1] - 1\nprint(c, nums[0], nums[1], -1)\n')
    # every statement kind as the LAST statement of the file: the final line break must not matter for any of them
    END_FORMS = ["var e1 int", "var e1, e2 string", "var e1 int = 3", "var e1 = 3", "e1 := 4", "a0 = 5", "a0++", "a0 += 2", "print(a0)", "f0()",
                 "a0, b0 = b0, a0", "var e1 []int", "sl0[1] = 2", "if a0 > 0 {\n\tprint(1)\n}", "if a0 > 0 {\n\tprint(1)\n} else {\n\tprint(2)\n}",
                 "for a0 < 3 {\n\ta0++\n}", "for i := 0; i < 2; i++ {\n\tprint(i)\n}", "func g0() {\n\tprint(1)\n}", "func g0() int {\n\treturn 1\n}",
                 "switch a0 {\ncase 1:\n\tprint(1)\ndefault:\n\tprint(2)\n}", "panic(\"x\")", "write(\"f\", \"x\")", "e1 := read(\"f\")",
                 "e1, e2, e3 := @echo(\"x\")", "@echo(\"x\")", "e1 := len(sl0)", "e1 := \"text\"", "e1 := `raw`", "e1 := true", "// only a comment",
                 "e1 := a0 - 1", "e1 := -1"]
    END_PRELUDE = "var a0, b0 int = 1, 2\nsl0 := []int{1}\nfunc f0() {\n\tprint(0)\n}\n"
    end_forced = set()
    for form in END_FORMS:
        end_forced.add(len(progs))
        progs.append(END_PRELUDE + form + "\n")
    # ... and an IMPORT as the last statement: a file that consists of its import section only (fix 7299276: a single import in front of the
    # end of the file, without a final line break, was rejected - evaluateImport consumed the end-of-file token)
    for form in ('import "strings"', 'import s "strings"', 'import (\n\t"strings"\n)', 'import (\n\ts "strings"\n\t"os"\n)',
                 '// a library\n\nimport "strings"'):
        end_forced.add(len(progs))
        progs.append(form + "\n")
    srcs = [p.encode() for p in progs]
    traces = trace(b, srcs)
    k = 6 if quick else 10
    cases = []
    groups = []
    for pi, (src, lx) in enumerate(zip(srcs, traces)):
        base = pipeline.Case("p%d" % pi, {"main.tsh": src}, meta=dict(orig=True, pi=pi))
        cases.append(base)
        members = [base]
        if pi in end_forced:
            for vname, v in (("nofinal", src.rstrip(b"\n")), ("crlf-nofinal", src.rstrip(b"\n").replace(b"\n", b"\r\n")),
                             ("blank-at-end", src + b"\n\n"), ("space-at-end", src.rstrip(b"\n") + b" "), ("tab-newline", src.rstrip(b"\n") + b"\t\n")):
                c = pipeline.Case("p%d_%s" % (pi, vname), {"main.tsh": v}, meta=dict(orig=False, pi=pi))
                cases.append(c)
                members.append(c)
        # blank and comment-only lines in FRONT of the program (two and more: round 9, C12-B - only one leading line break skipped
        # before an import section)
        # mixed line ends, directed: only the first line break LF / only the first CR LF / a blank LF line in front of a CR LF file
        if b"\n" in src.rstrip(b"\n"):
            first, rest = src.split(b"\n", 1)
            for vname, v in (("lf-then-crlf", first + b"\n" + rest.replace(b"\n", b"\r\n")), ("crlf-then-lf", first + b"\r\n" + rest),
                             ("blank-lf-then-crlf", b"\n" + src.replace(b"\n", b"\r\n"))):
                c = pipeline.Case("p%d_%s" % (pi, vname), {"main.tsh": v}, meta=dict(orig=False, pi=pi))
                cases.append(c)
                members.append(c)
        if pi % 3 == 0 or b"import" in src:
            for vname, v in (("lead2", b"\n\n" + src), ("lead-comments", b"// header\n// second line\n\n" + src), ("lead-block", b"/* header */\n\t\n/* x */\n" + src),
                             ("lead-crlf", b"\r\n\r\n\r\n" + src)):
                c = pipeline.Case("p%d_%s" % (pi, vname), {"main.tsh": v}, meta=dict(orig=False, pi=pi))
                cases.append(c)
                members.append(c)
        if lx is not None:
            for j in range(k):
                v = relayout(rng, lx)
                c = pipeline.Case("p%d_%d" % (pi, j), {"main.tsh": v}, meta=dict(orig=False, pi=pi))
                cases.append(c)
                members.append(c)
        groups.append(members)
    # the program without statements in all its layouts: no byte at all, blanks, line breaks, comment-only lines (round 8: C12-B)
    EMPTY_FORMS = [b"", b"\n", b"\n\n", b" ", b"\t\n", b"\r\n", b"  \n\t\n", b"// nothing to do\n", b"\n// nothing to do\n\n", b"/* nothing */", b"/* a */\n// b\n",
                   b"\n\n\n\n", b" // c", b"/*\n\n*/\n"]
    members = []
    for j, v in enumerate(EMPTY_FORMS):
        c = pipeline.Case("empty_%d" % j, {"main.tsh": v}, meta=dict(orig=j == 0, pi=-1))
        cases.append(c)
        members.append(c)
    groups.append(members)
    pipeline.run_pipe(b, cases, "tsw")
    # correspondence: lexer model vs implementation on all layouts (tokens incl. positions)
    answers = pipeline.model_lines(b, ["LEX " + c.files["main.tsh"].hex() for c in cases])
    dis = []
    for c, a in zip(cases, answers):
        cls, payload = c.out.get("TOK", ("MISSING", ""))
        impl = "OK " + payload if cls == "OK" else cls
        if a != impl and not (a == "OK " and impl == "OK "):
            dis.append((c, a, impl))
    fails = []
    accepted = rejected = 0
    directed_rejected = []
    for members in groups:
        base = members[0]
        b0 = (base.out.get("BASH", ("MISSING", "")), base.out.get("BATCH", ("MISSING", "")))
        if b0[0][0] == "OK":
            accepted += 1
        else:
            rejected += 1
            if base.meta.get("pi") in end_forced:
                # the last-statement programs are written to be VALID: one that is rejected as written tests nothing (all its layouts
                # are rejected alike) - an error of this check or a change of the language, never silent
                directed_rejected.append(base)
        for c in members[1:]:
            got = (c.out.get("BASH", ("MISSING", "")), c.out.get("BATCH", ("MISSING", "")))
            same = all((g[0] == o[0]) and (g[0] != "OK" or g[1] == o[1]) for g, o in zip(got, b0))
            if not same:
                fails.append((base, c, b0, got))
    # the same through the tsh COMMAND (the user's entry point): the program without statements in all its layouts, and a sample of
    # the re-laid-out programs - the command must write what the library returns, for every layout
    import cli
    cli_cases = groups[-1] + [c for g in groups[:-1] for c in g[:2]][:30 if quick else 300]
    cli_probs = common.pmap(lambda c: cli.compare_with_library(b, c), cli_cases)
    cli_fails = [(c, pr_) for c, pr_ in zip(cli_cases, cli_probs) if pr_]
    res.coverage.update(dict(
        evaluations=len(cases),
        layouts_through_the_command=len(cli_cases),
        distinct_nontrivial=len({c.files["main.tsh"] for c in cases}),
        rule="every program (repo test programs, builtin seeds, generated programs, accepted and rejected near-miss programs of the C06 table) is re-laid-out "
             "%d times from its lexeme trace: blanks/tabs/block comments between tokens (removed where gluing is safe), indentation, trailing blanks, line "
             "comments before line breaks, blank/comment-only lines at existing line breaks, LF vs CRLF, final newline; oracle: same verdict and byte-identical "
             "Bash and Batch scripts; distinct = distinct source texts" % k,
        samples=[dict(original=groups[0][0].files["main.tsh"].decode("latin1")[:300], relayout=groups[0][1].files["main.tsh"].decode("latin1")[:300])],
        program_classes=dict(total=len(groups), accepted=accepted, rejected=rejected),
        correspondence=dict(stage="tokens (Model.Lexer vs lexer.Tokenize, incl. positions) on all layouts", compared=len(cases), disagreements=len(dis)),
        oracle_failures=len(fails),
    ))
    res.coverage["directed_last_statement_programs"] = dict(total=len(end_forced), rejected_as_written=len(directed_rejected))
    for base in directed_rejected[:2]:
        res.violation("oracle", dict(what="a directed last-statement program is rejected as written (a broken program of this check, or a change of the language)",
                                     original=base.files["main.tsh"].decode("latin1"), classes=[str(base.out.get("BASH"))[:300], str(base.out.get("BATCH"))[:300]]))
    for base, c, b0, got in fails[:3]:
        res.violation("oracle", dict(what="re-layout changed the verdict or the emitted script",
                                     original=base.files["main.tsh"].decode("latin1"), relayout=c.files["main.tsh"].decode("latin1"),
                                     original_hex=base.files["main.tsh"].hex(), relayout_hex=c.files["main.tsh"].hex(),
                                     original_classes=[x[0] for x in b0], relayout_classes=[x[0] for x in got],
                                     relayout_error=bytes.fromhex(got[0][1]).decode("utf-8", "replace") if got[0][0] == "ERR" else ""))
    for c, probs in cli_fails[:3]:
        res.violation("oracle", dict(what="the tsh command treats a layout differently from the library: " + "; ".join(probs),
                                     source=c.files["main.tsh"].decode("latin1"), source_hex=c.files["main.tsh"].hex(),
                                     invocation="tsh -i main.tsh -o out -t bash -t batch"))
    fails = fails or cli_fails
    if not fails and (dis or not pr["ok"]):
        if dis:
            c, a, impl = dis[0]
            res.violation("correspondence", dict(stage="tokens", src_hex=c.files["main.tsh"].hex(), model=a[:2000], implementation=impl[:2000], disagreements=len(dis)), no_input=True)
        else:
            res.violation("theorem", dict(broken=pr["broken"], log=pr["log"][-3000:]), no_input=True)
