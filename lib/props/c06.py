"""C06 - Ill-typed programs are never translated; typing does not depend on the target."""
import random

import common
import gen_typed
import pipeline

KNOWN_NESTED = ("nested-return", "nested-return-void")


def run(res, b, tier, seed):
    pr = common.prove("C06")
    common.proof_coverage(res, pr)
    if b.harness_error or b.model_error:
        res.violation("build", dict(harness=b.harness_error, model=b.model_error), no_input=True)
        return
    rows = list(gen_typed.table(full=(tier != "quick")))
    # acceptance must not depend on the target: statements the two converters treat differently
    rows.append(dict(name="break-in-switch", offered="-", ctx="switch", expect=None,
                     src=gen_typed.PRELUDE + "switch 1 {\ncase 1:\n\tprint(1)\n\tbreak\n}\n"))
    rows.append(dict(name="break-in-switch-in-loop", offered="-", ctx="switch", expect=True,
                     src=gen_typed.PRELUDE + "for {\n\tswitch 1 {\n\tcase 1:\n\t\tbreak\n\t}\n\tbreak\n}\n"))
    # constructs the parser accepts beyond the emitters' discipline (`PT.strict` of Props/C06Sem): verdict unspecified by the
    # property, but the parser MODEL must agree with the parser on them and the ASTs must satisfy the theorem's conclusion
    for nm, body in (("string-ordering", 'q := "a" < "b"\nprint(q)\n'), ("app-as-argument", 'print(@echo(@echo("x")))\n'),
                     ("app-in-value-list", 'q1, q2 := @echo("x"), @echo("y")\nprint(q1, q2)\n'),
                     ("multi-call-as-app-argument", '@echo(mfn())\n'), ("return-multi-call", 'func rr() (int, int) {\n\treturn mfn()\n}\nprint(1)\n'),
                     ("app-in-slice-literal", 'q := []string{@echo("x")}\n'), ("app-as-condition", 'if @true() {\n}\n'),
                     ("app-compared", 'q := @echo("x") == "x"\n'), ("app-var-reused", 'q1, q2 := @a(), @b()\nq1 = "s"\n'),
                     ("app-var-assigned-app", 'q1, q2 := @a(), @b()\nq1, q2 = @c(), @d()\nprint(q1)\n'),
                     ("void-call-in-print", 'print(vfn())\n'), ("void-call-as-app-argument", '@echo(vfn())\n')):
        rows.append(dict(name="beyond-" + nm, offered="-", ctx="top", expect=None, src=gen_typed.PRELUDE + body))
    cases = [pipeline.Case("t%d" % i, {"main.tsh": r["src"].encode()}, meta=r) for i, r in enumerate(rows)]
    pipeline.run_pipe(b, cases, "asw")
    pipeline.model_parse(b, cases)
    # the conclusion of the parser theorem (accepted programs satisfy PT.program), evaluated on the ASTs of the REAL parser
    with_ast = [c for c in cases if c.out.get("AST", ("", ""))[0] == "OK"]
    pt_answers = pipeline.model_lines(b, ["PTCHECK " + c.out["AST"][1] for c in with_ast])
    pt_stats = dict(asts=len(with_ast), parser_typed=0, strict=0, emitter_typed=0, calls_agree_with_signatures=0, variables_used_as_declared=0)
    dis, fails = [], []
    for c, a in zip(with_ast, pt_answers):
        f = a.split(" ")
        if len(f) != 6 or f[0] != "PT":
            fails.append((c, "ptcheck-failed", a[:200]))
            continue
        pt_stats["parser_typed"] += f[1] == "1"
        pt_stats["strict"] += f[2] == "1"
        pt_stats["emitter_typed"] += f[3] == "1"
        pt_stats["calls_agree_with_signatures"] += f[4] == "1"
        if f[4] != "1" and len(c.files) == 1:
            fails.append((c, "call-disagrees-with-signature", "a call in the accepted AST names no function defined before it with these parameter and return types "
                                                              "(PT.sigSs, conclusion of C06.calls_agree_with_signatures; single-file program)"))
        pt_stats["variables_used_as_declared"] += f[5] == "1"
        if f[5] != "1" and len(c.files) == 1:
            fails.append((c, "variable-not-used-as-declared", "a variable in the accepted AST is used where no definition, parameter list or loop header visible at that "
                                                              "place introduced it with that type (PT.useSs, conclusion of C07.accepted_programs_use_visible_variables)"))
        if f[1] != "1":
            fails.append((c, "accepted-ast-not-parser-typed", "the AST the parser returned violates PT.program (conclusion of C06.accepted_programs_are_typed)"))
        elif f[2] == "1" and f[3] != "1":
            fails.append((c, "strict-ast-not-typed", "PT.program and PT.strictSs hold but typedProgram does not (contradicts C06.parser_typed_and_strict_is_typed)"))
    verdicts = dict(accept=0, reject=0, unspecified=0)
    per_pos = {}
    for c in cases:
        r = c.meta
        ast, sh, bat = (c.out.get(k, ("MISSING", ""))[0] for k in ("AST", "BASH", "BATCH"))
        if r["model_ast"] != pipeline.impl_ast_canon(c):
            dis.append(c)
        accepted = sh == "OK"
        per_pos[r["name"]] = per_pos.get(r["name"], 0) + 1
        if sh not in ("OK", "ERR") or bat not in ("OK", "ERR") or ast not in ("OK", "ERR"):
            fails.append((c, "crash", "stage classes %s/%s/%s" % (ast, sh, bat)))
            continue
        if (sh == "OK") != (bat == "OK"):
            fails.append((c, "target-dependent", "bash=%s batch=%s" % (sh, bat)))
        if ast == "ERR" and (sh == "OK" or bat == "OK"):
            fails.append((c, "script-despite-error", ""))
        if r["expect"] is None:
            verdicts["unspecified"] += 1
        elif r["expect"] and not accepted:
            verdicts["accept"] += 1
            fails.append((c, "well-typed-rejected", bytes.fromhex(c.out["BASH"][1]).decode("utf-8", "replace")))
        elif not r["expect"] and accepted:
            verdicts["reject"] += 1
            fails.append((c, "ill-typed-accepted", ""))
        else:
            verdicts["accept" if r["expect"] else "reject"] += 1
    res.coverage.update(dict(
        evaluations=len(cases),
        distinct_nontrivial=len({(r["name"], r["offered"], r["ctx"]) for r in rows}),
        exhaustive=True,
        rule="table: %d typed positions x 8 offered types (int, bool, string, []int, []bool, []string, no-value, multi-value; several spellings each in the thorough tier) "
             "x 5 enclosing contexts (top level, function, if, for, switch body); verdict known by construction (Go's rules / README signatures); "
             "distinct = distinct (position, offered type, context) triples" % len(per_pos),
        samples=[dict(position=c.meta["name"], offered=c.meta["offered"], ctx=c.meta["ctx"], expect=c.meta["expect"], src=c.meta["src"][len(gen_typed.PRELUDE):]) for c in (cases[3], cases[len(cases) // 2], cases[-1])],
        verdicts=verdicts,
        parser_theorem_on_real_asts=pt_stats,
        correspondence=dict(stage="AST (Model.Parser vs parser.Parse incl. verdict)", compared=len(cases), disagreements=len(dis)),
        oracle_failures=len(fails),
    ))
    real = []
    for c, kind, detail in fails:
        if c.meta["name"] in KNOWN_NESTED and kind == "ill-typed-accepted" and res.known_finding("nested-return-unchecked", kind):
            continue
        if c.meta["name"] == "break-in-switch" and kind == "target-dependent" and res.known_finding("break-in-switch", kind):
            continue
        real.append((c, kind, detail))
    for c, kind, detail in real[:3]:
        res.violation("oracle", dict(what=kind, detail=detail, position=c.meta["name"], offered=c.meta["offered"], context=c.meta["ctx"],
                                     expected="accept" if c.meta["expect"] else "reject", src=c.meta["src"]))
    if not real and (dis or not pr["ok"]):
        if dis:
            c = dis[0]
            res.violation("correspondence", dict(stage="AST", src=c.meta["src"], model=c.meta["model_ast"][:2000], implementation=pipeline.impl_ast_canon(c)[:2000],
                                                 disagreements=len(dis)), no_input=True)
        else:
            res.violation("theorem", dict(broken=pr["broken"], log=pr["log"][-3000:]), no_input=True)
