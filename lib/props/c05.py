"""C05 - Batch target preserves the same program semantics under cmd.exe's rules."""
import os
import random

import batchcheck
import cmdsim
import common
import gen_prog
import pipeline
import seeds


def _sim(script):
    import multiprocessing
    import resource
    if multiprocessing.current_process().name != "MainProcess":      # never limit the driver process itself
        try:
            resource.setrlimit(resource.RLIMIT_AS, (2 << 30, 2 << 30))
        except Exception:
            pass
    try:
        out, st = cmdsim.run(script)
        return ("ok", out, st)
    except cmdsim.Stuck as e:
        return ("stuck", str(e), None)
    except cmdsim.Budget:
        return ("budget", "", None)
    except (RecursionError, MemoryError):
        return ("budget", "recursion/memory", None)


def _read(name):
    with open(os.path.join(common.VERIF, "corpus", "C05", name)) as fh:
        return fh.read()


# (name, source, expected output = Go's meaning, as bash prints it)
DIRECTED = [("case-insensitive-names", _read("case-insensitive-names.tsh"), "1 2\n8\n7\n", True),
            # several length queries in one statement (round 6: C05-7, the Batch length register shared by all of them)
            ("two-lengths", _read("two-lengths.tsh"), "2\na is longer\n2 30\n32\n3 2\n23\ni 0\n1 12\n", False),
            # the count copy() returns next to a length query in the same statement (genuine defect repaired in round 10: the Batch
            # converter returned the shared register !_len! itself)
            ("copy-count-and-length", _read("copy-count-and-length.tsh"), "5\n5\n", False)]


SEMB = dict(cases=0, in_scalar_fragment=0, in_theorem_fragment=0, in_conditional_theorem_fragment=0, in_scalar_theorem_fragment=0, tree_defined=0, lines_defined=0, src32_defined=0, cmd_defined=0, both=0)


def straight_programs(rng, n):
    """programs of the straight-line fragment of the semantic theorem (definitions, single and simultaneous assignments,
    print, panic over int / bool / string expressions), with the 32-bit reference result"""
    out = []
    gen_prog.BITS = 32
    try:
        tries = 0
        while len(out) < n and tries < 40 * n:
            tries += 1
            g = gen_prog.generate2(rng, gen_prog.Cfg(big_ints=False, max_nest=0, max_stmts=10), None)
            if g is not None:
                out.append(g)
    finally:
        gen_prog.BITS = 64
    return out


def run(res, b, tier, seed):
    rng = random.Random(seed * 7333 + 5)
    pr = common.prove("C05")
    common.proof_coverage(res, pr)
    if b.harness_error or b.model_error:
        res.violation("build", dict(harness=b.harness_error, model=b.model_error), no_input=True)
        return
    quick = tier == "quick"
    # validation tie of the cmd model: the shared test bodies of the suite with their expected output
    calib = seeds.repo_tests_with_expectations()
    ccases = [pipeline.Case("t" + n, {"main.tsh": s.encode()}, meta=dict(exp=e, err=er, src=s)) for n, s, e, er in calib]
    pipeline.run_pipe(b, ccases, "w")
    calib_bad = []
    for c in ccases:
        if c.out.get("BATCH", ("", ""))[0] != "OK":
            calib_bad.append((c.id, "not transpiled", c))
            continue
        r = _sim(bytes.fromhex(c.out["BATCH"][1]).decode("utf-8", "replace"))
        if r[0] != "ok" or r[1].strip() != c.meta["exp"] or ((r[2] != 0) != c.meta["err"]):
            calib_bad.append((c.id, str(r)[:200], c))
    # generated programs with a 32-bit reference result (batch by batch: bounded memory)
    cfgs = [gen_prog.Cfg(big_ints=False), gen_prog.Cfg(funcs=True, big_ints=False), gen_prog.Cfg(funcs=True, slices=True, strops=True, big_ints=False),
            gen_prog.Cfg(funcs=True, slices=True, strops=True, effects=True, big_ints=False, max_nest=4)]
    kinds = {}
    n = 400 if quick else 6000
    dis, fails, outcome = [], [], {}
    semdis = []
    for k in SEMB:
        SEMB[k] = 0
    ncases, distinct, first_case = 0, set(), None
    for base in range(0, n, 400):
        cases = []
        gen_prog.BITS = 32
        try:
            for i in range(base, min(n, base + 400)):
                cfg = cfgs[i % len(cfgs)]
                tr = (lambda p: gen_prog.add_tracers(p)) if cfg.effects else None
                g = gen_prog.generate2(rng, cfg, tr)
                if g is None:
                    continue
                prog, src, out, status, ks = g
                for k, v in ks.items():
                    kinds[k] = kinds.get(k, 0) + v
                cases.append(pipeline.Case("g%d" % i, {"main.tsh": src.encode()},
                                           meta=dict(src=src, expected_out="".join(l + "\n" for l in out), expected_status=status,
                                                     panic_in_func=ks.get("_panic_in_func", False), empty_substr=ks.get("_empty_substr", False),
                                                     minint=ks.get("_minint", False), switch_break=bool(ks.get("_switch_break")),
                                                     switch_break_static=bool(ks.get("_switch_break_static")), switch_tag_call=bool(ks.get("_switch_tag_call")), range_call=bool(ks.get("_range_call")))))
        finally:
            gen_prog.BITS = 64
        if base == 0:
            # programs of the straight-line fragment of the semantic theorem (so that the tie of its definitions sees many of them)
            for i, g in enumerate(straight_programs(rng, 80 if quick else 600)):
                prog, src, out, status, ks = g
                cases.append(pipeline.Case("s%d" % i, {"main.tsh": src.encode()},
                                           meta=dict(src=src, expected_out="".join(l + "\n" for l in out), expected_status=status, panic_in_func=False, empty_substr=False,
                                                     minint=ks.get("_minint", False), switch_break=False, switch_break_static=False, switch_tag_call=False, range_call=False)))
            # directed programs (corpus/C05): identifiers that differ only in letter case (known finding batch-names-case-insensitive)
            flags = dict(panic_in_func=False, empty_substr=False, minint=False, switch_break=False, switch_break_static=False, switch_tag_call=False, range_call=False)
            for name, src, exp, clash in DIRECTED:
                cases.append(pipeline.Case("d-" + name, {"main.tsh": src.encode()}, meta=dict(src=src, expected_out=exp, expected_status=0, case_clash=clash, **flags)))
            # the directed programs of the function / scope / spelling properties (written for the Bash target, hand-computed output):
            # the same meaning under cmd.exe's rules (round 8: C10-B, C15-A - Batch-only changes of how locals and lengths are named)
            import semprop
            for prop in ("C01", "C02", "C03", "C04", "C07", "C10"):
                for name, j in semprop.load_corpus(prop):
                    cases.append(pipeline.Case("c-%s-%s" % (prop, name), semprop.corpus_files(j),
                                               meta=dict(src=j["src"], expected_out="".join(l + "\n" for l in j["stdout"]), expected_status=j["status"], case_clash=False,
                                                         corpus=True, **flags)))
        pipeline.run_pipe(b, cases, "w")
        pipeline.model_batch(b, cases)
        for c in cases:
            cls, pl = c.out.get("BATCH", ("MISSING", ""))
            impl = "OK " + pl if cls == "OK" else cls
            if c.meta.get("model_batch") != impl:
                dis.append(c)
            if cls != "OK":
                fails.append((c, "not transpiled: %s %s" % (cls, bytes.fromhex(pl).decode("utf-8", "replace")[:200] if pl else ""), None))
        runnable = [c for c in cases if c.out.get("BATCH", ("", ""))[0] == "OK"]
        sims = common.pmap_proc(_sim, [bytes.fromhex(c.out["BATCH"][1]).decode("utf-8", "replace") for c in runnable], chunksize=4)
        for c, r in zip(runnable, sims):
            outcome[r[0]] = outcome.get(r[0], 0) + 1
            if c.meta.get("corpus") and r[0] == "stuck":
                continue            # files, programs: outside the cmd model (the Bash side of those programs is executed for real)
            if r[0] != "ok" or r[1] != c.meta["expected_out"] or r[2] != c.meta["expected_status"]:
                fails.append((c, "behaviour under the cmd model", r))
            probs = batchcheck.analyse(bytes.fromhex(c.out["BATCH"][1]).decode("utf-8", "replace"))
            for pr_ in probs:           # every problem is classified on its own: a known one must not hide a new one
                fails.append((c, "structure: " + pr_, None))
        # the two Lean semantic models of the Batch target (Sem/Src32: meaning of the AST with 32-bit integers, Sem/Cmd: meaning of the
        # emitted lines) next to the 32-bit reference and the cmd model of lib/cmdsim.py on the same programs: the tie of the definitions
        # the theorem C05S.batch_preserves_straight_line_semantics_partial is about
        semb = [(c, r) for c, r in zip(runnable, sims) if len(c.files) == 1]
        answers = pipeline.model_lines(b, ["SEMB" + pipeline.parse_request(c)[5:] for c, _ in semb])
        for (c, r), a in zip(semb, answers):
            parts = a.split(" ")
            SEMB["cases"] += 1
            if parts[0] != "SEMB" or len(parts) != 6:
                semdis.append((c, "SEMB: " + a[:200], "SEMB <src32> <cmd> <S|C|L|F|N> <tree> <lines>"))
                continue
            src32, cmd, flag, tree, lines = parts[1:]
            if flag == "N":
                continue
            SEMB["in_scalar_fragment"] += 1
            SEMB["in_theorem_fragment"] += flag == "S"
            SEMB["in_conditional_theorem_fragment"] += flag in ("S", "C")
            SEMB["in_scalar_theorem_fragment"] += flag in ("S", "C", "L")
            want = "%d:%s" % (c.meta["expected_status"], c.meta["expected_out"].encode().hex())
            sim = "%d:%s" % (r[2], r[1].encode().hex()) if r[0] == "ok" else None
            agree = sim == want          # the real script does, under the cmd model, what the reference says
            if tree != "U":
                SEMB["tree_defined"] += 1
                if cmd != "U" and tree != cmd:
                    semdis.append((c, "SEMB-TREE: the block tree Sem/CmdTree (rebuilt from the lines, executed by execBs) says " + tree,
                                   "the line-level machine Sem/Cmd.runPC says " + cmd))
                if sim is not None and tree != sim:
                    semdis.append((c, "SEMB-TREE: the block tree Sem/CmdTree says " + tree, "lib/cmdsim.py says " + sim))
            if lines != "U":
                # the line-level semantics Sem/CmdLines (labels, goto to the first definition, bracket-counting skip of false blocks):
                # the definition `batch_script_lines_preserve_scalar_semantics` is about, executed by `lrun` (sound for `LRun`)
                SEMB["lines_defined"] += 1
                if cmd != "U" and lines != cmd:
                    semdis.append((c, "SEMB-LINES: the line-level semantics Sem/CmdLines (lrun) says " + lines,
                                   "the program-counter machine Sem/Cmd.runPC says " + cmd))
                if sim is not None and lines != sim:
                    semdis.append((c, "SEMB-LINES: the line-level semantics Sem/CmdLines (lrun) says " + lines, "lib/cmdsim.py says " + sim))
            if flag in ("S", "C", "L") and src32 != "U" and lines != src32:
                semdis.append((c, "SEMB-THM: a program of the fragment of batch_script_lines_preserve_scalar_semantics: Sem/Src32 says " + src32,
                               "the line-level semantics says " + lines))
            if flag in ("S", "C", "L") and src32 != "U" and tree != src32:
                semdis.append((c, "SEMB-THM: a program of the fragment of batch_preserves_scalar_semantics: Sem/Src32 says " + src32,
                               "the block tree says " + tree))
            if src32 != "U":
                SEMB["src32_defined"] += 1
                if agree and src32 != want:
                    semdis.append((c, "SEMB-SRC: the 32-bit source semantics Sem/Src32 says " + src32, "the 32-bit reference interpreter says " + want))
            if cmd != "U":
                SEMB["cmd_defined"] += 1
                if sim is not None and cmd != sim:
                    semdis.append((c, "SEMB-CMD: the Lean cmd model Sem/Cmd says " + cmd, "lib/cmdsim.py says " + sim))
            if src32 != "U" and cmd != "U":
                SEMB["both"] += 1
                if src32 != cmd:
                    semdis.append((c, "SEMB-THM: Sem/Src32 says " + src32, "Sem/Cmd says " + cmd))
            if flag in ("S", "C", "L") and src32 != "U" and cmd == "U":
                semdis.append((c, "SEMB-THM: a program of the theorem's fragment runs in Sem/Src32 (" + src32 + ") but not in Sem/Cmd", "U"))
        ncases += len(cases)
        distinct |= {hash(c.meta["src"]) for c in cases}
        if first_case is None and cases:
            first_case = dict(program=cases[0].meta["src"][:400], expected_stdout=cases[0].meta["expected_out"][:200])
        keep = {id(c) for c in dis} | {id(f[0]) for f in fails} | {id(d[0]) for d in semdis}
        for c in cases:
            if id(c) not in keep:
                c.out.clear()
        if len(fails) > 200:
            break
    res.coverage.update(dict(
        evaluations=ncases,
        distinct_nontrivial=len(distinct),
        rule="generated programs of the scalar, function, slice/string and effect fragments with 32-bit integers and a cmd-neutral string alphabet; the "
             "implementation's Batch script is executed by a line-oriented model of cmd.exe (parse-time %-expansion, run-time !-expansion, goto with "
             "forward-then-wrap label search, numeric-vs-string IF, call/exit /B frames, 32-bit set /A, for /f over a literal) and compared with the 32-bit "
             "reference result; the cmd model is validated on every run against the expected outputs of the suite's shared test bodies; distinct = programs",
        samples=[first_case],
        cmd_model_validation=dict(test_bodies=len(ccases), reproduced=len(ccases) - len(calib_bad)),
        cmd_model_outcomes=outcome,
        generator_distribution=kinds,
        correspondence=dict(stage="batch script of the whole model pipeline (lexer, parser, transpiler, Model.ConvBatch)", compared=ncases, disagreements=len(dis)),
        oracle_failures=len(fails),
        semantic_models=dict(SEMB, disagreements=len(semdis),
                             rule="the Lean semantic models of the Batch target on the single-file programs of the scalar fragment: Sem/Src32 (meaning of the AST, "
                                  "32-bit) vs the 32-bit reference interpreter, Sem/Cmd (program-counter machine over the emitted lines), Sem/CmdTree (block tree rebuilt from the lines) "
                                  "and Sem/CmdLines (lrun: the line-level semantics of batch_script_lines_preserve_scalar_semantics) vs lib/cmdsim.py on the "
                                  "rendered script, and Sem/Src32 vs Sem/Cmd (an instance of C05S.batch_preserves_straight_line_semantics_partial where the program is "
                                  "straight-line)"),
    ))
    res.assumptions += ["no cmd.exe exists in the sandbox: 'cmd.exe's rules' are those of lib/cmdsim.py (DESIGN.md appendix F), calibrated on the suite's expectations",
                        "32-bit reference semantics = the Python reference interpreter with BITS=32"]
    if calib_bad:
        # a test body of the repository's own suite, with the output that suite expects: a concrete failing input
        cid, got, cc = calib_bad[0]
        res.violation("oracle", dict(what="a program of the repository's test suite no longer gives the output the suite expects when its Batch script "
                                          "is run under the cmd model (which is unchanged and reproduces all of these expectations on the unchanged tree)",
                                     program=cc.meta["src"], expected_stdout=cc.meta["exp"], expected_error=cc.meta["err"], got=got,
                                     script=bytes.fromhex(cc.out["BATCH"][1]).decode("utf-8", "replace") if cc.out.get("BATCH", ("", ""))[0] == "OK" else None,
                                     other_cases=[(a, g) for a, g, _ in calib_bad[1:5]]))
    real = []
    for c, what, r in fails:
        if c.meta.get("case_clash") and what.startswith(("behaviour", "structure: label")) and res.known_finding("batch-names-case-insensitive", what):
            continue
        if c.meta["panic_in_func"] and res.known_finding("panic-in-function-returns-to-caller", what):
            continue
        if c.meta["empty_substr"] and res.known_finding("substring-of-empty-string", what):
            continue
        if c.meta.get("switch_break") and res.known_finding("break-in-switch", what):
            continue
        if c.meta.get("switch_tag_call") and what.startswith("behaviour") and res.known_finding("switch-tag-evaluated-per-case", what):
            continue
        if c.meta.get("range_call") and what.startswith("behaviour") and res.known_finding("range-expression-re-evaluated", what):
            continue
        if c.meta.get("switch_break_static") and what.startswith("not transpiled: ERR break outside of a loop") and res.known_finding("break-in-switch", what):
            continue
        if c.meta["minint"] and r and r[0] == "stuck" and "number too large" in r[1] and res.known_finding("minint32-not-rereadable", what):
            continue
        real.append((c, what, r))
    for c, what, r in real[:3]:
        res.violation("oracle", dict(what=what, program=c.meta["src"], expected_stdout=c.meta["expected_out"], expected_status=c.meta["expected_status"],
                                     cmd_model=str(r)[:1500] if r else None,
                                     script=bytes.fromhex(c.out["BATCH"][1]).decode("utf-8", "replace") if c.out.get("BATCH", ("",))[0] == "OK" else None))
    if dis:
        c = dis[0]
        common.log("first disagreement:", c.id, c.meta.get("model_batch", "")[:80], "|", str(c.out.get("BATCH"))[:80])
    if not real and not calib_bad and not dis and pr["ok"] and semdis:
        c, m, i = semdis[0]
        res.violation("correspondence", dict(stage="semantic models of the Batch target", src=c.meta["src"], model=m[:4000], implementation=i[:4000],
                                             disagreements=len(semdis)), no_input=True)
    if not real and not calib_bad and (dis or not pr["ok"]):
        if dis:
            c = dis[0]
            res.violation("correspondence", dict(stage="batch script", src=c.meta["src"], model=c.meta.get("model_batch", "")[:2000],
                                                 implementation=str(c.out.get("BATCH"))[:2000], disagreements=len(dis)), no_input=True)
        else:
            res.violation("theorem", dict(broken=pr["broken"], log=pr["log"][-3000:]), no_input=True)
