"""C01 - Bash target preserves scalar expression and control-flow semantics."""
import gen_prog
import semprop


def cfgs(tier):
    deep = tier != "quick"
    return [(3, gen_prog.Cfg(max_depth=4 if not deep else 6, max_nest=3 if not deep else 4)),
            (1, gen_prog.Cfg(max_depth=2, max_nest=4 if not deep else 5, max_stmts=4))]


def transform(rng, prog):
    # half of the programs: loops at the same nesting depth re-use their loop variable names (legal: the scopes are disjoint)
    return gen_prog.reuse_loop_vars(prog) if rng.random() < 0.5 else prog


def run(res, b, tier, seed):
    semprop.run_semantic(res, b, tier, seed, "C01", cfgs, transform)
