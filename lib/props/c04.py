"""C04 - Operands are evaluated exactly once, in source order, conditions eagerly."""
import common
import gen_prog
import pipeline
import semprop


def cfgs(tier):
    return [(1, gen_prog.Cfg(funcs=True, slices=True, strops=True, effects=True, max_depth=4, max_nest=3))]


def transform(rng, prog):
    return gen_prog.add_tracers(prog)


def _cmd(script):
    import cmdsim
    try:
        out, st = cmdsim.run(script)
        return ("ok", out, st)
    except cmdsim.Stuck as e:
        return ("stuck", str(e), None)
    except cmdsim.Budget:
        return ("budget", "", None)
    except (RecursionError, MemoryError):
        return ("budget", "recursion/memory", None)


_DONE = {}


def batch_directed(b, cases):
    """the property is not about one target: the directed programs (hand-computed traces of evaluation order, of this property and of
    the call / control-flow properties) also run as Batch scripts under the cmd model of C05 (round 9: C04-B, a Batch-only change of the
    loop bookkeeping that skips the step expression of a loop)"""
    if _DONE.get("x"):
        return []
    _DONE["x"] = True
    extra = []
    for prop in ("C04", "C02", "C01"):
        for name, j in semprop.load_corpus(prop):
            extra.append(pipeline.Case("batch-%s-%s" % (prop, name), semprop.corpus_files(j),
                                       meta=dict(expected_out=j["stdout"], expected_status=j["status"], src=j["src"])))
    pipeline.run_pipe(b, extra, "w")
    ok = [c for c in extra if c.out.get("BATCH", ("", ""))[0] == "OK"]
    fails = []
    for c, r in zip(ok, common.pmap_proc(_cmd, [bytes.fromhex(c.out["BATCH"][1]).decode("utf-8", "replace") for c in ok], chunksize=2)):
        if r[0] != "ok":
            continue                    # files, programs, budget: outside the cmd model
        want = "".join(l + "\n" for l in c.meta["expected_out"])
        if r[1] != want or r[2] != c.meta["expected_status"]:
            fails.append((c, "batch-behaviour", dict(want_stdout=want, under_cmd_model=str(r)[:800])))
    return fails


def run(res, b, tier, seed):
    _DONE.clear()
    semprop.run_semantic(res, b, tier, seed, "C04", cfgs, transform, extra_oracle=batch_directed)
