"""C04 - Operands are evaluated exactly once, in source order, conditions eagerly."""
import gen_prog
import semprop


def cfgs(tier):
    return [(1, gen_prog.Cfg(funcs=True, slices=True, strops=True, effects=True, max_depth=4, max_nest=3))]


def transform(rng, prog):
    return gen_prog.add_tracers(prog)


def run(res, b, tier, seed):
    semprop.run_semantic(res, b, tier, seed, "C04", cfgs, transform)
