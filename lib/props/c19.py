"""C19 - The tsh command writes exactly the library's output, or nothing."""
import itertools
import os
import random
import shutil
import subprocess
import tempfile

import common
import pipeline

GOOD = 'x := 3\nfor i := 0; i < x; i++ {\n\tprint("line", i)\n}\n'
PROGRAMS = {
    "good": GOOD,
    "good2": 'func f(a int) int {\n\treturn a * 2\n}\nprint(f(21))\n',
    "lexerr": 'x := "unterminated\n',
    "synerr": 'if x {\n',
    "typeerr": 'x := 1 + "a"\n',
    # output that contains CR LF, CR and a trailing blank inside the script text (round 7: C19-8, line ends "normalised" before writing)
    "crlf": 'line := "Content-Type: text/plain\\r\\n"\nprint(line + "x\\r", len(line))\nraw := `a \r\nb`\nprint(raw)\n',
    "batcherr": 'x := 1\nswitch x {\ncase 1:\n\tbreak\n}\n',      # accepted for bash, conversion error for batch
    # every counter of the pipeline is used several times: helper variables, loops, functions, slices, multi-assignment temporaries, if
    # labels, helper routines, an import (round 9: C19-A, a counter on the transpiler object that is not reset between the targets of one
    # invocation - the second target's file differed from the library's result)
    "rich": 'import "strings"\nfunc two(a int, b string) (int, string) {\n\tx, y := a + 1, b + "!"\n\tx, y = x * 2, y + y\n\treturn x, y\n}\np, q := two(1, "a")\np, q = two(p, q)\nxs := []int{1, 2}\nys := []int{0}\nn := copy(ys, xs)\nxs[3] = p\nfor i := 0; i < 2; i++ {\n\tfor j, v := range xs {\n\t\tif v > 1 && j != 0 {\n\t\t\tcontinue\n\t\t} else if v == 0 {\n\t\t\tbreak\n\t\t}\n\t\tprint(i, j, v)\n\t}\n}\nswitch q {\ncase "x":\n\tprint(1)\ndefault:\n\tprint(strings.Repeat(q[0:1], n), len(q), len(xs))\n}\na, b, c := 1, 2, 3\na, b, c = c, a, b\nprint(a, b, c)\n',
}
NAMES = ["prog.tsh", "a.b.c.tsh", "noext", "my prog.tsh", ".hidden", "x.sh", "deep/er/p.tsh", "x.bat",
         # stems that end in a character of their own extension, repeated extensions, one-letter names (round 5: C19-6)
         "tests.tsh", "s.tsh", "greet.tsh", "h.tsh", "t.t", "ss.s", "x.tsh.tsh", "a..tsh", "tsh", "tsh.tsh", "sh.sh", "deep/er/tst.tsh",
         # characters that mean something to a formatting function, a shell or a path routine (round 8: C19-A, the stem used as a format string)
         "100%done.tsh", "50%.tsh", "a%sb.tsh", "rate 5%% up.tsh", "a%.0s.tsh", "%d.tsh", "%v%v.tsh", "a$b.tsh", "a*b.tsh", "a'b.tsh", "a\\b.tsh", "{x}.tsh", "a;b.tsh",
         "~.tsh", "a&b.tsh", "#c.tsh", "[z].tsh", "deep/er/q%s.tsh"]


def rand_name(rng):
    """a file name over an alphabet that contains the characters of the usual extensions"""
    while True:
        stem = "".join(rng.choice("tshab. x-T%$*{}'") for _ in range(rng.randint(0, 5)))
        ext = rng.choice([".tsh", ".tsh", ".tsh", ".t", ".sh", ".txt", "", ".TSH", ".h", ".bat", ".s"])
        name = stem + ext
        if name and name not in (".", "..", "out", "out2", "nodir", "nothere.tsh") and not name.startswith("-"):
            return name


def snapshot(root):
    tree = {}
    for r, ds, fs in os.walk(root):
        for d in ds:
            tree[os.path.relpath(os.path.join(r, d), root) + "/"] = None
        for f in fs:
            p = os.path.join(r, f)
            tree[os.path.relpath(p, root)] = open(p, "rb").read()
    return tree


def gen_cases(rng, n):
    cases = []
    for _ in range(n):
        name = rng.choice(NAMES) if rng.random() < 0.6 else rand_name(rng)
        prog = rng.choice(list(PROGRAMS))
        out = rng.choice(["out", ".", "out", "out/", "./out", "out2/sub", "{ABS}", "{ABS}/out", "{ABS}/./out/", "out/../out", "./out/.", "out2/../."])
        targets = rng.choice([["bash"], ["batch"], ["bash", "batch"], ["batch", "bash"], ["bash", "bash"], ["bash", "batch", "bash"], ["batch", "batch"]])
        pairs = [("-i" if rng.random() < 0.7 else "--in", name), ("-o" if rng.random() < 0.7 else "--out", out)]
        pairs += [("-t" if rng.random() < 0.7 else "--type", t) for t in targets]
        kind = "normal"
        k = rng.random()
        setup = {}
        if k < 0.06:
            kind = "unknown-option"
            pairs.append(("-x", "1"))
        elif k < 0.10:
            kind = "missing-in"
            pairs = [p for p in pairs if p[0] not in ("-i", "--in")]
        elif k < 0.14:
            kind = "missing-out"
            pairs = [p for p in pairs if p[0] not in ("-o", "--out")]
        elif k < 0.18:
            kind = "missing-type"
            pairs = [p for p in pairs if p[0] not in ("-t", "--type")]
        elif k < 0.22:
            kind = "bad-type"
            pairs.append(("-t", "powershell"))
        elif k < 0.26:
            kind = "no-such-input"
            pairs = [(a, "nothere.tsh") if a in ("-i", "--in") else (a, v) for a, v in pairs]
        elif k < 0.29:
            kind = "input-is-dir"
            pairs = [(a, "out") if a in ("-i", "--in") else (a, v) for a, v in pairs]
        elif k < 0.33:
            kind = "output-is-file"
            pairs = [(a, name) if a in ("-o", "--out") else (a, v) for a, v in pairs]
        elif k < 0.36:
            kind = "no-such-output"
            pairs = [(a, "nodir") if a in ("-o", "--out") else (a, v) for a, v in pairs]
        elif k < 0.44:
            kind = "output-name-occupied-by-directory"
            setup["blockdir"] = True
        elif k < 0.50:
            kind = "odd-argument-count"
        elif k < 0.58:
            kind = "stale-output-present"           # a longer file with the output's name is already there
            setup["stale"] = True
        elif k < 0.68:
            # a NEWER file of exactly the new output's size but other content is there (round 9: C19-B, "up to date" outputs left alone)
            kind = "stale-output-present"
            setup["stale_same_size"] = True
        # options in random order (the order of the -t options among themselves is kept meaningful: it is the write order)
        rng.shuffle(pairs)
        args = [x for p in pairs for x in p]
        if kind == "odd-argument-count":
            args.append(rng.choice(["-t", "extra", "-i"]))
        cases.append(dict(name=name, prog=prog, args=args, kind=kind, setup=setup))
    # directed: the output file would be the input file, the shared directory spelled in different ways
    for name, t in (("x.sh", "bash"), ("x.bat", "batch")):
        for out in (".", "./", "{ABS}", "{ABS}/.", "out/..", "out2/sub/../.."):
            for prog in ("good", "good2"):
                cases.append(dict(name=name, prog=prog, args=["-i", name, "-o", out, "-t", t], kind="normal", setup={}))
                cases.append(dict(name=name, prog=prog, args=["-t", t, "-o", out, "-i", "./" + name], kind="normal", setup={}))
    # directed: the input is not in the working directory and the output directory is given relative to it (round 6: C19-7)
    for name in ("deep/er/p.tsh", "out2/q.tsh", "./deep/er/p.tsh", "deep/../deep/er/p.tsh"):
        for out in (".", "out", "./out", "out2/sub", "{ABS}/out") + (("deep/er", "deep") if "deep" in name else ("out2",)):
            for prog, ts in (("good", ["bash"]), ("good2", ["batch", "bash"]), ("batcherr", ["bash", "batch"])):
                args = ["-i", name, "-o", out] + [x for t in ts for x in ("-t", t)]
                cases.append(dict(name=os.path.normpath(name), prog=prog, args=args, kind="normal", setup={}))
    for ts in (["bash"], ["batch"], ["bash", "batch"], ["batch", "bash"]):
        cases.append(dict(name="prog.tsh", prog="crlf", args=["-i", "prog.tsh", "-o", "out"] + [x for t in ts for x in ("-t", t)], kind="normal", setup={}))
    return cases


def run_case(b, case, lib):
    d = tempfile.mkdtemp(prefix="tshcli-")
    try:
        os.makedirs(os.path.join(d, "out"))
        os.makedirs(os.path.join(d, "out2", "sub"))
        src = PROGRAMS[case["prog"]].encode()
        p = os.path.join(d, case["name"])
        os.makedirs(os.path.dirname(p), exist_ok=True)
        open(p, "wb").write(src)
        if case["setup"].get("blockdir"):
            base = os.path.basename(case["name"])
            stem = base[:len(base) - len(os.path.splitext(case["name"])[1])] if not base.startswith(".") or base.count(".") > 1 else ""
            # go's filepath.Ext(".hidden") is ".hidden" -> empty stem
            import posixpath
            ext = ""
            i = base.rfind(".")
            if i >= 0:
                ext = base[i:]
            stem = base[:len(base) - len(ext)]
            for e in ("sh", "bat"):
                for o in ("out", ".", "out2/sub"):
                    q = os.path.join(d, o, stem + "." + e)
                    if not os.path.exists(q):
                        os.makedirs(q)
        if case["setup"].get("stale"):
            base = os.path.basename(case["name"])
            i = base.rfind(".")
            stem = base[:i] if i >= 0 else base
            for e in ("sh", "bat"):
                for o in ("out", ".", "out2/sub"):
                    q = os.path.join(d, o, stem + "." + e)
                    if not os.path.exists(q):
                        open(q, "wb").write(b"# stale output of an earlier run\n" * 400)
        if case["setup"].get("stale_same_size"):
            base = os.path.basename(case["name"])
            i = base.rfind(".")
            stem = base[:i] if i >= 0 else base
            for e, t in (("sh", "bash"), ("bat", "batch")):
                want = lib.get((case["prog"], t), "ERR")
                if not want.startswith("OK"):
                    continue
                data = bytearray(bytes.fromhex(want[2:]))
                for j in range(len(data)):
                    if data[j:j + 1].isalpha():
                        data[j] = ord("Z") if data[j] != ord("Z") else ord("Y")
                for o in ("out", ".", "out2/sub"):
                    q = os.path.join(d, o, stem + "." + e)
                    if not os.path.exists(q) and os.path.normpath(q) != os.path.normpath(p):
                        open(q, "wb").write(bytes(data))
                        os.utime(q, (4102444800, 4102444800))       # year 2100: newer than any input
        before = snapshot(d)
        real_args = [a.replace("{ABS}", d) for a in case["args"]]
        try:
            pr = subprocess.run([b.tsh] + real_args, cwd=d, stdout=subprocess.PIPE, stderr=subprocess.PIPE, timeout=120)
            status = pr.returncode
        except subprocess.TimeoutExpired:
            status = -9
        after = snapshot(d)
        return dict(status=status, before=before, after=after)
    finally:
        shutil.rmtree(d, ignore_errors=True)


def model_request(case, before, lib):
    files = [(k, v) for k, v in before.items() if v is not None]
    dirs = ["."] + [k.rstrip("/") for k, v in before.items() if v is None]
    parts = ["CLI", lib[(case["prog"], "bash")], lib[(case["prog"], "batch")], str(len(files))]
    for k, v in files:
        parts += [k.encode().hex(), v.hex()]
    parts.append(str(len(dirs)))
    parts += [x.encode().hex() for x in dirs]
    margs = [a.replace("{ABS}/", "./").replace("{ABS}", ".") for a in case["args"]]       # the working directory spelled absolutely
    parts.append(str(len(margs)))
    parts += [a.encode().hex() for a in margs]
    return " ".join(parts)


def run(res, b, tier, seed):
    rng = random.Random(seed * 577 + 19)
    pr = common.prove("C19")
    common.proof_coverage(res, pr)
    if b.harness_error or b.model_error:
        res.violation("build", dict(harness=b.harness_error, model=b.model_error), no_input=True)
        return
    # what the library returns for each program and target
    pcs = [pipeline.Case(name, {"main.tsh": src.encode()}) for name, src in PROGRAMS.items()]
    pipeline.run_pipe(b, pcs, "sw")
    lib = {}
    for c in pcs:
        for t, key in (("bash", "BASH"), ("batch", "BATCH")):
            cls, payload = c.out.get(key, ("MISSING", ""))
            lib[(c.id, t)] = "OK" + payload if cls == "OK" else "ERR"
    cases = gen_cases(rng, 250 if tier == "quick" else 3000)
    results = common.pmap(lambda c: run_case(b, c, lib), cases)
    answers = pipeline.model_lines(b, [model_request(c, r["before"], lib) for c, r in zip(cases, results)])
    dis, fails = [], []
    kinds = {}
    for c, r, a in zip(cases, results, answers):
        kinds[c["kind"]] = kinds.get(c["kind"], 0) + 1
        before, after = r["before"], r["after"]
        changed = {k: v for k, v in after.items() if before.get(k, "absent") != v}
        removed = [k for k in before if k not in after]
        # model correspondence: exit status and the set of written files
        f = a.split(" ")
        mstatus = int(f[1]) if len(f) > 1 and f[0] == "EXIT" else -1
        mwrites = {}
        for w in f[2:]:
            ph, ch = w.split(":")
            mwrites[bytes.fromhex(ph).decode()] = bytes.fromhex(ch)
        impl_changed = {os.path.normpath(k): v for k, v in changed.items() if v is not None}
        # a write with identical bytes is invisible in the snapshot: drop those from the model's list
        mw = {k: v for k, v in mwrites.items() if before.get(k) != v}
        if (0 if r["status"] == 0 else 2) != mstatus or impl_changed != mw:
            dis.append((c, r["status"], sorted(impl_changed), a[:200]))
        # oracle: the CLI contract
        name = c["name"]
        if after.get(name) != PROGRAMS[c["prog"]].encode():
            fails.append((c, "input modified", r))
        if removed:
            fails.append((c, "files removed: %s" % removed, r))
        targets = [c["args"][i + 1] for i in range(len(c["args"]) - 1) if c["args"][i] in ("-t", "--type")]
        # (an odd number of arguments - an option without its value, or a stray word - is a BAD OPTION: genuine defect repaired in round 12,
        # the trailing argument had been ignored and such invocations had been counted as valid here, copied from the implementation)
        valid = c["kind"] in ("normal", "stale-output-present")
        if valid:
            okall = all(lib[(c["prog"], t)].startswith("OK") for t in targets)
            base = os.path.basename(name)
            i = base.rfind(".")
            stem = base[:i] if i >= 0 else base
            outdir = [c["args"][j + 1] for j in range(len(c["args"]) - 1) if c["args"][j] in ("-o", "--out")][-1]
            outdir = outdir.replace("{ABS}/", "./").replace("{ABS}", ".")
            same_as_input = any(os.path.normpath(os.path.join(outdir, stem + "." + ("sh" if t == "bash" else "bat"))) == os.path.normpath(name) for t in targets)
            if okall and not same_as_input:
                if r["status"] != 0:
                    fails.append((c, "exit status %d for a valid invocation" % r["status"], r))
                for t in set(targets):
                    path = os.path.normpath(os.path.join(outdir, stem + "." + ("sh" if t == "bash" else "bat")))
                    want = bytes.fromhex(lib[(c["prog"], t)][2:])
                    if after.get(path) != want:
                        fails.append((c, "output %s differs from the library's result" % path, r))
                extra = [k for k in impl_changed if k not in {os.path.normpath(os.path.join(outdir, stem + "." + ("sh" if t == "bash" else "bat"))) for t in targets}]
                if extra:
                    fails.append((c, "unexpected files written: %s" % extra, r))
            else:
                extra = [k for k in impl_changed if k not in {os.path.normpath(os.path.join(outdir, stem + "." + ("sh" if t == "bash" else "bat"))) for t in targets}]
                if extra:
                    fails.append((c, "unexpected files written: %s" % extra, r))
                if r["status"] == 0:
                    fails.append((c, "exit status 0 although a target failed", r))
                for t in set(targets):
                    if not lib[(c["prog"], t)].startswith("OK"):
                        path = os.path.normpath(os.path.join(outdir, stem + "." + ("sh" if t == "bash" else "bat")))
                        if path in impl_changed:
                            fails.append((c, "output file of the failing target %s written" % t, r))
        else:
            if r["status"] == 0:
                fails.append((c, "exit status 0 for %s" % c["kind"], r))
            if impl_changed and c["kind"] != "output-name-occupied-by-directory":
                fails.append((c, "files written although the invocation is invalid: %s" % sorted(impl_changed), r))
            if c["kind"] == "output-name-occupied-by-directory" and r["status"] == 0:
                fails.append((c, "write failed silently", r))
    res.coverage.update(dict(
        evaluations=len(cases),
        distinct_nontrivial=len({(tuple(c["args"]), c["prog"], c["name"]) for c in cases}),
        rule="invocations of the tsh binary built from the working tree: shuffled option pairs (short/long forms), 1-3 targets incl. repetitions, 8 input "
             "names (several dots, no extension, blanks, leading dot, sub directory, names equal to their own output), 6 programs (accepted, lexical / "
             "syntax / type error, batch-only conversion error), 11 kinds of invalid invocations incl. an output name occupied by a directory; "
             "oracle: exit status and directory tree before/after vs the library's result; distinct = distinct (args, program, name)",
        samples=[dict(args=cases[0]["args"], program=cases[0]["prog"], kind=cases[0]["kind"])],
        invocation_kinds=kinds,
        correspondence=dict(stage="exit status and written files of Model.Cli.run vs the tsh binary", compared=len(cases), disagreements=len(dis)),
        oracle_failures=len(fails),
    ))
    for c, what, r in fails[:3]:
        res.violation("oracle", dict(what=what, args=c["args"], program=PROGRAMS[c["prog"]], input_name=c["name"], invocation=c["kind"], status=r["status"],
                                     changed=sorted(k for k, v in r["after"].items() if r["before"].get(k, "absent") != v)))
    if not fails and (dis or not pr["ok"]):
        if dis:
            c, st, ch, a = dis[0]
            res.violation("correspondence", dict(stage="cli", args=c["args"], input_name=c["name"], program=c["prog"], invocation=c["kind"], impl_status=st, impl_changed=ch, model=a,
                                                 disagreements=len(dis)), no_input=True)
        else:
            res.violation("theorem", dict(broken=pr["broken"], log=pr["log"][-3000:]), no_input=True)
