"""C02 - Bash target preserves function-call semantics and variable isolation."""
import gen_prog
import semprop


def cfgs(tier):
    deep = tier != "quick"
    return [(1, gen_prog.Cfg(funcs=True, max_depth=3 if not deep else 5, max_nest=3, max_stmts=6)),
            (1, gen_prog.Cfg(funcs=True, slices=True, max_depth=3, max_nest=2, max_stmts=5))]


def transform(rng, prog):
    prog = gen_prog.reuse_names(rng, prog)
    return gen_prog.reuse_loop_vars(prog) if rng.random() < 0.3 else prog


def run(res, b, tier, seed):
    semprop.run_semantic(res, b, tier, seed, "C02", cfgs, transform)
