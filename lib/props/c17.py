"""C17 - write, read and exists behave as a line store over the file system."""
import os
import random

import common
import gen_strings
import pipeline
import semcheck

PATHS = [("f.txt", "f.txt"), ("my file.txt", "my file.txt"), ("dir/g.txt", "dir/g.txt"), ("./f.txt", "f.txt"), ("a'b.txt", "a'b.txt"),
         ("x;y.txt", "x;y.txt"), ("*.txt", "*.txt"), ("-n", "-n"), ("-", "-"), ("--", "--"), ("dir/../h.txt", "h.txt"), ("q\"uote.txt", "q\"uote.txt"),
         # a path and the names a careless implementation could use next to it (round 7: C17-9, write through "<path>.tmp" and mv)
         ("f.txt.tmp", "f.txt.tmp"), ("f.txt~", "f.txt~"), ("f.txt.bak", "f.txt.bak")]


def contents(rng, quick):
    base = [s for _, s in gen_strings.all_strings(True) if "\n" not in s or rng.random() < 0.3]
    return base


def gen_history(rng, strings, idx):
    """a program performing <=6 operations, with its reference result (abstract store: path -> bytes)"""
    store = {}
    out = []
    lines = []
    in_func = rng.random() < 0.4
    need_mk = False
    runtime_path = rng.random() < 0.3
    body = []
    paths = rng.sample(PATHS, 3)
    if rng.random() < 0.25:
        paths = [PATHS[0], rng.choice(PATHS[-3:]), rng.choice(PATHS)]       # f.txt together with f.txt.tmp / f.txt~ / f.txt.bak
    wrap_calls = rng.random() < 0.3        # arguments of write given by function calls (round 7: C17-8, evaluated as "value not used")
    nops = rng.randrange(1, 7)
    meta_strings = []
    for k in range(nops):
        spelled, canon = rng.choice(paths)
        P = gen_strings.go_quote(spelled)
        if runtime_path:
            body.append("p%d := %s" % (k, P))
            P = "p%d" % k
        op = rng.choice(["write", "write", "append", "read", "exists", "exists-special", "exists-pair", "exists-then-create"])
        if op == "exists-then-create":
            # the answer of exists() is the state at the point of its evaluation: a later operand of the same statement creates the file
            need_mk = True
            e0 = 1 if canon in store else 0
            form = rng.random()
            if form < 0.4:
                body.append('print("c", exists(%s), mk(%s), exists(%s))' % (P, P, P))
                out.append("c %d 1 1" % e0)
            elif form < 0.7:
                body.append('print("c", exists(%s) == mk(%s))' % (P, P))
                out.append("c %d" % (1 if e0 == 1 else 0))
            else:
                body.append('print("c", two(exists(%s), mk(%s)))' % (P, P))
                out.append("c %d" % (e0 * 10 + 1))
            store[canon] = b"made\n"
            continue
        if op == "exists-pair":
            # two (or three) queries inside one expression: every one answers for its own path
            qs = [rng.choice(paths) for _ in range(rng.choice([2, 2, 3]))]
            exprs = ["exists(%s)" % gen_strings.go_quote(sp_) for sp_, _ in qs]
            vals = [1 if cn_ in store else 0 for _, cn_ in qs]
            form = rng.random()
            if form < 0.5:
                body.append('print("p", %s)' % ", ".join(exprs))
                out.append("p " + " ".join(str(v) for v in vals))
            elif form < 0.8:
                body.append('print("p", %s)' % " && !".join(exprs[:2]))
                out.append("p %d" % (1 if (vals[0] and not vals[1]) else 0))
            else:
                body.append('print("p", %s)' % " == ".join(exprs[:2]))
                out.append("p %d" % (1 if vals[0] == vals[1] else 0))
            continue
        if op == "exists-special":
            # paths that exist without being regular files: a device, a directory, the working directory
            sp, ex = rng.choice([("/dev/null", 1), (".", 1), ("/", 1), ("/dev", 1), ("/dev/nonexistent-node", 0), ("", 0)])
            body.append('print("x", exists(%s))' % gen_strings.go_quote(sp))
            out.append("x %d" % ex)
            continue
        if op in ("write", "append"):
            s = rng.choice(strings)
            kk = rng.random()
            if kk < 0.2 and meta_strings:
                s = rng.choice(meta_strings)          # a content written before in this history (a write that "changes nothing", or nearly)
            elif kk < 0.3:
                s = ""
            S = gen_strings.go_quote(s)
            have = [(sp_, cn_) for sp_, cn_ in paths if cn_ in store]
            k0 = rng.random()
            if have and k0 < 0.3:
                # the content is read from a file in the same statement (possibly from the file that is written)
                qs_, qc_ = rng.choice(have) if rng.random() < 0.6 or canon not in store else (spelled, canon)
                s = store[qc_].decode().rstrip("\n")
                S = "read(%s)" % gen_strings.go_quote(qs_)
                if k0 < 0.08:
                    s, S = s + "+", S + ' + "+"'
            elif k0 < 0.5:
                body.append("c%d := %s" % (k, S))
                S = "c%d" % k
            meta_strings.append(s)
            # the append flag as a literal, a variable, an expression or the result of exists()
            def flag(v):
                k2 = rng.random()
                if k2 < 0.4:
                    return "true" if v else "false"
                if k2 < 0.6:
                    body.append("a%d := %s" % (k, "true" if v else "false"))
                    return "a%d" % k
                if k2 < 0.8:
                    return "1 == 1" if v else "1 == 2"
                if (canon in store) == v:
                    return "exists(%s)" % P
                return "!exists(%s)" % P
            Pw, Sw = P, S
            if wrap_calls:
                need_mk = True
                if rng.random() < 0.7:
                    Pw = "ids(%s)" % P
                if rng.random() < 0.7:
                    Sw = "ids(%s)" % S
            if op == "write":
                fl = rng.choice(["", ", " + flag(False)])
                if wrap_calls and fl and rng.random() < 0.5:
                    fl = ", idb(%s)" % fl[2:]
                body.append("write(%s, %s%s)" % (Pw, Sw, fl))
                store[canon] = s.encode() + b"\n"
            else:
                fl = flag(True)
                if wrap_calls and rng.random() < 0.5:
                    fl = "idb(%s)" % fl
                body.append("write(%s, %s, %s)" % (Pw, Sw, fl))
                store[canon] = store.get(canon, b"") + s.encode() + b"\n"
        elif op == "read":
            if canon not in store:
                body.append('print("e", exists(%s))' % P)
                out.append("e 0")
            else:
                body.append('print("[" + read(%s) + "]")' % P)
                out.append("[" + store[canon].decode().rstrip("\n") + "]")
        else:
            body.append('print("e", exists(%s))' % P)
            out.append("e %d" % (1 if canon in store else 0))
    # final state is observed through the directory tree; also read every file back
    if need_mk:
        lines += ["func mk(p string) bool {", "\twrite(p, \"made\")", "\treturn true", "}", "func two(a bool, b bool) int {", "\tx := 0", "\tif a {", "\t\tx = 10",
                  "\t}", "\tif b {", "\t\tx = x + 1", "\t}", "\treturn x", "}",
                  "func ids(s string) string {", "\treturn s", "}", "func idb(v bool) bool {", "\treturn v", "}"]
    if in_func:
        lines.append("func ops() {")
        lines += ["\t" + l for l in body]
        lines.append("}")
        lines.append("ops()")
    else:
        lines += body
    src = "\n".join(lines) + "\n"
    return pipeline.Case("h%d" % idx, {"main.tsh": src.encode()},
                         meta=dict(src=src, expected_out="".join(o + "\n" for o in out), store={k: v for k, v in store.items()}, strings=meta_strings, in_func=in_func))


def directed_histories():
    """one file under two spellings of its path, literal paths and literal contents, the later write through the OTHER spelling (round 11:
    C17-D, a transpile-time table "path spelling -> content written last" answering read(<same spelling>)); and a loop whose condition reads
    the file its body rewrites (the condition is evaluated for every round, from the file)"""
    out = []
    pairs = [("f.txt", "./f.txt", "f.txt"), ("./f.txt", "f.txt", "f.txt"), ("h.txt", "dir/../h.txt", "h.txt"), ("dir/g.txt", "./dir/g.txt", "dir/g.txt"),
             ("dir/g.txt", "dir/../dir/g.txt", "dir/g.txt")]
    k = 0
    for p1, p2, canon in pairs:
        for in_func in (False, True):
            body = ['write("%s", "first")' % p1, 'print("1: " + read("%s"))' % p1, 'write("%s", "second")' % p2, 'print("2: " + read("%s"))' % p1,
                    'print("3: " + read("%s"))' % p2, 'write("%s", "more", true)' % p1, 'print("4: " + read("%s"))' % p2]
            exp = ["1: first", "2: second", "3: second", "4: second", "more"]
            lines = (["func ops() {"] + ["\t" + l for l in body] + ["}", "ops()"]) if in_func else body
            src = "\n".join(lines) + "\n"
            out.append(pipeline.Case("dh%d" % k, {"main.tsh": src.encode()},
                                     meta=dict(src=src, expected_out="".join(o + "\n" for o in exp), store={canon: b"second\nmore\n"}, strings=[], in_func=in_func)))
            k += 1
    # an overwriting write when the file holds ALMOST what is written - the same text followed by empty lines, the same text without its end, a
    # longer text with the same beginning: afterwards the file holds the content and one line break, whatever it held (round 15: C17-H, an
    # overwrite skipped when `$(cat < p)` - which drops every trailing line break - equals the new content)
    for s_ in ("alpha", "", "a b", "-n"):
        for pre, n_empty in ((s_, 1), (s_, 2), (s_ + "x", 0), (s_, 0), ("", 2)):
            for in_func in (False, True):
                body = ['write("r.txt", %s)' % gen_strings.go_quote(pre)] + ['write("r.txt", "", true)'] * n_empty + \
                       ['write("r.txt", %s)' % gen_strings.go_quote(s_), 'print("[" + read("r.txt") + "]")', 'write("r.txt", "beta", true)', 'print("[" + read("r.txt") + "]")']
                exp = ["[" + s_ + "]", "[" + s_, "beta]"]
                lines = (["func ops() {"] + ["\t" + l for l in body] + ["}", "ops()"]) if in_func else body
                src = "\n".join(lines) + "\n"
                out.append(pipeline.Case("dh%d" % k, {"main.tsh": src.encode()},
                                         meta=dict(src=src, expected_out="".join(o + "\n" for o in exp), store={"r.txt": (s_ + "\nbeta\n").encode()}, strings=[], in_func=in_func)))
                k += 1
    loop = ('n := 0\nwrite("state.txt", "run")\nfor read("state.txt") == "run" && n < 5 {\n\tn++\n\tif n == 2 {\n\t\twrite("state.txt", "stop")\n\t}\n}\nprint("rounds", n)\n'
            'm := 0\nwrite("./state.txt", "go")\nfor m < 4 && read("state.txt") == "go" {\n\tm++\n\twrite("state.txt", "halt")\n}\nprint("rounds", m)\n')
    out.append(pipeline.Case("dh%d" % k, {"main.tsh": loop.encode()},
                             meta=dict(src=loop, expected_out="rounds 2\nrounds 1\n", store={"state.txt": b"halt\n"}, strings=[], in_func=False)))
    return out


def _exec(arg):
    return semcheck.run_bash(arg, files={"dir/.keep": b""}, keep=True)


def run(res, b, tier, seed):
    rng = random.Random(seed * 4099 + 17)
    pr = common.prove("C17")
    common.proof_coverage(res, pr)
    if b.harness_error or b.model_error:
        res.violation("build", dict(harness=b.harness_error, model=b.model_error), no_input=True)
        return
    strings = contents(rng, tier == "quick")
    cases = directed_histories() + [gen_history(rng, strings, i) for i in range(400 if tier == "quick" else 6000)]
    pipeline.run_pipe(b, cases, "asw")
    pipeline.model_full(b, cases)
    pipeline.model_batch(b, cases)
    dis, fails = [], []
    for c in cases:
        impl = c.out.get("BASH", ("MISSING", ""))
        canon = "OK " + impl[1] if impl[0] == "OK" else impl[0]
        if c.meta.get("model_bash") != canon:
            dis.append(c)
        # the Batch script too (there is no cmd.exe and the cmd model has no files: the Batch side of this property is tied to the Lean
        # rendering of the converter and its helper routines, a change there is reported without a failing input; round 9: C17-B)
        bimpl = c.out.get("BATCH", ("MISSING", ""))
        bcanon = "OK " + bimpl[1] if bimpl[0] == "OK" else bimpl[0]
        if c.meta.get("model_batch") != bcanon and c not in dis:
            c.meta["batch_disagrees"] = True
            dis.append(c)
        if impl[0] != "OK":
            fails.append((c, "not transpiled: " + impl[0], None))
    runnable = [c for c in cases if c.out.get("BASH", ("", ""))[0] == "OK"]
    runs = common.pmap_proc(_exec, [bytes.fromhex(c.out["BASH"][1]) for c in runnable])
    for c, r in zip(runnable, runs):
        tree = {k: v for k, v in r["tree"].items() if k != "dir/.keep"}
        want_tree = {os.path.normpath(k): v for k, v in c.meta["store"].items()}
        problems = []
        if r["stdout"] != c.meta["expected_out"].encode():
            problems.append("stdout")
        if tree != want_tree:
            problems.append("files")
        if r["stderr"] != b"" or r["status"] != 0 or r["timeout"]:
            problems.append("stderr/status")
        if problems:
            fails.append((c, ",".join(problems), dict(stdout=r["stdout"].decode("latin1")[:500], stderr=r["stderr"].decode("latin1")[:300],
                                                    tree={k: v.decode("latin1") for k, v in tree.items()})))
    res.coverage.update(dict(
        evaluations=len(cases),
        distinct_nontrivial=len({c.meta["src"] for c in cases}),
        rule="histories of 1-6 write / append / read / exists operations over 3 of 10 path spellings (blank, quote, apostrophe, semicolon, glob, leading dash, "
             "sub directory, ./ and dir/../ aliases), contents from C08's alphabet, literal or run-time paths and contents, at top level or inside a function; "
             "reference = abstract store path -> bytes; oracle: stdout, final directory tree, empty stderr; distinct = distinct programs",
        samples=[dict(program=cases[0].meta["src"], expected_stdout=cases[0].meta["expected_out"], expected_files={k: v.decode("latin1") for k, v in cases[0].meta["store"].items()})],
        correspondence=dict(stage="AST + bash script (whole model pipeline)", compared=len(cases), disagreements=len(dis)),
        oracle_failures=len(fails),
    ))
    real = []
    for c, what, detail in fails:
        lits = c.meta["src"]
        if ("$" in lits or "`" in lits) and res.known_finding("literal-dollar-backquote-expanded", what):
            continue
        if any(s.endswith("\n") for s in c.meta["strings"]) and res.known_finding("read-strips-trailing-newlines", what):
            continue
        real.append((c, what, detail))
    for c, what, detail in real[:3]:
        res.violation("oracle", dict(what=what, program=c.meta["src"], expected_stdout=c.meta["expected_out"],
                                     expected_files={k: v.decode("latin1") for k, v in c.meta["store"].items()}, got=detail,
                                     script=bytes.fromhex(c.out["BASH"][1]).decode("utf-8", "replace") if c.out.get("BASH", ("",))[0] == "OK" else None))
    if not real and (dis or not pr["ok"]):
        if dis:
            c = dis[0]
            bd = c.meta.get("batch_disagrees")
            res.violation("correspondence", dict(stage="batch script" if bd else "script", src=c.meta["src"],
                                                 model=(c.meta.get("model_batch", "") if bd else c.meta.get("model_bash", ""))[:2000],
                                                 implementation=str(c.out.get("BATCH" if bd else "BASH"))[:2000]), no_input=True)
        else:
            res.violation("theorem", dict(broken=pr["broken"], log=pr["log"][-3000:]), no_input=True)
