"""C16 - Every emitted script is well-formed for its interpreter."""
import os
import random
import subprocess
import tempfile

import sys

sys.path.insert(0, os.path.dirname(__file__))
import batchcheck
import c09
import c13
import common
import gen_prog
import pipeline
import seeds

BUILTIN_SNIPPETS = [
    'x := input("name: ")\nprint(x)\n',
    'y := input()\nprint(y)\n',
    'write("o.txt", "a")\nwrite("o.txt", "b", true)\nprint(read("o.txt"), exists("o.txt"))\n',
    'so, se, code := @ls("-l", "a b") | @grep("x")\nprint(so, code)\n@echo("hi")\n',
    'var s []int\nprint(len(s))\n',
    'a := []string{"x"}\nb := []string{}\nn := copy(b, a)\nprint(n)\n',
    'func e() {\n}\ne()\n',
    'func deep(a int) int {\n\tfor i := 0; i < a; i++ {\n\t\tfor j := 0; j < a; j++ {\n\t\t\tif i == j {\n\t\t\t\tcontinue\n\t\t\t}\n\t\t\tfor {\n\t\t\t\tbreak\n\t\t\t}\n\t\t\tcontinue\n\t\t}\n\t\tif i > 1 {\n\t\t\tbreak\n\t\t}\n\t}\n\treturn a\n}\nprint(deep(2))\n',
    'for i := 0; i < 2; i++ {\n}\nfor j := 0; j < 2; j++ {\n\tcontinue\n}\nfor {\n\tbreak\n}\n',
    'if true {\n} else if false {\n} else {\n}\nswitch {\n}\nswitch 1 {\ndefault:\n}\n',
    's := "abc"\nprint(s[1], s[0:2], len(s))\nfor i, c := range s {\n\tprint(i, c)\n}\n',
    'import "strings"\nprint(strings.Join(strings.Split("a,b", ","), "-"))\n',
    'panic("x")\n',
]


def bash_n(script):
    with tempfile.NamedTemporaryFile(prefix="tshn-", suffix=".sh", delete=False) as fh:
        fh.write(script)
        p = fh.name
    try:
        r = subprocess.run(["/bin/bash", "-n", p], stdout=subprocess.PIPE, stderr=subprocess.PIPE, timeout=90)
        return r.returncode, r.stderr.decode("utf-8", "replace")
    finally:
        os.unlink(p)


def _bash_n(script):
    return bash_n(script)


def run(res, b, tier, seed):
    rng = random.Random(seed * 3571 + 16)
    pr = common.prove("C16")
    common.proof_coverage(res, pr)
    if b.harness_error or b.model_error:
        res.violation("build", dict(harness=b.harness_error, model=b.model_error), no_input=True)
        return
    quick = tier == "quick"
    progs = list(seeds.all_seeds()) + BUILTIN_SNIPPETS
    cfgs = [gen_prog.Cfg(funcs=True, slices=True, strops=True, max_nest=4, max_stmts=5), gen_prog.Cfg(max_nest=5, max_depth=2, max_stmts=3),
            gen_prog.Cfg(funcs=True, max_stmts=8, max_nest=2)]
    for i in range(300 if quick else 6000):
        g = gen_prog.generate(rng, cfgs[i % len(cfgs)])
        if g:
            src = g[1]
            # sprinkle builtins that cannot be executed blindly
            if rng.random() < 0.3:
                src += rng.choice(BUILTIN_SNIPPETS[:6]).replace("x :=", "bx :=").replace("y :=", "by :=").replace("a :=", "ba :=").replace("b :=", "bb :=").replace("n :=", "bn :=").replace("s []int", "bs []int").replace("len(s)", "len(bs)").replace("so, se, code", "bso, bse, bcode").replace("print(so, code)", "print(bso, bcode)").replace("print(x)", "print(bx)").replace("print(y)", "print(by)").replace("copy(b, a)", "copy(bb, ba)").replace("print(n)", "print(bn)")
            progs.append(src)
    # programs the parser may or may not accept: every builtin / operator position filled from an expression zoo, alone in a block
    stmts = c13.ZOO + ["itoa(i)", "len(s)", "exists(s)", "read(s)", "input()", 'input("p")', "copy(xs, xs)", "qi()", "qv()", '@ls("a")', 'write(s, s)', "s[0]", "!b"]
    for st in stmts:
        for form in ("if b {\n\t%s\n}\n", "if b {\n\tprint(1)\n} else if b {\n\t%s\n} else {\n\t%s\n}\n", "for b {\n\t%s\n\tbreak\n}\n", "func g9() {\n\t%s\n}\ng9()\n",
                     "switch i {\ncase 1:\n\t%s\ndefault:\n\t%s\n}\n", "for i9 := 0; i9 < 1; i9++ {\n\t%s\n}\n"):
            progs.append(c13.ZOO_PRELUDE + form.replace("%s", st))
    # the builtins that talk to the outside world as CONDITIONS of every control construct (round 16: C16-I, an else-if whose condition
    # contains input / read / a program call is nested into an else block - and the final else is emitted twice)
    io_conds = ['exists(s)', 'read(s) == "x"', 'input() == "y"', 'input("p") != s', 'len(read(s)) > 0', '!exists(s + "k")', 'b && exists(s)',
                'itoa(len(input())) == s']
    for e in io_conds:
        for form in ("if %s {\n\tprint(1)\n}\n", "if b {\n\tprint(1)\n} else if %s {\n\tprint(2)\n} else {\n\tprint(3)\n}\n",
                     "if b {\n\tprint(1)\n} else if %s {\n\tprint(2)\n}\n",
                     "if %s {\n\tprint(1)\n} else if %s {\n\tprint(2)\n} else if b {\n\tprint(3)\n} else {\n\tprint(4)\n}\n",
                     "if b {\n\tprint(1)\n} else if i == 2 {\n\tprint(2)\n} else if %s {\n\tprint(3)\n} else {\n\tprint(4)\n}\nprint(5)\n",
                     "func g9() int {\n\tif b {\n\t\treturn 1\n\t} else if %s {\n\t\treturn 2\n\t} else {\n\t\tprint(3)\n\t}\n\treturn 4\n}\nprint(g9())\n",
                     "for %s {\n\tbreak\n}\n", "for i9 := 0; %s; i9++ {\n\tbreak\n}\n", "switch {\ncase %s:\n\tprint(1)\ndefault:\n\tprint(2)\n}\n",
                     "switch {\ncase b:\n\tprint(1)\ncase %s:\n\tprint(2)\ndefault:\n\tprint(3)\n}\n",
                     "for i9 := 0; i9 < 2; i9++ {\n\tif b {\n\t\tcontinue\n\t} else if %s {\n\t\tbreak\n\t} else {\n\t\tprint(i9)\n\t}\n}\n"):
            progs.append(c13.ZOO_PRELUDE + form.replace("%s", e))
    for form in ('switch read(s) {\ncase "a":\n\tprint(1)\ncase input():\n\tprint(2)\ndefault:\n\tprint(3)\n}\n',
                 'so9, se9, c9 := @ls("a")\nif b {\n\tprint(1)\n} else if c9 == 0 {\n\tprint(so9)\n} else {\n\tprint(se9)\n}\n'):
        progs.append(c13.ZOO_PRELUDE + form)
    for src in c13.builtin_near_misses(rng, 150 if quick else 4000):
        progs.append(src)
    # string literals with characters that mean something to the shells, in every place a literal can stand (round 9: C16-A, the quote of a
    # literal escaped before the backslash: `\\"` ends the shell string)
    import gen_strings
    literal_of = {}
    for lit in ['a"b', '"', '\\', '\\"', '"\\', "a'b", "'", '$(', '`', '${', '$((', ')', '(', ';', '&&', '|', '>', '<', '#', '!', '*', '%', '^', 'a\nb"c', '\t', '"" ""', '\\\\', '%%', '^^"', '&', '\\n']:
        q = gen_strings.go_quote(lit)
        literal_of[len(progs)] = lit
        progs.append('v := %s\nprint(%s, v + %s, v == %s, len(%s))\nsl := []string{%s, "k"}\nsl[1] = %s\nfunc f(p string) string {\n\treturn p + %s\n}\nprint(f(%s))\n'
                     'write("o.txt", %s)\nwrite("p.txt", %s, true)\nprint(exists("o.txt"), read("o.txt") == %s)\n@echo(%s, "x" + %s)\nso, se, code := @printf("%%s", %s) | @cat()\n'
                     'switch v {\ncase %s:\n\tprint(1)\n}\nfor i, ch := range %s {\n\tprint(i, ch)\n}\nif v != %s {\n\tpanic(%s)\n}\nname := input(%s)\n'
                     % ((q,) * 20))
    # identifiers that are reserved words of the shells (known finding reserved-identifiers-not-rejected)
    reserved_progs = ["func %s() {\n\tprint(1)\n}\n%s()\n" % (w, w) for w in ("fi", "done", "then", "esac", "do", "elif")]
    progs += reserved_progs
    cases = [pipeline.Case("p%d" % i, {"main.tsh": p.encode()}, meta=dict(src=p, literal=literal_of.get(i))) for i, p in enumerate(progs)]
    # multi-file programs: import graphs with aliases, diamonds, top-level code in imported files
    for i in range(60 if quick else 1200):
        gc = c09.gen_case(rng, i)
        cases.append(pipeline.Case("m%d" % i, gc.files, meta=dict(multipath=bool(gc.meta.get("multipath")),
                                                               src="\n".join("// file %s\n%s" % (k, v.decode("utf-8", "replace")) for k, v in gc.files.items()))))
    # std/strings imported by two files of one program, every library function reachable from both (round 7: C16-9 - a private helper
    # added to the library is emitted once per importing file; private functions of USER files reached twice are the known finding, the
    # library has none today)
    calls = ['strings.Index("abab", "b")', 'strings.Contains("ab", "b")', 'strings.Join([]string{"a", "b"}, "-")', 'strings.HasPrefix("ab", "a")',
             'strings.HasSuffix("ab", "b")', 'strings.Count("aab", "a")', 'len(strings.Split("a,b", ","))', 'strings.Repeat("ab", 2)',
             'strings.Replace("aab", "a", "x", 1)', 'strings.ReplaceAll("aab", "a", "x")', 'strings.TrimPrefix("ab", "a")', 'strings.TrimSuffix("ab", "b")',
             'strings.TrimLeft("aab", "a")', 'strings.TrimRight("abb", "b")', 'strings.Trim("aba", "a")', 'strings.TrimSpace(" a ")']
    util = 'import "strings"\nfunc All() {\n' + "".join("\tprint(%s)\n" % c_ for c_ in calls) + '\tu1, u2, u3 := strings.Cut("a=b", "=")\n\tprint(u1, u2, u3)\n}\n'
    mainf = 'import (\n\t"strings"\n\tu "util.tsh"\n)\nu.All()\n' + "".join("print(%s)\n" % c_ for c_ in calls) + 'm1, m2 := strings.CutPrefix("ab", "a")\nprint(m1, m2)\n'
    cases.append(pipeline.Case("std-twice", {"main.tsh": mainf.encode(), "util.tsh": util.encode()}, meta=dict(multipath=False, src="// file main.tsh\n" + mainf + "// file util.tsh\n" + util)))
    # every small graph with a file reached twice x importing files with / without top-level code (deterministic; see c09.directed_graphs)
    for gc in c09.directed_graphs(random.Random(16)):
        cases.append(pipeline.Case("dg" + gc.id, gc.files, meta=dict(multipath=bool(gc.meta.get("multipath")),
                                                                    src="\n".join("// file %s\n%s" % (k, v.decode("utf-8", "replace")) for k, v in gc.files.items()))))
    pipeline.run_pipe(b, cases, "sw")
    pipeline.model_full(b, cases)
    pipeline.model_batch(b, cases)
    dis = []
    for c in cases:
        for key, mk in (("BASH", "model_bash"), ("BATCH", "model_batch")):
            cls, pl = c.out.get(key, ("MISSING", ""))
            impl = "OK " + pl if cls == "OK" else cls
            if c.meta.get(mk) != impl:
                dis.append((c, key))
    accepted = [c for c in cases if c.out.get("BASH", ("", ""))[0] == "OK"]
    fails = []
    rs = common.pmap_proc(_bash_n, [bytes.fromhex(c.out["BASH"][1]) for c in accepted])
    for c, (rc, err) in zip(accepted, rs):
        if rc != 0:
            fails.append((c, "bash", "bash -n: " + err[:300]))
    nbatch = 0
    for c in cases:
        if c.out.get("BATCH", ("", ""))[0] == "OK":
            nbatch += 1
            probs = batchcheck.analyse(bytes.fromhex(c.out["BATCH"][1]).decode("utf-8", "replace"))
            # ALL problems of a script are classified one by one: the known ones (labels of case-insensitively equal names, labels of
            # files reached twice) must not hide a new one further down the list (regression after round 6: C16-3)
            for p in probs:
                fails.append((c, "batch", p))
    # what the USER gets is what the tsh command writes: for a sample of the accepted programs (single files, import graphs), invocations
    # that name a target once, twice, and both targets in both orders must write exactly the scripts checked above (round 8: C16-A, a
    # converter object shared by two "-t batch" options - every label defined twice in the file that is finally written)
    import cli
    both_ok = [c for c in cases if c.out.get("BASH", ("", ""))[0] == "OK" and c.out.get("BATCH", ("", ""))[0] == "OK"]
    sample = both_ok[:6] + [c for c in both_ok if c.id.startswith(("m", "dg", "std"))][:6]
    jobs = [(c, ts) for c in sample for ts in (("batch", "batch"), ("bash", "bash"), ("batch", "bash", "batch", "bash"), ("bash", "batch"))]
    for (c, ts), probs in zip(jobs, common.pmap(lambda j: cli.compare_with_library(b, j[0], j[1]), jobs)):
        for p_ in probs:
            fails.append((c, "command", "tsh -i main.tsh -o out %s: %s" % (" ".join("-t " + t for t in ts), p_)))
    res.coverage.update(dict(
        evaluations=len(cases),
        command_invocations=len(jobs),
        distinct_nontrivial=len({c.meta["src"] for c in cases}),
        rule="repo test programs, import graphs over several files, every statement position filled from an expression zoo (accepted ones are checked like any other), builtin snippets (input, read, write, exists, program calls, copy, empty blocks, nested loops with break/continue) and "
             "generated whole-language programs (deep nesting, many functions); bash: `bash -n` on every emitted script; batch: structural predicates on the "
             "emitted text (balanced parentheses outside quotes, every goto/call target defined, no label twice, helper routine present iff used, "
             "break/continue/loop-back jumps refer to the innermost enclosing loop); distinct = distinct programs",
        samples=[dict(program=cases[-1].meta["src"][:400])],
        scripts=dict(bash=len(accepted), batch=nbatch),
        correspondence=dict(stage="bash and batch scripts of the whole model pipeline", compared=2 * len(cases), disagreements=len(dis)),
        oracle_failures=len(fails),
    ))
    real = []
    for c, target, what in fails:
        if c.meta["src"] in reserved_progs and res.known_finding("reserved-identifiers-not-rejected", what):
            continue
        if target == "batch" and c.meta.get("literal") is not None and ("(" in c.meta["literal"] or ")" in c.meta["literal"]) and "unbalanced" in what \
                and res.known_finding("batch-parenthesis-in-program-call-argument", what):
            continue
        if target == "bash" and c.meta.get("literal") is not None and ("$" in c.meta["literal"] or "`" in c.meta["literal"]) \
                and res.known_finding("literal-dollar-backquote-expanded", what):
            continue
        if "spellings differ only in case" in what and res.known_finding("batch-names-case-insensitive", what):
            continue
        if c.meta.get("multipath") and " times (lines" in what and "spellings differ" not in what and res.known_finding("multipath-import-runs-twice", what):
            continue
        real.append((c, target, what))
    seen = set()
    for c, target, what in real:
        key = (target, what.split(":")[-1][:25])
        if key in seen or len(seen) >= 4:
            continue
        seen.add(key)
        res.violation("oracle", dict(target=target, what=what, program=c.meta["src"],
                                     script=bytes.fromhex(c.out["BATCH" if target in ("batch", "command") else "BASH"][1]).decode("utf-8", "replace")))
    if not real and (dis or not pr["ok"]):
        if dis:
            c, key = dis[0]
            res.violation("correspondence", dict(stage=key, src=c.meta["src"], disagreements=len(dis)), no_input=True)
        else:
            res.violation("theorem", dict(broken=pr["broken"], log=pr["log"][-3000:]), no_input=True)
