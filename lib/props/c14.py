"""C14 - Transpilation is a pure, repeatable function of source content and target."""
import os
import random
import shutil
import subprocess
import tempfile

import common
import gen_prog
import pipeline
import seeds
import sys

sys.path.insert(0, os.path.dirname(__file__))
import c09


def run_hist(b, cases, seq, workdir):
    """cases: list of pipeline.Case; seq: list of (case index, target). One process, one transpiler object."""
    lines = []
    for i, c in enumerate(cases):
        parts = ["C", str(i), c.main.encode().hex(), str(len(c.files))]
        for rel, content in c.files.items():
            parts += [rel.encode().hex(), content.hex()]
        lines.append(" ".join(parts))
    for i, t in seq:
        lines.append("T %d %s" % (i, t))
    os.makedirs(workdir, exist_ok=True)
    try:
        rc, out, err = common.run_lines([b.tshdump, "hist", workdir], lines, timeout=900)
    finally:
        shutil.rmtree(workdir, ignore_errors=True)
    return [l[2:] for l in out if l.startswith("R ")]


def run(res, b, tier, seed):
    rng = random.Random(seed * 271 + 14)
    pr = common.prove("C14")
    common.proof_coverage(res, pr)
    if b.harness_error or b.model_error:
        res.violation("build", dict(harness=b.harness_error, model=b.model_error), no_input=True)
        return
    quick = tier == "quick"
    # programs: seeds, generated, multi-file graphs (the map-range site is in the import merge)
    progs = []
    for s in seeds.all_seeds()[:25]:
        progs.append(pipeline.Case("s%d" % len(progs), {"main.tsh": s.encode()}))
    cfg = gen_prog.Cfg(funcs=True, slices=True, strops=True)
    for _ in range(15 if quick else 100):
        g = gen_prog.generate(rng, cfg)
        if g:
            progs.append(pipeline.Case("g%d" % len(progs), {"main.tsh": g[1].encode()}))
    for i in range(40 if quick else 300):
        c = c09.gen_case(rng, i)
        progs.append(pipeline.Case("m%d" % len(progs), c.files))
    # programs that use the same names differently: state kept on the transpiler object / parser / converter between calls shows up
    inter0 = len(progs)
    for body in ("print(shared())\n", "print(other())\n", "var g int = 5\nprint(g)\n", "print(shared() + other())\n"):
        progs.append(pipeline.Case("i%d" % len(progs), {"main.tsh": ("func shared() int {\n\treturn 1\n}\nfunc other() int {\n\treturn 2\n}\n" + body).encode(),
                                                         "lib.tsh": b"func Pub() int {\n\treturn 7\n}\n"}))
    progs.append(pipeline.Case("i%d" % len(progs), {"main.tsh": b'import l "lib.tsh"\nfunc shared() string {\n\treturn "s"\n}\nprint(l.Pub())\n',
                                                     "lib.tsh": b"func Pub() int {\n\treturn 7\n}\nfunc Unused() int {\n\treturn 8\n}\n"}))
    # top-level calls of imported functions before any definition of the program's own (round 10: C14-C)
    progs.append(pipeline.Case("i%d" % len(progs), {"main.tsh": b'import l "lib.tsh"\nprint(l.Pub())\nprint(l.Two(3))\nfunc own() int {\n\treturn l.Pub() + 1\n}\nprint(own())\n',
                                                     "lib.tsh": b"func Pub() int {\n\treturn 7\n}\nfunc Two(a int) int {\n\treturn a * 2\n}\nfunc Unused() int {\n\treturn 8\n}\n"}))
    progs.append(pipeline.Case("i%d" % len(progs), {"main.tsh": b'import "strings"\nprint(strings.Repeat("ab", 2))\nprint(strings.Index("abc", "c"))\n'}))
    # two projects whose imported file is byte-identical but imports, by a relative path, files of different content (round 11: C14-D, a
    # process-wide cache of parsed imports keyed by the content of the imported file alone)
    twin0 = len(progs)
    for who in (b"one", b"two"):
        progs.append(pipeline.Case("i%d" % len(progs), {"main.tsh": b'import u "lib/util.tsh"\nprint(u.Hello())\n',
                                                         "lib/util.tsh": b'import c "config.tsh"\nfunc Hello() string {\n\treturn "hello from " + c.Name()\n}\n',
                                                         "lib/config.tsh": b'func Name() string {\n\treturn "project ' + who + b'"\n}\n'}))
    # constructs of an IMPORTED file that carry a source position or a file name inside the parser (panic, errors, nested imports in
    # sub-directories): nothing of the location of the source tree may reach the script - every round of this check transpiles in a
    # different directory (round 13: C14-F, a panic in an imported file reported "where it was raised" with the absolute path of the file)
    progs.append(pipeline.Case("i%d" % len(progs), {"main.tsh": b'import c "lib/check.tsh"\nc.Positive(3)\nprint(c.Half(8))\n',
                                                     "lib/check.tsh": b'func Positive(v int) {\n\tif v < 0 {\n\t\tpanic("negative value")\n\t}\n}\nfunc Half(v int) int {\n\tif v % 2 != 0 {\n\t\tpanic("odd " + itoa(v))\n\t}\n\treturn v / 2\n}\n'}))
    progs.append(pipeline.Case("i%d" % len(progs), {"main.tsh": b'import a "one/a.tsh"\nprint(a.Get(2))\nif a.Get(1) > 5 {\n\tpanic("main")\n}\n',
                                                     "one/a.tsh": b'import b "two/b.tsh"\nvar Limit int = 3\nif Limit > 10 {\n\tpanic("limit")\n}\nfunc Get(v int) int {\n\treturn b.Checked(v) + Limit\n}\n',
                                                     "one/two/b.tsh": b'func Checked(v int) int {\n\tfor i := 0; i < v; i++ {\n\t\tif i > 100 {\n\t\t\tpanic("too many")\n\t\t}\n\t}\n\treturn v\n}\n'}))
    # two DIFFERENT files of one program with byte-identical content (round 14: C14-G gave the second one a prefix hashed from content plus
    # absolute path)
    same = b'var Count int = 0\nfunc Bump(n int) int {\n\tCount = Count + n\n\treturn Count\n}\n'
    progs.append(pipeline.Case("i%d" % len(progs), {"main.tsh": b'import (\n\ta "one/util.tsh"\n\tb "two/util.tsh"\n)\nprint(a.Bump(2), b.Bump(40))\n',
                                                     "one/util.tsh": same, "two/util.tsh": same}))
    progs.append(pipeline.Case("i%d" % len(progs), {"main.tsh": b'import (\n\ta "x/lib.tsh"\n\tb "y/z/lib.tsh"\n\tc "lib.tsh"\n)\nprint(a.Bump(1), b.Bump(2), c.Bump(3))\n',
                                                     "x/lib.tsh": same, "y/z/lib.tsh": same, "lib.tsh": same}))
    inter1 = len(progs)
    progs.append(pipeline.Case("bad", {"main.tsh": b"x := \n"}))
    # programs the PARSER rejects at different depths of its own recursion - inside a function body, inside a loop inside a function, inside a
    # switch, inside an imported file: an error must leave nothing behind on the transpiler object either (round 10: C14-C, one parser kept on
    # the transpiler object, its "current function" cleared on the success path only)
    parse_bad0 = len(progs)
    progs.append(pipeline.Case("pbad-in-func", {"main.tsh": b"func f() int {\n\tx := 1\n\treturn x + y\n}\nprint(f())\n"}))
    progs.append(pipeline.Case("pbad-in-func-loop", {"main.tsh": b"func g() {\n\tfor i := 0; i < 2; i++ {\n\t\tif true {\n\t\t\tundefined(i)\n\t\t}\n\t}\n}\ng()\n"}))
    progs.append(pipeline.Case("pbad-in-switch", {"main.tsh": b'x := 1\nswitch x {\ncase "a":\n\tprint(1)\n}\n'}))
    progs.append(pipeline.Case("pbad-in-import", {"main.tsh": b'import l "lib.tsh"\nprint(l.Pub())\n', "lib.tsh": b"func Pub() int {\n\treturn nothing\n}\n"}))
    progs.append(pipeline.Case("pbad-in-loop", {"main.tsh": b"x := 1\nfor i := 0; i < 2; i++ {\n\tx := 2\n\tprint(x, i, j)\n}\n"}))
    parse_bad1 = len(progs)
    # programs the PARSER accepts and a converter rejects: an error in the middle of a transpilation must leave nothing behind on the
    # transpiler object (round 9: C14-B, a nesting depth that is not restored on the error path - every later script lost its frame)
    conv_bad0 = len(progs)
    progs.append(pipeline.Case("convbad-order", {"main.tsh": b'func shared() int {\n\treturn 1\n}\nq := "a" < "b"\nprint(q, shared())\n'}))
    progs.append(pipeline.Case("convbad-break", {"main.tsh": b'x := 1\nprint(x)\nswitch x {\ncase 1:\n\tbreak\n}\n'}))
    progs.append(pipeline.Case("convbad-in-func", {"main.tsh": b'func f() int {\n\tfor i := 0; i < 2; i++ {\n\t\tif "a" < "b" {\n\t\t\treturn i\n\t\t}\n\t}\n\treturn 0\n}\nprint(f())\n'}))
    conv_bad1 = len(progs)
    # reference: one call per (program, target) in fresh processes
    pipeline.run_pipe(b, progs, "sw")
    ref = {}
    for i, c in enumerate(progs):
        for t, key in (("bash", "BASH"), ("batch", "BATCH")):
            cls, payload = c.out.get(key, ("MISSING", ""))
            ref[(i, t)] = "OK " + payload if cls == "OK" else "ERR" if cls == "ERR" else cls
    fails = []
    evaluations = 0
    # the directed programs [inter0, inter1) are written to be VALID on both targets: one that is rejected as written tests nothing
    for i in range(inter0, inter1):
        for t in ("bash", "batch"):
            if not ref[(i, t)].startswith("OK"):
                fails.append(("a directed program of this check is rejected as written (a broken program of the check, or a change of the language)", i, t, ref[(i, t)][:200]))
    # (a) repeated runs in fresh processes (different map iteration seeds), two more rounds
    for rnd in range(2 if quick else 6):
        again = [pipeline.Case(c.id, c.files, c.main) for c in progs]
        rng.shuffle(again)
        pipeline.run_pipe(b, again, "sw")
        byid = {c.id: c for c in again}
        for i, c in enumerate(progs):
            for t, key in (("bash", "BASH"), ("batch", "BATCH")):
                cls, payload = byid[c.id].out.get(key, ("MISSING", ""))
                got = "OK " + payload if cls == "OK" else "ERR" if cls == "ERR" else cls
                evaluations += 1
                if got != ref[(i, t)]:
                    fails.append(("fresh-process", i, t, got))
    # (a') the working directory of the process has entries named like the imports of the programs (a directory `strings`, files
    #      `lib.tsh`, `lib1.tsh`, ... with other content): nothing but the source files and the std directory next to the executable may
    #      matter (round 7: C14-9, the local-or-std decision made with the import path as written, i.e. against the working directory)
    cwd = tempfile.mkdtemp(prefix="tshcwd-")
    try:
        os.makedirs(os.path.join(cwd, "strings"))
        os.makedirs(os.path.join(cwd, "std", "strings"))
        for nm in ("os", "lib.tsh", "lib1.tsh", "lib2.tsh", "lib3.tsh", "strings.tsh", "main.tsh"):
            with open(os.path.join(cwd, nm), "w") as fh:
                fh.write("this is not a TypeShell file {{{\n")
        again = [pipeline.Case(c.id, c.files, c.main) for c in progs]
        pipeline.run_pipe(b, again, "sw", cwd=cwd)
        byid = {c.id: c for c in again}
        for i, c in enumerate(progs):
            for t, key in (("bash", "BASH"), ("batch", "BATCH")):
                cls, payload = byid[c.id].out.get(key, ("MISSING", ""))
                got = "OK " + payload if cls == "OK" else "ERR" if cls == "ERR" else cls
                evaluations += 1
                if got != ref[(i, t)]:
                    fails.append(("working-directory-with-entries-named-like-the-imports", i, t, got))
    finally:
        shutil.rmtree(cwd, ignore_errors=True)
    # (b) interleaved histories on one transpiler object, in relocated work directories
    nh = 20 if quick else 300
    directed = [[(i, t1), (j, t2)] for i in range(inter0, inter1) for j in range(inter0, inter1) if i != j
                for (t1, t2) in (("bash", "bash"), ("batch", "batch"), ("bash", "batch"))]
    rng.shuffle(directed)
    directed = directed[:30 if quick else len(directed)]
    # good, rejected by a converter, good - and the rejected one twice
    for bad in range(conv_bad0, conv_bad1):
        for t in ("bash", "batch"):
            good = inter0 + (bad % (inter1 - inter0))
            directed.append([(good, t), (bad, t), (good, t), (bad, "bash" if t == "batch" else "batch"), (inter0, t)])
    for t1 in ("bash", "batch"):
        for t2 in ("bash", "batch"):
            directed.append([(twin0, t1), (twin0 + 1, t2), (twin0, t2)])
            directed.append([(twin0 + 1, t1), (twin0, t2)])
    # rejected by the parser, then every good program; and good, rejected, good
    for bad in range(parse_bad0, parse_bad1):
        for t in ("bash", "batch"):
            for good in range(inter0, inter1):
                directed.append([(bad, t), (good, t)])
            good = inter0 + (bad % (inter1 - inter0))
            directed.append([(good, t), (bad, t), (inter1 - 2, "bash" if t == "batch" else "batch"), (bad, t), (good, t)])
    nh = nh + len(directed)
    for h in range(nh):
        if h < len(directed):
            seq = directed[h]
        else:
            k = rng.randrange(2, 7)
            idx = [rng.randrange(len(progs)) for _ in range(rng.randrange(1, 6))]
            seq = [(rng.choice(idx), rng.choice(["bash", "batch"])) for _ in range(k)]
        sub = sorted(set(i for i, _ in seq))
        remap = {i: j for j, i in enumerate(sub)}
        base = tempfile.mkdtemp(prefix="tshhist-")
        wd = os.path.join(base, rng.choice(["a", "deep/er/dir", "with space", "x" * 30]))
        try:
            outs = run_hist(b, [progs[i] for i in sub], [(remap[i], t) for i, t in seq], wd)
        finally:
            shutil.rmtree(base, ignore_errors=True)
        if len(outs) != len(seq):
            fails.append(("history-crashed", seq, None, str(outs)[:200]))
            continue
        for (i, t), got in zip(seq, outs):
            evaluations += 1
            if got != ref[(i, t)]:
                fails.append(("history", i, t, got, seq))
    # (c) the tsh COMMAND with both targets in one invocation, repeatedly, in fresh processes: the files it writes are the library's
    #     results every time (round 8: C14-B, the targets produced concurrently on one transpiler object - about a quarter of the runs
    #     mixed the two scripts)
    import cli
    cli_idx = [i for i, c in enumerate(progs) if ref[(i, "bash")].startswith("OK") and ref[(i, "batch")].startswith("OK")]
    cli_idx = cli_idx[:4] + cli_idx[25:27] + cli_idx[-8:-5]
    reps = 6 if quick else 40
    jobs = [(i, ts) for i in cli_idx for ts in (("bash", "batch"), ("batch", "bash")) for _ in range(reps)]
    cli_out = common.pmap(lambda j: cli.compare_with_library(b, progs[j[0]], j[1]), jobs)
    for (i, ts), probs in zip(jobs, cli_out):
        evaluations += 1
        if probs:
            fails.append(("tsh command, targets %s in one invocation: %s" % (" ".join(ts), "; ".join(probs)), i, ts[0], "see what"))
    res.coverage.update(dict(
        evaluations=evaluations,
        command_invocations=len(jobs),
        distinct_nontrivial=len({(i, t) for (i, t) in ref}),
        rule="each of %d programs (seeds, generated, import graphs) x 2 targets: result of a single call in a fresh process vs (a) repeated runs in other "
             "fresh processes (map iteration seeds) and (b) %d interleaved histories of 2-6 Transpile calls on one transpiler object in relocated "
             "directories (nested, with blanks, long names); byte equality; distinct = distinct (program, target) pairs" % (len(progs), nh),
        samples=[dict(program=progs[-3].files["main.tsh"].decode()[:300])],
        correspondence=dict(stage="regenerated facts (map ranges, maps.* calls, package-level vars, environment calls) vs. the audited list in Props/C14.lean",
                            compared=1, disagreements=0 if pr["ok"] else 1),
        oracle_failures=len(fails),
    ))
    for f in fails[:3]:
        i = f[1] if isinstance(f[1], int) else None
        res.violation("oracle", dict(what=f[0], target=f[2], got=str(f[3])[:300], expected=ref.get((i, f[2]), "")[:300] if i is not None else None,
                                     files={k: v.decode("latin1") for k, v in progs[i].files.items()} if i is not None else None,
                                     history=str(f[4]) if len(f) > 4 else None))
    if not fails and not pr["ok"]:
        res.violation("theorem", dict(broken=pr["broken"], log=pr["log"][-3000:],
                                      what="the audited facts (map ranges / package-level variables / environment calls) or the permutation-invariance proofs no longer check; "
                                           "repeated, relocated and interleaved runs found no differing output"), no_input=True)
