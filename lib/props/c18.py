"""C18 - Command calls get exactly the given arguments; pipes and capture are exact."""
import os
import random

import common
import gen_strings
import pipeline
import semcheck

PROBE = b'''#!/bin/bash
echo "E:${0##*/}" >&2
# dumps its arguments, one per line in brackets, and exits with the status encoded in its name
echo "argc=$#"
for a in "$@"; do printf '[%s]\\n' "$a"; done
s=${0##*exit}; s=${s%.sh}
exit $s
'''
UPPER = b'''#!/bin/bash
echo "E:${0##*/}" >&2
tr 'a-z' 'A-Z'
s=${0##*exit}; s=${s%.sh}
exit $s
'''
COUNT = b'''#!/bin/bash
echo "E:${0##*/}" >&2
wc -l | tr -d ' '
s=${0##*exit}; s=${s%.sh}
exit $s
'''
REV = b'''#!/bin/bash
echo "E:${0##*/}" >&2
while IFS= read -r l; do printf '<%s>\\n' "$l"; done
s=${0##*exit}; s=${s%.sh}
exit $s
'''


def probe_out(args):
    return "argc=%d\n" % len(args) + "".join("[%s]\n" % a for a in args)


def stage(kind, text):
    if kind == "upper":
        return "".join(chr(ord(c) - 32) if "a" <= c <= "z" else c for c in text)
    if kind == "count":
        return "%d\n" % text.count("\n")
    if kind == "rev":
        lines = text.split("\n")
        if lines and lines[-1] == "":
            lines = lines[:-1]
        return "".join("<%s>\n" % l for l in lines)
    raise ValueError(kind)


class _Fixed:
    """choices of a directed case: literal arguments, no function, one stage; statement form or captured"""
    def __init__(self, captured):
        self.captured = captured

    def random(self):
        return 0.0 if self.captured else 0.99        # < 0.6: captured; everything else: literal argument, top level

    def choice(self, xs):
        return xs[0]

    def randrange(self, a, b=None):
        return a


def directed_cases():
    """argument lists whose members are EMPTY literals, option look-alikes and words with blanks, as literals (regression after
    round 6: C18-1 - an empty literal argument vanishes - was caught only when the random generator happened to emit one)"""
    lists = [[""], ["", "a"], ["a", ""], ["", ""], ["a", "", "b"], ["", "", "x", ""], ["-n"], ["--", ""], [" "], ["a b", ""], ["", "*"], ["$x", ""]]
    out = []
    for i, args in enumerate(lists):
        for captured in (False, True):
            out.append(gen_case(_Fixed(captured), None, "d%d%s" % (i, "c" if captured else "s"), fixed=args))
    # an argument that is itself a program call stands for ONE argument, the called program's standard output (round 7: C18-8, all
    # three values of the inner call - output, error output, status - passed on)
    for i, (inner, val) in enumerate([('@printf("%s", "a b")', "a b"), ('@printf("%s", "")', ""), ('@printf("%s\\n", "x")', "x"),
                                      ('@printf("%s", "*") | @tr("*", "+")', "+")]):
        for form in ("stmt", "captured", "second"):
            args = [val] if form != "second" else ["first", val, "last"]
            argtxt = inner if form != "second" else '"first", %s, "last"' % inner
            if form == "captured":
                src = 'so, se, code := @"./probe_exit0.sh"(%s)\nprint("[" + so + "]", code)\nprint("done")\n' % argtxt
                exp = "[" + probe_out(args).rstrip("\n") + "] 0\ndone\n"
            else:
                src = '@"./probe_exit0.sh"(%s)\nprint("done")\n' % argtxt
                exp = probe_out(args) + "done\n"
            out.append(pipeline.Case("an%d%s" % (i, form), {"main.tsh": src.encode()},
                                     meta=dict(src=src, expected_out=exp, extra_files={"probe_exit0.sh": PROBE}, args=args, skip=False,
                                               expected_err=["E:probe_exit0.sh"])))
    # SEVERAL program calls as arguments of one call / values of one print: each capture is its own value (round 9: C18-B, captures
    # stored in one fixed pair of variables - the later capture overwrote the earlier one)
    two = '@printf("%s", "a b"), @printf("%s", "*")'
    three = '@printf("%s", "1"), "2", @printf("%s", "3") | @cat()'
    for tag, argtxt, args in (("two", two, ["a b", "*"]), ("three", three, ["1", "2", "3"])):
        src = '@"./probe_exit0.sh"(%s)\nprint("done")\n' % argtxt
        out.append(pipeline.Case("caps-%s-stmt" % tag, {"main.tsh": src.encode()},
                                 meta=dict(src=src, expected_out=probe_out(args) + "done\n", extra_files={"probe_exit0.sh": PROBE}, args=args, skip=False,
                                           expected_err=["E:probe_exit0.sh"])))
        src = 'so, se, code := @"./probe_exit0.sh"(%s)\nprint("[" + so + "]", code)\n' % argtxt
        out.append(pipeline.Case("caps-%s-captured" % tag, {"main.tsh": src.encode()},
                                 meta=dict(src=src, expected_out="[" + probe_out(args).rstrip("\n") + "] 0\n", extra_files={"probe_exit0.sh": PROBE}, args=args, skip=False,
                                           expected_err=["E:probe_exit0.sh"])))
    # the PROGRAM is named by a string too: a path with a blank, a glob character, an apostrophe, a semicolon runs that very file (genuine
    # defect repaired in round 12: the name was written unquoted and the shell split / expanded it)
    # (round 15: C18-H escaped the name twice on the Bash target - only a name with a double quote or a backslash shows it)
    for i, nm in enumerate(["my probe_exit0.sh", "pro*be_exit0.sh", "a'b_exit0.sh", "x;y_exit0.sh", "sub dir/p r_exit0.sh", "q[1]_exit0.sh",
                            'pr"obe_exit0.sh', "st\\7_exit0.sh", 'b\\"q_exit0.sh', "end\\_exit0.sh", "#h~_exit0.sh", "a&b|c_exit0.sh"]):
        for captured in (False, True):
            args = ["one", "two words", ""]
            argtxt = ", ".join(gen_strings.go_quote(a) for a in args)
            lit = gen_strings.go_quote("./" + nm)
            if captured:
                src = 'so, se, code := @%s(%s)\nprint("[" + so + "]", code)\n' % (lit, argtxt)
                exp = "[" + probe_out(args).rstrip("\n") + "] 0\n"
            else:
                src = '@%s(%s)\nprint("done")\n' % (lit, argtxt)
                exp = probe_out(args) + "done\n"
            out.append(pipeline.Case("pn%d%s" % (i, "c" if captured else "s"), {"main.tsh": src.encode()},
                                     meta=dict(src=src, expected_out=exp, extra_files={nm: PROBE}, args=args, skip=False,
                                               expected_err=["E:" + os.path.basename(nm)])))
    # arguments with EFFECTS in different stages of one pipeline are evaluated stage by stage, left to right (round 14: C18-G evaluated the
    # arguments of the last command first): a counter function, in the statement form and captured, two and three stages
    TEE = b'''#!/bin/bash
echo "E:${0##*/}" >&2
cat
for a in "$@"; do printf '{%s}\\n' "$a"; done
s=${0##*exit}; s=${s%.sh}
exit $s
'''
    pre = 'var n int = 0\nfunc next() string {\n\tn = n + 1\n\treturn "v" + itoa(n)\n}\n'
    two = '@"./probe_exit0.sh"(next(), "x") | @"./tee_exit0.sh"(next())'
    three = '@"./probe_exit0.sh"(next()) | @"./tee_exit0.sh"(next(), next()) | @"./tee2_exit0.sh"("lit", next())'
    for tag, chain, exp, errs in (("two", two, probe_out(["v1", "x"]) + "{v2}\n", ["E:probe_exit0.sh", "E:tee_exit0.sh"]),
                                  ("three", three, probe_out(["v1"]) + "{v2}\n{v3}\n{lit}\n{v4}\n", ["E:probe_exit0.sh", "E:tee2_exit0.sh", "E:tee_exit0.sh"])):
        files = {"probe_exit0.sh": PROBE, "tee_exit0.sh": TEE, "tee2_exit0.sh": TEE}
        src = pre + chain + '\nprint("done", next())\n'
        out.append(pipeline.Case("order-%s-stmt" % tag, {"main.tsh": src.encode()},
                                 meta=dict(src=src, expected_out=exp + "done v%d\n" % (3 if tag == "two" else 5), extra_files=files, args=[], skip=False, expected_err=errs)))
        src = pre + "so, se, code := " + chain + '\nprint("[" + so + "]", code, next())\n'
        out.append(pipeline.Case("order-%s-captured" % tag, {"main.tsh": src.encode()},
                                 meta=dict(src=src, expected_out="[" + exp.rstrip("\n") + "] 0 v%d\n" % (3 if tag == "two" else 5), extra_files=files, args=[], skip=False,
                                           expected_err=errs)))
    # a program named by a bare identifier while a VARIABLE of that name is visible (global string, parameter, local, of another type): the
    # program of that name runs, the variable is data (round 16: C18-I, "program path held by a variable" - a visible string variable spelled
    # like the program silently becomes the program that is run)
    src = ('echo := "none"\nprintf := "./probe_exit0.sh"\nsh := 5\n@printf("%s\\n", "a b")\nso, se, code := @echo("x", echo)\nprint("[" + so + "]", code, sh)\n'
           'func f(cat string, tr string) string {\n\ttee := "k"\n\to, e, c := @printf("%s\\n", cat) | @tr("a-z", "A-Z") | @cat() | @tee()\n\treturn o + tee + tr\n}\n'
           'print(f("abc", "q"))\n@sh("-c", "echo last")\n')
    out.append(pipeline.Case("name-like-variable", {"main.tsh": src.encode()},
                             meta=dict(src=src, expected_out="a b\n[x none] 0 5\nABCkq\nlast\n", extra_files={"probe_exit0.sh": PROBE}, args=[], skip=False, expected_err=[])))
    src = 'print(@sh("-c", "echo first; exit 3"), @sh("-c", "echo second; exit 4"))\nx1, y1, z1 := @sh("-c", "echo p; exit 5")\nx2, y2, z2 := @sh("-c", "echo q; exit 6")\nprint(x1, z1, x2, z2)\n'
    out.append(pipeline.Case("caps-print-two", {"main.tsh": src.encode()},
                             meta=dict(src=src, expected_out="first  3 second  4\np 5 q 6\n", extra_files={}, args=[], skip=False, expected_err=[])))
    return out


def gen_case(rng, strings, idx, fixed=None):
    n = rng.choice([0, 1, 1, 2, 3, 5])
    args = list(fixed) if fixed is not None else [rng.choice(strings) for _ in range(n)]
    statuses = [rng.choice([0, 0, 0, 1, 2, 7, 42, 255]) for _ in range(3)]
    files = {}
    lines = []
    in_func = rng.random() < 0.3
    argexprs = []
    for i, a in enumerate(args):
        q = gen_strings.go_quote(a)
        if rng.random() < 0.4:
            lines.append("a%d := %s" % (i, q))
            argexprs.append("a%d" % i)
        elif rng.random() < 0.15 and len(a) > 1:
            k = rng.randrange(1, len(a))
            argexprs.append("%s + %s" % (gen_strings.go_quote(a[:k]), gen_strings.go_quote(a[k:])))
        else:
            argexprs.append(q)
        if rng.random() < 0.25:
            # an argument computed by a function call (the call's value is used even when the command's output is not)
            argexprs[-1] = "id(%s)" % argexprs[-1]
    plen = rng.choice([1, 1, 2, 3])
    kinds = ["probe"] + [rng.choice(["upper", "count", "rev"]) for _ in range(plen - 1)]
    names = []
    for k, st in zip(kinds, statuses):
        nm = "%s_exit%d.sh" % (k, st)
        files[nm] = {"probe": PROBE, "upper": UPPER, "count": COUNT, "rev": REV}[k]
        names.append(nm)
    chain = " | ".join('@"./%s"(%s)' % (nm, ", ".join(argexprs) if i == 0 else "") for i, nm in enumerate(names))
    text = probe_out(args)
    for k in kinds[1:]:
        text = stage(k, text)
    captured = rng.random() < 0.6
    out = ""
    if captured:
        lines.append("so, se, code := %s" % chain)
        lines.append('print("[" + so + "]", code)')
        val = text.rstrip("\n") if text.endswith("\n") else text
        out += "[" + val + "] %d\n" % statuses[len(kinds) - 1]
    else:
        lines.append(chain)
        out += text
    lines.append('print("done")')
    out += "done\n"
    if in_func:
        lines = ["func run() {"] + ["\t" + l for l in lines] + ["}", "run()"]
    lines = ["func id(a string) string {", "\treturn a", "}"] + lines
    src = "\n".join(lines) + "\n"
    # outputs with more than one trailing line feed are not generated (bash strips them all; the property says "its trailing newline")
    multi_nl = captured and text.endswith("\n\n")
    return pipeline.Case("a%s" % idx, {"main.tsh": src.encode()}, meta=dict(src=src, expected_out=out, extra_files=files, args=args, skip=multi_nl,
                                                                                expected_err=sorted("E:" + nm for nm in names)))


def _exec(arg):
    script, files = arg
    import os
    r = semcheck.run_bash(script, files=files, keep=False)
    return r


def run(res, b, tier, seed):
    rng = random.Random(seed * 2203 + 18)
    pr = common.prove("C18")
    common.proof_coverage(res, pr)
    if b.harness_error or b.model_error:
        res.violation("build", dict(harness=b.harness_error, model=b.model_error), no_input=True)
        return
    strings = [s for _, s in gen_strings.all_strings(True)]
    cases = directed_cases() + [gen_case(rng, strings, i) for i in range(400 if tier == "quick" else 6000)]
    cases = [c for c in cases if not c.meta["skip"]]
    pipeline.run_pipe(b, cases, "asw")
    pipeline.model_full(b, cases)
    dis, fails = [], []
    for c in cases:
        impl = c.out.get("BASH", ("MISSING", ""))
        canon = "OK " + impl[1] if impl[0] == "OK" else impl[0]
        if c.meta.get("model_bash") != canon:
            dis.append(c)
        if impl[0] != "OK":
            fails.append((c, "not transpiled: " + impl[0], None))
    # the Batch side (no cmd.exe, no programs in the cmd model): tied to the Lean rendering of the Batch converter
    dis += [c for c in pipeline.batch_disagreements(b, cases) if c not in dis]
    runnable = [c for c in cases if c.out.get("BASH", ("", ""))[0] == "OK"]
    runs = common.pmap_proc(_exec_chmod, [(bytes.fromhex(c.out["BASH"][1]), c.meta["extra_files"]) for c in runnable])
    for c, r in zip(runnable, runs):
        # every stage writes one line to its standard error: it must pass through untouched (never into a captured value)
        if r["stdout"] != c.meta["expected_out"].encode() or sorted(r["stderr"].decode("latin1").splitlines()) != c.meta["expected_err"] or r["status"] != 0 or r["timeout"]:
            fails.append((c, "behaviour", dict(stdout=r["stdout"].decode("latin1")[:600], stderr=r["stderr"].decode("latin1")[:300], status=r["status"])))
    res.coverage.update(dict(
        evaluations=len(cases),
        distinct_nontrivial=len({c.meta["src"] for c in cases}),
        rule="program calls with 0-5 arguments from C08's alphabet and special strings (empty, blanks, glob and shell metacharacters, leading dashes), literal, "
             "variable or concatenated; pipelines of length 1-3 over probe scripts (argv dump, upper-casing, line count, line wrapping) with exit statuses "
             "0..255 encoded in their names; captured (stdout without trailing newline, status of the last command, nothing printed) or uncaptured; at top "
             "level or inside a function; distinct = distinct programs",
        samples=[dict(program=cases[0].meta["src"], expected_stdout=cases[0].meta["expected_out"])],
        correspondence=dict(stage="AST + bash script (whole model pipeline) + batch script (Model.ConvBatch)", compared=2 * len(cases), disagreements=len(dis)),
        oracle_failures=len(fails),
    ))
    real = []
    for c, what, detail in fails:
        if ("$" in c.meta["src"] or "`" in c.meta["src"]) and res.known_finding("literal-dollar-backquote-expanded", what):
            continue
        real.append((c, what, detail))
    for c, what, detail in real[:3]:
        res.violation("oracle", dict(what=what, program=c.meta["src"], expected_stdout=c.meta["expected_out"], got=detail, args=c.meta["args"],
                                     script=bytes.fromhex(c.out["BASH"][1]).decode("utf-8", "replace") if c.out.get("BASH", ("",))[0] == "OK" else None))
    if not real and (dis or not pr["ok"]):
        if dis:
            c = dis[0]
            res.violation("correspondence", dict(stage="script", src=c.meta["src"], model=c.meta.get("model_bash", "")[:2000], implementation=str(c.out.get("BASH"))[:2000]), no_input=True)
        else:
            res.violation("theorem", dict(broken=pr["broken"], log=pr["log"][-3000:]), no_input=True)


def _exec_chmod(arg):
    """like semcheck.run_bash but the probe scripts must be executable"""
    import os
    import shutil
    import subprocess
    import tempfile
    script, files = arg
    d = tempfile.mkdtemp(prefix="tshargv-")
    try:
        for rel, content in files.items():
            p = os.path.join(d, rel)
            os.makedirs(os.path.dirname(p), exist_ok=True)
            with open(p, "wb") as fh:
                fh.write(content)
            os.chmod(p, 0o755)
        sp = os.path.join(d, ".script.sh")
        with open(sp, "wb") as fh:
            fh.write(script)
        try:
            p = subprocess.run(["/bin/bash", sp], cwd=d, stdin=subprocess.DEVNULL, stdout=subprocess.PIPE, stderr=subprocess.PIPE, timeout=60,
                               env={"PATH": "/usr/bin:/bin", "LC_ALL": "C", "HOME": d})
            return dict(status=p.returncode, stdout=p.stdout, stderr=p.stderr, timeout=False)
        except subprocess.TimeoutExpired as e:
            return dict(status=-1, stdout=e.stdout or b"", stderr=e.stderr or b"", timeout=True)
    finally:
        shutil.rmtree(d, ignore_errors=True)
