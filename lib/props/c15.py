"""C15 - std/strings agrees with Go's strings package."""
import itertools
import random

import common
import gen_strings
import pipeline
import semcheck

SIGS = {
    "Index": ("ss", "i"), "Contains": ("ss", "b"), "Join": ("ls", "s"), "HasPrefix": ("ss", "b"), "HasSuffix": ("ss", "b"),
    "Count": ("ss", "i"), "Split": ("ss", "l"), "Repeat": ("si", "s"), "Replace": ("sssi", "s"), "ReplaceAll": ("sss", "s"),
    "Cut": ("ss", "ssb"), "CutPrefix": ("ss", "sb"), "CutSuffix": ("ss", "sb"), "TrimPrefix": ("ss", "s"), "TrimSuffix": ("ss", "s"),
    "TrimLeft": ("ss", "s"), "TrimRight": ("ss", "s"), "Trim": ("ss", "s"), "TrimSpace": ("s", "s"),
}


def strings_upto(alpha, n):
    out = [""]
    for k in range(1, n + 1):
        out += ["".join(p) for p in itertools.product(alpha, repeat=k)]
    return out


def long_tuples(fn):
    """a few argument tuples with lengths, counts and indices of two digits (round 9: C15-B, Batch comparisons of integers made string
    comparisons - "12" lss "3" - which only shows from ten on)"""
    params, _ = SIGS[fn]
    if fn == "TrimSpace":
        return [("  abcabc abcabc \t",), ("abcabcabcabcabc",)]
    return {"s": [("  abcabcabcabc  ",)],
            "ss": [("abcabcabcabcab", "ca"), ("aaaaaaaaaaab", "b"), ("xyxyxyxyxyxyz", "xy"), ("abcabcabcabcabc", "abcabcabcabcabc"), ("abababababab", "ab")],
            "sss": [("abcabcabcabcabc", "bc", "-"), ("aaaaaaaaaaaa", "a", "bb")],
            "sssi": [("abcabcabcabcabcabcabcabcabcabcabcabc", "bc", "X", 11), ("abcabcabcabcabcabcabcabcabcabcabcabc", "bc", "X", -1), ("aaaaaaaaaaaaa", "a", "b", 12)],
            "si": [("ab", 12), ("a", 10)],
            "ls": [(["a", "b", "c", "d", "e", "f", "g", "h", "i", "j", "k", "l"], "-"), (["ab"] * 11, "")]}.get(params, [])


def arg_tuples(rng, fn, quick):
    params, _ = SIGS[fn]
    alpha = "ab "
    n = 3 if quick else 4
    S = strings_upto(alpha, n)
    small = strings_upto(alpha, 2)
    counts = [-2, -1, 0, 1, 2, 3, 4]
    lists = [[], [""], ["a"], ["a", "b"], ["", ""], ["a", "", "b"], ["ab", " ", "b a"], ["a", "b", "a", "b"]]
    space = {"s": S, "i": counts, "l": lists}
    if fn == "TrimSpace":
        S2 = strings_upto(" \ta", 4 if quick else 5)
        # every white-space character Go's TrimSpace knows in ASCII, on both sides and in the middle
        ws = [" ", "\t", "\n", "\v", "\f", "\r"]
        extra = [w + "x" + w2 for w in ws for w2 in ws] + [w + w2 + "a b" + w2 + w for w in ws for w2 in ws] + ["a" + w + "b" for w in ws] + ws
        return [(s,) for s in S2 + extra]
    dims = [space[p] for p in params]
    if params == "ss":
        # first argument full, second argument up to length 2 (3 in thorough)
        second = small if quick else strings_upto(alpha, 3)
        allt = [(a, b_) for a in S for b_ in second]
    elif params == "sss":
        allt = [(a, b_, c) for a in strings_upto(alpha, 3) for b_ in strings_upto("ab", 2) for c in ["", "x", "ab", " "]]
    elif params == "sssi":
        allt = [(a, b_, c, k) for a in strings_upto(alpha, 3) for b_ in strings_upto("ab", 1) + ["ab"] for c in ["", "x", "aa"] for k in counts]
    elif params == "si":
        allt = [(a, k) for a in strings_upto(alpha, 2) for k in counts]
    elif params == "ls":
        allt = [(l, s) for l in lists for s in ["", ",", " ", "ab"]]
    else:
        allt = list(itertools.product(*dims))
    if quick and len(allt) > 700:
        rng.shuffle(allt)
        keep = [t for t in allt if any(x == "" for x in t if isinstance(x, str))]
        allt = (keep + allt)[:700]
    return allt


def enc_arg(a):
    if isinstance(a, str):
        return "s:" + a.encode().hex()
    if isinstance(a, int):
        return "i:%d" % a
    return "l:" + (",".join(e.encode().hex() for e in a) if a else "-")


def tsh_arg(a):
    if isinstance(a, str):
        return gen_strings.go_quote(a)
    if isinstance(a, int):
        return str(a)
    return "[]string{" + ", ".join(gen_strings.go_quote(e) for e in a) + "}"


def expected_lines(fn, goline):
    """lines the TypeShell program prints for this result"""
    if goline == "panic":
        return None
    outs = []
    for part in goline.split(" "):
        k, v = part.split(":", 1)
        if k == "s":
            outs += ("[" + bytes.fromhex(v).decode() + "]").split("\n")      # a value with a line feed prints as several lines
        elif k == "i":
            outs.append(v)
        elif k == "b":
            outs.append(v)
        elif k == "l":
            elems = [] if v == "-" else [bytes.fromhex(e).decode() for e in v.split(",")]
            outs.append(str(len(elems)))
            for e in elems:
                outs += ("[" + e + "]").split("\n")
    return outs


def program(fn, tuples):
    _, rets = SIGS[fn]
    lines = ['import "strings"']
    for i, t in enumerate(tuples):
        call = "strings.%s(%s)" % (fn, ", ".join(tsh_arg(a) for a in t))
        lines.append('print("#%d")' % i)
        if rets == "s":
            lines.append('print("[" + %s + "]")' % call)
        elif rets in ("i", "b"):
            lines.append("print(%s)" % call)
        elif rets == "l":
            lines += ["r%d := %s" % (i, call), "print(len(r%d))" % i, "for k%d, e%d := range r%d {" % (i, i, i), '\tprint("[" + e%d + "]")' % i, "}"]
        elif rets == "ssb":
            lines += ["x%d, y%d, z%d := %s" % (i, i, i, call), 'print("[" + x%d + "]")' % i, 'print("[" + y%d + "]")' % i, "print(z%d)" % i]
        elif rets == "sb":
            lines += ["x%d, z%d := %s" % (i, i, call), 'print("[" + x%d + "]")' % i, "print(z%d)" % i]
    return "\n".join(lines) + "\n"


def loop_program(fn, pairs):
    """every call inside a loop of the CALLING program (counted loop, range loop, loop without step) that runs twice: the library's own
    loops and the caller's loop are different loops (round 8: C15-B, the Bash first-iteration flag numbered by nesting depth - a library
    function's loop reset the flag of the caller's loop and the caller's step was skipped)"""
    _, rets = SIGS[fn]
    lines = ['import "strings"']
    exp = []
    for i, (t, g) in enumerate(pairs):
        call = "strings.%s(%s)" % (fn, ", ".join(tsh_arg(a) for a in t))
        body = ['print("#%d")' % i]
        if rets == "s":
            body.append('print("[" + %s + "]")' % call)
        elif rets in ("i", "b"):
            body.append("print(%s)" % call)
        elif rets == "l":
            body += ["r%d := %s" % (i, call), "print(len(r%d))" % i, "for k%d, e%d := range r%d {" % (i, i, i), '\tprint("[" + e%d + "]")' % i, "}"]
        elif rets == "ssb":
            body += ["x%d, y%d, z%d := %s" % (i, i, i, call), 'print("[" + x%d + "]")' % i, 'print("[" + y%d + "]")' % i, "print(z%d)" % i]
        elif rets == "sb":
            body += ["x%d, z%d := %s" % (i, i, call), 'print("[" + x%d + "]")' % i, "print(z%d)" % i]
        form = i % 3
        if form == 0:
            lines.append("for w%d := 0; w%d < 2; w%d++ {" % (i, i, i))
        elif form == 1:
            lines.append("for u%d, w%d := range []int{5, 6} {" % (i, i))
        else:
            lines += ["w%d := 0" % i, "for w%d < 2 {" % i]
            body.append("w%d = w%d + 1" % (i, i))
        lines += ["\t" + l for l in body] + ["}"]
        for _ in range(2):
            exp.append("#%d" % i)
            exp += expected_lines(fn, g)
    return "\n".join(lines) + "\n", exp


def _cmd(script):
    import cmdsim
    try:
        out, st = cmdsim.run(script, max_steps=3000000)
        return ("ok", out, st)
    except cmdsim.Stuck as e:
        return ("stuck", str(e), None)
    except cmdsim.Budget:
        return ("budget", "", None)
    except (RecursionError, MemoryError):
        return ("budget", "recursion/memory", None)


def pair_program(fn, pairs):
    """two calls of the SAME library function in one statement (round 7: C15-8, one result variable per called function in the bash
    output - both operands read the value of the last call); every result is needed at once: as operands of one expression, as
    arguments of one print, as arguments of another call of the library"""
    _, rets = SIGS[fn]
    lines = ['import "strings"']
    exp = []
    for i, ((t1, g1), (t2, g2)) in enumerate(pairs):
        c1 = "strings.%s(%s)" % (fn, ", ".join(tsh_arg(a) for a in t1))
        c2 = "strings.%s(%s)" % (fn, ", ".join(tsh_arg(a) for a in t2))
        lines.append('print("#%d")' % i)
        exp.append("#%d" % i)
        v1, v2 = g1.split(":", 1)[1], g2.split(":", 1)[1]
        if rets == "s":
            lines.append('print("[" + %s + "|" + %s + "]")' % (c1, c2))
            exp += ("[" + bytes.fromhex(v1).decode() + "|" + bytes.fromhex(v2).decode() + "]").split("\n")
        elif rets == "i":
            lines.append("print(%s, %s, %s - %s)" % (c1, c2, c1, c2))
            exp.append("%s %s %d" % (v1, v2, int(v1) - int(v2)))
        else:
            lines.append("print(%s, %s, %s && !%s)" % (c1, c2, c1, c2))
            exp.append("%s %s %d" % (v1, v2, 1 if (v1 == "1" and v2 != "1") else 0))
    return "\n".join(lines) + "\n", exp


MULTI_FILE = {
    "main.tsh": 'import (\n\ta "a.tsh"\n\tb "b.tsh"\n\tc "c.tsh"\n)\nprint(a.GetBanner())\nprint(b.GetPos())\nprint(c.GetParts())\n',
    "a.tsh": 'import "strings"\nvar Banner = strings.Repeat("ab", 2)\nfunc GetBanner() string {\n\treturn Banner\n}\n',
    "b.tsh": 'import "strings"\nvar Pos = strings.Index("abab", "b")\nfunc GetPos() int {\n\treturn Pos\n}\n',
    "c.tsh": 'import "strings"\nvar Parts = strings.Split("a,b,c", ",")\nvar Joined = strings.Join(Parts, "+")\nfunc GetParts() string {\n\treturn Joined + strings.TrimSpace("  x ")\n}\n',
}
MULTI_FILE_EXPECTED = ["abab", "1", "a+b+cx"]


def run(res, b, tier, seed):
    rng = random.Random(seed * 1543 + 15)
    pr = common.prove("C15")
    common.proof_coverage(res, pr)
    if b.harness_error or b.model_error:
        res.violation("build", dict(harness=b.harness_error, model=b.model_error), no_input=True)
        return
    quick = tier == "quick"
    batches = []
    pair_cases = [pipeline.Case("multi-file", {k: v.encode() for k, v in MULTI_FILE.items()},
                                meta=dict(fn="(several, called at the top level of three imported files)", expected=MULTI_FILE_EXPECTED,
                                          src="\n".join("// %s\n%s" % kv for kv in MULTI_FILE.items())))]
    total = 0
    batch_cases = []
    spec_dis, model_lines_by = [], {}
    for fn in SIGS:
        tuples = arg_tuples(rng, fn, quick) + long_tuples(fn)
        # what Go returns
        rc, golines, err = common.run_lines([b.tshdump, "gostrings"], [fn + " " + " ".join(enc_arg(a) for a in t) for t in tuples])
        reqs = [fn + " " + " ".join(enc_arg(a) for a in t) for t in tuples]
        spec = pipeline.model_lines(b, ["STRS " + r for r in reqs])
        modl = pipeline.model_lines(b, ["STRM " + r for r in reqs])
        for t, g, sp, ml in zip(tuples, golines, spec, modl):
            if sp != g:
                spec_dis.append((fn, t, g, sp))
            model_lines_by[(fn, repr(t))] = ml
        pairs = [(t, g) for t, g in zip(tuples, golines) if g != "panic"]
        total += len(pairs)
        if SIGS[fn][1] in ("s", "i", "b") and len(pairs) > 1:
            r2 = random.Random(seed * 7 + len(fn))
            pp = [(r2.choice(pairs), r2.choice(pairs)) for _ in range(40)]
            psrc, pexp = pair_program(fn, pp)
            pair_cases.append(pipeline.Case("pair-" + fn, {"main.tsh": psrc.encode()}, meta=dict(fn=fn, expected=pexp, src=psrc)))
        if pairs:
            r3 = random.Random(seed * 11 + len(fn))
            lp = [r3.choice(pairs) for _ in range(9)]
            lsrc, lexp = loop_program(fn, lp)
            pair_cases.append(pipeline.Case("loop-" + fn, {"main.tsh": lsrc.encode()}, meta=dict(fn=fn, expected=lexp, src=lsrc)))
            # a sample for the Batch target (executed by the cmd model of C05); calls with an empty string among the arguments apart:
            # there the known finding substring-of-empty-string of C05 shows through the library
            def has_empty(t):
                return any(a == "" or (isinstance(a, (list, tuple)) and "" in a) for a in t)
            longs = [p_ for p_ in pairs if p_[0] in long_tuples(fn)]
            for tag, pool in (("batch-", [p_ for p_ in pairs if not has_empty(p_[0])]), ("batche-", [p_ for p_ in pairs if has_empty(p_[0])]), ("batchl-", longs)):
                if not pool:
                    continue
                bp = pool if tag == "batchl-" else [r3.choice(pool) for _ in range(8 if tag == "batch-" else 3)]
                bexp = []
                for k, (t, g) in enumerate(bp):
                    bexp.append("#%d" % k)
                    bexp += expected_lines(fn, g)
                bsrc = program(fn, [t for t, _ in bp])
                batch_cases.append(pipeline.Case(tag + fn, {"main.tsh": bsrc.encode()}, meta=dict(fn=fn, expected=bexp, src=bsrc, empty_args=tag == "batche-")))
        size = 60
        for i in range(0, len(pairs), size):
            chunk = pairs[i:i + size]
            src = program(fn, [t for t, _ in chunk])
            exp = []
            for k, (t, g) in enumerate(chunk):
                exp.append("#%d" % k)
                exp += expected_lines(fn, g)
            batches.append(pipeline.Case("%s-%d" % (fn, i), {"main.tsh": src.encode()}, meta=dict(fn=fn, chunk=chunk, expected=exp, src=src)))
    pipeline.run_pipe(b, batches, "s")
    fails = []
    pipeline.run_pipe(b, pair_cases, "s")
    pok = [c for c in pair_cases if c.out.get("BASH", ("", ""))[0] == "OK"]
    for c in pair_cases:
        if c not in pok:
            fails.append((c.meta["fn"], None, "program with several library calls in one statement not transpiled", None, None))
    for c, r in zip(pok, common.pmap_proc(_exec, [bytes.fromhex(c.out["BASH"][1]) for c in pok])):
        got = r["stdout"].decode("latin1").split("\n")
        if got and got[-1] == "":
            got = got[:-1]
        if got != c.meta["expected"] or r["stderr"] != b"":
            k = next((i for i, (x, y) in enumerate(zip(got, c.meta["expected"])) if x != y), min(len(got), len(c.meta["expected"])))
            fails.append((c.meta["fn"], None, "several library calls in one statement / one program: output differs from Go at line %d; program:\n%s" % (k, c.meta["src"][:3000]),
                          c.meta["expected"][max(0, k - 2):k + 2], got[max(0, k - 2):k + 2] + [r["stderr"].decode("latin1")[:200]]))
    # the listed witness of the known finding batch-substring-of-empty-string, in every run
    wsrc = program("Split", [("", " a")])
    batch_cases.append(pipeline.Case("batche-witness", {"main.tsh": wsrc.encode()}, meta=dict(fn="Split", expected=["#0", "1", "[]"], src=wsrc, empty_args=True)))
    # Batch target: the compiled library under the cmd model
    pipeline.run_pipe(b, batch_cases, "w")
    bok = [c for c in batch_cases if c.out.get("BATCH", ("", ""))[0] == "OK"]
    for c in batch_cases:
        if c not in bok:
            fails.append((c.meta["fn"], None, "library call not transpiled for the Batch target", None, None))
    batch_outcomes = {}
    for c, r in zip(bok, common.pmap_proc(_cmd, [bytes.fromhex(c.out["BATCH"][1]).decode("utf-8", "replace") for c in bok], chunksize=1)):
        batch_outcomes[r[0]] = batch_outcomes.get(r[0], 0) + 1
        if r[0] != "ok":
            continue                    # outside the cmd model or its step budget: not decided here
        got = r[1].split("\n")
        if got and got[-1] == "":
            got = got[:-1]
        if got != c.meta["expected"]:
            k = next((i for i, (x, y) in enumerate(zip(got, c.meta["expected"])) if x != y), min(len(got), len(c.meta["expected"])))
            if c.meta["empty_args"] and any("~" in ln for ln in got) and res.known_finding("batch-substring-of-empty-string", c.meta["fn"]):
                continue
            fails.append((c.meta["fn"], None, "Batch target (cmd model): output differs from Go at line %d; program:\n%s" % (k, c.meta["src"][:3000]),
                          c.meta["expected"][max(0, k - 2):k + 2], got[max(0, k - 2):k + 2]))
    runnable = []
    for c in batches:
        if c.out.get("BASH", ("", ""))[0] != "OK":
            cls, payload = c.out.get("BASH", ("MISSING", ""))
            fails.append((c.meta["fn"], None, "library call not transpiled: %s %s" % (cls, bytes.fromhex(payload).decode("utf-8", "replace") if payload else ""), None, None))
        else:
            runnable.append(c)
    runs = common.pmap_proc(_exec, [bytes.fromhex(c.out["BASH"][1]) for c in runnable])
    per_fn = {}
    model_dis = []
    for c, r in zip(runnable, runs):
        got = r["stdout"].decode("latin1").split("\n")
        # split output per call at the "#k" markers
        segs, cur = {}, None
        for ln in got:
            if ln.startswith("#") and ln[1:].isdigit():
                cur = int(ln[1:])
                segs[cur] = []
            elif cur is not None:
                segs[cur].append(ln)
        if segs:
            last = max(segs)
            if segs[last] and segs[last][-1] == "":
                segs[last] = segs[last][:-1]
        for k, (t, g) in enumerate(c.meta["chunk"]):
            want = expected_lines(c.meta["fn"], g)
            have = segs.get(k)
            per_fn.setdefault(c.meta["fn"], [0, 0])[0] += 1
            if have != want:
                per_fn[c.meta["fn"]][1] += 1
                fails.append((c.meta["fn"], t, "result differs from Go", want, have))
            ml = model_lines_by.get((c.meta["fn"], repr(t)))
            if ml is None or ml in ("CRASH", "unknown", "BADREQ") or expected_lines(c.meta["fn"], ml) != have:
                model_dis.append((c.meta["fn"], t, ml, have))
        if r["stderr"] != b"":
            fails.append((c.meta["fn"], None, "stderr: " + r["stderr"].decode("latin1")[:300], None, None))
    res.coverage.update(dict(
        evaluations=total,
        distinct_nontrivial=total,
        exhaustive=not quick,
        rule="for each of the 19 library functions: all argument tuples over strings on the alphabet {a, b, blank} up to length 3 (thorough: 4; second "
             "arguments up to 2/3), counts -2..4, slices of up to 4 elements (TrimSpace: {blank, tab, a} up to length 4/5); quick caps each function at 700 "
             "tuples (all tuples containing an empty string are kept); the library is compiled by the real pipeline in batches of 60 calls, executed under "
             "bash and compared with Go's strings package (harness mode gostrings); distinct = tuples",
        samples=[dict(function=batches[0].meta["fn"], args=[str(t) for t, _ in batches[0].meta["chunk"][:3]], program=batches[0].meta["src"][:300])],
        per_function={k: dict(calls=v[0], differing=v[1]) for k, v in per_fn.items()},
        batch_target_under_cmd_model=batch_outcomes,
        correspondence=dict(stage="Lean rendering of std/strings.tsh (Std.Lib, STRM) vs the compiled and executed library; Lean specification (Std.Go, STRS) vs Go's strings package",
                            compared=total, disagreements=len(model_dis), spec_vs_go_disagreements=len(spec_dis)),
        oracle_failures=len(fails),
    ))
    real = []
    for fn, t, what, want, have in fails:
        real.append((fn, t, what, want, have))
    seen = set()
    for fn, t, what, want, have in real:
        if fn in seen:
            continue
        seen.add(fn)
        if len(seen) > 5:
            break
        res.violation("oracle", dict(function=fn, args=[a for a in t] if t else None, what=what, go=want, typeshell=have,
                                     program=program(fn, [t]) if t else None))
    if not real and spec_dis:
        fn, t, g, sp = spec_dis[0]
        res.violation("validation-tie", dict(what="the Lean specification of Go's strings package differs from the package", function=fn, args=list(t), go=g, lean_spec=sp,
                                             count=len(spec_dis)), no_input=True)
    elif not real and model_dis:
        fn, t, ml, have = model_dis[0]
        res.violation("correspondence", dict(what="the Lean rendering of std/strings.tsh differs from the executed library", function=fn, args=list(t), lean_model=ml,
                                             typeshell=have, count=len(model_dis)), no_input=True)
    elif not real and not pr["ok"]:
        res.violation("theorem", dict(broken=pr["broken"], log=pr["log"][-3000:]), no_input=True)


def _exec(script):
    return semcheck.run_bash(script, timeout=60)
