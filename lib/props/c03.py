"""C03 - Bash target preserves slice and string operation semantics."""
import gen_prog
import semprop


def cfgs(tier):
    deep = tier != "quick"
    return [(2, gen_prog.Cfg(slices=True, strops=True, funcs=True, max_depth=3 if not deep else 4, max_nest=3)),
            (1, gen_prog.Cfg(slices=True, strops=True, max_depth=3, max_nest=2, panic=False)),
            # element values that a careless helper routine would mangle: blanks (leading, repeated), option look-alikes, globs
            (1, gen_prog.Cfg(slices=True, strops=True, funcs=True, max_depth=2, max_nest=2, panic=False, alphabet="an eE-*#~'  ;"))]


def run(res, b, tier, seed):
    semprop.run_semantic(res, b, tier, seed, "C03", cfgs)
