"""C08 - String values are opaque data on every path: never expanded or executed."""
import random

import common
import gen_strings
import pipeline
import semcheck

# data paths: (name, lines using S (the string expression), expected stdout as function of s)
PRELUDE = 'func id(a string) string {\n\treturn a\n}\n'


def valid_file_name(s):
    """the string can be the name of a file in the working directory (the value as the PATH of write / exists / read: an option
    look-alike such as -n or --help is a name like any other; round 7: C08-9, read through `cat` without `--`)"""
    b_ = s.encode()
    return 0 < len(b_) <= 100 and b"/" not in b_ and b"\x00" not in b_ and b"\n" not in b_ and s not in (".", "..") and s != "in.txt" and s != "f.txt"


def paths(S, s, runtime):
    """list of (name, source lines, expected output lines (list of str, joined by \\n + final \\n))"""
    chars = [c for c in s]
    return [
        ("print", ["print(%s)" % S], [s]),
        ("assign", ["v1 := %s" % S, "print(v1)"], [s]),
        ("concat", ['print("<" + %s + ">")' % S], ["<" + s + ">"]),
        ("compare", ["print(%s == %s, %s != \"zz\" + %s)" % (S, S, S, S)], ["1 1"]),
        ("call-return", ["print(id(%s))" % S], [s]),
        ("slice-literal", ["sl1 := []string{%s, \"k\"}" % S, "print(sl1[0])", "print(len(sl1))"], [s, "2"]),
        ("slice-store", ["var sl2 []string", "sl2[1] = %s" % S, "print(sl2[1])", "print(len(sl2))"], [s, "2"]),
        ("slice-range", ["sl3 := []string{%s}" % S, "for i3, e3 := range sl3 {", "\tprint(e3)", "}"], [s]),
        ("slice-copy", ["cs6 := []string{%s, \"k\"}" % S, "cd6 := []string{}", "print(copy(cd6, cs6))", "print(cd6[0])", "print(cd6[0] == cs6[0])"], ["2", s, "1"]),
        ("subscript", ["v4 := %s" % S, "print(v4[0:len(v4)])"], [s]),
        ("len", ["print(len(%s))" % S], [str(len(s.encode()))]),
        ("string-range", ["v5 := %s" % S, "for i5, c5 := range v5 {", '\tprint("[" + c5 + "]")', "}"], ["[" + c + "]" for c in chars]),
        ("write-read", ['write("f.txt", %s)' % S, 'print(read("f.txt"))'], [s.rstrip("\n")] if s.endswith("\n") else [s]),
        ("multi-print", ['print("a", %s, "b")' % S], ["a " + s + " b"]),
        # the same value at nesting depth two and inside a function body (round 14: C08-G indented the script per nesting level, the
        # continuation lines of a literal with a line break included)
        ("nested", ["if len(\"x\") == 1 {", "\tfor i9 := 0; i9 < 1; i9++ {", "\t\tprint(%s)" % S, "\t\tv9 := %s" % S, "\t\tprint(len(v9), v9 == %s)" % S, "\t}", "}"],
         [s, "%d 1" % len(s.encode())]),
    ] + ([("file-name", ['write(%s, "c8")' % S, 'print(exists(%s), read(%s))' % (S, S)], ["1 c8"])] if valid_file_name(s) else [])


def build(s, runtime, only=None, exclude=()):
    """program text + expected stdout for one string (all paths, or one path)"""
    lines = [PRELUDE.rstrip("\n")]
    expected = []
    if runtime == "file":
        lines.append('rt := read("in.txt")')
        S = "rt"
    elif runtime == "stdin":
        lines.append("rt := input()")
        S = "rt"
    elif runtime == "stdinprompt":
        # the prompt form of the builtin is a second emitted line form (round 15: C08-H, `IFS=` lost only when there is a prompt - leading and
        # trailing blanks of the line were stripped)
        lines.append('rt := input("value> ")')
        S = "rt"
    elif runtime == "command":
        lines.append('rt, rterr, rtcode := @cat("in.txt")')
        S = "rt"
    elif runtime == "rawliteral":
        S = "`" + s + "`"             # the raw form: everything between the back quotes is the value, line breaks included
    else:
        S = gen_strings.go_quote(s)
    for name, src, exp in paths(S, s, runtime):
        if only is not None and name != only:
            continue
        if name in exclude:
            continue
        lines.append('print("--%s")' % name)
        expected.append("--" + name)
        lines += src
        expected += exp
    lines.append('print("--end")')
    expected.append("--end")
    return "\n".join(lines) + "\n", "".join(e + "\n" for e in expected)


BATCH_SAFE = set("abcdefghijklmnopqrstuvwxyzABCDEFGHIJKLMNOPQRSTUVWXYZ0123456789 \t\n!=,;()&|<>~*?-_.:/+#@[]{}'")


def _cmd(script):
    import cmdsim
    try:
        out, st = cmdsim.run(script)
        return ("ok", out, st)
    except cmdsim.Stuck as e:
        return ("stuck", str(e), None)
    except cmdsim.Budget:
        return ("budget", "", None)
    except (RecursionError, MemoryError):
        return ("budget", "recursion/memory", None)


def run(res, b, tier, seed):
    batch_fails = []
    pr = common.prove("C08")
    common.proof_coverage(res, pr)
    if b.harness_error or b.model_error:
        res.violation("build", dict(harness=b.harness_error, model=b.model_error), no_input=True)
        return
    quick = tier == "quick"
    strings = gen_strings.all_strings(quick)
    rng = random.Random(seed * 883 + 8)
    for _ in range(40 if quick else 600):
        n = rng.randrange(1, 9)
        strings.append(("random", "".join(rng.choice(gen_strings.ALPHABET) for _ in range(n))))
    cases = []
    for label, s in strings:
        for origin in ("literal", "rawliteral", "file", "stdin", "stdinprompt", "command"):
            if origin == "rawliteral" and ("`" in s or "\r" in s):
                continue            # a raw literal cannot contain a back quote (and the lexer folds CR LF in the source text)
            if origin not in ("literal", "rawliteral") and ("\n" in s or s == ""):
                # a run-time value that ends in a line break loses it in $(...) / read: not generated (DESIGN 7/C08);
                # embedded line breaks cannot come from `input` (one line); keep them for the literal origin only
                continue
            if origin in ("stdin",) and (s != s.strip(" \t") and False):
                continue
            src, exp = build(s, origin)
            files = {"main.tsh": src.encode()}
            c = pipeline.Case("c%d" % len(cases), files, meta=dict(label=label, s=s, origin=origin, expected=exp, src=src))
            cases.append(c)
    pipeline.run_pipe(b, cases, "asw")
    pipeline.model_full(b, cases)
    dis = []
    for c in cases:
        impl = c.out.get("BASH", ("MISSING", ""))
        canon = "OK " + impl[1] if impl[0] == "OK" else impl[0]
        if c.meta.get("model_bash") != canon:
            dis.append(c)
    # the Batch scripts of ALL strings and origins (the cmd model runs only the literal programs over its safe alphabet, below): tied
    # to the Lean rendering of the Batch converter
    dis += [c for c in pipeline.batch_disagreements(b, cases) if c not in dis]
    # the semantic models on these strings: every literal (all data paths but the file one) through the Lean source semantics and the
    # Lean bash model next to the reference result and /bin/bash (ties the quoting part of Sem2/Bash to bash on special characters)
    semcases = []
    for label, s0 in strings:
        if all(ord(ch) < 128 for ch in s0):
            src, exp = build(s0, "literal", exclude=("write-read",))
            semcases.append(pipeline.Case("s%d" % len(semcases), {"main.tsh": src.encode()},
                                          meta=dict(src=src, expected_out=exp.split("\n")[:-1], expected_status=0, s=s0)))
    sdis, sfails = semcheck.check_cases(b, semcases)
    sem_dis = [d for d in sdis if str(d[1]).startswith("SEM")]
    runnable = [c for c in cases if c.out.get("BASH", ("", ""))[0] == "OK"]
    fails = []
    for c in cases:
        if c.out.get("BASH", ("", ""))[0] != "OK":
            fails.append((c, None, "not transpiled: " + c.out.get("BASH", ("MISSING", ""))[0]))
    runs = common.pmap_proc(_exec, [(bytes.fromhex(c.out["BASH"][1]), c.meta["s"].encode()) for c in runnable])
    for c, r in zip(runnable, runs):
        bad = r["timeout"] or r["stdout"] != c.meta["expected"].encode() or r["status"] != 0 or r["stderr"] != b"" or "canary" in r["tree"]
        if bad:
            fails.append((c, r, "behaviour"))
    # attribute failures to data paths (each failing string is re-run path by path)
    attributed = []
    todo = []
    for c, r, what in fails:
        if r is None:
            attributed.append((c, "all", what, None))
            continue
        for name, _, _ in paths("x", c.meta["s"], c.meta["origin"]):
            src, exp = build(c.meta["s"], c.meta["origin"], only=name)
            todo.append((c, name, pipeline.Case("a%d" % len(todo), {"main.tsh": src.encode()}, meta=dict(expected=exp))))
    if todo:
        sub = [t[2] for t in todo]
        pipeline.run_pipe(b, sub, "s")
        ok = [t for t in todo if t[2].out.get("BASH", ("", ""))[0] == "OK"]
        rs = common.pmap_proc(_exec, [(bytes.fromhex(t[2].out["BASH"][1]), t[0].meta["s"].encode()) for t in ok])
        for (c, name, sc), r in zip(ok, rs):
            if r["timeout"] or r["stdout"] != sc.meta["expected"].encode() or r["status"] != 0 or r["stderr"] != b"" or "canary" in r["tree"]:
                attributed.append((c, name, "behaviour", r))
    by_path = {}
    for c, name, what, r in attributed:
        by_path.setdefault((name, c.meta["origin"]), []).append(c.meta["s"])
    # Batch target: the literal-origin programs whose characters the cmd model of C05 reads as cmd.exe does (letters, digits, blank,
    # tab, LINE BREAK, `!` and punctuation without a meaning inside a quoted `set`; not `%`, `^`, `"`) are executed by that model (round
    # 9: C08-B, the `!` of the `!LF!` that stands for a line break escaped to `^!LF^!`)
    import cmdsim
    bcases = []
    for label, s0 in strings:
        if all(ch in BATCH_SAFE for ch in s0):
            # (a subscript of the EMPTY string is the known Batch finding substring-of-empty-string of C05: left out here)
            src, exp = build(s0, "literal", exclude=("write-read", "file-name") + (("subscript",) if s0 == "" else ()))
            bcases.append(pipeline.Case("b%d" % len(bcases), {"main.tsh": src.encode()}, meta=dict(src=src, expected=exp, s=s0, origin="literal")))
    pipeline.run_pipe(b, bcases, "w")
    bok = [c for c in bcases if c.out.get("BATCH", ("", ""))[0] == "OK"]
    batch_stats = dict(programs=len(bcases), run=0)
    for c, r in zip(bok, common.pmap_proc(_cmd, [bytes.fromhex(c.out["BATCH"][1]).decode("utf-8", "replace") for c in bok], chunksize=4)):
        if r[0] != "ok":
            continue
        batch_stats["run"] += 1
        if r[1] != c.meta["expected"] or r[2] != 0:
            batch_fails.append((c, r))
    res.coverage.update(dict(
        evaluations=len(cases),
        batch_target_under_cmd_model=batch_stats,
        distinct_nontrivial=len({(c.meta["s"], c.meta["origin"]) for c in cases}),
        rule="every character of the 97-character alphabet (printable ASCII, line feed, tab) in only/first/middle/last position (quick: only + one rotating "
             "position), %d shell-significant special strings, random strings; x 13 data paths (print, assign, concat, compare, call/return, slice literal, "
             "slice store, slice range, subscript, len, string range, write/read, multi-print) x 6 origins (interpreted literal, raw literal, file, standard input without and with a prompt, command output); "
             "oracle: stdout byte for byte, empty stderr, exit 0, no canary file; distinct = distinct (string, origin)" % len(gen_strings.SPECIALS),
        samples=[dict(string=cases[5].meta["s"], origin=cases[5].meta["origin"], program=cases[5].meta["src"][:400])],
        correspondence=dict(stage="AST + bash script (whole model pipeline)", compared=len(cases), disagreements=len(dis)),
        oracle_failures=len(fails),
        semantic_models=dict(semcheck.SEM_STATS, disagreements=len(sem_dis),
                             rule="the literal-origin programs (all data paths except write/read) run through Sem2/Src and Sem2/Bash of the Lean development, "
                                  "next to the expected output and /bin/bash"),
        failing_paths={"%s/%s" % k: len(v) for k, v in sorted(by_path.items())},
    ))
    real = []
    for c, name, what, r in attributed:
        fid = classify(c.meta["s"], name, c.meta["origin"])
        if fid and res.known_finding(fid, what):
            continue
        real.append((c, name, what, r))
    if fails and not attributed:
        real = [(c, "combined", what, r) for c, r, what in fails]
    for c, name, what, r in real[:3]:
        res.violation("oracle", dict(what=what, path=name, origin=c.meta["origin"], string=c.meta["s"], string_hex=c.meta["s"].encode().hex(),
                                     program=build(c.meta["s"], c.meta["origin"], only=None if name in ("all", "combined") else name)[0],
                                     stdout=r["stdout"].decode("latin1")[:500] if r else None, stderr=r["stderr"].decode("latin1")[:300] if r else None,
                                     canary=("canary" in r["tree"]) if r else None))
    for c, r in batch_fails[:3]:
        res.violation("oracle", dict(what="behaviour of the Batch script under the cmd model", origin="literal", string=c.meta["s"], string_hex=c.meta["s"].encode().hex(),
                                     program=c.meta["src"], expected_stdout=c.meta["expected"][:800], under_cmd_model=str(r)[:800],
                                     script=bytes.fromhex(c.out["BATCH"][1]).decode("utf-8", "replace")[:3000]))
    real = real or batch_fails
    if not real and sem_dis:
        c, got, want = sem_dis[0]
        if not (("$" in c.meta["s"] or "`" in c.meta["s"]) and res.known_finding("literal-dollar-backquote-expanded", "semantic models")):
            res.violation("correspondence", dict(stage="semantic models (Sem2/Src, Sem2/Bash) vs reference and /bin/bash", src=c.meta["src"], model=str(got)[:2000],
                                                 implementation=str(want)[:2000], disagreements=len(sem_dis)), no_input=True)
    if not real and (dis or not pr["ok"]):
        if dis:
            c = dis[0]
            res.violation("correspondence", dict(stage="script", src=c.meta["src"], model=c.meta.get("model_bash", "")[:2000], implementation=str(c.out.get("BASH"))[:2000],
                                                 disagreements=len(dis)), no_input=True)
        else:
            res.violation("theorem", dict(broken=pr["broken"], log=pr["log"][-3000:]), no_input=True)


def _exec(arg):
    script, s = arg
    return semcheck.run_bash(script, stdin=s + b"\n", files={"in.txt": s}, keep=True)


def classify(s, path, origin):
    """regions of the listed known findings"""
    if origin in ("literal", "rawliteral") and ("$" in s or "`" in s):
        return "literal-dollar-backquote-expanded"
    return None
