"""Shared machinery of the /verif checks: build cache keyed by /repo's working tree, running the
Go harness (real code) and the Lean driver (model), proof-obligation builds and axiom audit,
known-findings protocol, evidence and replay writing."""
import fcntl
import hashlib
import json
import os
import random
import re
import shutil
import subprocess
import sys
import tempfile
import time
from concurrent.futures import ProcessPoolExecutor, ThreadPoolExecutor

VERIF = os.path.dirname(os.path.dirname(os.path.abspath(__file__)))
REPO = os.environ.get("VERIF_REPO", "/repo")
LEAN = os.environ.get("VERIF_LEAN", os.path.join(VERIF, "lean"))   # (VERIF_LEAN: a scratch copy of the Lean project, development only)
BUILD = os.path.join(VERIF, ".build")
GOENV = dict(os.environ, GOFLAGS="-mod=mod", GOPROXY="off", GOSUMDB="off", GOTOOLCHAIN="local",
             CGO_ENABLED="0")
ALLOWED_AXIOMS = {"propext", "Classical.choice", "Quot.sound"}
FORBIDDEN = re.compile(r"\b(sorry|admit|native_decide|bv_decide|implemented_by|unsafe)\b|^\s*axiom\s|maxHeartbeats\s+0")
NCPU = os.cpu_count() or 4


def log(*a):
    print(*a, file=sys.stderr, flush=True)


def sh(cmd, cwd=None, env=None, timeout=None, input=None):
    p = subprocess.run(cmd, cwd=cwd, env=env, timeout=timeout, input=input,
                       stdout=subprocess.PIPE, stderr=subprocess.STDOUT)
    return p.returncode, p.stdout.decode("utf-8", "replace")


def repo_hash():
    h = hashlib.sha256()
    files = []
    for root, dirs, fs in os.walk(REPO):
        dirs[:] = sorted(d for d in dirs if d not in (".git",))
        for f in sorted(fs):
            if f.endswith((".go", ".tsh")) or f in ("go.mod", "go.sum"):
                files.append(os.path.join(root, f))
    hdir = os.path.join(VERIF, "harness")
    for f in sorted(os.listdir(hdir)):          # the harness source is part of what is built
        if f.endswith(".go") or f == "go.mod":
            h.update(b"harness/" + f.encode() + b"\0" + open(os.path.join(hdir, f), "rb").read() + b"\0")
    for f in sorted(files):
        h.update(os.path.relpath(f, REPO).encode() + b"\0")
        with open(f, "rb") as fh:
            h.update(fh.read())
        h.update(b"\0")
    return h.hexdigest()[:16]


class Lock:
    def __init__(self, name):
        os.makedirs(BUILD, exist_ok=True)
        self.path = os.path.join(BUILD, name + ".lock")

    def __enter__(self):
        self.fh = open(self.path, "w")
        fcntl.flock(self.fh, fcntl.LOCK_EX)
        return self

    def __exit__(self, *a):
        fcntl.flock(self.fh, fcntl.LOCK_UN)
        self.fh.close()


def build_tools():
    """Translator binary (independent of /repo)."""
    exe = os.path.join(BUILD, "extract")
    src = os.path.join(VERIF, "tools", "extract")
    newest = max(os.path.getmtime(os.path.join(src, f)) for f in os.listdir(src))
    if not os.path.exists(exe) or os.path.getmtime(exe) < newest:
        rc, out = sh(["go", "build", "-o", exe, "."], cwd=src, env=GOENV)
        if rc != 0:
            raise RuntimeError("building tools/extract failed:\n" + out)
    return exe


class Build:
    """Everything that is rebuilt from /repo's current working tree."""

    def __init__(self):
        self.hash = None
        self.dir = None
        self.tshdump = None
        self.tsh = None
        self.tshmodel = os.path.join(LEAN, ".lake", "build", "bin", "tshmodel")
        self.harness_error = None
        self.extract_error = None
        self.model_error = None


def ensure_build():
    """Regenerate Generated/*.lean, build the Lean driver, build the harness against /repo."""
    b = Build()
    with Lock("build"):
        b.hash = repo_hash()
        b.dir = os.path.join(BUILD, "h-" + b.hash)
        # drop builds of other trees (disk) -- nothing is ever reused across trees
        for d in os.listdir(BUILD):
            if d.startswith("h-") and d != "h-" + b.hash:
                shutil.rmtree(os.path.join(BUILD, d), ignore_errors=True)
        os.makedirs(b.dir, exist_ok=True)
        # 1. translator
        extract = build_tools()
        gen = os.path.join(LEAN, "TshVerif", "Generated")
        rc, out = sh([extract, REPO, gen])
        if rc != 0:
            b.extract_error = out
        # 2. Lean driver (models only)
        stamp = os.path.join(b.dir, "lean.ok")
        rc, out = sh(["lake", "build", "tshmodel"], cwd=LEAN)
        if rc != 0:
            b.model_error = out
        # 3. harness + tsh binary from the working tree
        b.tshdump = os.path.join(b.dir, "tshdump")
        b.tsh = os.path.join(b.dir, "tsh")
        if not (os.path.exists(b.tshdump) and os.path.exists(b.tsh)):
            hdir = os.path.join(VERIF, "harness")
            try:
                shutil.copy(os.path.join(REPO, "go.sum"), os.path.join(hdir, "go.sum"))
            except OSError:
                pass
            rc, out = sh(["go", "build", "-tags", "verif", "-o", b.tshdump + ".tmp", "."], cwd=hdir, env=GOENV)
            if rc != 0:
                b.harness_error = out
            else:
                os.replace(b.tshdump + ".tmp", b.tshdump)
                rc, out = sh(["go", "build", "-tags", "verif", "-o", b.tsh + ".tmp", "."], cwd=REPO, env=GOENV)
                if rc != 0:
                    b.harness_error = out
                else:
                    os.replace(b.tsh + ".tmp", b.tsh)
            std = os.path.join(b.dir, "std")
            shutil.rmtree(std, ignore_errors=True)
            if os.path.isdir(os.path.join(REPO, "std")):
                shutil.copytree(os.path.join(REPO, "std"), std)
    return b


def prove(prop):
    """Build the property's proof module and audit the axioms of every theorem in it.
    Returns dict(ok, theorems, axioms, broken, log)."""
    mod = "TshVerif.Props." + prop
    src = os.path.join(LEAN, "TshVerif", "Props", prop + ".lean")
    res = dict(ok=False, theorems=[], axioms={}, broken=[], log="", module=mod)
    if not os.path.exists(src):
        res["log"] = "no proof module"
        return res
    # a property may have a second proof module Props/<id>Sem.lean (semantic theorems that sit above the lemma
    # files which themselves use Props/<id>.lean)
    mods, srcs = [mod], [src]
    if os.path.exists(os.path.join(LEAN, "TshVerif", "Props", prop + "Sem.lean")):
        mods.append(mod + "Sem")
        srcs.append(os.path.join(LEAN, "TshVerif", "Props", prop + "Sem.lean"))
        res["module"] = " ".join(mods)
    for one in srcs:
        text = open(one).read()
        ns = re.findall(r"^namespace\s+(\S+)", text, re.M)
        prefix = (ns[0] + ".") if ns else ""
        names = re.findall(r"^(?:private\s+)?theorem\s+(\S+)", text, re.M)
        res["theorems"] += [prefix + n for n in names]
    # forbidden words anywhere in the Lean sources (outside comments)
    bad = []
    for root, _, fs in os.walk(os.path.join(LEAN, "TshVerif")):
        for f in fs:
            if f.endswith(".lean"):
                body = open(os.path.join(root, f)).read()
                body = re.sub(r"/-.*?-/", "", body, flags=re.S)
                for ln in body.splitlines():
                    ln = ln.split("--")[0]
                    if FORBIDDEN.search(ln):
                        bad.append(f + ": " + ln.strip())
    if bad:
        res["log"] = "forbidden constructs in Lean sources:\n" + "\n".join(bad)
        res["broken"] = ["forbidden-construct"]
        return res
    with Lock("lake"):
        rc, out = sh(["lake", "build"] + mods, cwd=LEAN)
    res["log"] = out[-6000:]
    if rc != 0:
        broken = re.findall(r"error: (\S+\.lean):(\d+):\d+", out)
        res["broken"] = sorted({"%s:%s" % (os.path.basename(f), l) for f, l in broken}) or ["build-failed"]
        return res
    # axiom audit
    audit = os.path.join(BUILD, "Audit_%s_%d.lean" % (prop, os.getpid()))
    with open(audit, "w") as fh:
        for one in mods:
            fh.write("import %s\n" % one)
        for n in res["theorems"]:
            fh.write("#print axioms %s\n" % n)
    rc, out = sh(["lake", "env", "lean", audit], cwd=LEAN)
    os.unlink(audit)
    if rc != 0:
        res["log"] += "\naudit failed:\n" + out[-3000:]
        res["broken"] = ["axiom-audit"]
        return res
    cur = None
    for m in re.finditer(r"'([^']+)' (does not depend on any axioms|depends on axioms: \[([^\]]*)\])", out.replace("\n", " ")):
        axs = [a.strip() for a in (m.group(3) or "").split(",") if a.strip()]
        res["axioms"][m.group(1)] = axs
        if not set(axs) <= ALLOWED_AXIOMS:
            res["broken"].append("axioms:" + m.group(1))
    missing = [n for n in res["theorems"] if n not in res["axioms"]]
    if missing:
        res["broken"] += ["unaudited:" + n for n in missing]
    # thorough tier: the toolchain's independent re-checker replays the compiled proof module through the kernel
    if os.environ.get("VERIF_TIER_ACTIVE") == "thorough" and not res["broken"]:
        with Lock("lake"):
            rc, out = sh(["lake", "env", "leanchecker"] + mods, cwd=LEAN)
        res["leanchecker"] = "ok" if rc == 0 else "failed"
        if rc != 0:
            res["log"] += "\nleanchecker failed:\n" + out[-3000:]
            res["broken"].append("leanchecker")
    res["ok"] = not res["broken"]
    return res


def run_lines(cmd, lines, timeout=3600, env=None):
    """Feed request lines to a line-protocol process; return its output lines."""
    data = ("\n".join(lines) + "\n").encode()
    p = subprocess.run(cmd, input=data, stdout=subprocess.PIPE, stderr=subprocess.PIPE, timeout=timeout, env=env)
    return p.returncode, p.stdout.decode("utf-8", "replace").splitlines(), p.stderr.decode("utf-8", "replace")


def chunks(xs, n):
    k = max(1, (len(xs) + n - 1) // n)
    return [xs[i:i + k] for i in range(0, len(xs), k)]


def pmap(f, xs, workers=NCPU):
    with ThreadPoolExecutor(max_workers=workers) as ex:
        return list(ex.map(f, xs))


def pmap_proc(f, xs, workers=NCPU, chunksize=8):
    """process-based map (fork-heavy work such as running many bash scripts)"""
    if not xs:
        return []
    with ProcessPoolExecutor(max_workers=workers) as ex:
        return list(ex.map(f, xs, chunksize=chunksize))


def hexs(b):
    if isinstance(b, str):
        b = b.encode("utf-8", "surrogateescape")
    return b.hex()


# ---------------------------------------------------------------- findings / evidence / replay

def load_findings(prop):
    known, fixed = [], []
    p = os.path.join(VERIF, "known_findings.txt")
    if os.path.exists(p):
        for ln in open(p):
            ln = ln.strip()
            m = re.match(r"known:\s+property=(\S+)\s+id=(\S+)\s+(.*)", ln)
            if m and m.group(1) == prop:
                known.append(dict(id=m.group(2), text=m.group(3)))
            m = re.match(r"fixed:\s+property=(\S+)\s+(\S+)\s+(.*)", ln)
            if m and m.group(1) == prop:
                fixed.append(dict(commit=m.group(2), text=m.group(3)))
    return known, fixed


class Result:
    def __init__(self, prop, tier, seed):
        self.prop, self.tier, self.seed = prop, tier, seed
        self.t0 = time.time()
        self.violations = []          # (replay_path, no_failing_input: bool)
        self.known_seen = {}          # id -> text
        self.coverage = {}
        self.assumptions = []
        self.known, self.fixed = load_findings(prop)

    def replay_path(self, name):
        d = os.path.join(VERIF, "replays", self.prop)
        os.makedirs(d, exist_ok=True)
        return os.path.join(d, name + ".json")

    def violation(self, kind, detail, no_input=False):
        """Record a violation; `detail` is a JSON-able dict that lets the failure be replayed."""
        detail = {("detail_" + k if k in ("property", "kind", "seed", "tier") else k): v for k, v in detail.items()}
        blob = json.dumps(detail, sort_keys=True, default=str)
        name = kind + "-" + hashlib.sha256(blob.encode()).hexdigest()[:12]
        path = self.replay_path(name)
        with open(path, "w") as fh:
            json.dump(dict(property=self.prop, kind=kind, seed=self.seed, tier=self.tier, **detail), fh, indent=1, default=str)
        if len(self.violations) < 20:
            self.violations.append((path, no_input))

    def known_finding(self, fid, what):
        """An oracle failure that falls inside the region of a listed known finding."""
        for k in self.known:
            if k["id"] == fid:
                self.known_seen[fid] = k["text"]
                return True
        return False

    def finish(self, level="proof"):
        for fid, text in sorted(self.known_seen.items()):
            print("KNOWN-FINDING: property=%s %s %s" % (self.prop, fid, text))
        # keys the evidence schema types: keep them well-typed whatever a check put there
        for k in ("evaluations", "distinct_nontrivial", "states", "transitions", "traces_validated_against_impl", "obligations",
                  "discharged", "programs", "disagreements_checked"):
            if k in self.coverage and not (isinstance(self.coverage[k], int) and not isinstance(self.coverage[k], bool)):
                self.coverage[k + "_detail"] = self.coverage.pop(k)
        if "samples" in self.coverage and not isinstance(self.coverage["samples"], list):
            self.coverage["samples"] = [self.coverage["samples"]]
        for k in ("rule", "checker_cmd", "explanation"):
            if k in self.coverage and not isinstance(self.coverage[k], str):
                self.coverage[k] = str(self.coverage[k])
        if level == "proof" and not self.coverage.get("obligations"):
            level = "exploration"     # no theorem stated (yet) for this property: the run is a search, say so
        if level == "proof" and self.coverage.get("discharged") != self.coverage.get("obligations") and not self.violations:
            # a proof-level run in which not every obligation was discharged never ends quietly, whatever the check's own decision code did
            self.violation("theorem", dict(what="proof obligations not all discharged", obligations=self.coverage.get("obligations"),
                                           discharged=self.coverage.get("discharged")), no_input=True)
        ev = dict(property_id=self.prop, tier=self.tier, seed=self.seed, level=level,
                  coverage=self.coverage, assumptions=self.assumptions,
                  wall_s=round(time.time() - self.t0, 2), violations=len(self.violations))
        os.makedirs(os.path.join(VERIF, "evidence"), exist_ok=True)
        with open(os.path.join(VERIF, "evidence", self.prop + ".json"), "w") as fh:
            json.dump(ev, fh, indent=1, default=str)
        if self.violations:
            # report concrete inputs first
            self.violations.sort(key=lambda v: v[1])
            path, no_input = self.violations[0]
            print("VIOLATION property=%s replay=%s%s" % (self.prop, path, " no-failing-input-found" if no_input else ""))
            return 1
        return 0


def proof_coverage(res, pr, checker_extra=""):
    """Fill the proof-level coverage keys from a prove() result."""
    n = len(pr["theorems"])
    res.coverage.update(dict(
        obligations=n,
        discharged=n if pr["ok"] else 0,
        checker_cmd="cd /verif/lean && lake build %s && lake env lean <audit: #print axioms of every theorem>%s" % (pr["module"], checker_extra),
        trusted_base=[
            "Lean 4.33.0 kernel",
            "axioms used: " + ", ".join(sorted({a for v in pr["axioms"].values() for a in v})) if pr["axioms"] else "axioms used: none",
            "hand-written Lean model tied to /repo by the correspondence check of this run (differential, bounded by the generators)",
            "translator tools/extract (go/ast) for Generated/*.lean",
            "Go harness /verif/harness (stage dumps) and this Python driver",
        ],
        theorems=pr["theorems"],
        axioms=pr["axioms"],
    ))
    if pr.get("leanchecker"):
        res.coverage["leanchecker"] = pr["leanchecker"]
        res.coverage["checker_cmd"] += " && lake env leanchecker " + pr["module"]


def seed_tier(argv):
    tier = argv[2] if len(argv) > 2 else os.environ.get("VERIF_TIER", "quick")
    seed = int(os.environ.get("VERIF_SEED", "1"))
    return tier, seed
