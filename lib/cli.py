"""The tsh command (built from /repo's working tree) next to the library entry point: the same program must give the same scripts."""
import os
import shutil
import subprocess
import tempfile


def run_cli(b, files, main="main.tsh", targets=("bash", "batch"), timeout=60):
    """runs `tsh -i <main> -o out -t ...` in a scratch directory; returns (exit status, {file name in out: bytes})"""
    d = tempfile.mkdtemp(prefix="tshcli-")
    try:
        for rel, content in files.items():
            p = os.path.join(d, rel)
            os.makedirs(os.path.dirname(p), exist_ok=True)
            with open(p, "wb") as fh:
                fh.write(content if isinstance(content, bytes) else content.encode())
        os.makedirs(os.path.join(d, "out"), exist_ok=True)
        args = [b.tsh, "-i", main, "-o", "out"]
        for t in targets:
            args += ["-t", t]
        try:
            pr = subprocess.run(args, cwd=d, stdout=subprocess.PIPE, stderr=subprocess.PIPE, timeout=timeout)
            status = pr.returncode
        except subprocess.TimeoutExpired:
            status = -9
        outs = {}
        for f in sorted(os.listdir(os.path.join(d, "out"))):
            q = os.path.join(d, "out", f)
            if os.path.isfile(q):
                with open(q, "rb") as fh:
                    outs[f] = fh.read()
        return status, outs
    finally:
        shutil.rmtree(d, ignore_errors=True)


def library_view(case):
    """what the library returned for a pipeline.Case that went through stages "sw": {ext: bytes or None (error)}"""
    view = {}
    for ext, key in (("sh", "BASH"), ("bat", "BATCH")):
        cls, payload = case.out.get(key, ("MISSING", ""))
        view[ext] = bytes.fromhex(payload) if cls == "OK" else None
    return view


def compare_with_library(b, case, targets=("bash", "batch"), stem=None):
    """list of differences between the command's files / status and the library's results for the same files (empty = agree)"""
    main = case.main
    base = os.path.basename(main)
    i = base.rfind(".")
    stem = stem or (base[:i] if i >= 0 else base)
    lib = library_view(case)
    status, outs = run_cli(b, case.files, main, targets)
    want_ok = all(lib["sh" if t == "bash" else "bat"] is not None for t in targets)
    probs = []
    if want_ok:
        if status != 0:
            probs.append("the command fails (exit status %d) on a program the library translates" % status)
        for t in set(targets):
            ext = "sh" if t == "bash" else "bat"
            name = stem + "." + ext
            if outs.get(name) != lib[ext]:
                probs.append("%s written by the command differs from the library's result (%s)" % (name, "missing" if name not in outs else "%d vs %d bytes" % (len(outs[name]), len(lib[ext]))))
        extra = [f for f in outs if f not in {stem + "." + ("sh" if t == "bash" else "bat") for t in targets}]
        if extra:
            probs.append("unexpected files: %s" % extra)
    else:
        if status == 0:
            probs.append("exit status 0 although the library reports an error")
    return probs
