"""Shared engine of the semantic-preservation checks (C01-C04 and others): generated programs with a
reference result -> real pipeline -> (a) emitter correspondence model vs. implementation,
(b) oracle: bash run of the implementation's script vs. the reference result."""
import os
import shutil
import subprocess
import tempfile

import common
import gen_prog
import pipeline


def run_bash(script, stdin=b"", timeout=10, files=None, keep=False, _second_try=False):
    """Run a script under /bin/bash in a fresh empty directory with a clean environment."""
    d = tempfile.mkdtemp(prefix="tshrun-")
    try:
        for rel, content in (files or {}).items():
            p = os.path.join(d, rel)
            os.makedirs(os.path.dirname(p), exist_ok=True)
            with open(p, "wb") as fh:
                fh.write(content)
        sp = os.path.join(d, ".script.sh")
        with open(sp, "wb") as fh:
            fh.write(script)
        import resource
        ru0 = resource.getrusage(resource.RUSAGE_CHILDREN)
        try:
            p = subprocess.run(["/bin/bash", sp], cwd=d, input=stdin, stdout=subprocess.PIPE, stderr=subprocess.PIPE,
                               timeout=timeout, env={"PATH": "/usr/bin:/bin", "LC_ALL": "C", "HOME": d})
            res = dict(status=p.returncode, stdout=p.stdout, stderr=p.stderr, timeout=False)
        except subprocess.TimeoutExpired as e:
            res = dict(status=-1, stdout=e.stdout or b"", stderr=e.stderr or b"", timeout=True)
        ru1 = resource.getrusage(resource.RUSAGE_CHILDREN)
        cpu = (ru1.ru_utime + ru1.ru_stime) - (ru0.ru_utime + ru0.ru_stime)
        # a script that burnt most of its budget in CPU time is busy, not starved, and on a machine that is not overloaded a script that
        # used no CPU is blocked, not starved: no second run for those
        if os.environ.get("VERIF_DEBUG_TIMEOUTS") and res["timeout"]:
            with open(os.environ["VERIF_DEBUG_TIMEOUTS"], "a") as fh:
                fh.write("timeout=%s cpu=%.1f second=%s\n" % (timeout, cpu, _second_try))
        if res["timeout"] and not _second_try and cpu < 0.5 * timeout and os.getloadavg()[0] > 1.5 * (os.cpu_count() or 1):
            # wall-clock budgets are for hangs of the SCRIPT: on a loaded machine a script is given a second run with six times the
            # budget (in a fresh directory) before the run counts as a timeout
            shutil.rmtree(d, ignore_errors=True)
            return run_bash(script, stdin=stdin, timeout=timeout * 6, files=files, keep=keep, _second_try=True)
        if keep:
            tree = {}
            for root, _, fs in os.walk(d):
                for f in fs:
                    if f == ".script.sh":
                        continue
                    fp = os.path.join(root, f)
                    tree[os.path.relpath(fp, d)] = open(fp, "rb").read()
            res["tree"] = tree
        return res
    finally:
        shutil.rmtree(d, ignore_errors=True)


def _exec(arg):
    return run_bash(arg[0], stdin=arg[1])


def gen_cases(rng, cfg, n, start_id=0):
    cases = []
    kinds = {}
    for i in range(n):
        g = gen_prog.generate(rng, cfg)
        if g is None:
            continue
        prog, src, out, status, ks = g
        for k, v in ks.items():
            kinds[k] = kinds.get(k, 0) + v
        c = pipeline.Case(start_id + i, {"main.tsh": src.encode()}, meta=dict(expected_out=out, expected_status=status, prog=prog, src=src))
        cases.append(c)
    return cases, kinds


def check_cases(b, cases, stages="as"):
    """Fills c.meta with: model script agreement and oracle verdicts. Returns (disagreements, oracle_failures)."""
    pipeline.run_pipe(b, cases, stages)
    # model side: the whole model pipeline from the source text (lexer, parser, transpiler, bash emitter)
    pipeline.model_full(b, cases)
    disagreements, failures = [], []
    runnable = []
    for c in cases:
        ast = c.out.get("AST", ("MISSING", ""))
        impl = c.out.get("BASH", ("MISSING", ""))
        if c.meta.get("model_ast") != pipeline.impl_ast_canon(c):
            disagreements.append((c, "AST: " + c.meta.get("model_ast", "MISSING"), "AST: " + pipeline.impl_ast_canon(c)))
        if ast[0] != "OK":
            # a generated (well-typed) program was rejected or crashed the parser
            failures.append((c, "rejected", dict(stage="AST", cls=ast[0], msg=bytes.fromhex(ast[1]).decode("utf-8", "replace") if ast[0] in ("ERR", "PANIC") else "")))
            continue
        mb = c.meta.get("model_bash", "MISSING")
        impl_canon = impl[0] if impl[0] != "OK" else "OK " + impl[1]
        if mb != impl_canon:
            disagreements.append((c, mb, impl_canon))
        if impl[0] != "OK":
            failures.append((c, "emit-failed", dict(stage="BASH", cls=impl[0], msg=bytes.fromhex(impl[1]).decode("utf-8", "replace") if impl[1] else "")))
            continue
        runnable.append(c)

    runs = common.pmap_proc(_exec, [(bytes.fromhex(c.out["BASH"][1]), c.meta.get("stdin", b"")) for c in runnable])
    for c, r in zip(runnable, runs):
        c.meta["run"] = r
    for c in runnable:
        r = c.meta["run"]
        want_out = "".join(l + "\n" for l in c.meta["expected_out"]).encode()
        if r["timeout"] or r["stdout"] != want_out or r["status"] != c.meta["expected_status"] or r["stderr"] != b"":
            failures.append((c, "behaviour", dict(want_stdout=want_out.decode("latin1"), got_stdout=r["stdout"].decode("latin1")[:2000],
                                                  want_status=c.meta["expected_status"], got_status=r["status"],
                                                  stderr=r["stderr"].decode("latin1")[:500], timeout=r["timeout"])))
    # the semantic models are asked about the programs whose script TERMINATED under /bin/bash: a script that ran into the wall-clock
    # budget (a known-finding program that loops, say) would make the Lean interpreters walk through their whole fuel
    disagreements += sem_validate(b, [c for c in runnable if not c.meta["run"]["timeout"]])
    return disagreements, failures


SEM_STATS = dict(cases=0, src_supported=0, sh_supported=0, both=0, in_theorem_fragment=0, in_function_theorem_fragment=0)


def sem_validate(b, runnable):
    """The two semantic models of Lean (Sem/Src: meaning of the AST, Sem/Bash: meaning of the emitted lines) next to
    the reference interpreter and /bin/bash on the same programs.  The theorem C01.bash_preserves_scalar_semantics
    relates the two models; this ties each of them to the thing it models.  'U' = outside the fragment."""
    if not runnable:
        return []
    reqs = ["SEM" + pipeline.parse_request(c)[5:] for c in runnable]
    answers = pipeline.model_lines(b, reqs)
    dis = []
    for c, a in zip(runnable, answers):
        parts = a.split(" ")
        SEM_STATS["cases"] += 1
        if parts[0] != "SEM" or len(parts) != 6:
            dis.append((c, "SEM: " + a[:200], "SEM <src> <sh> <flag> <src1> <sh1>"))
            continue
        src, sh, flag, src1, sh1 = parts[1:6]
        c.meta["sem"] = (src, sh)
        r = c.meta["run"]
        real = "%d:%s" % (r["status"], r["stdout"].hex())
        want = "%d:%s" % (c.meta["expected_status"], "".join(l + "\n" for l in c.meta["expected_out"]).encode().hex())
        if flag in ("F2", "F12"):
            # fragment of C02.bash_preserves_semantics_with_functions (models Sem2)
            SEM_STATS["in_function_theorem_fragment"] += 1
            if src != "U" and sh == "U":
                dis.append((c, "SEM-THM: a program of the function theorem's fragment runs in Sem2/Src (" + src + ") but not in Sem2/Bash", "U"))
        if flag in ("F1", "F12"):
            # fragment of C01.bash_preserves_scalar_semantics (models Sem): the models the theorem is about
            SEM_STATS["in_theorem_fragment"] += 1
            if src1 != "U" and sh1 == "U":
                dis.append((c, "SEM-THM: a program of the scalar theorem's fragment runs in Sem/Src (" + src1 + ") but not in Sem/Bash", "U"))
            ok1 = src1 != "U" and not src1.startswith(("brk", "cont"))
            ok2 = sh1 != "U" and not sh1.startswith(("brk", "cont"))
            if ok2 and not r["timeout"] and r["stderr"] == b"" and sh1 != real and real == want:
                dis.append((c, "SEM-SH: the scalar bash model Sem/Bash says " + sh1, "/bin/bash says " + real))
            if ok1 and src1 != want and real == want:
                dis.append((c, "SEM-SRC: the scalar source semantics Sem/Src says " + src1, "reference interpreter and /bin/bash say " + want))
            if ok1 and ok2 and src1 != sh1:
                dis.append((c, "SEM-THM: Sem/Src says " + src1, "Sem/Bash says " + sh1))
        ok_src = src != "U" and not src.startswith(("brk", "cont"))
        ok_sh = sh != "U" and not sh.startswith(("brk", "cont"))
        if ok_sh:
            SEM_STATS["sh_supported"] += 1
            # the bash model is validated where /bin/bash does what the reference says; where the real script deviates from the
            # reference (a defect, known or new) the property's own oracle reports it, and the deviation may well come from
            # something this model does not have (special shell variables such as SECONDS, `$` in a literal, ...)
            if not r["timeout"] and r["stderr"] == b"" and sh != real and real == want:
                dis.append((c, "SEM-SH: the bash model Sem/Bash says " + sh, "/bin/bash says " + real))
        if ok_src:
            SEM_STATS["src_supported"] += 1
            if src != want and real == want:
                dis.append((c, "SEM-SRC: the source semantics Sem/Src says " + src, "reference interpreter and /bin/bash say " + want))
        if ok_src and ok_sh:
            SEM_STATS["both"] += 1
            # the theorem relates the two models on its fragment only; outside it (e.g. a user variable spelled like a register of
            # the compiler, which the bash model follows faithfully) they may differ - that is what the property's oracle is for
            if src != sh and flag in ("F2", "F12"):
                dis.append((c, "SEM-THM: Sem/Src says " + src, "Sem/Bash says " + sh))
    return dis
