"""C08 / C17 / C18 generators: strings over the 97-character alphabet in first/middle/last/only
position, special shell-significant strings, and the data paths of the language."""

ALPHABET = [chr(c) for c in range(32, 127)] + ["\n", "\t"]

SPECIALS = ["$(touch canary)", "`touch canary`", "; touch canary", "a;touch canary", "$HOME", "${PATH}", "$x", "*", "?", "[a-z]*", "-n", "-e", "-e x", "-E", "-notes.txt", "--help", "--", "-", "-rf x",
            "-neE", "a  b", " lead", "trail ", "  ", "\\n", "\\\\", "\\", "%s", "%d%%", "!", "!!", "#c", "~", "a\"b", "\"", "\"\"", "'", "a'b", "it's \"q\"",
            "a\nb", "a\tb", "$(", "${", "$((1+1))", "a&b", "a|b", "a>b", "a<b", "(x)", "{a,b}", "&&", "||", "x=1", "-", "--", "", "0", "a b c",
            # two-character sequences with a backslash: what the shell makes of a backslash depends on the character BEHIND it
            # (round 12: C08-E doubled a backslash only in front of \ " $ ` - and forgot the line break: backslash + LF inside
            # double quotes is a line continuation, both characters vanish)
            "a\\\nb", "\\\n", "\\\nz", "a\\\n", "a\\\\\nb", "tar \\\n  --x \\\n  src", "\\$x", "\\`", "\\\"", "\\!", "\\ ", "\\\t", "$\\", "\\a", "\\'",
            "\\$(touch canary)", "\\\\$HOME",
            # text that looks like SOURCE syntax of the language itself: comment delimiters, a line comment, quotes, keywords (round 16:
            # C08-I, block comments blanked by a pre-pass over the raw source that knows nothing about string literals)
            "src/*.c lib/*/x", "int x; /* counter */ x = 1;", "/* mid */", "/*", "*/", "/**/", "*/ x /*", "a // b", "// c", "/* \" */", "/*/",
            "import \"x\"", "func f() {", "}"]


def go_quote(s):
    out = ['"']
    for ch in s:
        if ch == '"':
            out.append('\\"')
        elif ch == "\\":
            out.append("\\\\")
        elif ch == "\n":
            out.append("\\n")
        elif ch == "\t":
            out.append("\\t")
        else:
            out.append(ch)
    out.append('"')
    return "".join(out)


def positions(ch):
    return {"only": ch, "first": ch + "xy", "middle": "x" + ch + "y", "last": "xy" + ch}


def all_strings(quick):
    """(label, string)"""
    out = []
    for ch in ALPHABET:
        ps = positions(ch)
        if quick:
            # one position per character, rotating, plus 'only'
            keys = ["only", ["first", "middle", "last"][ord(ch) % 3]]
        else:
            keys = list(ps)
        for k in keys:
            out.append(("%r@%s" % (ch, k), ps[k]))
    for s in SPECIALS:
        out.append(("special:%r" % s, s))
    if not quick:
        for ch in ALPHABET:
            out.append(("backslash+%r" % ch, "a\\" + ch + "b"))
            out.append(("%r+backslash" % ch, "a" + ch + "\\"))
    return out
