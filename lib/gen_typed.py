"""C06 generator: (typed position) x (offered type) x (enclosing context) programs with verdicts
known by construction.  Offered types: int, bool, string, []int, []bool, []string, none (call of a
function without return types), multi (call of a function with two return types)."""

OFFERED = {
    "int": ["7", "ivar", "ifn(1)", "(ivar + 1)"],
    "bool": ["true", "bvar", "(ivar == 1)"],
    "string": ['"s"', "svar", "itoa(3)"],
    "[]int": ["[]int{1, 2}", "aivar"],
    "[]bool": ["[]bool{true}", "abvar"],
    "[]string": ['[]string{"a"}', "asvar"],
    # a call in brackets is an expression of the call's pseudo type, not a call: no value / several values in every position
    # (also where the bare call is taken: `a, b := (mfn())` is two variables for one expression)
    "none": ["vfn()", "(vfn())"],
    "multi": ["mfn()", "(mfn())"],
}
ALL = list(OFFERED)
SINGLE = ["int", "bool", "string", "[]int", "[]bool", "[]string"]
SCALAR = ["int", "bool", "string"]
SLICES = ["[]int", "[]bool", "[]string"]

PRELUDE = '''var ivar int = 1
var bvar bool = true
var svar string = "abc"
var aivar []int = []int{1, 2, 3}
var abvar []bool = []bool{true}
var asvar []string = []string{"x"}
func vfn() {
	print("v")
}
func mfn() (int, int) {
	return 1, 2
}
func ifn(a int) int {
	return a
}
func zfn() int {
	return 7
}
func ifn2(a int, b string) int {
	return a
}
func nbv {
	print("nb")
}
func nbi int {
	return 3
}
'''

# (name, statement template with {X}, set of accepted offered types, where: "stmt" | "func:<header>")
POSITIONS = [
    ("not-operand", "print(!{X})", {"bool"}),
    ("add-left-int", "print({X} + 1)", {"int"}),
    ("add-right-int", "print(1 + {X})", {"int"}),
    ("add-left-str", 'print({X} + "a")', {"string"}),
    ("add-right-str", 'print("a" + {X})', {"string"}),
    ("sub-left", "print({X} - 1)", {"int"}),
    ("mul-right", "print(2 * {X})", {"int"}),
    ("div-left", "print({X} / 1)", {"int"}),
    ("mod-right", "print(5 % {X})", {"int"}),
    ("str-minus", 'print("a" - {X})', set()),
    ("bool-plus", "print(true + {X})", set()),
    ("eq-int-left", "print({X} == 1)", {"int"}),
    ("lt-int-right", "print(1 < {X})", {"int"}),
    ("ge-int-left", "print({X} >= 2)", {"int"}),
    ("eq-bool-left", "print({X} == true)", {"bool"}),
    ("ne-str-right", 'print("a" != {X})', {"string"}),
    ("lt-bool", "print(true < {X})", set()),
    ("and-left", "print({X} && true)", {"bool"}),
    ("and-right", "print(true && {X})", {"bool"}),
    ("or-left", "print({X} || false)", {"bool"}),
    ("or-right", "print(false || {X})", {"bool"}),
    ("group", "print(({X}) + 1)", {"int"}),
    ("var-typed-int", "var v int = {X}\nprint(v)", {"int"}),
    ("var-typed-bool", "var v bool = {X}\nprint(v)", {"bool"}),
    ("var-typed-string", "var v string = {X}\nprint(v)", {"string"}),
    ("var-typed-slice", "var v []int = {X}\nprint(len(v))", {"[]int"}),
    ("var-untyped", "var v = {X}\nprint(len(itoa(1)))", set(SINGLE)),
    ("short", "v := {X}\nprint(len(itoa(1)))", set(SINGLE)),
    ("var-two-typed", "var a, b int = {X}\nprint(a, b)", {"multi"}),
    ("short-two", "a, b := {X}\nprint(a, b)", {"multi"}),
    ("short-two-second", "a, b := 1, {X}\nprint(a)", set(SINGLE)),
    # a short multi-definition ASSIGNS to the names that exist on the same level: the value must have the variable's type
    # (fix 4a3f869: `a := 1; a, b := "s", 2` was accepted and a silently became a string)
    ("short-two-existing-first", "lv := 1\nlv, nv := {X}, 2\nprint(lv, nv)", {"int"}),
    ("short-two-existing-second", 'lv := "a"\nnv, lv := 2, {X}\nprint(lv, nv)', {"string"}),
    ("short-two-existing-slice", "lv := []int{1}\nlv, nv := {X}, 2\nprint(len(lv), nv)", {"[]int"}),
    ("short-two-existing-bool", "lv := true\nnv, lv := 2, {X}\nprint(lv, nv)", {"bool"}),
    ("short-two-existing-call", "lv := 1\nlv, nv := {X}\nprint(lv, nv)", {"multi"}),
    ("short-two-existing-call-mismatch", 'lv := "a"\nlv, nv := {X}\nprint(lv, nv)', set()),
    ("short-two-existing-call-second-mismatch", "lv := true\nnv, lv := {X}\nprint(lv, nv)", set()),
    ("assign-int", "ivar = {X}", {"int"}),
    ("assign-string", "svar = {X}", {"string"}),
    ("assign-bool", "bvar = {X}", {"bool"}),
    ("assign-slice", "aivar = {X}", {"[]int"}),
    ("assign-two", "ivar, svar = 1, {X}", {"string"}),
    ("assign-two-call", "ivar, ivar = {X}", {"multi"}),
    ("compound-int", "ivar += {X}", {"int"}),
    ("compound-int-mod", "ivar %= {X}", {"int"}),
    # chains of comparison operators without brackets (round 11: C06-D, the operand type taken once for the whole chain): the language reads
    # them from the right, `a == b == c` is `a == (b == c)`, so the left operand of the outer comparison meets a bool
    ("cmp-chain-right", "print(1 == 2 == {X})", set()),
    ("cmp-chain-left", "print({X} == 1 == 1)", {"bool"}),
    ("cmp-chain-middle", "print(true == {X} == 2)", {"int"}),
    ("cmp-chain-string", 'print({X} == "a" != "b")', {"bool"}),
    ("cmp-chain-ordering", "print({X} < 3 == 1)", set()),
    ("cmp-chain-condition", "if ivar == 1 == {X} {\n\tprint(1)\n}", set()),
    ("cmp-chain-three", "bvar = {X} == 2 == 3 == 4", set()),
    # stacked negations (round 13: C06-F let pairs of ! cancel BEFORE the operand's type was checked, so `!!5` had type int): an operand
    # that is not a bool is rejected under any number of !; for a bool operand the rows are left open (the grammar has no stacked !)
    ("not-not-value", "zz := !!{X}\nprint(zz)", set()),
    ("not-not-not", "print(!!!{X})", set()),
    ("not-not-four", "zz := !!!!{X}\nprint(zz)", set()),
    ("not-not-int-operand", "print(!!{X} + 1)", set()),
    ("not-not-str-operand", 'print(!!{X} + "d")', set()),
    ("not-not-arg", "print(ifn(!!{X}))", set()),
    ("not-not-index", "print(aivar[!!{X}])", set()),
    ("not-not-case", "switch ivar {\ncase !!{X}:\n\tprint(1)\n}", set()),
    ("compound-string", "svar += {X}", {"string"}),
    ("compound-string-minus", "svar -= {X}", set()),
    ("compound-bool", "bvar += {X}", set()),
    ("call-arg", "print(ifn({X}))", {"int"}),
    ("call-arg-second", "print(ifn2(1, {X}))", {"string"}),
    ("call-arity-more", "print(ifn(1, {X}))", set()),
    ("call-arity-less", "print(ifn2({X}))", set()),
    ("call-zero-params-value", "print(zfn({X}))", set()),
    ("call-zero-params-void", "vfn({X})", set()),
    ("call-zero-params-multi", "ivar, ivar = mfn({X})", set()),
    ("call-zero-params-two", "print(zfn({X}, {X}))", set()),
    # functions defined WITHOUT a parameter list (round 10: C06-C, a nil parameter list switches the argument check off)
    ("call-nobrackets-void", "nbv({X})", set()),
    ("call-nobrackets-value", "print(nbi({X}))", set()),
    ("call-nobrackets-two", "print(nbi({X}, {X}))", set()),
    ("call-nobrackets-operand", "print(nbi() + {X})", {"int"}),
    # BOTH operands of a comparison of the offered type (round 16: C06-I, `==` / `!=` allowed on the pseudo types "no value" / "several
    # values" - two calls without a single value compare "equal types"; only the Batch converter then still writes a script)
    ("cmp-same-eq", "print({X} == {X})", set(SCALAR)),
    ("cmp-same-ne", "bvar = {X} != {X}", set(SCALAR)),
    ("cmp-same-lt", "print({X} < {X})", {"int"}),
    ("cmp-same-cond", "if {X} == {X} {\n\tprint(1)\n}", set(SCALAR)),
    ("cmp-same-grouped", "print(({X}) != ({X}))", set(SCALAR)),
    ("if-cond", "if {X} {\n\tprint(1)\n}", {"bool"}),
    ("elif-cond", "if false {\n\tprint(1)\n} else if {X} {\n\tprint(2)\n}", {"bool"}),
    ("for-cond", "for {X} {\n\tbreak\n}", {"bool"}),
    ("for3-cond", "for i := 0; {X}; i++ {\n\tbreak\n}", {"bool"}),
    ("switch-case-int", "switch ivar {\ncase {X}:\n\tprint(1)\n}", {"int"}),
    ("switch-case-str", "switch svar {\ncase {X}:\n\tprint(1)\n}", {"string"}),
    ("switch-case-bool", "switch {\ncase {X}:\n\tprint(1)\n}", {"bool"}),
    ("switch-tag", "switch {X} {\ndefault:\n\tprint(1)\n}", set(SCALAR)),
    ("range-operand", "for i, v := range {X} {\n\tprint(i)\n}", {"string", "[]int", "[]bool", "[]string"}),
    ("slice-elem-int", "z := []int{1, {X}}\nprint(len(z))", {"int"}),
    ("slice-elem-str", "z := []string{{X}}\nprint(len(z))", {"string"}),
    ("slice-store-index", "aivar[{X}] = 1", {"int"}),
    ("slice-store-value", "aivar[0] = {X}", {"int"}),
    ("slice-store-value-str", "asvar[0] = {X}", {"string"}),
    ("slice-load-index", "print(aivar[{X}])", {"int"}),
    ("str-index", "print(svar[{X}])", {"int"}),
    ("str-range-start", "print(svar[{X}:2])", {"int"}),
    ("str-range-end", "print(svar[1:{X}])", {"int"}),
    ("len-arg", "print(len({X}))", {"string", "[]int", "[]bool", "[]string"}),
    ("itoa-arg", "print(itoa({X}))", {"int"}),
    ("exists-arg", "print(exists({X}))", {"string"}),
    ("read-arg", "print(read({X}))", {"string"}),
    ("write-path", 'write({X}, "d")', {"string"}),
    ("write-data", 'write("p", {X})', {"string"}),
    ("write-append", 'write("p", "d", {X})', {"bool"}),
    ("input-prompt", "q := input({X})\nprint(q)", {"string"}),
    ("copy-src", "print(copy(aivar, {X}))", {"[]int"}),
    ("print-arg", "print({X})", set(SINGLE) | {"multi"}),
    ("app-arg", "@echo({X})", set(SINGLE) | {"multi"}),
    ("panic-arg", "panic({X})", None),            # type of panic's argument unspecified; no-value still rejected
    ("expr-stmt-call", "{X}", None),               # expression statements: calls are fine; others unspecified
]

# positions inside a function definition; {X} is the offered expression
FUNC_POSITIONS = [
    ("return-int", "func r() int {\n\treturn {X}\n}\nprint(r())", {"int"}),
    ("return-second", 'func r() (int, string) {\n\treturn 1, {X}\n}\na, b := r()\nprint(a, b)', {"string"}),
    ("return-slice", "func r() []int {\n\treturn {X}\n}\nprint(len(r()))", {"[]int"}),
    ("return-in-void", "func r() {\n\treturn {X}\n}\nr()", set()),
    # a function without return types: a `return <value>` at the top level of its body is rejected wherever it stands (round 9: C06-B)
    ("return-in-void-then-statement", "func r() {\n\treturn {X}\n\tprint(1)\n}\nr()", set()),
    ("return-in-void-between-statements", "func r() {\n\tprint(0)\n\treturn {X}\n\tprint(1)\n\tprint(2)\n}\nr()", set()),
    ("return-count-more", "func r() int {\n\treturn 1, {X}\n}\nprint(r())", set()),
    ("return-count-less", "func r() (int, int) {\n\treturn {X}\n}\na, b := r()\nprint(a, b)", set()),
    ("return-missing", "func r() int {\n\tprint({X})\n}\nprint(r())", set()),
    # a function's own variable may have the name of a global and another type (it is another variable)
    ("shadow-global-in-func", "func r() {\n\tivar, nv := {X}, 1\n\tprint(ivar, nv)\n}\nr()", set(SINGLE)),
    ("shadow-global-in-func-call", "func r() {\n\tsvar, nv := {X}\n\tprint(svar, nv)\n}\nr()", {"multi"}),
    # the same inside a function that is never called (its body reaches no converter: only the parser can reject it)
    ("cmp-same-in-uncalled-function", "func r() {\n\tprint({X} == {X})\n}\nprint(1)", set(SCALAR)),
    ("cmp-same-ne-in-uncalled-function", "func r() bool {\n\treturn {X} != {X}\n}\nprint(1)", set(SCALAR)),
    ("nested-return", "func r() int {\n\tif ivar == 1 {\n\t\treturn {X}\n\t}\n\treturn 1\n}\nprint(r())", {"int"}),
    ("nested-return-void", "func r() {\n\tif ivar == 1 {\n\t\treturn {X}\n\t}\n}\nr()", set()),
]

VARIABLE_POSITIONS = [
    # (name, template with {V}, accepted variable types)
    ("incr", "{V}++", {"int"}),
    ("decr", "{V}--", {"int"}),
    ("copy-dst", "print(copy({V}, []int{1}))", {"[]int"}),
    ("subscript-base", "print({V}[0])", {"string", "[]int", "[]bool", "[]string"}),
    ("slice-store-base", "{V}[0] = 1", {"[]int"}),
]
VARS = {"int": "ivar", "bool": "bvar", "string": "svar", "[]int": "aivar", "[]bool": "abvar", "[]string": "asvar"}

CONTEXTS = ["top", "func", "if", "for", "switch"]


def indent(text, n):
    return "".join(("\t" * n + l + "\n") if l else "\n" for l in text.split("\n"))


def wrap(ctx, stmt):
    if ctx == "top":
        return stmt + "\n"
    if ctx == "func":
        return "func ctxf() {\n" + indent(stmt, 1) + "}\nctxf()\n"
    if ctx == "if":
        return "if ivar == 1 {\n" + indent(stmt, 1) + "}\n"
    if ctx == "for":
        return "for k := 0; k < 1; k++ {\n" + indent(stmt, 1) + "}\n"
    if ctx == "switch":
        return "switch ivar {\ncase 1:\n" + indent(stmt, 1) + "}\n"
    raise ValueError(ctx)


def table(full=True):
    """yields dict(name, ctx, offered, expr, src, expect) with expect in {True, False, None}"""
    for name, tmpl, ok in POSITIONS:
        for ty in ALL:
            exprs = OFFERED[ty] if (full or ty in ("none", "multi")) else OFFERED[ty][:1]
            for e in exprs:
                if name == "expr-stmt-call" and not e.endswith(")"):
                    continue
                for ctx in CONTEXTS:
                    if name == "panic-arg":
                        expect = False if ty == "none" else None
                    elif name == "expr-stmt-call":
                        expect = True if (e.endswith(")") and "fn(" in e) else None
                    elif name in ("not-not-value", "not-not-not", "not-not-four") and ty == "bool":
                        expect = None
                    elif name.startswith("cmp-same") and ty in SLICES:
                        expect = None
                    else:
                        expect = ty in ok
                    if e.startswith("(") and ty in ("none", "multi"):
                        # a bracketed call is not a call: it cannot deliver several values (Go: "multiple-value in single-value
                        # context") and it has no value when the function returns nothing; where the position takes the first
                        # value of a multi-value call (print, program call arguments) the bracketed form is left open
                        if name in ("print-arg", "app-arg", "expr-stmt-call") or (name == "panic-arg" and ty == "multi"):
                            expect = None
                        else:
                            expect = False
                    # copy's first argument must be a variable; second may be any slice expression
                    stmt = tmpl.replace("{X}", e)
                    yield dict(name=name, ctx=ctx, offered=ty, expr=e, src=PRELUDE + wrap(ctx, stmt), expect=expect)
    for name, tmpl, ok in FUNC_POSITIONS:
        for ty in ALL:
            for e in (OFFERED[ty] if full else OFFERED[ty][:1]):
                expect = ty in ok
                if name.startswith("cmp-same") and ty in SLICES:
                    expect = None
                if e.startswith("(") and ty in ("none", "multi"):
                    expect = False                  # a bracketed call is not a call (see above)
                yield dict(name=name, ctx="funcdef", offered=ty, expr=e, src=PRELUDE + tmpl.replace("{X}", e) + "\n", expect=expect)
    # two program calls compared with each other: a program call yields three values, not one
    for op in ("==", "!="):
        for ctx in CONTEXTS:
            yield dict(name="cmp-app-calls" + ("-eq" if op == "==" else "-ne"), ctx=ctx, offered="multi", expr='@echo("x")',
                       src=PRELUDE + wrap(ctx, 'print(@echo("x") %s @echo("y"))' % op), expect=False)
    for name, tmpl, ok in VARIABLE_POSITIONS:
        for ty, v in VARS.items():
            for ctx in CONTEXTS:
                yield dict(name=name, ctx=ctx, offered=ty, expr=v, src=PRELUDE + wrap(ctx, tmpl.replace("{V}", v)), expect=ty in ok)
