"""C07 generator: every (definition site, use site) pair over a fixed block skeleton, every placement
of break / continue / return / func, redefinitions, loop-header variables, parameters, functions.
Verdicts follow from the block structure (lexical scoping as the property states it)."""

# skeleton: list of nodes; node = ("slot", id) | ("block", kind, header, [nodes], footer)
# kinds: func (new function scope), if, else, for, switch-case
SKELETON = [
    ("slot", 0),
    ("block", "func", "func f(p int) int {", [
        ("slot", 1),
        ("block", "if", "if p > 5 {", [("slot", 2)], "} else {"),
        ("block", "else", None, [("slot", 3)], "}"),
        ("slot", 4),
        ("block", "for", "for i := 0; i < 1; i++ {", [("slot", 5), ("block", "if", "if i > 7 {", [("slot", 6)], "}"), ("slot", 7)], "}"),
        ("slot", 8),
        ("block", "ret", None, [], None),
    ], "}"),
    ("slot", 9),
    ("block", "if", "if g0 == 1 {", [
        ("slot", 10),
        ("block", "if", "if g0 == 1 {", [("slot", 11)], "}"),
        ("slot", 12),
    ], "}"),
    ("slot", 13),
    ("block", "for", "for j := 0; j < 1; j++ {", [("slot", 14)], "}"),
    ("slot", 15),
    ("block", "switch", "switch g0 {", [
        ("block", "case", "case 1:", [("slot", 16)], None),
        ("block", "case", "default:", [("slot", 17)], None),
    ], "}"),
    ("slot", 18),
    ("block", "func", "func g() {", [("slot", 19)], "}"),
    ("slot", 20),
]


class Info:
    def __init__(self):
        self.path = {}      # slot -> tuple of block ids (scope chain)
        self.kinds = {}     # slot -> list of enclosing kinds
        self.order = {}     # slot -> textual order


def analyse():
    info = Info()
    counter = [0]
    bid = [0]

    def walk(nodes, path, kinds):
        for n in nodes:
            if n[0] == "slot":
                info.path[n[1]] = tuple(path)
                info.kinds[n[1]] = list(kinds)
                info.order[n[1]] = counter[0]
                counter[0] += 1
            else:
                _, kind, header, body, footer = n
                if kind == "ret":
                    continue
                bid[0] += 1
                # a switch itself opens no scope of its own here; its cases do
                if kind == "switch":
                    walk(body, path, kinds + ["switch"])
                else:
                    walk(body, path + [bid[0]], kinds + [kind])

    walk(SKELETON, [], [])
    return info


INFO = analyse()
SLOTS = sorted(INFO.path)


def render(at):
    """at: dict slot -> list of statement lines"""
    out = ["g0 := 1"]

    def walk(nodes, ind):
        t = "\t" * ind
        for n in nodes:
            if n[0] == "slot":
                for line in at.get(n[1], []):
                    out.append(t + line)
            else:
                _, kind, header, body, footer = n
                if kind == "ret":
                    out.append(t + "return 1")
                    continue
                if header is not None:
                    out.append(("\t" * (ind - 1 if kind == "case" else ind)) + header if kind != "case" else t + header)
                walk(body, ind + 1)
                if footer is not None:
                    out.append(t + footer)

    walk(SKELETON, 0)
    return "\n".join(out) + "\n"


def visible(d, u):
    """is a variable defined at slot d usable at slot u?"""
    pd, pu = INFO.path[d], INFO.path[u]
    return INFO.order[d] < INFO.order[u] and pu[:len(pd)] == pd


def in_function(s):
    return "func" in INFO.kinds[s]


def cases():
    """yields dict(name, src, expect(bool), d, u)"""
    # 1. variable definition / use pairs
    for d in SLOTS:
        for u in SLOTS:
            if d == u:
                yield dict(name="def-use-same", d=d, u=u, expect=True, src=render({d: ["x := 5", "print(x)"]}))
                yield dict(name="use-before-def-same", d=d, u=u, expect=False, src=render({d: ["print(x)", "x := 5"]}))
                yield dict(name="redef-same", d=d, u=u, expect=False, src=render({d: ["x := 5", "x := 6"]}))
                # several names: `var` never re-uses a visible name; `:=` may, as long as one name is new (round 8: C07-A)
                yield dict(name="redef-same-var-multi", d=d, u=u, expect=False, src=render({d: ["x := 5", "var x, zz9 int = 6, 7"]}))
                yield dict(name="redef-same-var-multi-last", d=d, u=u, expect=False, src=render({d: ["x := 5", "var zz9, x = 6, 7"]}))
                yield dict(name="redef-same-var-multi-untyped", d=d, u=u, expect=False, src=render({d: ["x := 5", "var x, zz9 = 6, 7"]}))
                yield dict(name="redef-same-short-multi", d=d, u=u, expect=True, src=render({d: ["x := 5", "x, zz9 := 6, 7", "print(x, zz9)"]}))
                yield dict(name="redef-same-short-multi-none-new", d=d, u=u, expect=False, src=render({d: ["x, zz9 := 6, 7", "x, zz9 := 1, 2"]}))
                yield dict(name="redef-same-range-value", d=d, u=u, expect=False, src=render({d: ["x := 5", "for k9, x := range []int{1} {", "}"]}))
                yield dict(name="redef-same-range-index", d=d, u=u, expect=False, src=render({d: ["x := 5", "for x, v9 := range []int{1} {", "}"]}))
                yield dict(name="redef-same-range-both", d=d, u=u, expect=False, src=render({d: ["for k9, k9 := range []int{1} {", "}"]}))
                yield dict(name="redef-same-for-variable", d=d, u=u, expect=False, src=render({d: ["x := 5", "for x := 0; x < 1; x++ {", "}"]}))
                yield dict(name="redef-same-var-multi-all-new", d=d, u=u, expect=True, src=render({d: ["var x, zz9 int = 6, 7", "print(x, zz9)"]}))
                continue
            ok = visible(d, u)
            yield dict(name="def-use", d=d, u=u, expect=ok, src=render({d: ["x := 5"], u: ["print(x)"]}))
            yield dict(name="def-assign", d=d, u=u, expect=ok, src=render({d: ["var x int"], u: ["x = 6"]}))
            # a second definition of the same name is rejected exactly when the (textually) first is visible there
            first, second = (d, u) if INFO.order[d] < INFO.order[u] else (u, d)
            yield dict(name="redef", d=d, u=u, expect=not visible(first, second), src=render({d: ["x := 5"], u: ["var x int = 6"]}))
            yield dict(name="redef-var-multi", d=d, u=u, expect=not visible(first, second), src=render({d: ["x := 5"], u: ["var x, zz9 int = 6, 7"]}))
            yield dict(name="redef-var-multi-last", d=d, u=u, expect=not visible(first, second), src=render({d: ["x := 5"], u: ["var zz9, x = 6, 7"]}))
            # `x, zz9 := 6, 7` after a visible x assigns to it; before it, the later single definition is the redefinition
            # the variables of a range header are definitions too (round 9: C07-A, the value variable not checked against visible names)
            rexp = (not visible(d, u)) if INFO.order[d] < INFO.order[u] else True
            yield dict(name="redef-range-value", d=d, u=u, expect=rexp, src=render({d: ["x := 5"], u: ["for k9, x := range []int{1} {", "\tprint(k9, x)", "}"]}))
            yield dict(name="redef-range-index", d=d, u=u, expect=rexp, src=render({d: ["x := 5"], u: ["for x, v9 := range []int{1} {", "\tprint(x, v9)", "}"]}))
            yield dict(name="redef-range-index-only", d=d, u=u, expect=rexp, src=render({d: ["x := 5"], u: ["for x := range \"ab\" {", "\tprint(x)", "}"]}))
            yield dict(name="redef-for-variable", d=d, u=u, expect=rexp, src=render({d: ["x := 5"], u: ["for x := 0; x < 1; x++ {", "}"]}))
            yield dict(name="redef-short-multi", d=d, u=u, expect=True if INFO.order[d] < INFO.order[u] else not visible(u, d),
                       src=render({d: ["x := 5"], u: ["x, zz9 := 6, 7"]}))
    # 1b. three sites (round 10: C07-C): x defined at d, a short definition of several names that RE-USES x in a block nested below d
    #     (x is assigned, only zz9 is new and ends with that block), then a site w behind that block where x is still visible: x is
    #     still usable there, still cannot be defined again, and zz9 is gone
    for d in SLOTS:
        for u in SLOTS:
            if not visible(d, u) or len(INFO.path[u]) <= len(INFO.path[d]):
                continue
            for w in SLOTS:
                if INFO.order[w] <= INFO.order[u] or not visible(d, w) or visible(u, w):
                    continue
                yield dict(name="reuse-in-block-then-use", d=d, u=w, expect=True, src=render({d: ["x := 5"], u: ["x, zz9 := 6, 7", "print(x, zz9)"], w: ["print(x)"]}))
                yield dict(name="reuse-in-block-then-assign", d=d, u=w, expect=True, src=render({d: ["x := 5"], u: ["x, zz9 := 6, 7"], w: ["x = 8"]}))
                yield dict(name="reuse-in-block-then-redef", d=d, u=w, expect=False, src=render({d: ["x := 5"], u: ["x, zz9 := 6, 7"], w: ["var x int = 9"]}))
                yield dict(name="reuse-in-block-then-redef-short", d=d, u=w, expect=False, src=render({d: ["x := 5"], u: ["x, zz9 := 6, 7"], w: ["x := 9"]}))
                yield dict(name="reuse-in-block-new-name-gone", d=d, u=w, expect=False, src=render({d: ["x := 5"], u: ["x, zz9 := 6, 7"], w: ["print(zz9)"]}))
    # 1c. loop-header variables defined from a call with SEVERAL results (round 11: C07-D, that form of the header stored its variables
    #     in the enclosing block): usable in the loop, gone behind it, and the names are free again there
    PAIR = "func pair2() (int, int) {\n\treturn 1, 2\n}\n"
    for u in SLOTS:
        hdr = "for var a9, b9 = pair2(); a9 < b9; a9++ {"
        yield dict(name="for-call-header-use-inside", d=u, u=u, expect=True, src=PAIR + render({u: [hdr, "\tprint(a9, b9)", "}"]}))
        yield dict(name="for-call-header-use-after", d=u, u=u, expect=False, src=PAIR + render({u: [hdr, "}", "print(a9)"]}))
        yield dict(name="for-call-header-second-after", d=u, u=u, expect=False, src=PAIR + render({u: [hdr, "}", "print(b9)"]}))
        yield dict(name="for-call-header-redefine-after", d=u, u=u, expect=True, src=PAIR + render({u: [hdr, "}", "a9 := 7", "print(a9)"]}))
        yield dict(name="for-call-header-twice", d=u, u=u, expect=True, src=PAIR + render({u: [hdr, "}", hdr, "}"]}))
        yield dict(name="for-single-call-header-after", d=u, u=u, expect=False,
                   src=PAIR + render({u: ["for var c9 = f0(); c9 < 2; c9++ {", "}", "print(c9)"]}).replace("g0 := 1\n", "g0 := 1\nfunc f0() int {\n\treturn 0\n}\n", 1))
    # 1d. one definition lists every name once (genuine defect repaired in round 11: "a, a := 1, 2" was accepted)
    for u in SLOTS:
        yield dict(name="dup-in-definition-short", d=u, u=u, expect=False, src=render({u: ["a9, a9 := 1, 2", "print(a9)"]}))
        yield dict(name="dup-in-definition-var", d=u, u=u, expect=False, src=render({u: ["var b9, b9 = 3, 4", "print(b9)"]}))
        yield dict(name="dup-in-definition-var-typed", d=u, u=u, expect=False, src=render({u: ["var b9, c9, b9 int = 3, 4, 5"]}))
        yield dict(name="dup-in-definition-call", d=u, u=u, expect=False, src=PAIR + render({u: ["c9, c9 := pair2()", "print(c9)"]}))
        yield dict(name="dup-in-definition-existing", d=u, u=u, expect=False, src=render({u: ["x := 5", "x, zz9, x := 6, 7, 8"]}))
        yield dict(name="dup-in-assignment-is-legal", d=u, u=u, expect=True, src=render({u: ["x := 5", "x, x = 6, 7", "print(x)"]}))
    # 2. parameters, loop-header and range variables
    for u in SLOTS:
        in_f = u in (1, 2, 3, 4, 5, 6, 7, 8)
        yield dict(name="param-use", d=-1, u=u, expect=in_f, src=render({u: ["print(p)"]}))
        # a global p defined before f clashes with f's parameter p
        yield dict(name="param-redef", d=-1, u=u, expect=(not in_f) and u != 0, src=render({u: ["p := 3", "print(p)"]}))
        yield dict(name="for-var-use", d=-2, u=u, expect=u in (5, 6, 7), src=render({u: ["print(i)"]}))
        yield dict(name="for-var-use-top", d=-3, u=u, expect=u == 14, src=render({u: ["print(j)"]}))
        yield dict(name="range-var", d=u, u=u, expect=True, src=render({u: ["for k, v := range []int{1} {", "\tprint(k, v)", "}"]}))
        yield dict(name="range-var-after", d=u, u=u, expect=False, src=render({u: ["for k, v := range []int{1} {", "\tprint(k)", "}", "print(v)"]}))
        yield dict(name="global-use", d=-4, u=u, expect=True, src=render({u: ["print(g0)"]}))
        # a variable does not exist before its definition is complete: the header expression of a loop and the value of a definition are
        # outside the construct their variable belongs to (round 15: C07-H registered the index variable of a range loop before the range
        # expression was parsed: `for i := range itoa(i + 100)` was accepted and read a stale shell variable)
        yield dict(name="range-index-in-own-expression", d=u, u=u, expect=False, src=render({u: ["for k9 := range itoa(k9 + 100) {", "\tprint(k9)", "}"]}))
        yield dict(name="range-index-in-own-expression-pair", d=u, u=u, expect=False, src=render({u: ["for k9, v9 := range \"ab\" + itoa(k9) {", "\tprint(k9, v9)", "}"]}))
        yield dict(name="range-value-in-own-expression", d=u, u=u, expect=False, src=render({u: ["for k9, v9 := range []int{v9} {", "\tprint(k9, v9)", "}"]}))
        yield dict(name="range-value-in-own-expression-string", d=u, u=u, expect=False, src=render({u: ["for k9, v9 := range \"ab\" + v9 {", "\tprint(k9, v9)", "}"]}))
        yield dict(name="range-index-in-own-expression-after-loop", d=u, u=u, expect=False,
                   src=render({u: ["for k9 := range \"ab\" {", "\tprint(k9)", "}", "for k9 := range itoa(k9 + 100) {", "\tprint(k9)", "}"]}))
        yield dict(name="range-index-in-own-expression-len", d=u, u=u, expect=False, src=render({u: ["for k9 := range []int{1, 2, 3}[k9:] {", "\tprint(k9)", "}"]}))
        yield dict(name="for-variable-in-own-initialiser", d=u, u=u, expect=False, src=render({u: ["for a9 := a9 + 1; a9 < 3; a9++ {", "\tprint(a9)", "}"]}))
        yield dict(name="definition-in-own-value", d=u, u=u, expect=False, src=render({u: ["zz9 := zz9 + 1", "print(zz9)"]}))
        yield dict(name="var-definition-in-own-value", d=u, u=u, expect=False, src=render({u: ["var zz9 int = zz9", "print(zz9)"]}))
        yield dict(name="multi-definition-in-own-value", d=u, u=u, expect=False, src=render({u: ["yy9, zz9 := 1, yy9", "print(yy9, zz9)"]}))
        yield dict(name="range-header-uses-outer-variable", d=u, u=u, expect=True, src=render({u: ["n9 := 2", "for k9 := range itoa(n9 + 100) {", "\tprint(k9)", "}"]}))
        yield dict(name="undefined", d=-5, u=u, expect=False, src=render({u: ["print(nope)"]}))
        yield dict(name="undefined-assign", d=-5, u=u, expect=False, src=render({u: ["nope = 1"]}))
        yield dict(name="undefined-call", d=-5, u=u, expect=False, src=render({u: ["nope()"]}))
    # 3. functions: visible after their top-level definition; only at top level; unique names
    for d in SLOTS:
        top = INFO.path[d] == ()
        yield dict(name="funcdef-placement", d=d, u=d, expect=top, src=render({d: ["func h() {", "\tprint(1)", "}"]}))
        yield dict(name="funcdef-duplicate", d=d, u=d, expect=False, src=render({d: ["func h() {", "}", "func h() {", "}"]}))
        if top:
            for u in SLOTS:
                if u != d:
                    yield dict(name="func-use", d=d, u=u, expect=INFO.order[d] < INFO.order[u], src=render({d: ["func h() {", "}"], u: ["h()"]}))
            yield dict(name="func-self-call", d=d, u=d, expect=False, src=render({d: ["func h() {", "\th()", "}"]}))
            yield dict(name="func-sees-later-global", d=d, u=d, expect=False, src=render({d: ["func h() {", "\tprint(late)", "}", "late := 1"]}))
            yield dict(name="func-dup-param", d=d, u=d, expect=False, src=render({d: ["func h(a int, a int) {", "}"]}))
            yield dict(name="func-param-shadows-global", d=d, u=d, expect=False, src=render({d: ["func h(g0 int) {", "}"]}))
            # the same parameter name twice, whatever the two types are, and wherever in the list
            for k, ps in enumerate(("a int, a string", "a string, a []string", "a int, b int, a bool", "a []int, b string, a int",
                                    "b int, a string, a string", "a int, b int, c int, b []int")):
                yield dict(name=f"func-dup-param-types-{k}", d=d, u=d, expect=False, src=render({d: [f"func h({ps}) {{", "}"]}))
            yield dict(name="func-distinct-params", d=d, u=d, expect=True, src=render({d: ["func h(a int, b string, c []int, e bool) {", "}"]}))
            yield dict(name="func-falls-off-end", d=d, u=d, expect=False, src=render({d: ["func h(a int) int {", "\tif a > 1 {", "\t\treturn 1", "\t}", "}"]}))
            # a body that ENDS in a branching statement of which some path does not return (round 16: C07-I, "a function may end in an
            # if-else / a switch with default whose branches all return" - checked for the if and the else body only, so an else-if
            # body, or a case behind the first one, that does not return falls off the end)
            for k, body in enumerate((
                    ["if a > 1 {", "\treturn 1", "} else if a > 0 {", "\tprint(a)", "} else {", "\treturn 3", "}"],
                    ["if a > 1 {", "\treturn 1", "} else if a > 0 {", "\treturn 2", "} else if a > -5 {", "\ta = a + 1", "} else {", "\treturn 3", "}"],
                    ["if a > 1 {", "\treturn 1", "} else if a > 0 {", "\treturn 2", "}"],
                    ["if a > 1 {", "\treturn 1", "} else {", "\tprint(a)", "}"],
                    ["if a > 1 {", "\tprint(a)", "} else {", "\treturn 2", "}"],
                    ["switch a {", "case 1:", "\treturn 1", "case 2:", "\tprint(a)", "default:", "\treturn 3", "}"],
                    ["switch {", "case a > 1:", "\treturn 1", "case a > 0:", "\treturn 2", "case a > -5:", "\tprint(a)", "default:", "\treturn 3", "}"],
                    ["switch a {", "case 1:", "\treturn 1", "case 2:", "\treturn 2", "}"],
                    ["switch a {", "case 1:", "\treturn 1", "default:", "\tprint(a)", "}"],
                    ["for a > 0 {", "\treturn 1", "}"],
                    ["if a > 1 {", "\tif a > 2 {", "\t\treturn 1", "\t} else {", "\t\treturn 2", "\t}", "} else if a > 0 {", "\tprint(a)", "} else {", "\treturn 3", "}"],
                    ["if a > 1 {", "\treturn 1", "} else {", "\tif a > 0 {", "\t\treturn 2", "\t} else if a > -5 {", "\t\tprint(a)", "\t} else {", "\t\treturn 3", "\t}", "}"])):
                yield dict(name=f"func-falls-off-branch-{k}", d=d, u=d, expect=False,
                           src=render({d: ["func h(a int) int {"] + ["\t" + l for l in body] + ["}", "print(h(0))"]}))
            yield dict(name="func-empty-body-with-result", d=d, u=d, expect=False, src=render({d: ["func h() int {", "}"]}))
            yield dict(name="func-comment-body-with-result", d=d, u=d, expect=False, src=render({d: ["func h() int {", "\t// nothing", "}"]}))
            yield dict(name="func-only-print-with-result", d=d, u=d, expect=False, src=render({d: ["func h() int {", "\tprint(1)", "}"]}))
            yield dict(name="func-return-then-statement", d=d, u=d, expect=False, src=render({d: ["func h() int {", "\treturn 1", "\tprint(2)", "}"]}))
            yield dict(name="func-empty-body-no-result", d=d, u=d, expect=True, src=render({d: ["func h() {", "}"]}))
            yield dict(name="func-returns-at-end", d=d, u=d, expect=True, src=render({d: ["func h(a int) int {", "\tif a > 1 {", "\t\treturn 1", "\t}", "\treturn 2", "}"]}))
        # calls of f (defined before slot 9) and g (defined before slot 20)
        yield dict(name="call-f", d=d, u=d, expect=INFO.order[d] >= INFO.order[9], src=render({d: ["print(f(1))"]}))
        yield dict(name="call-g", d=d, u=d, expect=INFO.order[d] >= INFO.order[20], src=render({d: ["g()"]}))
    # 4. placement of break / continue / return
    for u in SLOTS:
        k = INFO.kinds[u]
        yield dict(name="break", d=u, u=u, expect=("for" in k or "switch" in k), src=render({u: ["break"]}))
        yield dict(name="continue", d=u, u=u, expect=("for" in k), src=render({u: ["continue"]}))
        # f returns int: a nested "return 1" is fine; g returns nothing; top level is no function
        # (slot 19 is inside a function without return types: whether "return 1" is allowed there is typing, C06)
        if u != 19:
            yield dict(name="return", d=u, u=u, expect=(u in (1, 2, 3, 4, 5, 6, 7, 8)), src=render({u: ["if g0 == 1 {", "\treturn 1", "}"]}))
