"""Seed programs: the programs of /repo/tests (raw string literals passed to the transpile helpers),
plus a few built-in ones covering builtins that cannot be executed blindly."""
import glob
import os
import re
import textwrap

import common

BUILTIN = [
    'x := input("name: ")\nprint(x)\n',
    'write("out.txt", "hello")\nwrite("out.txt", "more", true)\ns := read("out.txt")\nprint(s, exists("out.txt"))\n',
    'stdout, stderr, code := @ls("-l") | @grep("x")\nprint(stdout, code)\n@echo("hi")\n',
    'import "strings"\nprint(strings.Repeat("ab", 3))\n',
    'var a []int = []int{1, 2, 3}\nb := []int{}\nn := copy(b, a)\nfor i, v := range a {\n\tprint(i, v)\n}\nprint(n, len(b))\n',
    'func f(a int, s string) (int, string) {\n\treturn a + 1, s + "x"\n}\nn, t := f(1, "a")\nprint(n, t)\n',
    's := "hello"\nfor i, c := range s {\n\tprint(i, c)\n}\nprint(s[1:3], s[:2], s[2:], s[1])\n',
    'x := 3\nswitch x {\ncase 1:\n\tprint("one")\ncase 3:\n\tprint("three")\ndefault:\n\tprint("other")\n}\n',
    'for i := 0; i < 3; i++ {\n\tif i == 1 {\n\t\tcontinue\n\t}\n\tprint(i)\n}\n',
    'var e error = nil\nif e == nil {\n\tpanic("boom")\n}\n',
    'x := 1\nswitch x {\ncase 1:\n\tbreak\ndefault:\n\tprint(x)\n}\n',
    'func v() {\n\tprint("v")\n}\nv()\nx := 1\nprint(x)\n',
    'func v() {\n}\nx := v() + 1\n',
    'func v() {\n}\nif v() {\n}\nprint(!v(), v() == v(), len(v()), itoa(v()))\n',
    'func two() (int, int) {\n\treturn 1, 2\n}\na, b := two()\na, b = b, a\nprint(a, b, two())\n',
]


def repo_test_programs():
    progs = []
    for f in sorted(glob.glob(os.path.join(common.REPO, "tests", "*.go"))):
        try:
            text = open(f, encoding="utf-8", errors="replace").read()
        except OSError:
            continue
        for m in re.finditer(r"(?:transpilerFunc|transpileBash|transpileBatch)\(t,\s*`([^`]*)`", text):
            src = textwrap.dedent(m.group(1)).strip("\n") + "\n"
            if src.strip():
                progs.append(src)
    return progs


def all_seeds():
    seen, out = set(), []
    for s in BUILTIN + repo_test_programs():
        if s not in seen:
            seen.add(s)
            out.append(s)
    return out
