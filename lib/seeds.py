"""Seed programs: the programs of /repo/tests (raw string literals passed to the transpile helpers),
plus a few built-in ones covering builtins that cannot be executed blindly."""
import glob
import os
import re
import textwrap

import common

BUILTIN = [
    'x := input("name: ")\nprint(x)\n',
    's := `line one\nline two`\nt := "a\\tb"\nprint(len(s), s, t)\nif s == `line one\nline two` {\n\tprint("same")\n}\n',
    '@printf("%s|", "(a)", "b;c", "d&e", "<f>", "g|h", "*", "~", "#x", "i j", "")\n',
    'write("out.txt", "hello")\nwrite("out.txt", "more", true)\ns := read("out.txt")\nprint(s, exists("out.txt"))\n',
    'stdout, stderr, code := @ls("-l") | @grep("x")\nprint(stdout, code)\n@echo("hi")\n',
    'import "strings"\nprint(strings.Repeat("ab", 3))\n',
    'var a []int = []int{1, 2, 3}\nb := []int{}\nn := copy(b, a)\nfor i, v := range a {\n\tprint(i, v)\n}\nprint(n, len(b))\n',
    'func f(a int, s string) (int, string) {\n\treturn a + 1, s + "x"\n}\nn, t := f(1, "a")\nprint(n, t)\n',
    's := "hello"\nfor i, c := range s {\n\tprint(i, c)\n}\nprint(s[1:3], s[:2], s[2:], s[1])\n',
    'x := 3\nswitch x {\ncase 1:\n\tprint("one")\ncase 3:\n\tprint("three")\ndefault:\n\tprint("other")\n}\n',
    'for i := 0; i < 3; i++ {\n\tif i == 1 {\n\t\tcontinue\n\t}\n\tprint(i)\n}\n',
    'var e error = nil\nif e == nil {\n\tpanic("boom")\n}\n',
    'x := 1\nswitch x {\ncase 1:\n\tbreak\ndefault:\n\tprint(x)\n}\n',
    'func v() {\n\tprint("v")\n}\nv()\nx := 1\nprint(x)\n',
    'func v() {\n}\nx := v() + 1\n',
    'func v() {\n}\nif v() {\n}\nprint(!v(), v() == v(), len(v()), itoa(v()))\n',
    'func two() (int, int) {\n\treturn 1, 2\n}\na, b := two()\na, b = b, a\nprint(a, b, two())\n',
]


def repo_test_programs():
    progs = []
    for f in sorted(glob.glob(os.path.join(common.REPO, "tests", "*.go"))):
        try:
            text = open(f, encoding="utf-8", errors="replace").read()
        except OSError:
            continue
        for m in re.finditer(r"(?:transpilerFunc|transpileBash|transpileBatch)\(t,\s*`([^`]*)`", text):
            src = textwrap.dedent(m.group(1)).strip("\n") + "\n"
            if src.strip():
                progs.append(src)
    return progs


def all_seeds():
    seen, out = set(), []
    for s in BUILTIN + repo_test_programs():
        if s not in seen:
            seen.add(s)
            out.append(s)
    return out


def repo_tests_with_expectations():
    """(name, program, expected trimmed stdout) for the shared test bodies of /repo/tests that expect success
    with a fixed output (the Windows half of the suite runs the same bodies through the Batch converter)"""
    import ast as pyast
    out = []
    for f in sorted(glob.glob(os.path.join(common.REPO, "tests", "*.go"))):
        if f.endswith("_test.go"):
            continue
        text = open(f, encoding="utf-8", errors="replace").read()
        for m in re.finditer(r"func (test\w+)\(t \*testing\.T, transpilerFunc transpilerFunc\) \{\s*transpilerFunc\(t, `([^`]*)`, func\(output string, err error\) \{(.*?)\n\t\}\)\n\}", text, re.S):
            name, src, body = m.group(1), m.group(2), m.group(3)
            e = re.search(r'require\.Equal\(t, ("(?:[^"\\]|\\.)*"), output\)', body)
            if not e or "require.Nil(t, err)" not in body and "require.Error(t, err)" not in body:
                continue
            try:
                expected = pyast.literal_eval(e.group(1))
            except Exception:
                continue
            out.append((name, textwrap.dedent(src).strip("\n") + "\n", expected, "require.Error" in body))
    return out
