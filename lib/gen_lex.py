"""Generators for lexer inputs (C11, C12, C13): token sequences with separators/comments/line endings
whose expected token list is known by construction, string-literal contents, and raw byte strings."""
import random

TT = dict(COMMENT=1, ORB=2, CRB=3, OSB=4, CSB=5, OCB=6, CCB=7, ASSIGN=8, COMPOUND=9, UNARY=10, BINARY=11,
          COMPARE=12, LOGICAL=13, SHORT_INIT=14, INCR=15, DECR=16, BOOL=17, NUMBER=18, STRING=19, NIL=20,
          DATA_TYPE=21, COMMA=22, COLON=23, SEMICOLON=24, DOT=25, SPACE=26, NEWLINE=27, IDENT=28, EOF=53)

KEYWORDS = {"import": 29, "var": 30, "func": 31, "return": 32, "if": 33, "else": 34, "switch": 35, "case": 36,
            "default": 37, "for": 38, "range": 39, "break": 40, "continue": 41, "len": 42, "print": 43,
            "input": 44, "copy": 45, "itoa": 46, "exists": 47, "read": 48, "write": 49, "panic": 50,
            "nil": 20, "bool": 21, "int": 21, "string": 21, "error": 21}

PUNCT = [("(", 2), (")", 3), ("[", 4), ("]", 5), ("{", 6), ("}", 7), ("==", 12), ("!=", 12), ("<=", 12),
         (">=", 12), ("<", 12), (">", 12), ("&&", 13), ("||", 13), ("+=", 9), ("-=", 9), ("*=", 9),
         ("/=", 9), ("%=", 9), ("=", 8), (":=", 14), ("++", 15), ("--", 16), ("!", 10), ("+", 11), ("-", 11),
         ("*", 11), ("/", 11), ("%", 11), (",", 22), (":", 23), (";", 24), (".", 25), ("@", 51), ("|", 52)]

IDENTS = ["x", "y1", "_t", "trueish", "falsey", "nilx", "format", "iffy", "forx", "inty", "printer", "Abc",
          "truex", "true_", "false1", "lenx", "_", "a_b_c", "Z9", "returns", "importx", "untrue", "xtrue"]

ENDS_OPERAND = {28, 17, 18, 19, 20, 3, 5}

SIMPLE_ESC = {"a": 7, "b": 8, "f": 12, "n": 10, "r": 13, "t": 9, "v": 11, "\\": 92, '"': 34}


def utf8(cp):
    return chr(cp).encode("utf-8")


def gen_string_literal(rng, rich=True):
    """Returns (literal bytes, value bytes).  Interpreted or raw literal."""
    raw = rng.random() < 0.3
    n = rng.choice([0, 1, 1, 2, 3, 5, 8])
    lit, val = bytearray(), bytearray()
    for _ in range(n):
        k = rng.random()
        if raw:
            if k < 0.15:
                c = b"\n"
            elif k < 0.25:
                c = "é€😀"[rng.randrange(3)].encode("utf-8")
            elif k < 0.35:
                c = b"\\" + bytes([rng.choice(b"nx\"u0")])
            elif k < 0.4:
                c = b'"'
            else:
                c = bytes([rng.choice(b"abc XYZ019$*'/{}-+.,;:!?()[]<>=&|%@#~^_")])
            lit += c
            val += c
        else:
            if k < 0.12:
                e = rng.choice(list(SIMPLE_ESC))
                lit += b"\\" + e.encode()
                val.append(SIMPLE_ESC[e])
            elif rich and k < 0.17:
                v = rng.randrange(256)
                lit += b"\\x%02x" % v if rng.random() < 0.5 else b"\\x%02X" % v
                val.append(v)
            elif rich and k < 0.21:
                cp = rng.choice([0x41, 0xe9, 0x20ac, 0x7f, 0x80, 0x7ff, 0x800, 0xffff, 0xd7ff, 0xe000])
                lit += b"\\u%04x" % cp
                val += utf8(cp)
            elif rich and k < 0.24:
                cp = rng.choice([0x41, 0x1f600, 0x10ffff, 0x10000, 0xe9])
                lit += b"\\U%08x" % cp
                val += utf8(cp)
            elif rich and k < 0.28:
                v = rng.randrange(256)
                lit += b"\\%03o" % v
                val.append(v)
            elif k < 0.36:
                c = "é€😀ß"[rng.randrange(4)].encode("utf-8")
                lit += c
                val += c
            elif k < 0.40:
                lit += b"`"
                val += b"`"
            elif k < 0.44:
                lit += b"/*" if rng.random() < 0.5 else b"//"
                val += lit[-2:]
            else:
                c = bytes([rng.choice(b"abc XYZ019$*'/{}-+.,;:!?()[]<>=&|%@#~^_\t")])
                lit += c
                val += c
    q = b"`" if raw else b'"'
    return bytes(q + lit + q), bytes(val)


def gen_token(rng, rich=True):
    """Returns (text bytes, type, value bytes)."""
    k = rng.random()
    if k < 0.22:
        w = rng.choice(IDENTS)
        return w.encode(), 28, w.encode()
    if k < 0.36:
        w = rng.choice(list(KEYWORDS))
        return w.encode(), KEYWORDS[w], w.encode()
    if k < 0.42:
        w = rng.choice(["true", "false"])
        return w.encode(), 17, w.encode()
    if k < 0.55:
        w = rng.choice(["0", "1", "7", "42", "007", "123456789", "9223372036854775807", "3.14", "10.0", "-5", "-0", "-12.5"])
        return w.encode(), 18, w.encode()
    if k < 0.70:
        lit, val = gen_string_literal(rng, rich)
        return lit, 19, val
    p, t = rng.choice(PUNCT)
    return p.encode(), t, p.encode()


def is_ident_char(b):
    return chr(b).isalnum() and b < 128 or b == 95


def needs_sep(a, a_ty, before_a, b, b_ty):
    """Would writing token text `b` directly after token text `a` change the token boundaries?
    `before_a` is the type of the kept token before `a` (0 if none).  Conservative."""
    if is_ident_char(a[-1]) and is_ident_char(b[0]):
        return True
    if a_ty == 18 and b[:1] == b".":
        return True
    if a_ty == 19 or b_ty == 19:
        return False
    if a == b"-" and a_ty == 11 and b[0] in b"0123456789":
        return before_a not in ENDS_OPERAND      # would be read as a sign
    for p, _ in PUNCT:
        pb = p.encode()
        for k in range(1, len(pb)):
            if a.endswith(pb[:k]) and b.startswith(pb[k:]):
                return True
    if a.endswith(b"/") and b[:1] in (b"/", b"*"):
        return True
    return False


def gen_separator(rng, force, crlf):
    """Returns (bytes, list of NEWLINE markers).  Elements: blanks, tabs, comments, newlines."""
    nl = b"\r\n" if crlf else b"\n"
    out = bytearray()
    n = rng.choice([0, 0, 1, 1, 2, 3]) if not force else rng.choice([1, 1, 2, 3])
    for _ in range(n):
        k = rng.random()
        if k < 0.45:
            out += b" "
        elif k < 0.55:
            out += b"\t"
        elif k < 0.70:
            out += nl
        elif k < 0.85:
            body = rng.choice([b"", b" c ", b"x := 1", b" * / ", b"**", b" a\n b ", b"/* nested ", b" \"q\" ", b"//"])
            if crlf:
                body = body.replace(b"\n", b"\r\n")
            out += b"/*" + body + b"*/"
        else:
            body = rng.choice([b"", b" line", b" /* not block", b" */ x", b"\"", b"//"])
            out += b"//" + body + nl
    if force and len(out) == 0:
        out += b" "
    return bytes(out)


def advance(row, col, data):
    for b in data:
        if b == 10:
            row += 1
            col = 1
        else:
            col += 1
    return row, col


def scan_sep(sep):
    """Split a (normalised) separator into its lexemes: returns list of ('nl'|'skip', bytes)."""
    out = []
    i = 0
    while i < len(sep):
        if sep[i:i + 2] == b"/*":
            j = sep.index(b"*/", i + 2) + 2
            out.append(("skip", sep[i:j]))
            i = j
        elif sep[i:i + 2] == b"//":
            j = sep.find(b"\n", i)
            if j < 0:
                j = len(sep)
            out.append(("skip", sep[i:j]))
            i = j
        elif sep[i:i + 1] == b"\n":
            out.append(("nl", b"\n"))
            i += 1
        else:
            out.append(("skip", sep[i:i + 1]))
            i += 1
    return out


def gen_sequence(rng, max_tokens=30, rich=True):
    """A rendered token sequence and the token list it must lex to (known by construction).
    Returns (source bytes, expected tokens [(ty, value bytes, row, col)])."""
    crlf = rng.random() < 0.3
    n = rng.randrange(0, max_tokens + 1)
    src = bytearray()
    expected = []
    pos = [1, 1]
    kept = [0, 0]            # types of the last two kept tokens (older, newer)
    prev = None              # (text, ty) of the previous token if nothing was written since

    def emit_sep(force):
        nonlocal prev
        sep = gen_separator(rng, force, crlf)
        if prev is not None and prev[0].endswith(b"/") and sep[:1] == b"/":
            sep = b" " + sep          # "/" followed by a comment would itself start a comment
        norm = sep.replace(b"\r\n", b"\n")
        for kind, data in scan_sep(norm):
            if kind == "nl":
                expected.append((27, b"\n", pos[0], pos[1]))
                kept[0], kept[1] = kept[1], 27
            pos[0], pos[1] = advance(pos[0], pos[1], data)
        src.extend(sep)
        if sep:
            prev = None

    emit_sep(False)
    for _ in range(n):
        text, ty, val = gen_token(rng, rich)
        if rng.random() < 0.55:
            emit_sep(False)
        # a leading '-' on a number is a sign only where no operand can end
        if ty == 18 and text[:1] == b"-" and kept[1] in ENDS_OPERAND:
            text, val = text[1:], val[1:]
        if prev is not None and needs_sep(prev[0], prev[1], kept[0], text, ty):
            emit_sep(True)
            if ty == 18 and text[:1] == b"-" and kept[1] in ENDS_OPERAND:
                text, val = text[1:], val[1:]
        expected.append((ty, val, pos[0], pos[1]))
        src.extend(text.replace(b"\n", b"\r\n") if crlf else text)
        pos[0], pos[1] = advance(pos[0], pos[1], text)
        prev = (text, ty)
        kept[0], kept[1] = kept[1], ty
    emit_sep(False)
    expected.append((53, b"", pos[0], pos[1]))
    return bytes(src), expected


def directed_sequences():
    """every kind of token directly followed by "-1", "- 1" and " -1": a minus sign belongs to the number exactly when
    no operand can end before it (rule stated here independently of the code's table: identifiers, literals, ")" and "]")"""
    reps = [(b"x", 28), (b"7", 18), (b'"s"', 19), (b"true", 17), (b"nil", 20), (b")", 3), (b"]", 5), (b"}", 7), (b"(", 2), (b"[", 4), (b"{", 6),
            (b",", 22), (b"=", 8), (b":=", 14), (b"+=", 9), (b"==", 12), (b"&&", 13), (b"+", 11), (b"*", 11), (b"!", 10), (b":", 23), (b"return", 32),
            (b"case", 36), (b"print", 43), (b"int", 21), (b"++", 15), (b"@", 51), (b"|", 52), (b";", 24), (b".", 25)]
    vals = {19: b"s"}
    out = []
    for text, ty in reps:
        val = vals.get(ty, text)
        for form in (b"%s-1", b"%s -1", b"%s - 1", b"%s-1.5"):
            src = form % text
            exp = [(ty, val, 1, 1)]
            rest = src[len(text):]
            col = 1 + len(text)
            blanks = len(rest) - len(rest.lstrip(b" "))
            col += blanks
            rest = rest.lstrip(b" ")
            num = rest[1:].lstrip(b" ")
            if ty in ENDS_OPERAND or rest[1:2] == b" ":
                exp.append((11, b"-", 1, col))
                exp.append((18, num, 1, col + 1 + (len(rest) - 1 - len(num))))
            else:
                exp.append((18, b"-" + num, 1, col))
            exp.append((53, b"", 1, 1 + len(src)))
            out.append((src, exp))
    return out


def unknown_character_sources():
    """a character that is no part of the token grammar (any non-ASCII character outside strings and comments: letters, digits,
    blanks, symbols of other scripts) next to every kind of token: a lexical error wherever it stands (round 6: C11-7, identifiers
    continued with unicode.IsLetter / IsDigit)"""
    chars = ["\u00e9", "\uff12", "\u00df", "\u03a9", "\u00a0", "\u4e2d", "\u0661", "\u00aa", "\u00b2", "\u20ac", "\u2028", "\u0301", "\U0001d7d8", "\u00c9"]
    forms = ["x%s := 1\n", "%sx := 1\n", "x := 1%s\n", "x := 1 %s\n", "x := true%s\n", "print(x)%s\n", "x %s y\n", "var%s x int\n", "x := y%s + 1\n", "%s\n",
             "x := 12%s3\n", "_t%s\n", "x := nil%s\n", "func f%s() {\n}\n", "x := \"s\"%s\n", "x.%sy\n", "@ls%s()\n", "/* c */%s\n", "x := `r`%s\n"]
    out = []
    for f in forms:
        for c in chars:
            out.append((f % c).encode("utf-8"))
    return out


INTERESTING = b" \t\n\r\"`\\/*-+=!<>&|:;.,(){}[]@%019azAZ_xu\xc3\xa9\xff\x00"


def gen_bytes(rng, max_len=60):
    n = rng.randrange(0, max_len + 1)
    return bytes(rng.choice(INTERESTING) if rng.random() < 0.85 else rng.randrange(256) for _ in range(n))


def gen_near_string(rng):
    """String-literal shaped inputs including malformed escapes and unterminated literals."""
    parts = [b'"']
    for _ in range(rng.randrange(0, 8)):
        k = rng.random()
        if k < 0.5:
            parts.append(b"\\" + bytes([rng.choice(b"abfnrtv\\\"'xuU0178 \n9z\xc3")]))
        elif k < 0.7:
            parts.append(bytes([rng.choice(b"0123456789abcdefABCDEFg")]) * rng.randrange(1, 5))
        else:
            parts.append(bytes([rng.choice(b"ab \n`\"")]))
    if rng.random() < 0.8:
        parts.append(b'"')
    return b"".join(parts)
