"""Type-directed generator of TypeShell programs, pretty-printer, and reference interpreter.

The interpreter gives "the Go meaning of the same text" with the README's caveats (eager && / ||,
all else-if / case conditions evaluated before the chain, bools print as 1/0, panic prints
"panic: m" and exits 1).  It is used as *search oracle* only (never in place of a theorem).

Surface AST = nested tuples; see the constructors in `Gen`.  Undefined behaviour (division by zero,
out-of-range reads, step budget exceeded, ...) raises `Undefined`; such programs are discarded.
"""
import random

INT64_MIN, INT64_MAX = -(1 << 63), (1 << 63) - 1
NEUTRAL = "abcdefgABCXYZ0123456789_.,:/+="


class Undefined(Exception):
    pass


class PanicExit(Exception):
    pass


BITS = 64      # integer width of the reference semantics (64 for bash, 32 for batch)


SAW_MININT = False     # some arithmetic result was the most negative integer of the current width


def wrap64(n):
    """wrap to the current integer width (the name is historical)"""
    global SAW_MININT
    m = 1 << BITS
    n &= m - 1
    r = n - m if n >= (m >> 1) else n
    if r == -(m >> 1):
        SAW_MININT = True
    return r


def go_div(a, b):
    if b == 0:
        raise Undefined("div0")
    q = abs(a) // abs(b)
    if (a < 0) != (b < 0):
        q = -q
    return wrap64(q)


def go_mod(a, b):
    if b == 0:
        raise Undefined("mod0")
    r = abs(a) % abs(b)
    return -r if a < 0 else r


def zero(t):
    return {"int": 0, "bool": False, "string": ""}[t]


# ------------------------------------------------------------------------------------------------
# pretty printer

def q(s):
    """TypeShell (Go) interpreted string literal for an ASCII string."""
    out = ['"']
    for ch in s:
        if ch == '"':
            out.append('\\"')
        elif ch == "\\":
            out.append("\\\\")
        elif ch == "\n":
            out.append("\\n")
        elif ch == "\t":
            out.append("\\t")
        else:
            out.append(ch)
    out.append('"')
    return "".join(out)


PREC = {"||": 1, "&&": 2, "==": 3, "!=": 3, "<": 3, "<=": 3, ">": 3, ">=": 3, "+": 4, "-": 4, "*": 5, "/": 5, "%": 5}


def pp_expr(e, ctx_prec=0, right=False):
    k = e[0]
    if k == "int":
        return str(e[1])
    if k == "bool":
        return "true" if e[1] else "false"
    if k == "str":
        return q(e[1])
    if k == "var":
        return e[1]
    if k in ("bin", "cmp", "log"):
        op = e[1]
        p = PREC[op]
        # comparison is parsed right-recursively and is non-associative in Go: always parenthesise operands
        if k == "cmp":
            s = "%s %s %s" % (pp_expr(e[2], 4), op, pp_expr(e[3], 4))
        else:
            s = "%s %s %s" % (pp_expr(e[2], p), op, pp_expr(e[3], p, True))
        if p < ctx_prec or (p == ctx_prec and right):
            return "(" + s + ")"
        return s
    if k == "not":
        return "!" + pp_expr(e[1], 6)
    if k == "group":
        return "(" + pp_expr(e[1]) + ")"
    if k == "call":
        return "%s(%s)" % (e[1], ", ".join(pp_expr(a) for a in e[2]))
    if k == "slicelit":
        return "[]%s{%s}" % (e[1], ", ".join(pp_expr(a) for a in e[2]))
    if k == "index":
        return "%s[%s]" % (e[1][1], pp_expr(e[2]))
    if k == "strindex":
        return "%s[%s]" % (pp_atom(e[1]), pp_expr(e[2]))
    if k == "substr":
        return "%s[%s:%s]" % (pp_atom(e[1]), pp_expr(e[2]) if e[2] is not None else "", pp_expr(e[3]) if e[3] is not None else "")
    if k == "len":
        return "len(%s)" % pp_expr(e[1])
    if k == "itoa":
        return "itoa(%s)" % pp_expr(e[1])
    if k == "copy":
        return "copy(%s, %s)" % (e[1][1], pp_expr(e[2]))
    if k == "exists":
        return "exists(%s)" % pp_expr(e[1])
    if k == "read":
        return "read(%s)" % pp_expr(e[1])
    if k == "input":
        return "input(%s)" % (pp_expr(e[1]) if e[1] is not None else "")
    if k == "app":
        return " | ".join("@%s(%s)" % (n, ", ".join(pp_expr(a) for a in args)) for n, args in e[1])
    raise ValueError(k)


def pp_atom(e):
    # subscripts are only parsed on identifiers and string literals
    return pp_expr(e)


def pp_simple(s):
    """statements allowed in for-headers"""
    k = s[0]
    if k == "vardef":
        _, style, names, typ, exprs = s
        if style == "short":
            return "%s := %s" % (", ".join(names), ", ".join(pp_expr(x) for x in exprs))
        out = "var " + ", ".join(names)
        if typ is not None:
            out += " " + typ
        if exprs is not None:
            out += " = " + ", ".join(pp_expr(x) for x in exprs)
        return out
    if k == "assign":
        return "%s = %s" % (", ".join(s[1]), ", ".join(pp_expr(x) for x in s[2]))
    if k == "opassign":
        return "%s %s= %s" % (s[1], s[2], pp_expr(s[3]))
    if k == "incdec":
        return s[1] + s[2]
    raise ValueError(k)


def pp_block(body, ind):
    return "".join(pp_stmt(s, ind) for s in body)


def pp_stmt(s, ind=0):
    t = "\t" * ind
    k = s[0]
    if k in ("vardef", "assign", "opassign", "incdec"):
        return t + pp_simple(s) + "\n"
    if k == "sliceassign":
        return "%s%s[%s] = %s\n" % (t, s[1], pp_expr(s[2]), pp_expr(s[3]))
    if k == "if":
        out = ""
        for i, (c, body) in enumerate(s[1]):
            out += (t + "if " if i == 0 else " else if ") + pp_expr(c) + " {\n" + pp_block(body, ind + 1) + t + "}"
        if s[2] is not None:
            out += " else {\n" + pp_block(s[2], ind + 1) + t + "}"
        return out + "\n"
    if k == "switch":
        out = t + "switch" + (" " + pp_expr(s[1]) if s[1] is not None else "") + " {\n"
        for c, body in s[2]:
            out += t + "case " + pp_expr(c) + ":\n" + pp_block(body, ind + 1)
        if s[3] is not None:
            out += t + "default:\n" + pp_block(s[3], ind + 1)
        return out + t + "}\n"
    if k == "for3":
        _, init, cond, incr, body = s
        return "%sfor %s; %s; %s {\n%s%s}\n" % (t, pp_simple(init) if init else "", pp_expr(cond) if cond else "",
                                               pp_simple(incr) if incr else "", pp_block(body, ind + 1), t)
    if k == "forcond":
        return "%sfor %s {\n%s%s}\n" % (t, pp_expr(s[1]), pp_block(s[2], ind + 1), t)
    if k == "forever":
        return "%sfor {\n%s%s}\n" % (t, pp_block(s[1], ind + 1), t)
    if k == "forrange":
        _, iv, vv, it, body = s
        names = iv + (", " + vv if vv else "")
        return "%sfor %s := range %s {\n%s%s}\n" % (t, names, pp_expr(it), pp_block(body, ind + 1), t)
    if k == "break":
        return t + "break\n"
    if k == "continue":
        return t + "continue\n"
    if k == "print":
        return "%sprint(%s)\n" % (t, ", ".join(pp_expr(x) for x in s[1]))
    if k == "panic":
        return "%spanic(%s)\n" % (t, pp_expr(s[1]))
    if k == "return":
        return "%sreturn %s\n" % (t, ", ".join(pp_expr(x) for x in s[1]))
    if k == "exprstmt":
        return t + pp_expr(s[1]) + "\n"
    if k == "write":
        return "%swrite(%s)\n" % (t, ", ".join(pp_expr(x) for x in s[1]))
    if k == "func":
        _, name, params, rets, body = s
        ps = ", ".join("%s %s" % (n, ty) for n, ty in params)
        rs = "" if not rets else (" " + rets[0] if len(rets) == 1 else " (" + ", ".join(rets) + ")")
        return "%sfunc %s(%s)%s {\n%s%s}\n" % (t, name, ps, rs, pp_block(body, ind + 1), t)
    raise ValueError(k)


def pp_program(prog):
    return pp_block(prog, 0)


# ------------------------------------------------------------------------------------------------
# reference interpreter

class BreakEx(Exception):
    pass


class ContinueEx(Exception):
    pass


class ReturnEx(Exception):
    def __init__(self, vals):
        self.vals = vals


class Interp:
    def __init__(self, max_steps=20000, max_out=400):
        self.out = []
        self.steps = 0
        self.max_steps = max_steps
        self.max_out = max_out
        self.globals = {}
        self.funcs = {}
        self.trace_calls = []
        # Go leaves the order between reading a variable operand and a later call in the same
        # expression unspecified (TypeShell reads the variable late).  Programs in which a call
        # writes a global that a suspended expression has already read are treated as undefined.
        self.cur_reads = set()
        self.pending = []
        self.depth = 0
        self.panic_in_func = False
        self.switch_break = False       # a break was executed whose innermost breakable construct is a switch
        self.empty_substr = False       # a subscript was taken of an empty string (s[0:0])

    def tick(self):
        self.steps += 1
        if self.steps > self.max_steps:
            raise Undefined("budget")

    def run(self, prog):
        """returns (stdout lines, exit status)"""
        env = self.globals
        try:
            self.block(prog, env, env)
        except PanicExit:
            return self.out, 1
        except (BreakEx, ContinueEx, ReturnEx):
            raise Undefined("stray control flow")
        return self.out, 0

    def emit(self, line):
        self.out.append(line)
        if len(self.out) > self.max_out:
            raise Undefined("output budget")

    def fmt(self, v):
        if isinstance(v, bool):
            return "1" if v else "0"
        if isinstance(v, int):
            return str(v)
        if isinstance(v, str):
            return v
        raise Undefined("print of non-scalar")

    def lookup(self, name, env, genv):
        if name in env:
            return env
        if name in genv:
            return genv
        raise Undefined("unbound " + name)

    def ev(self, e, env, genv):
        if e[0] == "const":
            return e[1]
        self.tick()
        k = e[0]
        if k in ("int", "bool", "str"):
            return e[1]
        if k == "var":
            d = self.lookup(e[1], env, genv)
            if d is genv:
                self.cur_reads.add(e[1])
            return d[e[1]]
        if k == "group":
            return self.ev(e[1], env, genv)
        if k == "not":
            return not self.ev(e[1], env, genv)
        if k == "bin":
            a = self.ev(e[2], env, genv)
            b = self.ev(e[3], env, genv)
            op = e[1]
            if isinstance(a, str):
                if len(a) + len(b) > 4000:
                    raise Undefined("string budget")
                return a + b
            if op == "+":
                return wrap64(a + b)
            if op == "-":
                return wrap64(a - b)
            if op == "*":
                return wrap64(a * b)
            if op == "/":
                return go_div(a, b)
            return go_mod(a, b)
        if k == "cmp":
            a = self.ev(e[2], env, genv)
            b = self.ev(e[3], env, genv)
            return {"==": a == b, "!=": a != b, "<": a < b, "<=": a <= b, ">": a > b, ">=": a >= b}[e[1]]
        if k == "log":
            a = self.ev(e[2], env, genv)
            b = self.ev(e[3], env, genv)      # eager: both operands are always evaluated
            return (a and b) if e[1] == "&&" else (a or b)
        if k == "call":
            vals = self.call(e[1], [self.ev(a, env, genv) for a in e[2]], genv)
            if len(vals) != 1:
                raise Undefined("call arity in expression")
            return vals[0]
        if k == "slicelit":
            return [self.ev(a, env, genv) for a in e[2]]
        if k == "index":
            s = self.ev(e[1], env, genv)
            i = self.ev(e[2], env, genv)
            if not (0 <= i < len(s)):
                raise Undefined("index out of range")
            return s[i]
        if k == "strindex":
            s = self.ev(e[1], env, genv)
            i = self.ev(e[2], env, genv)
            if not (0 <= i < len(s)):
                raise Undefined("string index out of range")
            return s[i]
        if k == "substr":
            a = self.ev(e[2], env, genv) if e[2] is not None else 0
            b = self.ev(e[3], env, genv) if e[3] is not None else None
            s = self.ev(e[1], env, genv)
            if s == "":
                self.empty_substr = True
            if b is None:
                b = len(s)
            if not (0 <= a <= b <= len(s)):
                raise Undefined("slice bounds")
            return s[a:b]
        if k == "len":
            return len(self.ev(e[1], env, genv))
        if k == "itoa":
            return str(self.ev(e[1], env, genv))
        if k == "copy":
            src = self.ev(e[2], env, genv)
            dst = self.lookup(e[1][1], env, genv)[e[1][1]]
            if dst is src:
                return len(src)
            for i, v in enumerate(list(src)):
                if i < len(dst):
                    dst[i] = v
                else:
                    dst.append(v)
            return len(src)
        raise Undefined("unsupported expr " + k)

    def call(self, name, args, genv):
        self.tick()
        params, rets, body = self.funcs[name]
        env = {n: v for (n, _), v in zip(params, args)}
        self.pending.append(self.cur_reads)
        self.cur_reads = set()
        self.depth += 1
        try:
            self.block(body, env, genv)
        except ReturnEx as r:
            return r.vals
        finally:
            self.depth -= 1
            self.cur_reads = self.pending.pop()
        if rets:
            raise Undefined("missing return")
        return []

    def wrote(self, d, n, genv):
        if d is genv and any(n in s for s in self.pending):
            raise Undefined("call writes a global that a suspended expression has already read")

    def assign(self, names, vals, env, genv, define):
        for n, v in zip(names, vals):
            if define and n not in env:
                env[n] = v
            else:
                d = self.lookup(n, env, genv)
                self.wrote(d, n, genv)
                d[n] = v

    def rhs(self, exprs, n, env, genv):
        if len(exprs) == 1 and exprs[0][0] == "call" and n != 1:
            e = exprs[0]
            vals = self.call(e[1], [self.ev(a, env, genv) for a in e[2]], genv)
            if len(vals) != n:
                raise Undefined("arity")
            return vals
        return [self.ev(x, env, genv) for x in exprs]

    def block(self, body, env, genv):
        for s in body:
            self.stmt(s, env, genv)

    def stmt(self, s, env, genv):
        self.tick()
        self.cur_reads = set()
        k = s[0]
        if k == "vardef":
            _, style, names, typ, exprs = s
            if exprs is None:
                vals = [[] if typ.startswith("[]") else zero(typ) for _ in names]
            else:
                vals = self.rhs(exprs, len(names), env, genv)
            for n, v in zip(names, vals):
                if n in env:          # redefinition through := of an existing name (same scope level)
                    env[n] = v
                elif env is not genv and n in genv and False:
                    pass
                else:
                    env[n] = v
        elif k == "assign":
            vals = self.rhs(s[2], len(s[1]), env, genv)
            self.assign(s[1], vals, env, genv, False)
        elif k == "opassign":
            cur = self.lookup(s[1], env, genv)[s[1]]
            if self.lookup(s[1], env, genv) is genv:
                self.cur_reads.add(s[1])
            v = self.ev(("bin", s[2], ("int" if not isinstance(cur, str) else "str", cur), s[3], None), env, genv)
            self.wrote(self.lookup(s[1], env, genv), s[1], genv)
            self.lookup(s[1], env, genv)[s[1]] = v
        elif k == "incdec":
            d = self.lookup(s[1], env, genv)
            self.wrote(d, s[1], genv)
            d[s[1]] = wrap64(d[s[1]] + (1 if s[2] == "++" else -1))
        elif k == "sliceassign":
            i = self.ev(s[2], env, genv)
            v = self.ev(s[3], env, genv)
            arr = self.lookup(s[1], env, genv)[s[1]]
            if i < 0 or i > 60:
                raise Undefined("slice index")
            z = zero({int: "int", bool: "bool", str: "string"}[type(v)])
            while len(arr) < i:
                arr.append(z)
            if i == len(arr):
                arr.append(v)
            else:
                arr[i] = v
        elif k == "if":
            conds = [self.ev(c, env, genv) for c, _ in s[1]]      # all conditions first
            for c, (_, body) in zip(conds, s[1]):
                if c:
                    self.block(body, env, genv)
                    return
            if s[2] is not None:
                self.block(s[2], env, genv)
        elif k == "switch":
            _, tag, cases, default = s
            conds = []
            tagv = None if tag is None else self.ev(tag, env, genv)       # Go: the tag is evaluated exactly once
            for c, _ in cases:
                if tag is None:
                    conds.append(self.ev(c, env, genv) is True)
                else:
                    conds.append(tagv == self.ev(c, env, genv))
            try:
                for c, (_, body) in zip(conds, cases):
                    if c:
                        self.block(body, env, genv)
                        return
                if default is not None:
                    self.block(default, env, genv)
            except BreakEx:
                self.switch_break = True     # Go: break leaves the switch
        elif k in ("for3", "forcond", "forever", "forrange"):
            if k == "for3":
                _, init, cond, incr, body = s
            elif k == "forcond":
                init, cond, incr, body = None, s[1], None, s[2]
            elif k == "forever":
                init, cond, incr, body = None, None, None, s[1]
            else:
                _, iv, vv, it, body0 = s
                if _has_call(it):
                    # Go: the range expression is evaluated exactly once, before the loop
                    snapshot = self.ev(it, env, genv)
                    it = ("const", snapshot)
                init = ("assign", [iv], [("int", 0)])
                env.setdefault(iv, 0)
                cond = ("cmp", "<", ("var", iv), ("len", it))
                incr = ("assign", [iv], [("bin", "+", ("var", iv), ("int", 1), "int")])
                body = body0
            if init is not None:
                self.stmt(init, env, genv)
            first = True
            while True:
                self.tick()
                self.cur_reads = set()
                if not first and incr is not None:
                    self.stmt(incr, env, genv)
                first = False
                if cond is not None and not self.ev(cond, env, genv):
                    break
                try:
                    if k == "forrange" and vv:
                        seq = self.ev(it, env, genv)
                        i = env[iv]
                        if not (0 <= i < len(seq)):
                            raise Undefined("range index")
                        env[vv] = seq[i]
                    self.block(body, env, genv)
                except BreakEx:
                    break
                except ContinueEx:
                    continue
        elif k == "break":
            raise BreakEx()
        elif k == "continue":
            raise ContinueEx()
        elif k == "print":
            vals = []
            for x in s[1]:
                if x[0] == "call" and len(self.funcs[x[1]][1]) != 1:
                    vals += self.call(x[1], [self.ev(a, env, genv) for a in x[2]], genv)
                else:
                    vals.append(self.ev(x, env, genv))
            self.emit(" ".join(self.fmt(v) for v in vals))
        elif k == "panic":
            self.emit("panic: " + self.fmt(self.ev(s[1], env, genv)))
            self.panic_in_func = self.depth > 0
            raise PanicExit()
        elif k == "return":
            raise ReturnEx([self.ev(x, env, genv) for x in s[1]])
        elif k == "exprstmt":
            e = s[1]
            if e[0] == "call":
                self.call(e[1], [self.ev(a, env, genv) for a in e[2]], genv)
            else:
                self.ev(e, env, genv)
        elif k == "func":
            self.funcs[s[1]] = (s[2], s[3], s[4])
        else:
            raise Undefined("unsupported stmt " + k)


LAST = None     # the interpreter of the last `interpret` call (flags: panic_in_func, empty_substr)


def interpret(prog, max_steps=20000):
    global LAST, SAW_MININT
    SAW_MININT = False
    it = Interp(max_steps)
    out, status = it.run(prog)
    LAST = it
    return out, status


# ------------------------------------------------------------------------------------------------
# generator

class Scope:
    def __init__(self, parent=None, kind="block"):
        self.vars = {}           # name -> type
        self.parent = parent
        self.kind = kind         # program | function | block

    def visible(self):
        d = {}
        s = self
        chain = []
        while s is not None:
            chain.append(s)
            s = s.parent
        for s in reversed(chain):
            d.update(s.vars)
        return d


class Cfg:
    def __init__(self, **kw):
        self.funcs = kw.get("funcs", False)
        self.slices = kw.get("slices", False)
        self.strops = kw.get("strops", False)        # subscripts, len, range over strings
        self.effects = kw.get("effects", False)      # calls with side effects in operand positions
        self.max_depth = kw.get("max_depth", 3)      # expression depth
        self.max_nest = kw.get("max_nest", 3)        # statement nesting
        self.max_stmts = kw.get("max_stmts", 6)
        self.alphabet = kw.get("alphabet", NEUTRAL)
        self.panic = kw.get("panic", True)
        self.switch_break = False
        self.big_ints = kw.get("big_ints", True)


class Gen:
    def __init__(self, rng, cfg):
        self.r = rng
        self.c = cfg
        self.counter = 0
        self.funcs = []          # (name, params, rets, has_effects)
        self.globals_at_func = {}
        self.in_loop = 0
        self.in_func = None      # rets of the function being generated
        self.in_switch = 0
        self.kinds = {}
        self.tracers_ready = False

    def count(self, k):
        self.kinds[k] = self.kinds.get(k, 0) + 1

    def fresh(self, base="v"):
        self.counter += 1
        return "%s%d" % (base, self.counter)

    # ---- expressions
    def lit(self, t):
        r = self.r
        if t == "int":
            k = r.random()
            if k < 0.6:
                return ("int", r.randrange(0, 10))
            if k < 0.8:
                return ("int", r.randrange(-20, 100))
            if k < 0.9 and self.c.big_ints:
                return ("int", r.choice([INT64_MAX, INT64_MIN + 1, 1 << 62, -(1 << 62), 4294967296, 2147483647, -2147483648]))
            return ("int", r.randrange(-1000, 1000))
        if t == "bool":
            return ("bool", r.random() < 0.5)
        if t == "string":
            n = r.choice([0, 1, 1, 2, 3, 5])
            s = "".join(r.choice(self.c.alphabet) for _ in range(n))
            if " " in self.c.alphabet:
                pass
            return ("str", s)
        raise ValueError(t)

    def vars_of(self, scope, t):
        return [n for n, ty in scope.visible().items() if ty == t]

    TRACERS = {"int": "ti", "bool": "tb", "string": "ts"}

    def tracer(self, t, scope, depth):
        """effects mode: a call of a tracer function that prints its tag and returns its second argument"""
        self.counter += 1
        return ("call", self.TRACERS[t], [("int", self.counter), self.expr(t, scope, depth)], [t])

    def expr(self, t, scope, depth=None):
        r = self.r
        if depth is None:
            depth = r.randrange(0, self.c.max_depth + 1)
        if self.c.effects and self.tracers_ready and t in self.TRACERS and r.random() < 0.3:
            return self.tracer(t, scope, max(0, depth - 1))
        vs = self.vars_of(scope, t)
        if t.startswith("[]"):
            return self.slice_expr(t, scope, depth)
        if depth <= 0 or r.random() < 0.15:
            if vs and r.random() < 0.6:
                return ("var", r.choice(vs), t)
            return self.lit(t)
        k = r.random()
        fs = [f for f in self.funcs if f[2] == [t]] if self.c.funcs else []
        if depth > 1 and t in ("int", "string", "bool") and r.random() < 0.06:
            # the same TEXT as both operands (round 6: an "optimisation" that evaluates textually identical operands once)
            e = self.expr("int" if t == "bool" else t, scope, depth - 1)
            if e[0] not in ("int", "str", "bool", "var"):
                ge = e if e[0] in ("call", "group", "len", "itoa", "index") else ("group", e)
                if t == "int":
                    return ("bin", r.choice(["+", "*", "-"]), ge, ge, "int")
                if t == "string":
                    return ("bin", "+", ge, ge, "string")
                return ("cmp", r.choice(["==", "<=", "!="]), ge, ge)
        if fs and k < 0.2 and depth > 0:
            f = r.choice(fs)
            return ("call", f[0], [self.expr(pt, scope, depth - 1) for _, pt in f[1]], f[2])
        if t == "int":
            if k < 0.65:
                op = r.choice(["+", "-", "*", "/", "%", "+", "-", "*"])
                a = self.expr("int", scope, depth - 1)
                b = self.expr("int", scope, depth - 1)
                if op in ("/", "%") and r.random() < 0.8:
                    b = ("int", r.choice([1, 2, 3, 7, -2, -1, 10]))
                return ("bin", op, a, b, "int")
            if k < 0.72:
                return ("group", self.expr("int", scope, depth - 1))
            if k < 0.80 and (self.c.strops or self.c.slices):
                if self.c.slices and r.random() < 0.5:
                    st = r.choice(["[]int", "[]bool", "[]string"])
                    svs = self.vars_of(scope, st)
                    if svs:
                        return ("len", ("var", r.choice(svs), st))
                return ("len", self.expr("string", scope, depth - 1))
            if k < 0.90 and self.c.slices:
                svs = self.vars_of(scope, "[]int")
                if svs:
                    return ("index", ("var", r.choice(svs), "[]int"), self.index_expr(scope, depth - 1), "int")
            return self.lit("int") if not vs else ("var", r.choice(vs), t)
        if t == "bool":
            if k < 0.35:
                ct = r.choice(["int", "int", "int", "bool", "string"])
                ops = ["==", "!=", "<", "<=", ">", ">="] if ct == "int" else ["==", "!="]
                return ("cmp", r.choice(ops), self.expr(ct, scope, depth - 1), self.expr(ct, scope, depth - 1))
            if k < 0.6:
                return ("log", r.choice(["&&", "||"]), self.expr("bool", scope, depth - 1), self.expr("bool", scope, depth - 1))
            if k < 0.72:
                inner = self.expr("bool", scope, depth - 1)
                if inner[0] in ("bin", "cmp", "log", "not"):
                    inner = ("group", inner)
                return ("not", inner)
            if k < 0.8:
                return ("group", self.expr("bool", scope, depth - 1))
            if k < 0.88 and self.c.slices:
                svs = self.vars_of(scope, "[]bool")
                if svs:
                    return ("index", ("var", r.choice(svs), "[]bool"), self.index_expr(scope, depth - 1), "bool")
            return self.lit("bool") if not vs else ("var", r.choice(vs), t)
        if t == "string":
            if k < 0.35:
                return ("bin", "+", self.expr("string", scope, depth - 1), self.expr("string", scope, depth - 1), "string")
            if k < 0.5:
                return ("itoa", self.expr("int", scope, depth - 1))
            if k < 0.7 and self.c.strops:
                base = self.str_atom(scope)
                m = r.random()
                if base is None:
                    return self.lit("string")
                if m < 0.4:
                    return ("strindex", base, self.index_expr(scope, depth - 1))
                a = self.index_expr(scope, depth - 1) if r.random() < 0.7 else None
                b = self.index_expr(scope, depth - 1) if r.random() < 0.7 else None
                return ("substr", base, a, b)
            if k < 0.8 and self.c.slices:
                svs = self.vars_of(scope, "[]string")
                if svs:
                    return ("index", ("var", r.choice(svs), "[]string"), self.index_expr(scope, depth - 1), "string")
            return self.lit("string") if not vs else ("var", r.choice(vs), t)
        raise ValueError(t)

    def str_atom(self, scope):
        """subscripts and ranges over strings are only parsed on identifiers"""
        vs = self.vars_of(scope, "string")
        if vs:
            return ("var", self.r.choice(vs), "string")
        return None

    def index_expr(self, scope, depth):
        r = self.r
        k = r.random()
        if self.c.effects and self.tracers_ready and k < 0.5:
            self.counter += 1
            return ("call", "ti", [("int", self.counter), ("int", r.randrange(0, 3))], ["int"])
        if k < 0.5:
            return ("int", r.randrange(0, 4))
        if k < 0.58:
            return ("int", r.randrange(0, 12))
        if k < 0.72:
            # bounds written as small operations, in particular with the operand 1 (round 8: C03-B, a peephole on `x + 1` as an end bound)
            a = ("int", r.randrange(0, 5))
            ivs = self.vars_of(scope, "int")
            if ivs and r.random() < 0.3:
                a = ("bin", "%", ("var", r.choice(ivs), "int"), ("int", r.choice([2, 3, 4])), "int")
            op = r.choice(["+", "-", "-", "*", "/", "%"])
            c = ("int", 1) if r.random() < 0.7 else ("int", r.randrange(1, 4))
            return ("bin", op, a, c, "int")
        e = self.expr("int", scope, max(0, depth))
        if r.random() < 0.7:
            return ("bin", "%", ("group", e) if e[0] == "bin" else e, ("int", r.choice([2, 3, 4])), "int")
        return e

    def slice_expr(self, t, scope, depth):
        r = self.r
        et = t[2:]
        vs = self.vars_of(scope, t)
        fs = [f for f in self.funcs if f[2] == [t]] if self.c.funcs else []
        k = r.random()
        if vs and k < 0.45:
            return ("var", r.choice(vs), t)
        if fs and k < 0.55 and depth > 0:
            f = r.choice(fs)
            return ("call", f[0], [self.expr(pt, scope, depth - 1) for _, pt in f[1]], f[2])
        n = r.choice([0, 1, 2, 3, 3, 4, 6, 11])
        return ("slicelit", et, [self.expr(et, scope, min(depth - 1, 1)) for _ in range(n)])

    # ---- statements
    def types(self):
        ts = ["int", "int", "bool", "string"]
        if self.c.slices:
            ts += ["[]int", "[]string", "[]bool"]
        return ts

    def block(self, scope, nest, n=None, kind="block"):
        inner = Scope(scope, kind)
        body = []
        n = n if n is not None else self.r.randrange(0, self.c.max_stmts + 1)
        for _ in range(n):
            s = self.stmt(inner, nest)
            if s is not None:
                body.append(s)
                if s[0] in ("break", "continue", "return", "panic"):
                    break
        return body

    def assignable(self, scope, t=None):
        return [(n, ty) for n, ty in scope.visible().items() if (t is None or ty == t)]

    def stmt(self, scope, nest):
        r = self.r
        k = r.random()
        vis = scope.visible()
        if k < 0.16 or not vis:
            return self.vardef(scope)
        if k < 0.30:
            return ("print", [self.expr(r.choice(["int", "bool", "string", "int"]), scope) for _ in range(r.choice([0, 1, 1, 1, 2, 3]))])
        if k < 0.42:
            return self.assign(scope)
        if k < 0.50 and nest > 0:
            return self.if_stmt(scope, nest)
        if k < 0.56 and nest > 0:
            return self.switch_stmt(scope, nest)
        if k < 0.68 and nest > 0:
            return self.for_stmt(scope, nest)
        if k < 0.71 and self.in_switch and r.random() < 0.35:
            self.count("switch-break")
            return ("break",)
        if k < 0.71 and self.in_loop and not self.in_switch:
            self.count("break")
            return ("break",)
        if k < 0.74 and self.in_loop:
            self.count("continue")
            return ("continue",)
        if k < 0.76 and self.c.panic and nest < self.c.max_nest:
            self.count("panic")
            return ("panic", self.expr("string", scope, 1))
        if k < 0.84 and self.c.slices:
            svs = [(n, t) for n, t in vis.items() if t.startswith("[]")]
            if svs:
                n, t = r.choice(svs)
                self.count("sliceassign")
                idx = ("int", r.choice([0, 1, 2, 3, 5, 9, 12])) if r.random() < 0.6 else self.index_expr(scope, 1)
                return ("sliceassign", n, idx, self.expr(t[2:], scope, 2))
        if k < 0.90 and self.c.funcs and self.funcs:
            f = r.choice(self.funcs)
            self.count("callstmt")
            return ("exprstmt", ("call", f[0], [self.expr(pt, scope, 2) for _, pt in f[1]], f[2]))
        if k < 0.93 and self.c.slices:
            svs = [(n, t) for n, t in vis.items() if t.startswith("[]")]
            if svs:
                n, t = r.choice(svs)
                self.count("copy")
                src = self.slice_expr(t, scope, 2)
                x = self.fresh("n")
                scope.vars[x] = "int"
                return ("vardef", "short", [x], None, [("copy", ("var", n, t), src)])
        if self.in_func is not None and k < 0.96 and nest < self.c.max_nest:
            self.count("return-nested")
            return ("return", [self.expr(t, scope, 2) for t in self.in_func]) if self.in_func else None
        return self.assign(scope)

    def vardef(self, scope):
        r = self.r
        self.count("vardef")
        fs = [f for f in self.funcs if len(f[2]) >= 2] if self.c.funcs else []
        if fs and r.random() < 0.2:
            f = r.choice(fs)
            call = ("call", f[0], [self.expr(pt, scope, 2) for _, pt in f[1]], f[2])
            names = [self.fresh() for _ in f[2]]
            for n, t in zip(names, f[2]):
                scope.vars[n] = t
            if r.random() < 0.5:
                return ("vardef", "short", names, None, [call])
            return ("vardef", "var", names, None, [call])
        n = r.choice([1, 1, 1, 2, 3])
        style = r.choice(["short", "short", "var", "vartyped", "varzero"])
        if style in ("vartyped", "varzero"):
            t = r.choice(self.types())
            exprs = None if style == "varzero" else [self.expr(t, scope) for _ in range(n)]
            names = [self.fresh() for _ in range(n)]
            for nm in names:
                scope.vars[nm] = t
            return ("vardef", "var", names, t, exprs)
        ts = [r.choice(self.types()) for _ in range(n)]
        exprs = [self.expr(t, scope) for t in ts]
        names = [self.fresh() for _ in range(n)]
        for nm, t in zip(names, ts):
            scope.vars[nm] = t
        return ("vardef", "short" if style == "short" else "var", names, None, exprs)

    def assign(self, scope):
        r = self.r
        cands = self.assignable(scope)
        if not cands:
            return self.vardef(scope)
        k = r.random()
        ints = [n for n, t in cands if t == "int"]
        strs = [n for n, t in cands if t == "string"]
        if self.c.funcs and len(cands) >= 2 and r.random() < (0.35 if self.in_func is not None else 0.12):
            m = self.multi_call_assign(scope, cands)
            if m is not None:
                return m
        if k < 0.2 and ints:
            self.count("incdec")
            return ("incdec", r.choice(ints), r.choice(["++", "--"]))
        if k < 0.4 and ints:
            self.count("opassign")
            op = r.choice(["+", "-", "*", "/", "%"])
            e = self.expr("int", scope, 2)
            if op in ("/", "%"):
                e = ("int", r.choice([1, 2, 3, -3, 7]))
            return ("opassign", r.choice(ints), op, e)
        if k < 0.45 and strs:
            self.count("opassign")
            return ("opassign", r.choice(strs), "+", self.expr("string", scope, 2))
        if k < 0.6 and len(cands) >= 2:
            if r.random() < 0.3:
                m = self.multi_call_assign(scope, cands)
                if m is not None:
                    return m
            self.count("multiassign")
            m = r.choice([2, 2, 3]) if len(cands) >= 3 else 2
            picks = r.sample(cands, m)
            fs = [f for f in self.funcs if f[2] == [t for _, t in picks]] if self.c.funcs else []
            if fs and r.random() < 0.5:
                f = r.choice(fs)
                return ("assign", [n for n, _ in picks], [("call", f[0], [self.expr(pt, scope, 2) for _, pt in f[1]], f[2])])
            if r.random() < 0.4:
                # right-hand sides that read other targets of the same statement, also through `( )` and itoa:
                # every value must be taken before any target is written
                rhs = []
                for n_, t_ in picks:
                    same = [pn for pn, pt in picks if pt == t_ and pn != n_]
                    ints_ = [pn for pn, pt in picks if pt == "int" and pn != n_]
                    form = r.random()
                    if same and form < 0.55:
                        e = ("var", r.choice(same), t_)
                        if r.random() < 0.6:
                            e = ("group", e)
                    elif t_ == "string" and ints_ and form < 0.9:
                        e = ("itoa", ("var", r.choice(ints_), "int"))
                        if r.random() < 0.3:
                            e = ("group", e)
                    elif t_ == "int" and form < 0.8:
                        e = ("bin", "+", ("var", n_, "int"), ("int", 1), "int")
                    else:
                        e = self.expr(t_, scope, 2)
                    rhs.append(e)
                self.count("multiassign-cross")
                return ("assign", [n for n, _ in picks], rhs)
            return ("assign", [n for n, _ in picks], [self.expr(t, scope, 2) for _, t in picks])
        self.count("assign")
        n, t = r.choice(cands)
        return ("assign", [n], [self.expr(t, scope)])

    def multi_call_assign(self, scope, cands):
        """multi-value call assignment: pick the function first, then distinct variables of its return types"""
        r = self.r
        fs2 = [f for f in self.funcs if len(f[2]) >= 2]
        r.shuffle(fs2)
        for f in fs2:
            pool = list(cands)
            r.shuffle(pool)
            chosen = []
            for t in f[2]:
                m = next((c for c in pool if c[1] == t and c not in chosen), None)
                if m is None:
                    break
                chosen.append(m)
            else:
                self.count("multiassign-call")
                return ("assign", [n for n, _ in chosen], [("call", f[0], [self.expr(pt, scope, 2) for _, pt in f[1]], f[2])])
        return None

    def if_stmt(self, scope, nest):
        r = self.r
        self.count("if")
        nb = r.choice([1, 1, 2, 3])
        branches = [(self.expr("bool", scope), self.block(scope, nest - 1)) for _ in range(nb)]
        els = self.block(scope, nest - 1) if r.random() < 0.5 else None
        if els is not None and len(els) == 0:
            els = None
        return ("if", branches, els)

    def switch_stmt(self, scope, nest):
        r = self.r
        self.count("switch")
        self.in_switch += 1
        try:
            if r.random() < 0.3:
                tag = None
                cases = [(self.expr("bool", scope, 2), self.block(scope, nest - 1, r.randrange(0, 3))) for _ in range(r.choice([0, 1, 2, 3]))]
            else:
                t = r.choice(["int", "string", "bool"])
                vs = self.vars_of(scope, t)
                # the tag is pure (side effects in a switch tag are excluded)
                save = self.c.funcs
                self.c.funcs = False
                tag = ("var", r.choice(vs), t) if vs and r.random() < 0.7 else self.expr(t, scope, 1)
                self.c.funcs = save
                cases = [(self.expr(t, scope, 1), self.block(scope, nest - 1, r.randrange(0, 3))) for _ in range(r.choice([0, 1, 2, 3]))]
            default = self.block(scope, nest - 1, r.randrange(0, 3)) if r.random() < 0.6 else None
        finally:
            self.in_switch -= 1
        return ("switch", tag, cases, default)

    def for_stmt(self, scope, nest):
        r = self.r
        k = r.random()
        hdr = Scope(scope)
        self.in_loop += 1
        saved_switch = self.in_switch
        self.in_switch = 0
        try:
            if k < 0.5:
                self.count("for3")
                i = self.fresh("i")
                hdr.vars[i] = "int"
                lo = r.randrange(0, 3)
                hi = lo + r.randrange(0, 5)
                up = r.random() < 0.8
                if up:
                    init = ("vardef", r.choice(["short", "short", "var"]), [i], None, [("int", lo)])
                    cond = ("cmp", r.choice(["<", "<=", "!="]) if r.random() < 0.9 else "<", ("var", i, "int"), ("int", hi))
                    if cond[1] == "!=":
                        cond = ("cmp", "!=", ("var", i, "int"), ("int", hi))
                    incr = r.choice([("incdec", i, "++"), ("opassign", i, "+", ("int", 1)), ("assign", [i], [("bin", "+", ("var", i, "int"), ("int", 1), "int")])])
                else:
                    init = ("vardef", "short", [i], None, [("int", hi)])
                    cond = ("cmp", ">", ("var", i, "int"), ("int", lo))
                    incr = r.choice([("incdec", i, "--"), ("opassign", i, "-", ("int", 1))])
                if r.random() < 0.15:
                    cond = ("log", "&&", cond, self.expr("bool", hdr, 1))
                body = self.protect(self.block(hdr, nest - 1), [i])
                if r.random() < 0.08:
                    return ("for3", None, cond, incr, body) if False else ("for3", init, cond, incr, body)
                return ("for3", init, cond, incr, body)
            if k < 0.7:
                self.count("forcond")
                c = self.fresh("c")
                scope.vars[c] = "int"
                n = r.randrange(0, 5)
                body = self.protect(self.block(hdr, nest - 1), [c])
                pre = ("vardef", "short", [c], None, [("int", 0)])
                body = body + [] if body and body[-1][0] in ("break", "continue", "return", "panic") else body
                # the counter is advanced first so that `continue` cannot skip it
                body = [("incdec", c, "++")] + body
                return ("seq", [pre, ("forcond", ("cmp", "<", ("var", c, "int"), ("int", n)), body)])
            if k < 0.8:
                self.count("forever")
                c = self.fresh("c")
                scope.vars[c] = "int"
                n = r.randrange(1, 5)
                pre = ("vardef", "short", [c], None, [("int", 0)])
                body = self.protect(self.block(hdr, nest - 1), [c])
                guard = ("if", [(("cmp", ">=", ("var", c, "int"), ("int", n)), [("break",)])], None)
                return ("seq", [pre, ("forever", [("incdec", c, "++"), guard] + body)])
            # range
            self.count("forrange")
            if self.c.slices and r.random() < 0.6:
                t = r.choice(["[]int", "[]string", "[]bool"])
                vs = self.vars_of(scope, t)
                it = ("var", r.choice(vs), t) if vs and r.random() < 0.7 else self.slice_expr(t, scope, 1)
                if it[0] == "call":
                    it = ("slicelit", t[2:], [self.lit(t[2:]) for _ in range(r.randrange(0, 4))])
                et = t[2:]
            elif self.c.strops and self.str_atom(scope) is not None:
                it = self.str_atom(scope)
                et = "string"
            else:
                self.in_loop -= 1
                self.in_switch = saved_switch
                try:
                    return self.for_stmt(scope, nest)
                finally:
                    self.in_loop += 1
            iv = self.fresh("i")
            hdr.vars[iv] = "int"
            vv = None
            if r.random() < 0.7:
                vv = self.fresh("e")
                hdr.vars[vv] = et
            protected = [iv] + ([it[1]] if it[0] == "var" else [])
            body = self.protect(self.block(hdr, nest - 1), protected)
            return ("forrange", iv, vv, it, body)
        finally:
            self.in_loop -= 1
            self.in_switch = saved_switch

    def protect(self, body, names):
        """remove statements that write loop-control variables (keeps generated loops terminating)"""
        out = []
        for s in body:
            k = s[0]
            if k in ("assign",) and any(n in names for n in s[1]):
                continue
            if k in ("opassign", "incdec", "sliceassign") and s[1] in names:
                continue
            if k == "vardef" and s[4] and any(x[0] == "copy" and x[1][1] in names for x in s[4]):
                s = ("vardef", s[1], s[2], s[3], [("int", 0) if (x[0] == "copy" and x[1][1] in names) else x for x in s[4]])
            if k == "if":
                s = ("if", [(c, self.protect(b, names)) for c, b in s[1]], self.protect(s[2], names) if s[2] is not None else None)
            elif k == "switch":
                s = ("switch", s[1], [(c, self.protect(b, names)) for c, b in s[2]], self.protect(s[3], names) if s[3] is not None else None)
            elif k == "for3":
                s = ("for3", s[1], s[2], s[3], self.protect(s[4], names))
            elif k == "forcond":
                s = ("forcond", s[1], self.protect(s[2], names))
            elif k == "forever":
                s = ("forever", self.protect(s[1], names))
            elif k == "forrange":
                s = ("forrange", s[1], s[2], s[3], self.protect(s[4], names))
            elif k == "seq":
                s = ("seq", self.protect(s[1], names))
            out.append(s)
        return out

    def func(self, gscope):
        r = self.r
        self.count("func")
        name = self.fresh("f")
        # now and then more than nine parameters (fix e04506f: `$10` is `${1}0` for bash)
        nparams = r.choice([0, 1, 1, 2, 3]) if r.random() > 0.04 else r.randrange(10, 13)
        params = [(self.fresh("p"), r.choice(self.types())) for _ in range(nparams)]
        rets = [r.choice(self.types()) for _ in range(r.choice([0, 1, 1, 1, 2, 3]))]
        fscope = Scope(None, "function")
        # a function sees the globals defined before it
        fscope.vars.update(gscope.visible())
        for n, t in params:
            fscope.vars[n] = t
        self.in_func = rets
        saved = (self.in_loop, self.in_switch)
        self.in_loop, self.in_switch = 0, 0
        body = self.block(fscope, self.c.max_nest - 1, r.randrange(0, self.c.max_stmts))
        self.in_loop, self.in_switch = saved
        if rets:
            if not body or body[-1][0] != "return":
                if body and body[-1][0] in ("panic", "break", "continue"):
                    body = body[:-1]
                body.append(("return", [self.expr(t, Scope(fscope), 2) for t in rets]))
        elif body and body[-1][0] == "return":
            body = body[:-1]
        self.in_func = None
        body = flatten(body)
        if not rets:
            body = strip_returns(body)
        f = ("func", name, params, rets, body)
        self.funcs.append((name, params, rets))
        return f

    def program(self):
        r = self.r
        g = Scope(None, "program")
        prog = []
        if self.c.effects:
            for t, name in self.TRACERS.items():
                prog.append(("func", name, [("k", "int"), ("v", t)], [t], [("print", [("str", name), ("var", "k", "int")]), ("return", [("var", "v", t)])]))
            self.tracers_ready = True
        n = r.randrange(1, self.c.max_stmts + 3)
        for _ in range(n):
            if self.c.funcs and r.random() < 0.3 and len(self.funcs) < 5:
                prog.append(self.func(g))
            else:
                s = self.stmt(g, self.c.max_nest)
                if s is not None:
                    prog.append(s)
                    if s[0] == "panic":
                        break
        return flatten(prog)


def flatten(body):
    out = []
    for s in body:
        if s[0] == "seq":
            out.extend(flatten(s[1]))
        elif s[0] == "if":
            out.append(("if", [(c, flatten(b)) for c, b in s[1]], flatten(s[2]) if s[2] is not None else None))
        elif s[0] == "switch":
            out.append(("switch", s[1], [(c, flatten(b)) for c, b in s[2]], flatten(s[3]) if s[3] is not None else None))
        elif s[0] == "for3":
            out.append(("for3", s[1], s[2], s[3], flatten(s[4])))
        elif s[0] == "forcond":
            out.append(("forcond", s[1], flatten(s[2])))
        elif s[0] == "forever":
            out.append(("forever", flatten(s[1])))
        elif s[0] == "forrange":
            out.append(("forrange", s[1], s[2], s[3], flatten(s[4])))
        else:
            out.append(s)
    return out


def strip_returns(body):
    """void functions must not contain return statements"""
    out = []
    for s in body:
        if s[0] == "return":
            continue
        if s[0] == "if":
            s = ("if", [(c, strip_returns(b)) for c, b in s[1]], strip_returns(s[2]) if s[2] is not None else None)
        elif s[0] == "switch":
            s = ("switch", s[1], [(c, strip_returns(b)) for c, b in s[2]], strip_returns(s[3]) if s[3] is not None else None)
        elif s[0] == "for3":
            s = ("for3", s[1], s[2], s[3], strip_returns(s[4]))
        elif s[0] in ("forcond",):
            s = ("forcond", s[1], strip_returns(s[2]))
        elif s[0] == "forever":
            s = ("forever", strip_returns(s[1]))
        elif s[0] == "forrange":
            s = ("forrange", s[1], s[2], s[3], strip_returns(s[4]))
        out.append(s)
    return out


def generate(rng, cfg, tries=50):
    """Returns (program AST, source text, stdout lines, exit status) of a defined, terminating program."""
    for _ in range(tries):
        g = Gen(rng, cfg)
        prog = g.program()
        try:
            out, status = interpret(prog)
        except Undefined:
            continue
        except (RecursionError, MemoryError):
            continue
        g.kinds["_panic_in_func"] = LAST.panic_in_func
        g.kinds["_switch_break"] = LAST.switch_break
        g.kinds["_switch_break_static"] = has_switch_break(prog)
        g.kinds["_switch_tag_call"] = has_switch_tag_call(prog)
        g.kinds["_range_call"] = has_range_call(prog)
        g.kinds["_empty_substr"] = LAST.empty_substr
        g.kinds["_minint"] = SAW_MININT
        return prog, pp_program(prog), out, status, g.kinds
    return None


# ------------------------------------------------------------------------------------------------
# identifier reuse (C02): locals of different functions share names; later globals reuse them

def _subst_expr(e, m):
    if e is None:
        return None
    k = e[0]
    if k == "var":
        return ("var", m.get(e[1], e[1])) + tuple(e[2:])
    if k in ("int", "bool", "str"):
        return e
    if k in ("bin", "cmp", "log"):
        return (k, e[1], _subst_expr(e[2], m), _subst_expr(e[3], m)) + tuple(e[4:])
    if k in ("not", "group", "len", "itoa", "exists", "read"):
        return (k, _subst_expr(e[1], m))
    if k == "call":
        return ("call", e[1], [_subst_expr(a, m) for a in e[2]], e[3])
    if k == "slicelit":
        return ("slicelit", e[1], [_subst_expr(a, m) for a in e[2]])
    if k == "index":
        return ("index", _subst_expr(e[1], m), _subst_expr(e[2], m), e[3])
    if k == "strindex":
        return ("strindex", _subst_expr(e[1], m), _subst_expr(e[2], m))
    if k == "substr":
        return ("substr", _subst_expr(e[1], m), _subst_expr(e[2], m), _subst_expr(e[3], m))
    if k == "copy":
        return ("copy", _subst_expr(e[1], m), _subst_expr(e[2], m))
    if k == "input":
        return ("input", _subst_expr(e[1], m))
    if k == "app":
        return ("app", [(n, [_subst_expr(a, m) for a in args]) for n, args in e[1]])
    raise ValueError(k)


def _subst_block(b, m):
    return None if b is None else [_subst_stmt(s, m) for s in b]


def _subst_stmt(s, m):
    k = s[0]
    g = lambda n: m.get(n, n)
    if k == "vardef":
        return ("vardef", s[1], [g(n) for n in s[2]], s[3], None if s[4] is None else [_subst_expr(x, m) for x in s[4]])
    if k == "assign":
        return ("assign", [g(n) for n in s[1]], [_subst_expr(x, m) for x in s[2]])
    if k == "opassign":
        return ("opassign", g(s[1]), s[2], _subst_expr(s[3], m))
    if k == "incdec":
        return ("incdec", g(s[1]), s[2])
    if k == "sliceassign":
        return ("sliceassign", g(s[1]), _subst_expr(s[2], m), _subst_expr(s[3], m))
    if k == "if":
        return ("if", [(_subst_expr(c, m), _subst_block(b, m)) for c, b in s[1]], _subst_block(s[2], m))
    if k == "switch":
        return ("switch", _subst_expr(s[1], m), [(_subst_expr(c, m), _subst_block(b, m)) for c, b in s[2]], _subst_block(s[3], m))
    if k == "for3":
        return ("for3", None if s[1] is None else _subst_stmt(s[1], m), _subst_expr(s[2], m), None if s[3] is None else _subst_stmt(s[3], m), _subst_block(s[4], m))
    if k == "forcond":
        return ("forcond", _subst_expr(s[1], m), _subst_block(s[2], m))
    if k == "forever":
        return ("forever", _subst_block(s[1], m))
    if k == "forrange":
        return ("forrange", g(s[1]), g(s[2]) if s[2] else s[2], _subst_expr(s[3], m), _subst_block(s[4], m))
    if k in ("break", "continue"):
        return s
    if k == "print":
        return ("print", [_subst_expr(x, m) for x in s[1]])
    if k == "write":
        return ("write", [_subst_expr(x, m) for x in s[1]])
    if k == "panic":
        return ("panic", _subst_expr(s[1], m))
    if k == "return":
        return ("return", [_subst_expr(x, m) for x in s[1]])
    if k == "exprstmt":
        return ("exprstmt", _subst_expr(s[1], m))
    if k == "func":
        return ("func", s[1], [(g(n), t) for n, t in s[2]], s[3], _subst_block(s[4], m))
    raise ValueError(k)


def _defined_names(body, acc):
    for s in body:
        k = s[0]
        if k == "vardef":
            acc.extend(s[2])
        elif k == "if":
            for _, b in s[1]:
                _defined_names(b, acc)
            if s[2] is not None:
                _defined_names(s[2], acc)
        elif k == "switch":
            for _, b in s[2]:
                _defined_names(b, acc)
            if s[3] is not None:
                _defined_names(s[3], acc)
        elif k == "for3":
            if s[1] is not None:
                _defined_names([s[1]], acc)
            _defined_names(s[4], acc)
        elif k == "forcond":
            _defined_names(s[2], acc)
        elif k == "forever":
            _defined_names(s[1], acc)
        elif k == "forrange":
            acc.append(s[1])
            if s[2]:
                acc.append(s[2])
            _defined_names(s[4], acc)
    return acc


def _has_call(e):
    if not isinstance(e, tuple):
        return False
    if e and e[0] == "call":
        return True
    for x in e[1:]:
        if isinstance(x, tuple) and _has_call(x):
            return True
        if isinstance(x, list) and any(isinstance(y, tuple) and _has_call(y) for y in x):
            return True
    return False


def has_switch_tag_call(body):
    """a switch whose tag expression contains a function call and that has not exactly one case occurs in the program
    (known finding switch-tag-evaluated-per-case: the tag is evaluated once per case - not at all without a case)"""
    for s in body:
        k = s[0]
        if k == "switch":
            if s[1] is not None and _has_call(s[1]) and len(s[2]) != 1:
                return True
            if any(has_switch_tag_call(b) for _, b in s[2]) or (s[3] is not None and has_switch_tag_call(s[3])):
                return True
        elif k == "if":
            if any(has_switch_tag_call(b) for _, b in s[1]) or (s[2] is not None and has_switch_tag_call(s[2])):
                return True
        elif k == "for3":
            if has_switch_tag_call(s[4]):
                return True
        elif k == "forcond":
            if has_switch_tag_call(s[2]):
                return True
        elif k == "forever":
            if has_switch_tag_call(s[1]):
                return True
        elif k == "forrange":
            if has_switch_tag_call(s[4]):
                return True
        elif k == "func":
            if has_switch_tag_call(s[4]):
                return True
    return False


def has_range_call(body):
    """a range loop whose range expression contains a function call occurs in the program (known finding
    range-expression-re-evaluated: the desugared loop evaluates it again for every len() and element read)"""
    for s in body:
        k = s[0]
        if k == "forrange":
            if _has_call(s[3]) or has_range_call(s[4]):
                return True
        elif k == "switch":
            if any(has_range_call(b) for _, b in s[2]) or (s[3] is not None and has_range_call(s[3])):
                return True
        elif k == "if":
            if any(has_range_call(b) for _, b in s[1]) or (s[2] is not None and has_range_call(s[2])):
                return True
        elif k == "for3":
            if has_range_call(s[4]):
                return True
        elif k == "forcond":
            if has_range_call(s[2]):
                return True
        elif k == "forever":
            if has_range_call(s[1]):
                return True
        elif k == "func":
            if has_range_call(s[4]):
                return True
    return False


def has_switch_break(body, inner=None):
    """a break whose innermost breakable construct is a switch occurs somewhere in the program (whether executed or not)"""
    for s in body:
        k = s[0]
        if k == "break" and inner == "switch":
            return True
        if k == "if":
            if any(has_switch_break(b, inner) for _, b in s[1]) or (s[2] is not None and has_switch_break(s[2], inner)):
                return True
        elif k == "switch":
            if any(has_switch_break(b, "switch") for _, b in s[2]) or (s[3] is not None and has_switch_break(s[3], "switch")):
                return True
        elif k == "for3":
            if has_switch_break(s[4], "loop"):
                return True
        elif k == "forcond":
            if has_switch_break(s[2], "loop"):
                return True
        elif k == "forever":
            if has_switch_break(s[1], "loop"):
                return True
        elif k == "forrange":
            if has_switch_break(s[4], "loop"):
                return True
        elif k == "func":
            if has_switch_break(s[4], None):
                return True
    return False


POOL = ["a", "b", "c", "d", "n", "x", "y", "i", "j", "s", "t", "k", "m", "p", "q", "r", "u", "w", "z", "aa", "bb", "cc", "dd", "xx",
        "yy", "ii", "jj", "nn", "ss", "tt"]


# the same pool with an upper-case first letter ("public" names: a local is a local whatever its first letter is; round 8: C02-A) and
# in snake / camel case
POOL_UPPER = [p.capitalize() for p in POOL]
POOL_MIXED = ["Total", "count", "max_n", "IsOk", "a_b", "b_c", "N1", "x_", "aB", "Sum", "idx", "Val", "res", "Tmp", "lo", "Hi", "Left", "right", "Acc", "cur",
              "Next_", "prev", "Out", "in_", "Key", "elem", "Pos", "len_", "Cap", "word"]


def reuse_names(rng, prog):
    """Consistent renaming that makes parameters/locals of different functions coincide and lets
    globals defined after a function reuse that function's local names (both are legal)."""
    k = rng.random()
    pool = POOL if k < 0.5 else (POOL_UPPER if k < 0.75 else POOL_MIXED)
    return _reuse_names(rng, prog, pool)


def _reuse_names(rng, prog, POOL):
    out = []
    globals_so_far = set()
    used_by_funcs = []
    for s in prog:
        if s[0] == "func":
            locs = [n for n, _ in s[2]] + _defined_names(s[4], [])
            locs = list(dict.fromkeys(locs))
            avail = [p for p in POOL if p not in globals_so_far]
            if len(avail) >= len(locs):
                names = avail[:max(len(locs), 1) + 3]
                rng.shuffle(names)
                m = dict(zip(locs, names))
                used_by_funcs.extend(m.values())
                s = _subst_stmt(s, m)
            out.append(s)
        else:
            out.append(s)
            if s[0] == "vardef":
                globals_so_far.update(s[2])
    # rename globals defined after all functions that use a pool name
    last_use = {}
    for idx, s in enumerate(out):
        if s[0] == "func":
            for n in [p for p, _ in s[2]] + _defined_names(s[4], []):
                last_use[n] = idx
    gm = {}
    taken = set()
    for idx, s in enumerate(out):
        if s[0] == "vardef":
            for n in s[2]:
                cands = [p for p, li in last_use.items() if li < idx and p not in taken and p in POOL]
                if cands and rng.random() < 0.6:
                    q_ = rng.choice(cands)
                    gm[n] = q_
                    taken.add(q_)
    if gm:
        # a renamed global must not be visible inside functions that use the same name locally:
        # those functions were all defined before it, so they cannot refer to it.
        res = []
        for s in out:
            if s[0] == "func":
                locs = set(n for n, _ in s[2]) | set(_defined_names(s[4], []))
                res.append(_subst_stmt(s, {k_: v for k_, v in gm.items() if v not in locs}))
            else:
                res.append(_subst_stmt(s, gm))
        out = res
    return out


def reuse_loop_vars(body, depth=0):
    """Consistent renaming: the loop variables of all loops at the same loop-nesting depth get the same name
    (sibling loops re-use the name of a loop that has ended; nested loops get different names)."""
    out = []
    for s in body:
        k = s[0]
        if k == "for3":
            if s[1] is not None and s[1][0] == "vardef" and len(s[1][2]) == 1:
                s = _subst_stmt(s, {s[1][2][0]: "k%d" % depth})
            s = ("for3", s[1], s[2], s[3], reuse_loop_vars(s[4], depth + 1))
        elif k == "forrange":
            m = {s[1]: "r%d" % depth}
            if s[2]:
                m[s[2]] = "e%d" % depth
            s = _subst_stmt(s, m)
            s = ("forrange", s[1], s[2], s[3], reuse_loop_vars(s[4], depth + 1))
        elif k == "forcond":
            s = ("forcond", s[1], reuse_loop_vars(s[2], depth + 1))
        elif k == "forever":
            s = ("forever", reuse_loop_vars(s[1], depth + 1))
        elif k == "if":
            s = ("if", [(c, reuse_loop_vars(b, depth)) for c, b in s[1]], None if s[2] is None else reuse_loop_vars(s[2], depth))
        elif k == "switch":
            s = ("switch", s[1], [(c, reuse_loop_vars(b, depth)) for c, b in s[2]], None if s[3] is None else reuse_loop_vars(s[3], depth))
        elif k == "func":
            s = ("func", s[1], s[2], s[3], reuse_loop_vars(s[4], 0))
        out.append(s)
    return out


def add_tracers(prog):
    """C04: every function announces itself (name and scalar arguments) when it runs."""
    out = []
    for s in prog:
        if s[0] == "func":
            args = [("var", n, t) for n, t in s[2] if not t.startswith("[]")]
            s = ("func", s[1], s[2], s[3], [("print", [("str", s[1])] + args)] + s[4])
        out.append(s)
    return out


def generate2(rng, cfg, transform=None, tries=50):
    """like generate, with an AST transformation applied before interpretation"""
    for _ in range(tries):
        g = Gen(rng, cfg)
        prog = g.program()
        if transform is not None:
            prog = transform(prog)
        try:
            out, status = interpret(prog)
        except Undefined:
            continue
        except (RecursionError, MemoryError):
            continue
        g.kinds["_panic_in_func"] = LAST.panic_in_func
        g.kinds["_switch_break"] = LAST.switch_break
        g.kinds["_switch_break_static"] = has_switch_break(prog)
        g.kinds["_switch_tag_call"] = has_switch_tag_call(prog)
        g.kinds["_range_call"] = has_range_call(prog)
        g.kinds["_empty_substr"] = LAST.empty_substr
        g.kinds["_minint"] = SAW_MININT
        return prog, pp_program(prog), out, status, g.kinds
    return None
