"""Common driver for the semantic-preservation properties C01-C04 (bash target)."""
import json
import os
import random
import zlib

import common
import gen_prog
import pipeline
import semcheck


def load_corpus(prop):
    """directed programs with a hand-computed result: {"src": text} for one file, or {"files": {name: text}} with main.tsh"""
    d = os.path.join(common.VERIF, "corpus", prop)
    out = []
    if os.path.isdir(d):
        for f in sorted(os.listdir(d)):
            if f.endswith(".json"):
                j = json.load(open(os.path.join(d, f)))
                if "files" in j:
                    j["src"] = "\n".join("// file %s\n%s" % kv for kv in j["files"].items())
                out.append((f, j))
    return out


def corpus_files(j):
    if "files" in j:
        return {k: v.encode() for k, v in j["files"].items()}
    return {"main.tsh": j["src"].encode()}


def shrink_case(b, c, still_fails):
    """Statement-deletion shrinking on the source text (line based, keeps brace balance by trying
    whole lines and blocks); returns the smallest failing source found."""
    lines = c.meta["src"].splitlines()
    best = lines
    changed = True
    rounds = 0
    while changed and rounds < 4:
        changed = False
        rounds += 1
        i = 0
        while i < len(best):
            # candidate 1: drop one line; candidate 2: drop a brace-balanced block starting here
            cands = [best[:i] + best[i + 1:]]
            if best[i].rstrip().endswith("{"):
                depth = 0
                for j in range(i, len(best)):
                    depth += best[j].count("{") - best[j].count("}")
                    if depth == 0:
                        cands.insert(0, best[:i] + best[j + 1:])
                        break
            done = False
            for cand in cands:
                if len(cand) < len(best) and still_fails("\n".join(cand) + "\n"):
                    best = cand
                    changed = True
                    done = True
                    break
            if not done:
                i += 1
    return "\n".join(best) + "\n"


def run_semantic(res, b, tier, seed, prop, make_cfgs, transform=None, n_quick=400, n_thorough=6000, extra_oracle=None,
                 classify=None):
    """make_cfgs(tier) -> list of (weight, Cfg).  classify(case, kind, detail) -> known-finding id or None."""
    rng = random.Random(seed * 1000003 + zlib.crc32(prop.encode()) % 1000)   # (the built-in hash of a string differs from process to process)
    pr = common.prove(prop)
    common.proof_coverage(res, pr)
    if b.harness_error or b.model_error:
        res.violation("build", dict(harness=b.harness_error, model=b.model_error,
                                    note="the harness or the Lean driver no longer builds against /repo"), no_input=True)
        return
    n = n_quick if tier == "quick" else n_thorough
    cfgs = make_cfgs(tier)
    cases = []
    kinds = {}
    # corpus first
    for name, j in load_corpus(prop):
        c = pipeline.Case("corpus-" + name, corpus_files(j),
                          meta=dict(expected_out=j["stdout"], expected_status=j["status"], src=j["src"], corpus=name))
        cases.append(c)
    total_w = sum(w for w, _ in cfgs)
    dis, fails = [], []
    distinct_set = set()
    all_cases = []
    printed = exit1 = 0
    samples = []
    BATCH = 500           # bounded memory: cases are generated, checked and dropped batch by batch
    done = 0
    first = True
    while done < n or first:
        m = min(BATCH, n - done)
        for i in range(done, done + m):
            x = rng.random() * total_w
            for w, cfg in cfgs:
                x -= w
                if x <= 0:
                    break
            g = gen_prog.generate2(rng, cfg, (lambda p: transform(rng, p)) if transform else None)
            if g is None:
                continue
            prog, src, out, status, ks = g
            for k, v in ks.items():
                kinds[k] = kinds.get(k, 0) + v
            cases.append(pipeline.Case("g%d" % i, {"main.tsh": src.encode()}, meta=dict(expected_out=out, expected_status=status, src=src,
                                                                                        switch_break=bool(ks.get("_switch_break")), switch_tag_call=bool(ks.get("_switch_tag_call")), range_call=bool(ks.get("_range_call")))))
        d1, f1 = semcheck.check_cases(b, cases)
        if extra_oracle:
            f1 += extra_oracle(b, cases)
        dis += d1
        fails += f1
        for c in cases:
            if c.out.get("AST", ("", ""))[0] == "OK":
                distinct_set.add(hash(c.out["AST"][1]))
            printed += len(c.meta["expected_out"])
            exit1 += 1 if c.meta["expected_status"] == 1 else 0
        if not samples:
            samples = [dict(src=c.meta["src"][:600], expected_stdout=c.meta["expected_out"][:5], expected_status=c.meta["expected_status"]) for c in cases[:2]]
        keep = {id(c) for c, _, _ in f1} | {id(c) for c, _, _ in d1}
        for c in cases:
            if id(c) not in keep:
                c.out.clear()
                c.meta = dict(src=c.meta.get("src", ""), expected_out=c.meta.get("expected_out"), expected_status=c.meta.get("expected_status"),
                              switch_break=c.meta.get("switch_break"), switch_tag_call=c.meta.get("switch_tag_call"), range_call=c.meta.get("range_call"))
        all_cases.append(len(cases))
        cases = []
        done += m
        first = False
        if len(fails) > 50:
            break
    distinct = len(distinct_set)
    ncases = sum(all_cases)
    res.coverage.update(dict(
        evaluations=ncases,
        distinct_nontrivial=distinct,
        rule="type-directed random programs of the property's fragment with a reference result (Python reference interpreter = Go meaning "
             "with the README caveats); distinct = distinct ASTs returned by the real parser; every case is transpiled by the real code, "
             "compared byte-for-byte with the Lean emitter model, executed under /bin/bash and compared with the reference result",
        samples=samples,
        correspondence=dict(stage="AST and bash script of the whole model pipeline (Model.Lexer, Model.Parser, Model.Transpile, Model.ConvBash) vs the implementation", compared=ncases, disagreements=len(dis)),
        generator_distribution=dict(statement_kinds=kinds, lines_printed=printed, exit_1=exit1),
        oracle_failures=len(fails),
        semantic_models=dict(semcheck.SEM_STATS, rule="the Lean source semantics (Sem2/Src, and Sem/Src on the scalar fragment) vs the reference interpreter; "
                             "the Lean bash models (Sem2/Bash, Sem/Bash) vs /bin/bash on the emitted script; src_supported / "
                             "sh_supported = programs the models with functions can run; both = programs on which the two "
                             "models were also compared with each other; in_theorem_fragment = programs in the fragment of "
                             "C01.bash_preserves_scalar_semantics, in_function_theorem_fragment = programs in the fragment of "
                             "C02.bash_preserves_semantics_with_functions (functions, slices, strings; instances of the theorems: a program of a fragment "
                             "that runs in the source semantics must run to the same result in the bash model)"),
    ))
    res.assumptions += ["the Python reference interpreter states the Go meaning (README caveats) correctly",
                        "/bin/bash 5.2 in the sandbox is the interpreter of the emitted script"]
    real = []
    for c, kind, detail in fails:
        fid = classify(c, kind, detail) if classify else None
        if fid is None and c.meta.get("switch_break") and kind == "behaviour":
            fid = "break-in-switch"
        if fid is None and c.meta.get("switch_tag_call") and kind == "behaviour":
            fid = "switch-tag-evaluated-per-case"
        if fid is None and c.meta.get("range_call") and kind == "behaviour":
            fid = "range-expression-re-evaluated"
        if fid and res.known_finding(fid, kind):
            continue
        real.append((c, kind, detail))
    for c, kind, detail in real[:3]:
        def still_fails(src, c=c, kind=kind):
            return False
        res.violation("oracle", dict(what=kind, src=c.meta["src"], detail=detail, case=c.id,
                                     script=bytes.fromhex(c.out["BASH"][1]).decode("utf-8", "replace") if c.out.get("BASH", ("",))[0] == "OK" else None))
    if not real and (dis or not pr["ok"]):
        if dis:
            c, m, i = dis[0]
            res.violation("correspondence", dict(stage="semantic models" if m.startswith("SEM") else "bash script", src=c.meta["src"], model=m[:4000], implementation=i[:4000],
                                                 disagreements=len(dis),
                                                 what="Model.EmitBash and transpiler+converters/bash disagree on the script; the theorems no longer speak about this code; "
                                                      "the oracle found no program whose behaviour is wrong in %d programs" % ncases), no_input=True)
        else:
            res.violation("theorem", dict(broken=pr["broken"], log=pr["log"][-3000:]), no_input=True)
