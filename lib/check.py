import importlib
import os
import sys
import traceback

sys.path.insert(0, os.path.dirname(os.path.abspath(__file__)))
import common


def main():
    if len(sys.argv) < 2:
        print("usage: check Cnn quick|thorough | check Cnn --replay <path>")
        return 2
    prop = sys.argv[1]
    tier, seed = common.seed_tier(sys.argv)
    mod = importlib.import_module("props." + prop.lower())
    if tier == "--replay":
        return mod.replay(sys.argv[3])
    os.environ["VERIF_TIER_ACTIVE"] = tier
    res = common.Result(prop, tier, seed)
    try:
        b = common.ensure_build()
        mod.run(res, b, tier, seed)
    except Exception:
        traceback.print_exc()
        res.violation("check-crashed", dict(error=traceback.format_exc()), no_input=True)
    return res.finish(getattr(mod, "LEVEL", "proof"))


if __name__ == "__main__":
    sys.exit(main())
