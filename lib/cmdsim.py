"""A line-oriented model of cmd.exe restricted to what the Batch converter emits (Sem.Cmd of DESIGN.md,
appendix F).  Rules encoded: %-expansion when a line / parenthesised block is read, !-expansion when a
command runs, goto = abandon all blocks + forward-then-wrap label search, IF numeric iff both operands
are unquoted integers else string comparison, call/exit /B frames with %1.., 32-bit set /A,
for /f over a literal string, echo / echo., set, setlocal/endlocal.

Used only as search oracle and for validation; calibrated on the expectations of /repo/tests (the
Windows half of the suite shares its test bodies with the Linux half).  Anything the model does not
know raises `Stuck` (a disagreement to look at, never a guess)."""
import re


class Stuck(Exception):
    pass


class Budget(Exception):
    pass


def wrap32(n):
    n &= 0xFFFFFFFF
    return n - (1 << 32) if n >= (1 << 31) else n


def is_int(s):
    return re.fullmatch(r"[+-]?\d+", s) is not None


class Frame:
    def __init__(self, args, ret):
        self.args = args
        self.ret = ret          # line index to continue at, or None for the script itself


class Cmd:
    def __init__(self, script, stdin_lines=None, max_steps=400000):
        text = script.replace("\r\n", "\n")
        self.lines = text.split("\n")
        if self.lines and self.lines[-1] == "":
            self.lines.pop()
        self.env = {}
        self.out = []
        self.steps = 0
        self.max_steps = max_steps
        self.frames = [Frame([], None)]
        self.errorlevel = 0
        self.exit_status = None
        self.labels = {}
        for i, ln in enumerate(self.lines):
            m = re.match(r"^:([A-Za-z0-9_]+)\s*$", ln)
            if m and not ln.startswith("::"):
                self.labels.setdefault(m.group(1).lower(), []).append(i)

    # ---------------------------------------------------------------- expansion
    def getvar(self, name):
        return self.env.get(name.lower())

    def setvar(self, name, value):
        if len(value) > 100000:
            raise Budget()               # a diverging script must not exhaust memory
        if value == "":
            self.env.pop(name.lower(), None)
        else:
            self.env[name.lower()] = value

    def percent(self, text, forvars=None):
        """parse-time expansion: %%x -> %x (for variables substituted), %N, %~N, %name%, %% -> %"""
        out = []
        i = 0
        n = len(text)
        args = self.frames[-1].args
        while i < n:
            c = text[i]
            if c != "%":
                out.append(c)
                i += 1
                continue
            if text[i:i + 2] == "%%":
                # %%i : for variable (kept as marker) ; else literal %
                if i + 2 < n and text[i + 2].isalpha() and (forvars is None or True) and re.match(r"%%[a-zA-Z]\b|%%[a-zA-Z](?![a-zA-Z0-9_])", text[i:i + 4] + " "):
                    out.append("\x00" + text[i + 2])        # marker for a for-variable reference
                    i += 3
                else:
                    out.append("%")
                    i += 2
                continue
            m = re.match(r"%(~?)(\d)", text[i:])
            if m:
                k = int(m.group(2))
                val = args[k - 1] if 1 <= k <= len(args) else ""
                if m.group(1) and len(val) >= 2 and val[0] == '"' and val[-1] == '"':
                    val = val[1:-1]
                out.append(val)
                i += len(m.group(0))
                continue
            m = re.match(r"%([A-Za-z_][A-Za-z0-9_]*)%", text[i:])
            if m:
                v = self.getvar(m.group(1))
                out.append(v if v is not None else "")
                i += len(m.group(0))
                continue
            out.append(c)
            i += 1
        return "".join(out)

    def delayed(self, text):
        """run-time expansion of !name! and !name:~a,b! (no rescanning); ^! is a literal !"""
        out = []
        i = 0
        n = len(text)
        while i < n:
            c = text[i]
            if c == "^" and i + 1 < n:
                out.append(text[i + 1])
                i += 2
                continue
            if c == "!":
                j = text.find("!", i + 1)
                if j < 0:
                    i += 1
                    continue
                inner = text[i + 1:j]
                m = re.fullmatch(r"([A-Za-z0-9_]+):~(-?\d+)(?:,(-?\d+))?", inner)
                if m:
                    v = self.getvar(m.group(1))
                    if v is None:
                        out.append(inner[len(m.group(1)) + 1:])       # cmd leaves "~a,b" for an undefined variable
                    else:
                        a = int(m.group(2))
                        if a < 0:
                            a = max(0, len(v) + a)
                        sub = v[a:]
                        if m.group(3) is not None:
                            b = int(m.group(3))
                            sub = sub[:b] if b >= 0 else sub[:b]
                        out.append(sub)
                elif re.fullmatch(r"[A-Za-z0-9_]+", inner):
                    v = self.getvar(inner)
                    out.append(v if v is not None else "")
                elif inner == "":
                    pass
                else:
                    raise Stuck("delayed expansion of %r" % inner)
                i = j + 1
                continue
            out.append(c)
            i += 1
        return "".join(out)

    def subst_for(self, text, forvals):
        if "\x00" not in text:
            return text
        out = []
        i = 0
        while i < len(text):
            if text[i] == "\x00":
                out.append(forvals.get(text[i + 1], ""))
                i += 2
            else:
                out.append(text[i])
                i += 1
        return "".join(out)

    # ---------------------------------------------------------------- reading logical lines
    def paren_delta(self, line):
        d = 0
        q = False
        for ch in line:
            if ch == '"':
                q = not q
            elif not q:
                if ch == "(":
                    d += 1
                elif ch == ")":
                    d -= 1
        return d

    def read_logical(self, i):
        """returns (list of physical lines, next index). A line that opens a parenthesis which is not closed
        extends to the matching ')' (incl. ') else (' continuations)."""
        first = self.lines[i]
        if first.startswith("(set LF=^"):
            return [first, self.lines[i + 1], self.lines[i + 2]], i + 3
        depth = self.paren_delta(first)
        if depth <= 0:
            return [first], i + 1
        block = [first]
        j = i + 1
        while j < len(self.lines) and depth > 0:
            block.append(self.lines[j])
            depth += self.paren_delta(self.lines[j])
            j += 1
        if depth != 0:
            raise Stuck("unterminated block at line %d" % (i + 1))
        return block, j

    # ---------------------------------------------------------------- execution
    class Goto(Exception):
        def __init__(self, label, pos):
            self.label = label
            self.pos = pos

    class ExitB(Exception):
        def __init__(self, code):
            self.code = code

    def run(self):
        pc = 0
        try:
            self.loop(pc)
        except Cmd.ExitB as e:
            pass
        return "".join(l + "\n" for l in self.out), (self.exit_status if self.exit_status is not None else self.errorlevel)

    def find_label(self, label, pos):
        where = self.labels.get(label.lower().lstrip(":"))
        if not where:
            raise Stuck("label %s not found" % label)
        later = [w for w in where if w >= pos]
        return later[0] if later else where[0]

    def loop(self, pc):
        """executes from physical line pc until the script ends / exit"""
        while True:
            self.steps += 1
            if self.steps > self.max_steps:
                raise Budget()
            if pc >= len(self.lines):
                # end of file = exit /B of the current frame
                if len(self.frames) > 1:
                    fr = self.frames.pop()
                    pc = fr.ret
                    continue
                return
            block, nxt = self.read_logical(pc)
            try:
                self.exec_block(block, nxt)
                pc = nxt
            except Cmd.Goto as g:
                pc = self.find_label(g.label, nxt)
            except Cmd.ExitB as e:
                if len(self.frames) > 1:
                    fr = self.frames.pop()
                    self.errorlevel = e.code if e.code is not None else self.errorlevel
                    pc = fr.ret
                else:
                    self.exit_status = e.code if e.code is not None else self.errorlevel
                    return

    def exec_block(self, block, nxt):
        first = block[0]
        if first.startswith("(set LF=^"):
            self.setvar("LF", "\n")
            return
        if len(block) == 1:
            self.exec_line(self.percent(first), nxt, {})
            return
        # a parenthesised block: %-expansion of the whole block now, then structured execution
        lines = [self.percent(l) for l in block]
        self.exec_struct(lines, 0, len(lines), nxt, {})

    def exec_struct(self, lines, a, z, nxt, forvals):
        """lines[a:z] = header ending in '(' ... matching ')' possibly with ') else (' / ') else if .. (' parts"""
        header = lines[a]
        # split the construct into (header, body range) parts at depth 0 continuations
        parts = []
        depth = self.paren_delta(header)
        start = a + 1
        cur_header = header
        j = a + 1
        while j < z:
            ln = lines[j]
            d = self.paren_delta(ln)
            if depth == 1 and ln.startswith(")"):
                parts.append((cur_header, start, j))
                cur_header = ln
                start = j + 1
                depth += d
                if depth == 0:
                    break
            else:
                depth += d
            j += 1
        if depth != 0:
            raise Stuck("bad block structure: %r" % header)
        # evaluate the chain
        for hdr, s, e in parts:
            h = hdr
            if h.startswith(") else"):
                h = h[len(") else"):].strip()
                if h == "(":
                    self.exec_body(lines, s, e, nxt, forvals)
                    return
            h = h.strip()
            if not h.endswith("("):
                raise Stuck("block header %r" % hdr)
            h = h[:-1].strip()
            m = re.match(r"^for /f \"delims=\" %%([a-zA-Z]) in \((.*)\) do$", self.unmark(h))
            if m or h.startswith("for /f"):
                mm = re.match(r"^for /f \"delims=\" \x00([a-zA-Z]) in \((.*)\) do$", h)
                if not mm:
                    raise Stuck("for header %r" % h)
                var, src = mm.group(1), mm.group(2)
                src = self.delayed(self.subst_for(src, forvals))
                if src.startswith('"') and src.endswith('"'):
                    text = src[1:-1]
                    items = [l for l in text.split("\n") if l != ""]
                else:
                    raise Stuck("for /f over a command or file: %r" % src)
                for it in items:
                    fv = dict(forvals)
                    fv[var] = it
                    self.exec_body(lines, s, e, nxt, fv)
                return
            if not h.startswith("if "):
                raise Stuck("block header %r" % hdr)
            if self.eval_cond(h[3:], forvals)[0]:
                self.exec_body(lines, s, e, nxt, forvals)
                return
        return

    def unmark(self, s):
        return s.replace("\x00", "%%")

    def exec_body(self, lines, s, e, nxt, forvals):
        j = s
        while j < e:
            ln = lines[j]
            d = self.paren_delta(ln)
            if d > 0:
                depth = d
                k = j + 1
                while k < e and depth > 0:
                    depth += self.paren_delta(lines[k])
                    k += 1
                self.exec_struct(lines, j, k, nxt, forvals)
                j = k
            else:
                self.exec_line(ln, nxt, forvals)
                j += 1

    def eval_cond(self, text, forvals):
        """parses `A op B rest` / `defined V rest` / `exist "p" rest`; returns (bool, rest)"""
        text = text.strip()
        m = re.match(r"^defined\s+([A-Za-z0-9_]+)\s*(.*)$", text)
        if m:
            return (self.getvar(m.group(1)) is not None), m.group(2)
        m = re.match(r'^exist\s+"([^"]*)"\s*(.*)$', text)
        if m:
            raise Stuck("file system access")
        # operands: quoted string or bare word
        def operand(t):
            t = t.lstrip()
            if t.startswith('"'):
                k = t.find('"', 1)
                while k >= 0 and False:
                    pass
                if k < 0:
                    raise Stuck("unterminated quote in IF")
                return t[:k + 1], t[k + 1:]
            m2 = re.match(r"^(\S*)(.*)$", t, re.S)
            return m2.group(1), m2.group(2)

        # the comparison is parsed first (the operands are the tokens of the line as written), then every token is expanded once;
        # the command behind the comparison is expanded when it runs, not here
        text = self.subst_for(text, forvals)
        a, rest = operand(text)
        m = re.match(r"^\s*(equ|neq|lss|leq|gtr|geq)\s+(.*)$", rest, re.S | re.I)
        if not m:
            raise Stuck("IF syntax: %r" % text)
        op = m.group(1).lower()
        b, rest = operand(m.group(2))
        a, b = self.delayed(a), self.delayed(b)
        if is_int(a) and is_int(b):
            x, y = wrap32(int(a)), wrap32(int(b))
        else:
            x, y = a, b
        res = {"equ": x == y, "neq": x != y, "lss": x < y, "leq": x <= y, "gtr": x > y, "geq": x >= y}[op]
        return res, rest

    def exec_line(self, line, nxt, forvals):
        """one simple command (after %-expansion of its line / block)"""
        self.steps += 1
        if self.steps > self.max_steps:
            raise Budget()
        ln = line.lstrip()
        if ln.strip() == "" or ln.strip() == ")" or ln.startswith("::") or ln.lower().startswith("rem") or ln.startswith(":"):
            return
        low = ln.lower()
        if low in ("@echo off", "setlocal enabledelayedexpansion", "setlocal"):
            return
        if low.startswith("endlocal & exit /b"):
            code = self.delayed(ln[len("endlocal & exit /b"):].strip())
            raise Cmd.ExitB(int(code) if is_int(code) else 0)
        if low.startswith("exit /b"):
            code = ln[7:].strip()
            raise Cmd.ExitB(int(code) if is_int(code) else None)
        if low.startswith("goto "):
            raise Cmd.Goto(ln[5:].strip(), nxt)
        if low.startswith("if "):
            self.exec_if_line(ln[3:], nxt, forvals)
            return
        if low.startswith("set /a "):
            m = re.match(r'^set /a "([A-Za-z0-9_]+)=(.*)"$', ln, re.I)
            if not m:
                raise Stuck("set /A syntax: %r" % ln)
            expr = self.delayed(self.subst_for(m.group(2), forvals))
            self.setvar(m.group(1), str(self.arith(expr)))
            return
        if low.startswith("set /p "):
            raise Stuck("set /p")
        if low.startswith("set "):
            body = ln[4:]
            body = self.subst_for(body, forvals)
            if body.startswith('"'):
                if not body.endswith('"'):
                    raise Stuck("set quoting: %r" % ln)
                body = body[1:-1]
            body = self.delayed(body)        # the whole command is expanded before it is parsed (also the name)
            k = body.find("=")
            if k < 0:
                raise Stuck("set without =: %r" % ln)
            self.setvar(body[:k], body[k + 1:])
            return
        if low.startswith("call :"):
            rest = self.delayed(self.subst_for(ln[6:], forvals))
            parts = rest.split(" ", 1)
            label = parts[0]
            args = self.split_args(parts[1]) if len(parts) > 1 else []
            self.frames.append(Frame(args, None))
            sub = Cmd.__new__(Cmd)
            # run the subroutine to completion (nested interpreter loop over the same state)
            depth = len(self.frames)
            pc = self.find_label(label, nxt)
            self.run_sub(pc, depth)
            return
        if low.startswith("call "):
            raise Stuck("external program call")
        if low == "echo." or low.startswith("echo "):
            if len(self.out) > 5000:
                raise Budget()
            self.out.append("" if low == "echo." else self.delayed(self.subst_for(ln[5:], forvals)))
            return
        m = re.match(r'^for /f "delims=" \x00([a-zA-Z]) in \("(.*)"\) do (.*)$', ln)
        if m:
            var, text, cmd = m.group(1), m.group(2), m.group(3)
            text = self.delayed(self.subst_for(text, forvals))
            for it in [l for l in text.split("\n") if l != ""]:
                fv = dict(forvals)
                fv[var] = it
                self.exec_line(cmd, nxt, fv)
            return
        raise Stuck("unknown command: %r" % ln)

    def run_sub(self, pc, depth):
        """executes a subroutine until its frame is popped"""
        while True:
            self.steps += 1
            if self.steps > self.max_steps:
                raise Budget()
            if pc >= len(self.lines):
                self.frames.pop()
                return
            block, nxt = self.read_logical(pc)
            try:
                self.exec_block(block, nxt)
                pc = nxt
            except Cmd.Goto as g:
                pc = self.find_label(g.label, nxt)
            except Cmd.ExitB as e:
                if len(self.frames) >= depth and depth > 1 and len(self.frames) == depth:
                    self.frames.pop()
                    if e.code is not None:
                        self.errorlevel = e.code
                    return
                raise

    def split_args(self, s):
        args, cur, q = [], "", False
        for ch in s:
            if ch == '"':
                q = not q
                cur += ch
            elif ch in " ,;=\t" and not q:
                if cur != "":
                    args.append(cur)
                    cur = ""
            else:
                cur += ch
        if cur != "":
            args.append(cur)
        return args

    def exec_if_line(self, text, nxt, forvals):
        """single-line IF:  cond (X) else Y | cond (X) else if ... | cond X"""
        res, rest = self.eval_cond(text, forvals)
        rest = rest.strip()
        if rest.startswith("("):
            # find matching paren
            depth, q = 0, False
            k = None
            for i, ch in enumerate(rest):
                if ch == '"':
                    q = not q
                elif not q:
                    if ch == "(":
                        depth += 1
                    elif ch == ")":
                        depth -= 1
                        if depth == 0:
                            k = i
                            break
            if k is None:
                raise Stuck("IF parens: %r" % text)
            then_part = rest[1:k].lstrip()
            tail = rest[k + 1:].strip()
            if res:
                self.exec_line(then_part, nxt, forvals)
                return
            if tail.lower().startswith("else"):
                self.exec_line(tail[4:].strip(), nxt, forvals)
            return
        if res:
            self.exec_line(rest, nxt, forvals)

    # ---------------------------------------------------------------- set /A
    def arith(self, expr):
        toks = re.findall(r"\d+|[-+*/%()]|[A-Za-z_][A-Za-z0-9_]*", expr.replace("%%", "%"))
        if "".join(toks) != re.sub(r"\s+", "", expr.replace("%%", "%")):
            raise Stuck("set /A expression %r" % expr)
        pos = [0]

        def peek():
            return toks[pos[0]] if pos[0] < len(toks) else None

        def eat():
            t = peek()
            pos[0] += 1
            return t

        def atom():
            t = eat()
            if t is None:
                raise Stuck("set /A: missing operand in %r" % expr)
            if t == "(":
                v = add()
                if eat() != ")":
                    raise Stuck("set /A parens")
                return v
            if t == "-":
                return wrap32(-atom())
            if t == "+":
                return atom()
            if t.isdigit():
                n = int(t)
                if n > 2147483647:
                    raise Stuck("set /A: number too large")
                return n
            v = self.getvar(t)
            return wrap32(int(v)) if v is not None and is_int(v) else 0

        def mul():
            v = atom()
            while peek() in ("*", "/", "%"):
                op = eat()
                w = atom()
                if op == "*":
                    v = wrap32(v * w)
                else:
                    if w == 0:
                        raise Stuck("set /A: division by zero")
                    q = abs(v) // abs(w)
                    if (v < 0) != (w < 0):
                        q = -q
                    v = wrap32(q) if op == "/" else wrap32(v - q * w)
            return v

        def add():
            v = mul()
            while peek() in ("+", "-"):
                op = eat()
                w = mul()
                v = wrap32(v + w) if op == "+" else wrap32(v - w)
            return v

        v = add()
        if pos[0] != len(toks):
            raise Stuck("set /A: trailing tokens in %r" % expr)
        return v


def run(script, max_steps=400000):
    """returns (stdout, exit status); raises Stuck / Budget"""
    c = Cmd(script, max_steps=max_steps)
    return c.run()
