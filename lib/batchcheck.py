"""Structural well-formedness predicates on an emitted Batch script (C16, C05): balanced parentheses,
labels defined / unique, calls resolve, helper routines present iff used, loop and branch jumps stay
inside their construct."""
import re

HELPERS = ["_fwh", "_ach", "_frh", "_sch", "_sah", "_sls", "_slg", "_stsh", "_stlh", "_ech"]


def strip_quotes(line):
    out, q = [], False
    for ch in line:
        if ch == '"':
            q = not q
        elif not q:
            out.append(ch)
    return "".join(out)


def analyse(script):
    """returns list of problems (strings)"""
    problems = []
    lines = script.split("\r\n")
    if lines and lines[-1] == "":
        lines = lines[:-1]
    # 1. parentheses (outside double quotes; the LF definition "(set LF=^" / "" / ")" is balanced too)
    depth = 0
    for i, ln in enumerate(lines):
        for ch in strip_quotes(ln):
            if ch == "(":
                depth += 1
            elif ch == ")":
                depth -= 1
                if depth < 0:
                    problems.append("line %d: unbalanced ')'" % (i + 1))
                    depth = 0
    if depth != 0:
        problems.append("unbalanced '(' at end of script (%d open)" % depth)
    # 2./3. labels
    labels = {}
    spellings = {}
    for i, ln in enumerate(lines):
        m = re.match(r"^:([A-Za-z0-9_]+)\s*$", ln)
        if m and not ln.startswith("::"):
            labels.setdefault(m.group(1).lower(), []).append(i)
            spellings.setdefault(m.group(1).lower(), set()).add(m.group(1))
    for l, where in labels.items():
        if len(where) > 1:
            # cmd.exe compares labels without regard to case: two spellings of one label are one label
            note = ""
            if len(spellings[l]) == len(where):
                note = " [spellings differ only in case: %s]" % ", ".join(sorted(spellings[l]))
            problems.append("label :%s defined %d times (lines %s)%s" % (l, len(where), [w + 1 for w in where], note))
    targets = []
    for i, ln in enumerate(lines):
        for m in re.finditer(r"\bgoto\s+:?([A-Za-z0-9_]+)", ln):
            targets.append(("goto", m.group(1), i))
        m = re.match(r"^call\s+:([A-Za-z0-9_]+)", ln)
        if m:
            targets.append(("call", m.group(1), i))
    for kind, t, i in targets:
        if t.lower() not in labels:
            problems.append("line %d: %s :%s but no such label" % (i + 1, kind, t))
    # 5. helpers present iff used (closure over helpers that call other helpers)
    regions = {}
    for h in HELPERS:
        if h in labels and ("_eo_" + h) in labels:
            regions[h] = (labels[h][0], labels["_eo_" + h][0])

    def owner(i):
        for h, (a, z) in regions.items():
            if a <= i <= z:
                return h
        return None

    used = set()
    changed = True
    while changed:
        changed = False
        for kind, t, i in targets:
            if kind == "call" and t in HELPERS and t not in used:
                o = owner(i)
                if o is None or o in used:
                    used.add(t)
                    changed = True
    for h in HELPERS:
        if (h in labels) != (h in used):
            problems.append("helper routine %s is %s but %s" % (h, "present" if h in labels else "absent", "never called" if h in labels else "called"))
    # 6. loop jumps: continue / break / loop-back must refer to the innermost enclosing loop
    stack = []      # (head label, start line)
    i = 0
    n = len(lines)
    loops = []      # (head, end label, start, end line)
    while i < n:
        ln = lines[i]
        m = re.match(r"^:(_f\d+)$", ln)
        if m:
            stack.append((m.group(1), i))
        m = re.match(r"^goto :(_f\d+)$", ln)
        if m and i + 2 < n and lines[i + 1] == ")" and re.match(r"^:(_e\d+)$", lines[i + 2]) and stack and stack[-1][0] == m.group(1):
            head, start = stack.pop()
            loops.append((head, lines[i + 2][1:], start, i + 2))
            i += 3
            continue
        i += 1
    if stack:
        problems.append("loop(s) %s never closed" % [s[0] for s in stack])

    def innermost(p):
        best = None
        for head, end, a, z in loops:
            if a < p < z and (best is None or a > best[2]):
                best = (head, end, a, z)
        return best

    for kind, t, i in targets:
        if kind != "goto":
            continue
        if re.fullmatch(r"_f\d+", t):
            inn = innermost(i)
            if inn is None:
                problems.append("line %d: jump to loop head :%s from outside any loop" % (i + 1, t))
            elif inn[0] != t:
                problems.append("line %d: jump to :%s but the innermost enclosing loop is :%s" % (i + 1, t, inn[0]))
        elif re.fullmatch(r"_e\d+", t):
            inn = innermost(i)
            if inn is None:
                problems.append("line %d: jump to loop end :%s from outside any loop" % (i + 1, t))
            elif inn[1] != t:
                problems.append("line %d: jump to :%s but the innermost enclosing loop ends at :%s" % (i + 1, t, inn[1]))
            else:
                # with duplicate end labels the search "forward from here, then from the top" must find this loop's own label
                later = [w for w in labels.get(t.lower(), []) if w > i]
                if later and later[0] != inn[3]:
                    problems.append("line %d: jump to :%s reaches another loop's end label first" % (i + 1, t))
    return problems
