"""Running cases through the real pipeline (tshdump pipe) and the Lean driver."""
import os
import shutil
import subprocess
import tempfile

import common


class Case:
    def __init__(self, cid, files, main="main.tsh", meta=None):
        self.id = str(cid)
        self.files = files            # dict relpath -> bytes
        self.main = main
        self.meta = meta or {}
        self.out = {}                 # stage -> (class, payload)

    def line(self, stages):
        parts = [self.id, stages, self.main.encode().hex(), str(len(self.files))]
        for rel, content in self.files.items():
            parts += [rel.encode().hex(), (content if isinstance(content, bytes) else content.encode()).hex() or ""]
        return " ".join(parts)


def _parse_block(lines, cases_by_id):
    cur = None
    for ln in lines:
        f = ln.split(" ", 2)
        if f[0] == "CASE":
            cur = cases_by_id.get(f[1])
        elif f[0] == "END":
            if cur is not None:
                cur.out["_done"] = True
            cur = None
        elif cur is not None and f[0] in ("TOK", "AST", "BASH", "BATCH"):
            cur.out[f[0]] = (f[1], f[2] if len(f) > 2 else "")


def run_pipe(b, cases, stages="asw", timeout=300, cwd=None):
    """Runs all cases through tshdump in parallel worker processes.  A worker that dies (fatal Go
    error such as a stack overflow) is detected per case: the unfinished case gets class CRASH and the
    remaining cases of the chunk are re-run."""
    by_id = {c.id: c for c in cases}

    def work(chunk):
        todo = list(chunk)
        while todo:
            wd = tempfile.mkdtemp(prefix="tshdump-")
            try:
                try:
                    p = subprocess.run([b.tshdump, "pipe", wd], input=("\n".join(c.line(stages) for c in todo) + "\n").encode(),
                                       stdout=subprocess.PIPE, stderr=subprocess.PIPE, timeout=timeout, cwd=cwd,
                                       env=dict(os.environ, GOMEMLIMIT="2GiB", GOMAXPROCS="2"))
                    out = p.stdout.decode("utf-8", "replace").splitlines()
                    timed_out = False
                except subprocess.TimeoutExpired as e:
                    out = (e.stdout or b"").decode("utf-8", "replace").splitlines()
                    timed_out = True
            finally:
                shutil.rmtree(wd, ignore_errors=True)
            _parse_block(out, by_id)
            rest = [c for c in todo if not c.out.get("_done")]
            if not rest:
                break
            # the first unfinished case killed the worker (or hung)
            bad = rest[0]
            cls = "DIVERGE" if (timed_out or any(l.startswith("WATCHDOG ") for l in out)) else "CRASH"
            for st, key in (("t", "TOK"), ("a", "AST"), ("s", "BASH"), ("w", "BATCH")):
                if st in stages and key not in bad.out:
                    bad.out[key] = (cls, "")
            bad.out["_done"] = True
            todo = rest[1:]

    # round-robin chunks: expensive cases (import graphs) are generated next to each other
    k = common.NCPU * 2
    chunks = [cases[i::k] for i in range(k) if cases[i::k]]
    common.pmap(work, chunks)
    # a case that ran into the watchdog is run again ALONE with a budget ten times as large: on a loaded machine eight seconds of wall
    # clock can pass for a case that needs milliseconds, and a hang must be a hang of the transpiler, not of the scheduler
    slow = [c for c in cases if any(v[0] == "DIVERGE" for k_, v in c.out.items() if k_ != "_done")]
    if slow and not _retrying.get("on"):
        _retrying["on"] = True
        try:
            old_env = os.environ.get("TSHDUMP_WATCHDOG")
            os.environ["TSHDUMP_WATCHDOG"] = "80"
            for c in slow:
                c.out.clear()
                work([c])
        finally:
            _retrying["on"] = False
            if old_env is None:
                os.environ.pop("TSHDUMP_WATCHDOG", None)
            else:
                os.environ["TSHDUMP_WATCHDOG"] = old_env
    return cases


_retrying = {}


def model_lines(b, reqs, timeout=3600):
    """Send request lines to the Lean driver in parallel chunks; returns answers in order."""
    idx = list(range(len(reqs)))
    parts = common.chunks(idx, common.NCPU)

    def work(ix):
        rc, out, err = common.run_lines([b.tshmodel], [reqs[i] for i in ix], timeout=timeout)
        if len(out) != len(ix):
            out = out + ["CRASH"] * (len(ix) - len(out))
        return out

    res = []
    for r in common.pmap(work, parts):
        res.extend(r)
    return res


# ---------------------------------------------------------------- parser model requests
import hashlib

_STD_CACHE = {}


def std_files():
    d = os.path.join(common.REPO, "std")
    key = d
    if key not in _STD_CACHE:
        out = {}
        if os.path.isdir(d):
            for root, _, fs in os.walk(d):
                for f in fs:
                    p = os.path.join(root, f)
                    out["/x/std/" + os.path.relpath(p, d)] = open(p, "rb").read()
        _STD_CACHE[key] = out
    return _STD_CACHE[key]


def prefix_of(content):
    return "h" + hashlib.sha256(content).hexdigest()[:7]


def parse_request(case):
    """PARSE request for the Lean parser model: virtual absolute paths /v/<rel>, std under /x/std"""
    parts = ["PARSE", ("/v/" + case.main).encode().hex(), b"/x".hex()]
    files = {"/v/" + rel: (c if isinstance(c, bytes) else c.encode()) for rel, c in case.files.items()}
    files.update(std_files())
    for p, c in files.items():
        parts += [p.encode().hex(), c.hex(), prefix_of(c)]
    return " ".join(parts)


def model_parse(b, cases):
    answers = model_lines(b, [parse_request(c) for c in cases])
    for c, a in zip(cases, answers):
        c.meta["model_ast"] = a
    return answers


def impl_ast_canon(case):
    cls, payload = case.out.get("AST", ("MISSING", ""))
    return "OK " + payload if cls == "OK" else cls


def model_full(b, cases):
    """whole model pipeline from the source files: AST (PARSE) and bash script (FULLBASH)"""
    reqs = [parse_request(c) for c in cases]
    asts = model_lines(b, reqs)
    scripts = model_lines(b, ["FULLBASH" + r[5:] for r in reqs])
    for c, a, sc in zip(cases, asts, scripts):
        c.meta["model_ast"] = a
        c.meta["model_bash"] = sc


def model_batch(b, cases):
    """whole model pipeline from the source files to the batch script"""
    reqs = [parse_request(c) for c in cases]
    scripts = model_lines(b, ["FULLBATCH" + r[5:] for r in reqs])
    for c, sc in zip(cases, scripts):
        c.meta["model_batch"] = sc


def batch_disagreements(b, cases):
    """cases that went through stage "w": those whose Batch script differs from the Lean rendering (Model.ConvBatch). There is no cmd.exe
    here; for properties that are not about one target this ties the Batch side at least to the model, so that a Batch-only change of the
    converter is reported (without a failing input where the cmd model cannot run the script)."""
    have = [c for c in cases if "BATCH" in c.out]
    model_batch(b, have)
    out = []
    for c in have:
        cls, pl = c.out["BATCH"]
        impl = "OK " + pl if cls == "OK" else cls
        if c.meta.get("model_batch") != impl:
            out.append(c)
    return out
