#!/usr/bin/env python3
"""Apply seeded mutations (patch files produced by independent agents) to /repo one at a time, run the
quick (or given) tier of the named checks, undo, and record what each check said.
usage: seedrun.py <dir-with-ID-n.diff> [--tier quick|thorough] [--only ID-n] [--checks C01,C02]"""
import json, os, subprocess, sys, shutil, time, glob, re

VERIF = os.path.dirname(os.path.dirname(os.path.abspath(__file__)))
REPO = "/repo"

def sh(cmd, **kw):
    p = subprocess.run(cmd, shell=isinstance(cmd, str), stdout=subprocess.PIPE, stderr=subprocess.STDOUT, text=True, **kw)
    return p.returncode, p.stdout

def main():
    src = sys.argv[1]
    tier = "quick"
    only = None
    checks = None
    a = sys.argv[2:]
    while a:
        if a[0] == "--tier": tier = a[1]; a = a[2:]
        elif a[0] == "--only": only = a[1]; a = a[2:]
        elif a[0] == "--checks": checks = a[1].split(","); a = a[2:]
        else: a = a[1:]
    rc, out = sh(["git", "-C", REPO, "status", "--porcelain"])
    if out.strip():
        print("repo not clean:", out); sys.exit(2)
    diffs = [(os.path.basename(d)[:-5], d) for d in sorted(glob.glob(os.path.join(src, "*.diff")))]
    diffs += [(os.path.basename(os.path.dirname(d)), d) for d in sorted(glob.glob(os.path.join(src, "*", "patch.diff")))]
    for name, diff in diffs:
        if only and name != only:
            continue
        prop = name.split("-")[0]
        dst = os.path.join(VERIF, "seeded", name)
        os.makedirs(dst, exist_ok=True)
        if os.path.abspath(diff) != os.path.join(dst, "patch.diff"):
            shutil.copy(diff, os.path.join(dst, "patch.diff"))
            for f in glob.glob(os.path.join(src, name + ".*")) + glob.glob(os.path.join(src, name + "-*")) + glob.glob(os.path.join(src, name + "_*")):
                if f.endswith(".diff"):
                    continue
                target = os.path.join(dst, "demonstration" + os.path.basename(f)[len(name):])
                if os.path.isdir(f):
                    shutil.copytree(f, target, dirs_exist_ok=True)
                else:
                    shutil.copy(f, target)
        rc, out = sh(["git", "-C", REPO, "apply", os.path.join(dst, "patch.diff")])
        if rc != 0:
            print(name, "APPLY FAILED", out); continue
        results = {}
        # the evidence files describe the UNCHANGED tree: keep them out of the way while a mutation is applied
        evid = os.path.join(VERIF, "evidence")
        evbak = os.path.join(VERIF, ".build", "evidence-unchanged-tree")
        if os.path.isdir(evid):
            shutil.rmtree(evbak, ignore_errors=True)
            os.makedirs(os.path.dirname(evbak), exist_ok=True)
            shutil.copytree(evid, evbak)
        try:
            for chk in (checks or [prop]):
                t0 = time.time()
                rc, out = sh(["./check", chk, tier], cwd=VERIF)
                vio = [l for l in out.splitlines() if l.startswith("VIOLATION")]
                results[chk] = dict(exit=rc, violation_lines=vio[:5], wall_s=round(time.time() - t0, 1))
                print(name, chk, tier, "exit", rc, vio[:2], flush=True)
                for l in vio[:1]:
                    m = re.search(r"replay=(\S+)", l)
                    if m and os.path.exists(m.group(1)):
                        shutil.copy(m.group(1), os.path.join(dst, "replay_%s.json" % chk))
        finally:
            sh(["git", "-C", REPO, "checkout", "--", "."])
            sh(["git", "-C", REPO, "clean", "-fdq"])
            if os.path.isdir(evbak):
                shutil.rmtree(evid, ignore_errors=True)
                shutil.copytree(evbak, evid)
        meta_p = os.path.join(dst, "meta.json")
        meta = json.load(open(meta_p)) if os.path.exists(meta_p) else dict(id=name, property=prop, origin="independent sub-agent given only the property text")
        meta.setdefault("results", {}).setdefault(tier, {}).update(results)
        meta["caught_by"] = sorted({c for t in meta["results"].values() for c, r in t.items() if r["exit"] == 1 and r["violation_lines"]})
        json.dump(meta, open(meta_p, "w"), indent=1)

if __name__ == "__main__":
    main()
