#!/usr/bin/env python3
"""Writes /verif/MANIFEST.json from the table below (kept in one place so the file stays valid)."""
import json
import os

VERIF = os.path.dirname(os.path.dirname(os.path.abspath(__file__)))

CLAIMED = {
    "C11": dict(
        text="Lean theorems about Model/Lexer.lean (see Props/C11.lean; listed in the evidence), the regenerated "
             "lexer tables, and a token-level correspondence between the model and lexer.Tokenize on every run; "
             "search oracle: tokens known by construction of rendered token sequences.",
        note="Lean kernel; model tied to lexer.go by differential correspondence (bounded by generators) and regenerated tables; "
             "Go regexp/strconv semantics as modelled by hand-written scanners.",
        technique="Lean 4 theorems over a hand-written lexer model + regenerated tables + differential correspondence",
        design="7/C11"),
}

NOT_APPLICABLE_REASON = "check not built yet in this round (model and tie pending); see DESIGN.md section 7"


def main():
    props = [json.loads(l)["id"] for l in open(os.path.join(VERIF, "properties.jsonl"))]
    checks = []
    for p in props:
        if p in CLAIMED:
            c = CLAIMED[p]
            checks.append(dict(
                property_id=p,
                quick_cmd="./check %s quick" % p,
                thorough_cmd="./check %s thorough" % p,
                evidence_file="/verif/evidence/%s.json" % p,
                replay_cmd_template="./check %s --replay {path}" % p,
                engine="lean-model+correspondence",
                level_claimed=dict(category="proof", text=c["text"], design_ref=c["design"]),
                level_note=c["note"],
                technique=c["technique"]))
    m = dict(
        version=1,
        setup_cmd="./setup.sh",
        hooks=dict(guard="verif", enable="go build -tags verif (the tag currently guards nothing: all needed entry points are exported)",
                   baseline_off_cmd="cd /repo && GOFLAGS=-mod=mod GOPROXY=off GOSUMDB=off go test -vet=off -count=1 ./...",
                   source_commits=[], add_only=True),
        engines=[dict(name="lean-model+correspondence", path="/verif/check",
                      serves_properties=sorted(CLAIMED),
                      kind_free_text="Lean 4 model + theorems (lean/), Go harness (harness/), translator (tools/extract), Python driver (lib/)")],
        checks=checks,
        notes="See DESIGN.md. Fix commits in /repo are listed in known_findings.txt.",
        not_applicable=[dict(property_id=p, reason=NOT_APPLICABLE_REASON) for p in props if p not in CLAIMED],
    )
    with open(os.path.join(VERIF, "MANIFEST.json"), "w") as fh:
        json.dump(m, fh, indent=1)


if __name__ == "__main__":
    main()
