#!/usr/bin/env python3
"""Writes /verif/MANIFEST.json from the table below (kept in one place so the file stays valid)."""
import json
import os

VERIF = os.path.dirname(os.path.dirname(os.path.abspath(__file__)))

TB = 'Lean 4.33 kernel; axioms at most propext, Classical.choice, Quot.sound (audited per theorem on every run); hand-written Lean model tied to /repo by the differential correspondence of the same run (bounded by the generators) and by regenerated tables/facts (tools/extract, go/ast); '

CLAIMED = {
    "C01": dict(
        text="Theorems (Props/C01.lean) about the model of transpiler.go + converters/bash for every well-formed AST: the script is shebang + helper routines + a sequence of the "
             "block grammar Shape (if/fi, loop with guarded increment, condition statements, exit test, body, done; non-empty bodies); loop flags _fv<n> numbered 0..n-1 in "
             "start order, none shared; expressions emit only simple commands; helper counter strictly increasing. SEMANTIC PRESERVATION (bash_preserves_scalar_semantics): for every "
             "program of the scalar fragment (int/bool/string expressions, single and simultaneous assignment, if/else-if/else, loops with break/continue, print, panic) the emitted lines "
             "are a block structure whose execution in the Lean bash model Sem/Bash prints what the source semantics Sem/Src prints and ends the same way - all programs, nestings, "
             "iteration counts. Tie: whole model pipeline (lexer, parser, transpiler, bash emitter) vs real Transpile byte for byte, wfStmts of every AST, and in every run Sem/Bash "
             "executed next to /bin/bash and Sem/Src next to the reference interpreter on the same generated programs (402 of 403 in the theorem's fragment in the quick tier).",
        note=TB + "that /bin/bash reads the rendered text as the structured lines and executes them as Sem/Bash says, and that Sem/Src is Go's meaning, is validated by execution in every run, not proved.",
        technique="Lean 4 compiler-correctness theorem (source semantics vs bash model, scalar fragment) + refinement to a block grammar + byte-for-byte model/implementation correspondence + both semantic models validated against /bin/bash and the reference interpreter",
        design="7/C01"),
    "C02": dict(
        text="SEMANTIC PRESERVATION WITH FUNCTIONS (Props/C02Sem.lean, bash_preserves_semantics_with_functions): for every program of the fragment fragP - top-level function "
             "definitions with any number of parameters and return values, locals, calls as arguments, calls of earlier functions in later ones, globals written from inside "
             "functions, plus everything of the scalar fragment - the emitted lines are a block structure whose execution in the Lean bash model Sem2/Bash (positional parameters, "
             "`local` with restore on return, return registers, exit) prints what the source semantics Sem2/Src prints and ends with the same status; proved by induction over the "
             "program with the table of translated functions as invariant (each body proved once against every later state) and a frame theorem of the bash model (a function's lines "
             "assign only f<n>_ names, globals, _rv registers and its own loop flags: a caller's locals, helpers and temporaries survive every call). Also (Props/C02.lean): a used "
             "call yields exactly the declared number of values; return stores _rv0.. in order and the call site copies them into fresh helpers right after the call line; "
             "parameters are local copies of $1..$n in order; name mangling; each function gets a new counter; multi-assignment reads only _ma<i> temporaries. Tie: whole model "
             "pipeline vs real Transpile byte for byte, and in every run Sem2/Bash next to /bin/bash and Sem2/Src next to the reference interpreter on the generated programs "
             "(406 of 406 in the theorem's fragment in the quick tier; the fragment also contains slices, len, string subscripts and copy - see C03); command calls, file builtins and input are outside the fragment and covered by the execution oracle only (the language has no recursion: define-before-use is its own rule).",
        note=TB + "that /bin/bash executes the rendered lines as Sem2/Bash says (in particular `local`, positional parameters, `return`) and that Sem2/Src is Go's meaning is validated by execution in every run, not proved.",
        technique="Lean 4 compiler-correctness theorem for programs with functions (source semantics vs bash model) + theorems on the calling-convention model + byte-for-byte correspondence + both semantic models validated against /bin/bash and the reference interpreter + execution oracle",
        design="7/C02"),
    "C03": dict(
        text="SEMANTIC PRESERVATION (Props/C03Sem.lean, bash_preserves_slice_and_string_semantics = the theorem of C02 read for this property): the fragment contains slice "
             "literals, element reads, element assignment with gap fill by the zero value, len of slices and strings, copy, s[i], s[a:b], s[a:], s[:b], slices passed to and "
             "returned from functions and shared between variables (reference semantics, a store of numbered slices on the source side, the arrays _dv<n> and the counter _dvc on "
             "the bash side, kept in step by the invariant HeapOK); the emitted script, run in the Lean bash model, prints what the source semantics prints. The helper routines "
             "_sah/_sch/_ssh are primitives of the bash model (their text is fixed); defining them is part of the executed script (helperCmds) and extra definitions change no "
             "execution (execCmds_addH). Also (Props/C03.lean): slice literal = increment _dvc, name a new array, store elements in order; element store = one _sah call with the "
             "zero value; functional models of _sah, _sch, _ssh with their laws. Tie: byte-for-byte correspondence of the emitter model, and in every run Sem2/Bash next to "
             "/bin/bash and Sem2/Src next to the reference interpreter (405 of 406 generated programs run in both models and agree, all 406 in the theorem's fragment).",
        note=TB + "that /bin/bash runs the fixed text of _sah/_sch/_ssh, `eval` array access and ${#..} as the primitives of Sem2/Bash say is validated by execution in every run, not proved; strings are ASCII in the fragment.",
        technique="Lean 4 compiler-correctness theorem covering slices and string operations (source semantics with a slice store vs bash model with arrays) + theorems on emitted lines and helper-routine models + byte-for-byte correspondence + both semantic models validated against /bin/bash and the reference interpreter",
        design="7/C03"),
    "C04": dict(
        text="Theorems (Props/C04.lean) for every expression and every converter: the walk requests exactly opCount(e) operations (each operand once; single string index evaluated "
             "once), operands left to right then the operation, && and || eager, all if/else-if conditions before the if is opened, loop order init/for/incr/cond/test/body. "
             "SEMANTIC SIDE (Props/C04Sem.lean): for every program of the fragment of the C02 theorem the script's output is the output of the source semantics, in order - so every "
             "observable effect of operand evaluation (tracer functions) happens as often and in the order the source semantics says (each operand once, left to right, both operands "
             "of && and ||, all chain conditions first). Run-time effect order outside the fragment: tracer oracle on executions.",
        note=TB + "the order of AST children vs source order is the parser's part (AST correspondence); that Sem2/Src states Go's order is validated against the reference interpreter.",
        technique="Lean 4 theorems with a tracing converter (order and multiplicity of converter operations) + compiler-correctness theorem (effects of operand evaluation preserved in order) + correspondence + tracer oracle",
        design="7/C04"),
    "C05": dict(
        text="SEMANTIC PRESERVATION FOR THE SCALAR FRAGMENT (Props/C05Sem.lean, batch_preserves_scalar_semantics - the counterpart of C01's theorem for the other target): for every "
             "program of integer / boolean / string expressions, definitions and assignments (single or simultaneous), print, panic, if / else-if / else chains, for loops with init / "
             "condition / increment, break and continue, nested to any depth, the emitted script is start code + helper routines + the lines of a block tree (Sem/CmdTree: if-chains with "
             "their end label _i<k> and a goto to it at the end of every branch, loops with head label _f<n>, end label _e<n> and first-round flag _fv<n> tested by `if defined`, break / "
             "continue as goto to the labels of the innermost enclosing loop by construction) + the end lines, and whenever the 32-bit source semantics Sem/Src32 runs the program to an "
             "outcome with printed lines, the tree runs under the structured reading of cmd.exe's rules (ExecBs: run-time !name! expansion, 32-bit set /A on canonical decimal operands, "
             "numeric versus quoted string IF, the echo routine, goto abandons every open block) to the same outcome with the same lines - all programs, nestings and iteration counts. "
             "Also batch_preserves_conditional_semantics_partial (no loops) and batch_preserves_straight_line_semantics_partial (line level, no tree). LINE LEVEL "
             "(batch_script_lines_preserve_scalar_semantics, no tree in the statement): under the line-level semantics Sem/CmdLines.LRun - a simple line runs, a label is a no-op, goto continues "
             "behind the first definition of the label in the whole script, a false `if ... (` skips to the matching `)` / `) else (` / `) else if ... (` counting nested brackets, the last line "
             "exits with the code in _e - the lines of the script from the first program line on run to exit code 0 (normal end) or 1 (panic) with the printed lines of the source semantics; "
             "the tree is proved sound for the lines (Lemmas/SemBLinesSound), well-formedness of the tree and resolution of every construct label are proved for every script of the fragment "
             "(Lemmas/SemBLabels, from the invariant behind C16.batch_construct_labels_unique); LRun is deterministic and its interpreter lrun sound and complete (batch_lines_outcome_unique, "
             "line_semantics_is_what_lrun_computes). WHOLE SCRIPT (batch_whole_script_preserves_scalar_semantics): from the FIRST line of the script and the EMPTY store - @echo off, "
             "setlocal, set _e=0, the LF definition, the jump over the echo routine, the program, :end, exit /B %_e% - LRun reaches exit code 0 / 1 with the printed lines of the source "
             "semantics; nothing but compile, Src32.runProgram and LRun in the statement. NOT proved: "
             "functions, slices, string operations, switch / range (known findings); that cmd.exe reads the "
             "rendered text as these lines - the line-level semantics (lrun), the tree semantics, the program-counter machine Sem/Cmd.runPC, lib/cmdsim.py on the rendered text and the 32-bit "
             "reference are compared on every scalar program of every run. "
             "Structure (Props/C05.lean), for every program without any hypothesis: every statement leaves parenthesis depth and the heights of the if/loop/"
             "end-label/function stacks unchanged, all stacks are empty at the end, every emitted script has balanced parentheses (helpers included), label numbers are handed out "
             "once. Beyond the theorem's fragment the semantics under cmd.exe is SEARCHED: the cmd model (lib/cmdsim.py, calibrated on the suite's expectations in every run) executes "
             "the real script of every generated program and compares with the 32-bit reference result.",
        note=TB + "no cmd.exe exists in the sandbox; cmd.exe's rules are those of Sem/Cmd + Sem/CmdLines (for the theorems; the block tree Sem/CmdTree is proved sound for them) and of the cmd model lib/cmdsim.py, which works on the rendered text "
                  "(DESIGN.md appendix F); they are compared on every scalar program of every run, Sem/Src32 with the 32-bit reference interpreter.",
        technique="Lean 4 compiler-correctness theorem (32-bit source semantics vs Lean cmd model with labels and goto as a block tree, whole scalar fragment) + graded-walk theorems on the Batch emitter "
                  "model + byte-for-byte correspondence + the semantic models validated against each other, a calibrated cmd.exe model and the 32-bit reference + execution of every script under that model",
        design="7/C05"),
    "C06": dict(
        text="Calls (calls_agree_with_signatures): in the program built from a main file every call of the file's own statements names a function declared before it - by the imported "
             "statements or earlier in the file - whose parameter types are the arguments' types and whose return types are the call node's. "
             "Definitions (definition_keeps_the_type_of_an_existing_variable; the definition parser in every context): a name of a short multi-definition that exists on the same level keeps "
             "its type - the value must have it. "
             "Parser soundness (Props/C06Sem.lean): every AST the parser model returns - all file systems, import graphs and token sequences - satisfies the executable typing "
             "predicate PT.program (Model/PTyped.lean: operand, condition, case, index, element and builtin-argument types, variable = value type, declared return types, only "
             "language types); with the two constructs of PT.strict excluded it is typed in the emitters' sense and the Bash emitter returns a script. PT.program is evaluated on "
             "every AST of the real parser in the run. "
             "The typing discipline is an executable checker on elaborated ASTs (Model/Typed.lean), run on every AST the real parser returns. Theorems (Props/C06.lean): every typed AST "
             "is translated by the bash emitter model without error or panic (the converters' second line of defence never fires on typed input, so acceptance is the parser's, "
             "which does not see the target); the converse for ill-typed operators; operator tables. Parser verdicts: exhaustive typed-position table x contexts, both targets.",
        note=TB + "completeness (every typed program is accepted) is sampled by the exhaustive typed-position table, not proved; nested return statements are not checked by the parser (known finding) and not part of PT.",
        technique="Lean 4 emit-totality theorem over a typing checker that is also run on every parser output + exhaustive typed-position table",
        design="7/C06"),
    "C07": dict(
        text="PLACEMENT (Props/C07Sem.lean, accepted_programs_are_placed): in every AST the parser model returns - all file systems, import graphs, token sequences - continue stands in a "
             "loop body, return in a function body, function definitions only at the top level of a file under a non-empty name, break in a loop or a switch (the parser's rule); with "
             "breaks_in_loops this is the strict placement the Batch emitter needs, and accepted_programs_translate_for_both_targets closes C06's target independence from the source text on. "
             "VISIBILITY (accepted_programs_use_visible_variables, parsed_files_use_visible_variables): every variable an accepted program reads, assigns, element-assigns, copies into or counts "
             "is, at that place, a variable that a definition earlier in the same or an enclosing statement list, the parameter list, or the loop header introduced - with that type; a block's "
             "definitions end with the block, a function body sees globals and parameters only (PT.useSs; also evaluated on every accepted AST of the real parser in the run). "
             "REDEFINITION (definitions_need_new_names, function_definitions_need_a_new_name_on_the_top_level; about the definition parsers in every context): a definition of one name and every "
             "var definition need new names, a short definition of several names needs one new name, a function definition needs the global scope and a name findFunction does not know. "
             "Theorems (Props/C07.lean) about the scope part of the parser model: a registered definition is found and disturbs no other name; the context of a function body holds "
             "only globals; accepted parameter lists have distinct names; the scope-stack queries behind break/continue/return. Program verdicts: scope-skeleton oracle; placement "
             "rules are also checked on every parser output (MISPLACED tag).",
        note=TB + "block-local scoping is by the type of the model function (blocks return statements only); the Go clone() sites are covered by correspondence.",
        technique="Lean 4 placement and variable-visibility theorems for the parser model (scope-stack / visible-variables invariants) and theorems on its context operations + scope-skeleton generator with known verdicts (main file and imported file)",
        design="7/C07"),
    "C08": dict(
        text="SEMANTIC SIDE (Props/C08Sem.lean, strings_are_opaque_in_the_script): in the fragment of the C02 theorem a literal may contain every ASCII character except $ and backquote; the script prints exactly the strings the source semantics computes, through assignment, concatenation, comparison, parameters, return values, slice elements, copy, subscripts and len. All special strings of the generator are also run through the Lean models next to /bin/bash in every run (evidence: semantic_models). Theorems (Props/C08.lean): for every literal without $ and backquote the text bash reads between the quotes the converter writes is the literal itself and the quote ends "
             "where it was closed (model of bash's double-quote rules); escaping distributes over concatenation; through the assignment and printf templates. The negative result "
             "for $/backquote is proved too (known finding). Run-time values via ${var} in quotes: execution oracle with canaries.",
        note=TB + "the double-quote model follows Bash manual 3.1.2.3; expansion results not being re-scanned is bash semantics (oracle).",
        technique="Lean 4 round-trip theorem escape/double-quote scanner + correspondence + execution oracle",
        design="7/C08"),
    "C09": dict(
        text="VISIBILITY (imports_expose_only_public_names): for all file systems and import graphs the context in which a file's own statements are parsed holds, from its imports, "
             "only public functions and variables - alias.name can resolve to nothing else. "
             "SEMANTIC SIDE OF THE REMOVAL (Props/C09Sem.lean, unused_function_removal_is_safe): the program Parse returns is the program it has read (imported files and main "
             "file, parseRaw) with the unreached function definitions filtered out, and whenever every call of the kept code goes to a kept function (graphCovers, decidable, "
             "evaluated by the Lean driver on the statements and the call graph of every program the check parses: 300 of 300 in the quick tier, 4242 definitions removed) every "
             "outcome of the full program in the source semantics Sem2/Src (exit status, printed lines) is the outcome of the reduced program - for all programs, by induction over "
             "the fuel of the mutually recursive evaluation functions; the semantics is monotone in its fuel and the outcome does not depend on it (outcome_independent_of_fuel). "
             "Also (Props/C09.lean), about the call-graph part of the parser model: the merge of an imported graph keeps every own edge and takes every imported edge; the collection "
             "of used functions contains everything reachable from top-level code; removal keeps every reachable function definition and drops nothing but function definitions, "
             "order preserved. Linking (aliases, prefixes, visibility) and defined-before-use in the scripts: import-graph oracle.",
        note=TB + "that every call site records its edge in the graph is not a theorem: it is the hypothesis graphCovers, evaluated at run time on every parsed program (and part of the AST correspondence).",
        technique="Lean 4 theorem on the source semantics (removal of uncalled definitions preserves every outcome) + theorems on merge/reachability/removal of the parser model + run-time evaluation of the theorem's hypothesis + import-graph world oracle",
        design="7/C09"),
    "C10": dict(
        text="The property does not hold on the pinned tree in general (known finding reserved-identifiers-not-rejected). Theorems (Props/C10.lean) state what does hold and the exact "
             "boundary: the mangling f<k>_<name> is injective in (k, name); every compiler-owned name starts with '_', so identifiers not starting with '_' never hit one; "
             "witness theorems for the two collision classes. Behaviour under renaming: renaming oracle with a reserved-name pool.",
        note=TB + "partial: the theorems cover the bash naming scheme; Batch (case-insensitive variables) is covered by the oracle and the known finding only.",
        technique="Lean 4 injectivity / disjointness theorems on the naming scheme + renaming oracle",
        design="7/C10"),
    "C11": dict(
        text="Lean theorems about Model/Lexer.lean (see Props/C11.lean; listed in the evidence), the regenerated "
             "lexer tables, and a token-level correspondence between the model and lexer.Tokenize on every run; "
             "search oracle: tokens known by construction of rendered token sequences.",
        note=TB + "Go regexp/strconv semantics as modelled by hand-written scanners.",
        technique="Lean 4 theorems over a hand-written lexer model + regenerated tables + differential correspondence",
        design="7/C11"),
    "C12": dict(
        text="Theorems (Props/C12.lean): CRLF normalisation is the identity on CR-free text and inverts LF->CRLF; tokens carry no layout; the token list is the kept lexemes; positions never influence "
             "what is lexed, and a space, a tab, a complete block comment or a line comment inserted at any lexeme boundary of any input changes no token type and no token value of the rest "
             "(blank_before_a_lexeme_changes_no_token, block_comment_..., line_comment_...: all inputs, all boundaries, any state of the `-` disambiguation). "
             "Layout changes vs emitted bytes of both targets: relayout oracle from the lexeme trace.",
        note=TB + "the parser's treatment of NEWLINE tokens is covered by correspondence and the relayout oracle, not by a theorem.",
        technique="Lean 4 theorems on the lexer model + relayout search from the model's lexeme trace",
        design="7/C12"),
    "C13": dict(
        text="PARSER (Props/C13Sem.lean, parser_never_panics): for all file systems, import graphs and token sequences the parser model ends in a program, an error or fuel exhaustion - never at "
             "one of the places where parser.go would index out of range (argument lists of builtins after the arity check, the parameter of an argument, names[0], the value of a compound "
             "assignment); proved with the typing theorem of C06Sem (the postcondition calculus carries 'no run panics'). Theorems (Props/C13.lean): the lexer terminates on every input with tokens or an error, every iteration consumes input, the token list ends in EOF; every error "
             "literal in the source is non-empty (regenerated). Parser/emitters: crash/hang oracle with recover and watchdog over token edits, typed near misses, byte soups, import graphs.",
        note=TB + "sufficiency of the parser model's fuel (no `diverge` outcome) is NOT proved: hangs of the real parser are searched with a watchdog; the model's outcome class is compared with the parser's on every input.",
        technique="Lean 4 totality theorems for the lexer model, no-crash theorem for the parser model + regenerated error-literal facts + crash/hang search",
        design="7/C13"),
    "C14": dict(
        text="Theorems (Props/C14.lean): the regenerated facts (map ranges, maps.* calls, package-level variables, environment calls, fields of the state-holding structs) equal the "
             "audited lists; search: fresh processes, relocated trees, interleaved and directed histories on one transpiler object.",
        note=TB + "purity itself is argued from the audited facts (DESIGN.md); the theorem pins the facts.",
        technique="regenerated source facts pinned by Lean theorems + differential runs (processes, locations, histories)",
        design="7/C14"),
    "C15": dict(
        text="Std.Lib is a loop-for-loop Lean rendering of std/strings.tsh, Std.Go a declarative specification of Go's strings functions. Theorems (Props/C15.lean): Lib.f = Go.f for "
             "ALL arguments for all 19 functions (Repeat for count>=0; Go panics below) - empty strings, empty separators, overlapping matches, zero and negative counts included. "
             "Rendering vs compiled+executed library and specification vs Go's package: exhaustive small-scope four-way comparison in every run.",
        note=TB + "the rendering is tied to the library source and the specification to Go's package by running all four on the same tuples in every run (bounded); the equivalence is proved.",
        technique="Lean 4 equivalence proofs rendering = specification for all 19 functions + four-way differential on exhaustive small tuples",
        design="7/C15"),
    "C16": dict(
        text="Theorems (Props/C16.lean): for every well-formed AST the bash script follows the block grammar (non-empty bodies, own closers), nesting depth returns to 0, bodies "
             "start with a command, an empty block is the no-op, every bash helper that is called is defined. Batch: parentheses balance, no construct is left open, no construct "
             "label (:_iN, :_fN, :_eN) is defined twice and every construct goto has its label, for every program. bash -n and the Batch text: structural oracles on every emitted script.",
        note=TB + "Batch function labels and helper inclusion are decided by the structural oracle and the model correspondence, not by theorems.",
        technique="Lean 4 refinement theorem (block grammar) + bash -n + structural parse of Batch text",
        design="7/C16"),
    "C17": dict(
        text="Theorems (Props/C17.lean): write is exactly one line with one quoted path and one quoted content, printf with a newline, append only when the flag is 1; literal path and "
             "content are read back byte for byte; non-string arguments are errors; read is cat -- of the quoted path, exists is [ -e ]. File-system effects: execution oracle.",
        note=TB + "redirection and command-substitution semantics of bash are outside the theorems (known finding: $( ) strips all trailing newlines).",
        technique="Lean 4 theorems on the emitted line templates + quoting round trip + execution oracle on a scratch file system",
        design="7/C17"),
    "C18": dict(
        text="Theorems (Props/C18.lean): for every program name and all literal arguments without $/backquote (blanks, quotes, backslashes, glob characters, leading dashes included - the name is quoted like an argument since fix 44748e3) the command line is split by the bash word model into exactly name and "
             "the given arguments byte for byte; chains are joined left to right by |; a captured chain is h1=$(chain) directly followed by h2=$?. argv probe oracle on executions.",
        note=TB + "the word-splitting model covers blanks, double quotes and backslash rules; $( ), $? and | are bash semantics (oracle).",
        technique="Lean 4 theorem: bash word-splitting model inverts the converter's argument quoting + correspondence + argv probe",
        design="7/C18"),
    "C19": dict(
        text="Theorems (Props/C19.lean) about the CLI model (option parsing, per-target run, writes): writes only library output, all targets on success, nothing for a failing target, "
             "non-zero on every error, input untouched; tie: CLI model vs the built binary on generated invocations and directory trees.",
        note=TB + "os.WriteFile/ReadFile semantics as modelled by the FS record.",
        technique="Lean 4 theorems on a CLI/file-system model + differential runs of the built binary",
        design="7/C19"),
}

PENDING = {}

NOT_APPLICABLE_REASON = "check not built yet in this round (model and tie pending); see DESIGN.md section 7"


def main():
    props = [json.loads(l)["id"] for l in open(os.path.join(VERIF, "properties.jsonl"))]
    checks = []
    for p in props:
        if p in CLAIMED:
            c = CLAIMED[p]
            checks.append(dict(
                property_id=p,
                quick_cmd="./check %s quick" % p,
                thorough_cmd="./check %s thorough" % p,
                evidence_file="/verif/evidence/%s.json" % p,
                replay_cmd_template="./check %s --replay {path}" % p,
                engine="lean-model+correspondence",
                level_claimed=dict(category="proof", text=c["text"], design_ref=c["design"]),
                level_note=c["note"],
                technique=c["technique"]))
    m = dict(
        version=1,
        setup_cmd="./setup.sh",
        hooks=dict(guard="verif", enable="go build -tags verif (the tag currently guards nothing: all needed entry points are exported)",
                   baseline_off_cmd="cd /repo && GOFLAGS=-mod=mod GOPROXY=off GOSUMDB=off go test -vet=off -count=1 ./...",
                   source_commits=[], add_only=True),
        engines=[dict(name="lean-model+correspondence", path="/verif/check",
                      serves_properties=sorted(CLAIMED),
                      kind_free_text="Lean 4 model + theorems (lean/), Go harness (harness/), translator (tools/extract), Python driver (lib/)")],
        checks=checks,
        notes="See DESIGN.md. Fix commits in /repo are listed in known_findings.txt.",
        not_applicable=[dict(property_id=p, reason=PENDING.get(p, NOT_APPLICABLE_REASON)) for p in props if p not in CLAIMED],
    )
    with open(os.path.join(VERIF, "MANIFEST.json"), "w") as fh:
        json.dump(m, fh, indent=1)


if __name__ == "__main__":
    main()
