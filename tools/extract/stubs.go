package main

import (
	"fmt"
	"go/ast"
	"go/printer"
	"go/token"
	"os"
	"path/filepath"
	"sort"
	"strconv"
	"strings"
)

func opTables(repo, out string) {}

// facts: syntactic facts about the non-test Go source that the purity argument (C14) rests on:
//   - every range statement over a map-typed name, every maps.* call
//   - every package-level var declaration
//   - every call of a function whose result depends on the environment (time, rand, env, cwd, executable, ...)
func facts(repo, out string) {
	fset := token.NewFileSet()
	files := []string{}
	filepath.Walk(repo, func(p string, info os.FileInfo, err error) error {
		if err != nil {
			return nil
		}
		if info.IsDir() && (info.Name() == ".git" || info.Name() == "tests" || info.Name() == "examples") {
			return filepath.SkipDir
		}
		if strings.HasSuffix(p, ".go") && !strings.HasSuffix(p, "_test.go") {
			files = append(files, p)
		}
		return nil
	})
	sort.Strings(files)
	parsed := map[string]*ast.File{}
	mapNames := map[string]bool{}  // struct fields with a map type (reached through a selector)
	mapIdents := map[string]bool{} // package-level or local variables with a map type (plain identifiers)
	for _, p := range files {
		f := parseFile(fset, p)
		parsed[p] = f
		// names (struct fields, package vars, locals, params) declared with a map type
		ast.Inspect(f, func(n ast.Node) bool {
			switch v := n.(type) {
			case *ast.Field:
				if _, ok := v.Type.(*ast.MapType); ok {
					for _, nm := range v.Names {
						mapNames[nm.Name] = true
					}
				}
			case *ast.ValueSpec:
				isMap := false
				if _, ok := v.Type.(*ast.MapType); ok {
					isMap = true
				}
				for _, val := range v.Values {
					if cl, ok := val.(*ast.CompositeLit); ok {
						if _, ok := cl.Type.(*ast.MapType); ok {
							isMap = true
						}
					}
				}
				if isMap {
					for _, nm := range v.Names {
						mapIdents[nm.Name] = true
					}
				}
			}
			return true
		})
	}
	exprText := func(e ast.Expr) string {
		var b strings.Builder
		printer.Fprint(&b, fset, e)
		return b.String()
	}
	lastName := func(e ast.Expr) string {
		switch v := e.(type) {
		case *ast.Ident:
			return v.Name
		case *ast.SelectorExpr:
			return v.Sel.Name
		}
		return ""
	}
	mapRanges, mapsCalls, pkgVars, envCalls := []string{}, []string{}, []string{}, []string{}
	envFuncs := map[string]bool{"time.Now": true, "os.Getenv": true, "os.Environ": true, "os.Getwd": true, "os.Executable": true,
		"os.Hostname": true, "os.Getpid": true, "filepath.Abs": true, "os.UserHomeDir": true, "os.TempDir": true}
	for _, p := range files {
		f := parsed[p]
		rel, _ := filepath.Rel(repo, p)
		for _, d := range f.Decls {
			if gd, ok := d.(*ast.GenDecl); ok && gd.Tok == token.VAR {
				for _, sp := range gd.Specs {
					for _, nm := range sp.(*ast.ValueSpec).Names {
						pkgVars = append(pkgVars, rel+":"+nm.Name)
					}
				}
			}
			fd, ok := d.(*ast.FuncDecl)
			if !ok || fd.Body == nil {
				continue
			}
			ast.Inspect(fd.Body, func(n ast.Node) bool {
				switch v := n.(type) {
				case *ast.RangeStmt:
					_, isSel := v.X.(*ast.SelectorExpr)
					if (isSel && mapNames[lastName(v.X)]) || (!isSel && mapIdents[lastName(v.X)]) {
						mapRanges = append(mapRanges, fmt.Sprintf("%s:%s:%s", rel, fd.Name.Name, exprText(v.X)))
					}
				case *ast.CallExpr:
					if se, ok := v.Fun.(*ast.SelectorExpr); ok {
						if id, ok := se.X.(*ast.Ident); ok {
							full := id.Name + "." + se.Sel.Name
							if id.Name == "maps" {
								mapsCalls = append(mapsCalls, fmt.Sprintf("%s:%s:%s", rel, fd.Name.Name, full))
							}
							if envFuncs[full] || id.Name == "rand" {
								envCalls = append(envCalls, fmt.Sprintf("%s:%s:%s", rel, fd.Name.Name, full))
							}
						}
					}
				}
				return true
			})
		}
	}
	// format / message literals of every error that is constructed (C13: an error is never empty)
	errFormats := []string{}
	errFuncs := map[string]bool{"New": true, "Errorf": true, "atError": true, "expectedError": true, "expectedKeywordError": true}
	for _, p := range files {
		ast.Inspect(parsed[p], func(n ast.Node) bool {
			c, ok := n.(*ast.CallExpr)
			if !ok || len(c.Args) == 0 {
				return true
			}
			name := ""
			switch f := c.Fun.(type) {
			case *ast.SelectorExpr:
				name = f.Sel.Name
			case *ast.Ident:
				name = f.Name
			}
			if errFuncs[name] {
				if bl, ok := c.Args[0].(*ast.BasicLit); ok && bl.Kind == token.STRING {
					v, err := strconv.Unquote(bl.Value)
					if err == nil {
						errFormats = append(errFormats, v)
					}
				}
			}
			return true
		})
	}
	// the fields of every struct type (the state a transpilation can keep between calls lives here)
	structFields := []string{}
	for _, p := range files {
		rel, _ := filepath.Rel(repo, p)
		for _, d := range parsed[p].Decls {
			gd, ok := d.(*ast.GenDecl)
			if !ok || gd.Tok != token.TYPE {
				continue
			}
			for _, sp := range gd.Specs {
				ts := sp.(*ast.TypeSpec)
				st, ok := ts.Type.(*ast.StructType)
				if !ok {
					continue
				}
				fl := []string{}
				for _, fd := range st.Fields.List {
					ty := exprText(fd.Type)
					if len(fd.Names) == 0 {
						fl = append(fl, ty)
					}
					for _, nm := range fd.Names {
						fl = append(fl, nm.Name+" "+ty)
					}
				}
				structFields = append(structFields, rel+":"+ts.Name.Name+": "+strings.Join(fl, "; "))
			}
		}
	}
	var b strings.Builder
	b.WriteString("-- GENERATED by /verif/tools/extract from the non-test Go source of /repo -- do not edit.\nnamespace Tsh.Facts\n\n")
	list := func(name string, xs []string) {
		b.WriteString("def " + name + " : List String := [\n")
		for i, x := range xs {
			sep := ","
			if i == len(xs)-1 {
				sep = ""
			}
			b.WriteString("  " + leanStr(x) + sep + "\n")
		}
		b.WriteString("]\n\n")
	}
	list("mapRanges", mapRanges)
	list("mapsCalls", mapsCalls)
	list("pkgVars", pkgVars)
	list("envCalls", envCalls)
	list("structFields", structFields)
	// the structs that hold state during / between transpilations
	stateStructs := []string{}
	for _, sf := range structFields {
		for _, nm := range []string{":transpiler:", ":converter:", ":Parser:", ":context:"} {
			if strings.Contains(sf, nm) {
				stateStructs = append(stateStructs, sf)
			}
		}
	}
	list("stateStructs", stateStructs)
	list("errorFormats", errFormats)
	lens := []string{}
	for _, f := range errFormats {
		lens = append(lens, strconv.Itoa(len(f)))
	}
	b.WriteString("def errorFormatLengths : List Nat := [" + strings.Join(lens, ", ") + "]\n\n")
	b.WriteString("end Tsh.Facts\n")
	writeIfChanged(filepath.Join(out, "Facts.lean"), b.String())
}
