package main

func opTables(repo, out string) {}
func facts(repo, out string)    {}
