import TshVerif.Base
import TshVerif.Generated.LexTables
import TshVerif.Model.Lexer
