/-
  `tshmodel`: line-protocol driver around the executable Lean models.  One request per line on
  stdin, one answer line on stdout.  Core-only imports (no Mathlib) so that it links.
-/
import TshVerif.Model.Lexer
import TshVerif.Model.Sexp
import TshVerif.Model.ConvBash
import TshVerif.Model.ConvBatch
import TshVerif.Model.Parser
import TshVerif.Model.Cli
import TshVerif.Model.Wf
import TshVerif.Model.Typed
import TshVerif.Model.PTyped
import TshVerif.Model.StdStrings
import TshVerif.Sem.Src
import TshVerif.Sem2.Src
import TshVerif.Sem2.Bash
import TshVerif.Sem2.Cover
import TshVerif.Sem.CmdFrag
import TshVerif.Sem.CmdTree
import TshVerif.Sem.CmdLines
import TshVerif.Sem.BashFs

open Tsh

def tokLine (t : Lexer.Token) : String :=
  s!"{t.ty}:{hexOfBytes t.val}:{t.row}:{t.col}"

def handleLex (hex : String) : String :=
  match bytesOfHex hex with
  | none => "BADREQ"
  | some src =>
    match Lexer.tokenize src with
    | .ok ts => "OK " ++ " ".intercalate (ts.map tokLine)
    | .err => "ERR"
    | .diverge => "DIVERGE"

def withProgram (sexp : String) (f : Program → String) : String :=
  match Sexp.parse sexp with
  | none => "BADSEXP"
  | some sx =>
    match decProgram sx with
    | none => "BADAST"
    | some p => f p

/-- answer tag of a successful emission: the theorems about emitted scripts assume `wfStmts` of the
    AST, so an AST that is not well-formed is reported (it shows up as a correspondence break) -/
def wfTag (p : Program) : String :=
  -- typed: the parser's guarantee (PT.program, Props/C06Sem); where the program has none of the two constructs the parser takes
  -- beyond the emitters' discipline (PT.strictSs) also that discipline (typedProgram)
  if !wfStmts p then "NOTWF " else if !PT.program p || (PT.strictSs p && !typedProgram p) then "ILLTYPED "
  else if !placedStmts { brkAnywhere := true } p then "MISPLACED " else "OK "

/-- PTCHECK <sexp>: the conclusion of the parser theorem (Props/C06Sem) evaluated on an AST of the real parser -/
def handlePT (sexp : String) : String :=
  withProgram sexp fun p =>
    let b (x : Bool) := if x then "1" else "0"
    "PT " ++ b (PT.program p) ++ " " ++ b (PT.strictSs p) ++ " " ++ b (typedProgram p) ++ " " ++ b (PT.sigSs [] p) ++
      " " ++ b (PT.useSs [] p)

def handleBash (sexp : String) : String :=
  withProgram sexp fun p =>
    match Bash.emitBash p with
    | .ok s => wfTag p ++ hexOfString s
    | .error _ => "ERR"
    | .panic _ => "PANIC"

/-- PARSE <main-hex> <exedir-hex> {<path-hex> <content-hex> <prefix>}*  (absolute virtual paths) -/
def handleParse (args : List String) : String :=
  match args with
  | mainHex :: exeHex :: rest =>
    let rec files (xs : List String) (acc : List (String × Bytes × String)) : Option (List (String × Bytes × String)) :=
      match xs with
      | [] => some acc.reverse
      | p :: c :: h :: more =>
        match bytesOfHex p, bytesOfHex c with
        | some pb, some cb => files more ((bytesStr pb, cb, h) :: acc)
        | _, _ => none
      | _ => none
    match bytesOfHex mainHex, bytesOfHex exeHex, files rest [] with
    | some m, some e, some fl =>
      match Parser.parse { files := fl, exeDir := bytesStr e } (bytesStr m) with
      | .ok p _ => "OK " ++ encProgram p.body
      | .error => "ERR"
      | .panic => "PANIC"
      | .diverge => "DIVERGE"
    | _, _, _ => "BADREQ"
  | _ => "BADREQ"

def parseArgs (args : List String) : Option (Parser.FileSys × String) :=
  match args with
  | mainHex :: exeHex :: rest =>
    let rec files (xs : List String) (acc : List (String × Bytes × String)) : Option (List (String × Bytes × String)) :=
      match xs with
      | [] => some acc.reverse
      | p :: c :: h :: more =>
        match bytesOfHex p, bytesOfHex c with
        | some pb, some cb => files more ((bytesStr pb, cb, h) :: acc)
        | _, _ => none
      | _ => none
    match bytesOfHex mainHex, bytesOfHex exeHex, files rest [] with
    | some m, some e, some fl => some ({ files := fl, exeDir := bytesStr e }, bytesStr m)
    | _, _, _ => none
  | _ => none

/-- COVER: source files -> does the call graph the parser collected cover every call of the code it keeps (the
    hypothesis of `C09.unused_function_removal_is_safe`), and how many definitions does the removal drop.
    answer `COVER <1|0> <statements before> <statements after>` -/
def handleCover (args : List String) : String :=
  match parseArgs args with
  | none => "BADREQ"
  | some (fs, m) =>
    match Parser.parseRaw fs m, Parser.parse fs m with
    | .ok raw _, .ok p _ =>
      "COVER " ++ (if C09.graphCovers raw.usedFuncs raw.body then "1" else "0") ++ " " ++ toString raw.body.length ++ " " ++ toString p.body.length
    | .error, _ => "ERR"
    | .panic, _ => "PANIC"
    | _, _ => "DIVERGE"

/-- FULLBASH: the whole model pipeline, source files -> bash script -/
def handleFullBash (args : List String) : String :=
  match parseArgs args with
  | none => "BADREQ"
  | some (fs, m) =>
    match Parser.parse fs m with
    | .ok p _ =>
      match Bash.emitBash p.body with
      | .ok s => wfTag p.body ++ hexOfString s
      | .error _ => "ERR"
      | .panic _ => "PANIC"
    | .error => "ERR"
    | .panic => "PANIC"
    | .diverge => "DIVERGE"

/-- SEM: source files -> the two semantic models on the same program.
    answer `SEM <src> <sh> <N|F1|F2|F12> <src1> <sh1>`, each result `U` (outside the fragment / out of fuel) or `<status>:<hex of stdout>` -/
def semRes (r : Option (Sem.Out × List String)) : String :=
  match r with
  | none => "U"
  | some (o, out) =>
    let st := match o with
      | .normal => "0"
      | .exit k => toString k
      | .brk => "brk"
      | .cont => "cont"
    st ++ ":" ++ hexOfString (String.join (out.map fun l => l ++ "\n"))

def semOut (st : String) (out : List String) : String :=
  st ++ ":" ++ hexOfString (String.join (out.map fun l => l ++ "\n"))

def handleSem (args : List String) : String :=
  match parseArgs args with
  | none => "BADREQ"
  | some (fs, m) =>
    match Parser.parse fs m with
    | .ok p _ =>
      let src := match Sem2.Src.runProgram 200000 p.body with
        | some (k, out) => semOut (toString k) out
        | none => "U"
      let sh := match Bash.compile p.body with
        | .ok ls =>
          match Sem2.run 200000 ls with
          | some (.normal, out) => semOut "0" out
          | some (.exit k, out) => semOut (toString k) out
          | _ => "U"
        | _ => "U"
      -- the fragments of the two semantic theorems: 1 = scalar (C01, models Sem), 2 = with functions (C02, models Sem2)
      let f1 := Sem.Src.fragStmts p.body
      let f2 := Sem2.Src.fragP [] p.body
      let flag := if f1 && f2 then "F12" else if f1 then "F1" else if f2 then "F2" else "N"
      -- the models the scalar theorem is about, on the programs of its fragment
      let src1 := if f1 then semRes (Sem.Src.runProgram 200000 p.body) else "-"
      let sh1 := if f1 then (match Bash.compile p.body with
        | .ok ls => semRes (Sem.run 200000 ls)
        | _ => "U") else "-"
      "SEM " ++ src ++ " " ++ sh ++ " " ++ flag ++ " " ++ src1 ++ " " ++ sh1
    | .error => "ERR"
    | .panic => "PANIC"
    | .diverge => "DIVERGE"

/-- SEMB: source files -> the two semantic models of the Batch target on the same program (scalar fragment only).
    answer `SEMB <src32> <cmd> <S|C|L|F|N> <tree> <lines>` (`<lines>`: `Sem/CmdLines.lrun`, the line-level semantics, on the lines from the first program line on): `Sem/Src32` on the AST, `Sem/Cmd` (the program-counter machine) on the emitted
    lines, `Sem/CmdTree` (the block tree rebuilt from the lines, executed by `execBs`; L = fragment of `batch_preserves_scalar_semantics`), and whether the program is in the straight-line fragment of `C05S.batch_preserves_straight_line_semantics_partial` (S),
    in the fragment of `batch_preserves_conditional_semantics_partial` (C: scalar, no loops), in the scalar fragment (F) or in neither (N) -/
def handleSemB (args : List String) : String :=
  match parseArgs args with
  | none => "BADREQ"
  | some (fs, m) =>
    match Parser.parse fs m with
    | .ok p _ =>
      let f1 := Sem.Src.fragStmts p.body
      let st := C05S.straight p.body
      let src := if f1 then semRes (SemB.Src32.runProgram 200000 p.body) else "-"
      let cmd := if f1 then (match Batch.compile p.body with
        | .ok ls => semRes (SemB.run 2000000 ls)
        | _ => "U") else "-"
      let tree := if f1 then (match Batch.compile p.body with
        | .ok ls => semRes (SemB.runTree 2000000 ls)
        | _ => "U") else "-"
      let lines := if f1 then (match Batch.compile p.body with
        | .ok ls => semRes (SemB.runLines 2000000 ls)
        | _ => "U") else "-"
      "SEMB " ++ src ++ " " ++ cmd ++ " " ++ (if st && f1 then "S" else if f1 && C05S.noLoopStmts p.body then "C"
        else if f1 && C05S.simpleLoopsStmts p.body then "L" else if f1 then "F" else "N") ++ " " ++ tree ++ " " ++ lines
    | .error => "ERR"
    | .panic => "PANIC"
    | .diverge => "DIVERGE"

/-- TRACE <hex>: every lexeme (blanks and comments included) as ty:texthex -/
def handleTrace (hex : String) : String :=
  match bytesOfHex hex with
  | none => "BADREQ"
  | some src =>
    match Lexer.tokenizeTrace src with
    | .ok (ls, _) => "OK " ++ " ".intercalate (ls.map fun l => s!"{l.ty}:{hexOfBytes l.text}")
    | .err => "ERR"
    | .diverge => "DIVERGE"

/-- CLI <bash: OKhex|ERR> <batch: OKhex|ERR> <nfiles> {pathhex contenthex}* <ndirs> {pathhex}* <nargs> {arghex}* -/
def handleCli (xs : List String) : String :=
  let lib (s : String) : Option Bytes := if s.startsWith "OK" then bytesOfHex (s.drop 2).toString else none
  match xs with
  | sh :: bat :: nf :: rest =>
    let nf := nf.toNat!
    let fl := rest.take (2 * nf)
    let rest := rest.drop (2 * nf)
    match rest with
    | nd :: rest =>
      let nd := nd.toNat!
      let dl := rest.take nd
      match rest.drop nd with
      | _na :: args =>
        let dec (h : String) : String := bytesStr ((bytesOfHex h).getD [])
        let rec pairs (l : List String) : List (String × Bytes) :=
          match l with
          | p :: c :: more => (Cli.clean (dec p), (bytesOfHex c).getD []) :: pairs more
          | _ => []
        let fs : Cli.FS := { files := pairs fl, dirs := dl.map fun d => Cli.clean (dec d) }
        let r := Cli.run fs (args.map dec) (fun t => match t with | .bash => lib sh | .batch => lib bat)
        s!"EXIT {r.status}" ++ String.join (r.writes.map fun (p, c) => s!" {hexOfString p}:{hexOfBytes c}")
      | [] => "BADREQ"
    | [] => "BADREQ"
  | _ => "BADREQ"

/-- FULLBATCH: the whole model pipeline, source files -> batch script -/
def handleFullBatch (args : List String) : String :=
  match parseArgs args with
  | none => "BADREQ"
  | some (fs, m) =>
    match Parser.parse fs m with
    | .ok p _ =>
      match Batch.emitBatch p.body with
      | .ok s => wfTag p.body ++ hexOfString s
      | .error _ => "ERR"
      | .panic _ => "PANIC"
    | .error => "ERR"
    | .panic => "PANIC"
    | .diverge => "DIVERGE"

/-! ### std/strings: STRM (rendering of the library) and STRS (specification of Go's package) -/

inductive SArg | s (v : Std.Str) | i (v : Int) | l (v : List Std.Str)

def decStr (h : String) : Option Std.Str := (bytesOfHex h).map fun bs => bs.map fun b => Char.ofNat b.toNat

def decSArg (a : String) : Option SArg :=
  if a.startsWith "s:" then (decStr (a.drop 2).toString).map SArg.s
  else if a.startsWith "i:" then (a.drop 2).toString.toInt?.map SArg.i
  else if a.startsWith "l:" then
    let body := (a.drop 2).toString
    if body == "-" then some (SArg.l []) else (body.splitOn ",").mapM decStr |>.map SArg.l
  else none

def encStr (s : Std.Str) : String := "s:" ++ hexOfBytes (s.map fun c => UInt8.ofNat c.toNat)
def encBool (b : Bool) : String := if b then "b:1" else "b:0"
def encList (l : List Std.Str) : String :=
  if l.isEmpty then "l:-" else "l:" ++ ",".intercalate (l.map fun e => hexOfBytes (e.map fun c => UInt8.ofNat c.toNat))

def handleStr (spec : Bool) (parts : List String) : String :=
  match parts with
  | fn :: args =>
    match args.mapM decSArg with
    | none => "BADREQ"
    | some as =>
      match fn, as with
      | "Index", [.s a, .s b] => s!"i:{if spec then Std.Go.index a b else Std.Lib.index a b}"
      | "Contains", [.s a, .s b] => encBool (if spec then Std.Go.contains a b else Std.Lib.contains a b)
      | "Join", [.l a, .s b] => encStr (if spec then Std.Go.join a b else Std.Lib.join a b)
      | "HasPrefix", [.s a, .s b] => encBool (if spec then Std.Go.hasPrefix a b else Std.Lib.hasPrefix a b)
      | "HasSuffix", [.s a, .s b] => encBool (if spec then Std.Go.hasSuffix a b else Std.Lib.hasSuffix a b)
      | "Count", [.s a, .s b] => s!"i:{if spec then Std.Go.count a b else Std.Lib.count a b}"
      | "Split", [.s a, .s b] => encList (if spec then Std.Go.split a b else Std.Lib.split a b)
      | "Repeat", [.s a, .i n] =>
          if spec then (match Std.Go.repeat_ a n with | some r => encStr r | none => "panic") else encStr (Std.Lib.repeat_ a n)
      | "Replace", [.s a, .s b, .s c, .i n] => encStr (if spec then Std.Go.replace a b c n else Std.Lib.replace a b c n)
      | "ReplaceAll", [.s a, .s b, .s c] => encStr (if spec then Std.Go.replaceAll a b c else Std.Lib.replaceAll a b c)
      | "Cut", [.s a, .s b] =>
          let r := if spec then Std.Go.cut a b else Std.Lib.cut a b
          encStr r.1 ++ " " ++ encStr r.2.1 ++ " " ++ encBool r.2.2
      | "CutPrefix", [.s a, .s b] =>
          let r := if spec then Std.Go.cutPrefix a b else Std.Lib.cutPrefix a b
          encStr r.1 ++ " " ++ encBool r.2
      | "CutSuffix", [.s a, .s b] =>
          let r := if spec then Std.Go.cutSuffix a b else Std.Lib.cutSuffix a b
          encStr r.1 ++ " " ++ encBool r.2
      | "TrimPrefix", [.s a, .s b] => encStr (if spec then Std.Go.trimPrefix a b else Std.Lib.trimPrefix a b)
      | "TrimSuffix", [.s a, .s b] => encStr (if spec then Std.Go.trimSuffix a b else Std.Lib.trimSuffix a b)
      | "TrimLeft", [.s a, .s b] => encStr (if spec then Std.Go.trimLeft a b else Std.Lib.trimLeft a b)
      | "TrimRight", [.s a, .s b] => encStr (if spec then Std.Go.trimRight a b else Std.Lib.trimRight a b)
      | "Trim", [.s a, .s b] => encStr (if spec then Std.Go.trim a b else Std.Lib.trim a b)
      | "TrimSpace", [.s a] => encStr (if spec then Std.Go.trimSpace a else Std.Lib.trimSpace a)
      | _, _ => "unknown"
  | [] => "BADREQ"

/-! request `FS`: a history of file operations run in `Sem/BashFs` (files are numbers; `w:<f>:<hex>` write, `a:<f>:<hex>` append,
    `r:<f>` read, `e:<f>` exists).  Answer: one item per `r` / `e` in order, then `|`, then the files 0..15 that exist. -/
def fsStep (st : BashFs.Fs Nat × List String) (op : String) : Option (BashFs.Fs Nat × List String) :=
  let (fs, acc) := st
  match op.splitOn ":" with
  | ["w", f, hex] => do
      let b ← decStr hex
      some (BashFs.stepFs fs ⟨f.toNat!, b, false⟩, acc)
  | ["a", f, hex] => do
      let b ← decStr hex
      some (BashFs.stepFs fs ⟨f.toNat!, b, true⟩, acc)
  | ["r", f] =>
      some (fs, acc ++ [match BashFs.readSubst fs f.toNat! with
                        | some b => "r:" ++ hexOfBytes (b.map fun c => UInt8.ofNat c.toNat)
                        | none => "r:none"])
  | ["e", f] => some (fs, acc ++ [if BashFs.existsTest fs f.toNat! then "e:1" else "e:0"])
  | _ => none

def handleFs (ops : List String) : String :=
  let rec go (st : BashFs.Fs Nat × List String) : List String → Option (BashFs.Fs Nat × List String)
    | [] => some st
    | o :: os => match fsStep st o with
        | some st' => go st' os
        | none => none
  match go (⟨fun _ => none⟩, []) (ops.filter (· != "")) with
  | none => "BADREQ"
  | some (fs, acc) =>
      let files := (List.range 16).filterMap fun f =>
        (fs.content f).map fun b => s!"f:{f}:" ++ hexOfBytes (b.map fun c => UInt8.ofNat c.toNat)
      " ".intercalate (acc ++ ["|"] ++ files)

def handle (line : String) : String :=
  if line.startsWith "FS " then handleFs ((line.drop 3).toString.splitOn " ") else
  if line.startsWith "STRM " then handleStr false ((line.drop 5).toString.splitOn " ") else
  if line.startsWith "STRS " then handleStr true ((line.drop 5).toString.splitOn " ") else
  if line.startsWith "FULLBATCH " then handleFullBatch ((line.drop 10).toString.splitOn " ") else
  if line.startsWith "CLI " then handleCli ((line.drop 4).toString.splitOn " ") else
  if line.startsWith "COVER " then handleCover ((line.drop 6).toString.splitOn " ") else
  if line.startsWith "SEM " then handleSem ((line.drop 4).toString.splitOn " ") else
  if line.startsWith "SEMB " then handleSemB ((line.drop 5).toString.splitOn " ") else
  if line.startsWith "FULLBASH " then handleFullBash ((line.drop 9).toString.splitOn " ") else
  if line.startsWith "PARSE " then handleParse ((line.drop 6).toString.splitOn " ") else
  if line.startsWith "PTCHECK " then handlePT (line.drop 8).toString else
  if line.startsWith "BASH " then handleBash (line.drop 5).toString else
  match line.splitOn " " with
  | ["LEX"] => handleLex ""
  | ["LEX", hex] => handleLex hex
  | ["TRACE"] => handleTrace ""
  | ["TRACE", hex] => handleTrace hex
  | _ => "BADREQ"

partial def loop (h : IO.FS.Stream) (out : IO.FS.Stream) : IO Unit := do
  let line ← h.getLine
  if line.isEmpty then return ()
  let line := (line.dropEndWhile (fun c => c == '\n' || c == '\r')).toString
  out.putStrLn (handle line)
  loop h out

def main : IO Unit := do
  let stdin ← IO.getStdin
  let stdout ← IO.getStdout
  loop stdin stdout
  stdout.flush
