/-
  `tshmodel`: line-protocol driver around the executable Lean models.  One request per line on
  stdin, one answer line on stdout.  Core-only imports (no Mathlib) so that it links.
-/
import TshVerif.Model.Lexer

open Tsh

def tokLine (t : Lexer.Token) : String :=
  s!"{t.ty}:{hexOfBytes t.val}:{t.row}:{t.col}"

def handleLex (hex : String) : String :=
  match bytesOfHex hex with
  | none => "BADREQ"
  | some src =>
    match Lexer.tokenize src with
    | .ok ts => "OK " ++ " ".intercalate (ts.map tokLine)
    | .err => "ERR"
    | .diverge => "DIVERGE"

def handle (line : String) : String :=
  match line.splitOn " " with
  | ["LEX"] => handleLex ""
  | ["LEX", hex] => handleLex hex
  | _ => "BADREQ"

partial def loop (h : IO.FS.Stream) (out : IO.FS.Stream) : IO Unit := do
  let line ← h.getLine
  if line.isEmpty then return ()
  let line := (line.dropRightWhile (fun c => c == '\n' || c == '\r'))
  out.putStrLn (handle line)
  loop h out

def main : IO Unit := do
  let stdin ← IO.getStdin
  let stdout ← IO.getStdout
  loop stdin stdout
  stdout.flush
