/-
  Model of /repo/converters/bash/converter.go: converter state, every method as a state transformer
  over *structured* lines (`Line`, one constructor per line template), `Line.render` for the text,
  `Dump`.  `emitBash p` = `Transpile` with a fresh bash converter.

  Tied to the code by byte-for-byte comparison with the script the real `Transpile` returns.
-/
import TshVerif.Model.Transpile
namespace Tsh.Bash
open Tsh Tsh.Tr

/-- The test of a conditional value `$(if TEST; then echo a; else echo b; fi)`. -/
inductive Test
  | cmp (l os r : String)                           -- `[ "l" os "r" ]`
  | log (l op r : String)                           -- `[ "l" -eq "1" ] op [ "r" -eq "1" ]`
  | exists_ (p : String)                            -- `[ -e "p" ]`
deriving Repr, DecidableEq

def Test.render : Test → String
  | .cmp l os r => s!"[ \"{l}\" {os} \"{r}\" ]"
  | .log l op r => s!"[ \"{l}\" -eq \"1\" ] {op} [ \"{r}\" -eq \"1\" ]"
  | .exists_ p => s!"[ -e \"{p}\" ]"

/-- One emitted line of the bash converter.  Operands are already-rendered operand texts
    (`${x}`, `${_h3}`, literal text, decimal numbers) exactly as the Go code passes them around. -/
inductive Line
  | shebang
  | comment (text : String)                         -- `# global … helper`
  | raw (text : String)                             -- fixed helper-body lines
  | assign (name : String) (value : String)         -- varAssignmentString (quote heuristic in render)
  | assignArith (name l op r : String)              -- `name="$((l op r))"`
  | assignTest (name : String) (t : Test) (a b : String)   -- `name="$(if t; then echo a; else echo b; fi)"`
  | localAssign (name : String) (idx : Nat)         -- `local name="${idx}"` (positional parameter of the function; braces: `$10` would be `${1}0`)
  | assignSliceLen (name src : String)              -- `name="$(eval "echo \${#src[@]}")"` (number of elements of the slice `src` names)
  | assignStrLen (name var : String)                -- `name="${#var}"` (length of the value of variable `var`)
  | sah (arr index value dflt : String)             -- `_sah ${arr} idx "v" "d"`
  | funcStart (name : String)
  | funcEnd
  | ret                                             -- `return`
  | ifStart (word cond : String)                    -- `if|elif [ c -eq 1 ]; then`
  | else_
  | fi
  | forFlagInit (n : Nat)                           -- `_fv<n>=`
  | whileStart                                      -- `while true; do`
  | incrStart (n : Nat)                             -- `if [ ! -z ${_fv<n>} ]; then`
  | incrFlagSet (n : Nat)                           -- `_fv<n>=1`
  | forCond (cond : String)                         -- `if [ c -ne 1 ]; then break; fi`
  | done
  | brk
  | cont
  | echo (text : String)                            -- `printf '%s\n' "text"`
  | exit1
  | nop
  | writeFile (append content path : String)        -- `if [ "a" -eq "1" ]; then printf … >> "p"; else printf … > "p"; fi`
  | dvcIncr                                         -- `_dvc=$((${_dvc}+1))`
  | sahInit (arr : String) (index : Nat) (value : String)   -- `_sah ${h} i "v" ""` (slice literal element)
  | sliceLoad (target name index : String)          -- `eval "t=\"\${name[idx]}\""`
  | ssh (value a b : String)                        -- `_ssh "v" a b`
  | callFn (name : String) (args : List String)     -- `name "a1" "a2"`
  | sch (dst src : String)                          -- `_sch dst src`
  | readIn (prompt helper : String)                 -- `IFS= read -r -p "p" h`
  | appCall (text : String)                         -- uncaptured program call chain
deriving Repr, DecidableEq

def Line.render : Line → String
  | .shebang => "#!/bin/bash"
  | .comment t => s!"# global {t} helper"
  | .raw t => t
  | .assign n v => s!"{n}=\"{v}\""
  | .assignArith n l op r => s!"{n}=\"$(({l}{op}{r}))\""
  | .assignTest n t a b => s!"{n}=\"$(if {t.render}; then echo {a}; else echo {b}; fi)\""
  | .localAssign n i => "local " ++ n ++ "=\"${" ++ toString i ++ "}\""
  | .assignSliceLen n src => n ++ "=\"$(eval \"echo \\${#" ++ src ++ "[@]}\")\""
  | .assignStrLen n v => n ++ "=\"${#" ++ v ++ "}\""
  | .sah a i v d => s!"_sah {a} {i} \"{v}\" \"{d}\""
  | .funcStart n => s!"{n}() \{"
  | .funcEnd => "}"
  | .ret => "return"
  | .ifStart w c => s!"{w} [ {c} -eq 1 ]; then"
  | .else_ => "else"
  | .fi => "fi"
  | .forFlagInit n => s!"_fv{n}="
  | .whileStart => "while true; do"
  | .incrStart n => "if [ ! -z ${_fv" ++ toString n ++ "} ]; then"
  | .incrFlagSet n => s!"_fv{n}=1"
  | .forCond c => s!"if [ {c} -ne 1 ]; then break; fi"
  | .done => "done"
  | .brk => "break"
  | .cont => "continue"
  | .echo t => "printf '%s\\n' \"" ++ t ++ "\""
  | .exit1 => "exit 1"
  | .nop => ": # No operation"
  | .writeFile a c p =>
      "if [ \"" ++ a ++ "\" -eq \"1\" ]; then printf '%s\\n' \"" ++ c ++ "\" >> \"" ++ p ++ "\"; else printf '%s\\n' \"" ++ c ++ "\" > \"" ++ p ++ "\"; fi"
  | .dvcIncr => "_dvc=$((${_dvc}+1))"
  | .sahInit a i v => s!"_sah {a} {i} \"{v}\" \"\""
  | .sliceLoad t n i => "eval \"" ++ t ++ "=\\\"\\${" ++ n ++ "[" ++ i ++ "]}\\\"\""
  | .ssh v a b => s!"_ssh \"{v}\" {a} {b}"
  | .callFn n args => s!"{n} {" ".intercalate (args.map fun a => "\"" ++ a ++ "\"")}"
  | .sch d s => s!"_sch {d} {s}"
  | .readIn p h => s!"IFS= read -r{p} {h}"
  | .appCall t => t

structure St where
  startCode : List Line := []      -- reversed
  code : List Line := []           -- reversed
  varCounter : Nat := 0
  forCounter : Nat := 0
  fors : List Nat := []            -- innermost first
  funcs : List String := []        -- innermost first
  funcCounter : Nat := 0
  sahReq : Bool := false
  schReq : Bool := false
  sshReq : Bool := false
deriving Repr

abbrev BM := EM St

def addLine (l : Line) : BM Unit := modify fun s => { s with code := l :: s.code }
def addStartLine (l : Line) : BM Unit := modify fun s => { s with startCode := l :: s.startCode }

def inFunction (s : St) : Bool := !s.funcs.isEmpty

def varName (s : St) (name : String) (global : Bool) : String :=
  if inFunction s && !global then s!"f{s.funcCounter}_{name}" else name

def varEvalString (s : St) (name : String) (global : Bool) : String :=
  "${" ++ varName s name global ++ "}"

def nextHelperVar : BM String := fun s =>
  .ok (s!"_h{s.varCounter}", { s with varCounter := s.varCounter + 1 })

/-- `VarAssignment` / `VarDefinition` -/
def varAssignment (name value : String) (global : Bool) : BM Unit := do
  let s ← get
  addLine (.assign (varName s name global) value)

def varAssignArith (name l op r : String) (global : Bool) : BM Unit := do
  let s ← get
  addLine (.assignArith (varName s name global) l op r)

def varAssignTest (name : String) (t : Test) (a b : String) (global : Bool) : BM Unit := do
  let s ← get
  addLine (.assignTest (varName s name global) t a b)

def varAssignSliceLen (name src : String) (global : Bool) : BM Unit := do
  let s ← get
  addLine (.assignSliceLen (varName s name global) src)

/-- `name="${#name}"`: the variable is overwritten with the length of its own value -/
def varAssignStrLen (name : String) (global : Bool) : BM Unit := do
  let s ← get
  addLine (.assignStrLen (varName s name global) (varName s name global))

def varEvaluation (name : String) (global : Bool) : BM String := do
  let s ← get
  pure (varEvalString s name global)

def sliceLenString (name : String) : String := "$(eval \"echo \\${#" ++ name ++ "[@]}\")"
def sliceEvaluationString (target name index : String) : String :=
  "eval \"" ++ target ++ "=\\\"\\${" ++ name ++ "[" ++ index ++ "]}\\\"\""
def sliceAssignmentString (name index valueVar : String) : String :=
  "eval \"" ++ name ++ "[" ++ index ++ "]=\\\"\\${" ++ valueVar ++ "}\\\"\""

/-- escaping of one character of a string literal (`StringToString`): backslash and double quote -/
def escChar (c : Char) : List Char := if c == '\\' || c == '"' then ['\\', c] else [c]

/-- bash `StringToString` -/
def stringToString (s : String) : String := String.ofList (s.toList.flatMap escChar)

def condAssign (test : String) (t f : String) : String :=
  s!"$(if {test}; then echo {t}; else echo {f}; fi)"

def unaryOp (expr op : String) : BM String := do
  let h ← nextHelperVar
  if op == "!" then
    varAssignTest h (.cmp expr "-eq" "1") "0" "1" false
    varEvaluation h false
  else fail s!"unknown unary operator \"{op}\""

def notAllowedBin (op : String) (vt : ValueType) : BM String :=
  fail s!"binary operation {op} is not allowed on type {vt.name}"

def binaryOp (left op right : String) (vt : ValueType) : BM String := do
  let h ← nextHelperVar
  if vt.isSlice then notAllowedBin op vt else
  match vt.dt with
  | .int =>
    if op == "*" || op == "/" || op == "%" || op == "+" || op == "-" then do
      varAssignArith h left op right false
      varEvaluation h false
    else notAllowedBin op vt
  | .string =>
    if op == "+" then do
      varAssignment h s!"{left}{right}" false
      varEvaluation h false
    else notAllowedBin op vt
  | _ => notAllowedBin op vt

def compareOpString (op : String) (vt : ValueType) : String :=
  if vt.isSlice then "" else
  match vt.dt with
  | .bool => if op == "==" then "-eq" else if op == "!=" then "-ne" else ""
  | .int =>
    if op == "==" then "-eq" else if op == "!=" then "-ne" else if op == ">" then "-gt"
    else if op == ">=" then "-ge" else if op == "<" then "-lt" else if op == "<=" then "-le" else ""
  | .string => if op == "==" then "==" else if op == "!=" then "!=" else ""
  | _ => ""

def comparisonOpWith (os left op right : String) (vt : ValueType) : BM String :=
  if os.length == 0 then fail s!"comparison {op} is not allowed on type {vt.name}" else do
  let h ← nextHelperVar
  varAssignTest h (.cmp left os right) "1" "0" false
  varEvaluation h false

def comparisonOp (left op right : String) (vt : ValueType) : BM String :=
  comparisonOpWith (compareOpString op vt) left op right vt

def logicalOp (left op right : String) : BM String := do
  if op == "&&" || op == "||" then
    let h ← nextHelperVar
    varAssignTest h (.log left op right) "1" "0" false
    varEvaluation h false
  else fail s!"unknown logical operator \"{op}\""

def sahInits (arr : String) : List String → Nat → BM Unit
  | [], _ => pure ()
  | v :: rest, i => do
      modify fun s => { s with sahReq := true }
      addLine (.sahInit arr i v)
      sahInits arr rest (i + 1)

def sliceInstantiation (values : List String) : BM String := do
  let s ← get
  addLine .dvcIncr
  let h ← nextHelperVar
  varAssignment h ("_dv" ++ varEvalString s "_dvc" true) false
  let s ← get
  sahInits (varEvalString s h false) values 0
  pure (varEvalString s h false)

def sliceEvaluation (name index : String) : BM String := do
  let h ← nextHelperVar
  let s ← get
  addLine (.sliceLoad (varName s h false) name index)
  varEvaluation h false

def sliceLen (name : String) : BM String := do
  let h ← nextHelperVar
  varAssignSliceLen h name false
  varEvaluation h false

def stringSubscript (value a b : String) : BM String := do
  let h ← nextHelperVar
  addLine (.ssh value a b)
  let s ← get
  varAssignment h (varEvalString s "_ret" true) false
  modify fun s => { s with sshReq := true }
  let s ← get
  pure (varEvalString s h false)

def stringLen (value : String) : BM String := do
  let h ← nextHelperVar
  varAssignment h value false
  varAssignStrLen h false
  varEvaluation h false

def appCallString (calls : List (String × List String)) : String :=
  " | ".intercalate (calls.map fun (name, args) =>
    let args' := args.map fun a => "\"" ++ a ++ "\""
    "\"" ++ stringToString name ++ "\"" ++ (if args'.isEmpty then "" else " ") ++ " ".intercalate args')

def appCallWith (cs : String) (used : Bool) : BM (List String) := do
  if used then
    let h1 ← nextHelperVar
    let h2 ← nextHelperVar
    varAssignment h1 s!"$({cs})" false
    let e ← varEvaluation h1 false
    varAssignment h2 "$?" false
    let s ← get
    pure [e, "", varEvalString s h2 false]
  else
    addLine (.appCall cs)
    pure ["", "", "0"]

def appCall (calls : List (String × List String)) (used : Bool) : BM (List String) :=
  appCallWith (appCallString calls) used

def promptArg (prompt : String) : String := if prompt.length > 0 then s!" -p \"{prompt}\"" else prompt

def inputOp (prompt : String) : BM String := do
  let h ← nextHelperVar
  let s ← get
  addLine (.readIn (promptArg prompt) (varName s h false))
  varEvaluation h false

def copyOp (dst src : String) (global : Bool) : BM String := do
  let s0 ← get
  addLine (.sch (varName s0 dst global) src)
  modify fun s => { s with sahReq := true, schReq := true }
  let h ← nextHelperVar
  varAssignSliceLen h src false
  let s ← get
  pure (varEvalString s h false)

def existsOp (path : String) : BM String := do
  let h ← nextHelperVar
  varAssignTest h (.exists_ path) "1" "0" false
  varEvaluation h false

def readFile (path : String) : BM String := do
  let h ← nextHelperVar
  varAssignment h s!"$(cat < \"{path}\")" false
  varEvaluation h false

/-- the bodies of the three helper routines (fixed text) -/
def sahBodyLines : List Line :=
  [.raw "local _i=${2}",
   .raw ("local _l=" ++ sliceLenString "${1}"),
   .raw "for ((_c=${_l};_c<${_i};_c++)); do",
   .raw (sliceAssignmentString "${1}" "${_c}" "4"),
   .raw "done",
   .raw (sliceAssignmentString "${1}" "${_i}" "3")]

def schBodyLines : List Line :=
  [.raw "local _i=0",
   .raw ("local _l=" ++ sliceLenString "${2}"),
   .raw "local _n=$(eval \"echo \\${${1}}\")",
   .raw "while [ ${_i} -lt ${_l} ]; do",
   .raw (sliceEvaluationString "local _v" "${2}" "${_i}"),
   .raw (sliceAssignmentString "${_n}" "${_i}" "_v"),
   .raw "_i=$((${_i}+1))",
   .raw "done"]

def sshBodyLines : List Line :=
  [.raw "_ls=$((${2}))",
   .raw "_ll=$(((${3}-${2})+1))",
   .raw "_ret=\"${1:${_ls}:${_ll}}\""]

def helperLines (s : St) : List Line :=
  (if s.sahReq then .comment "slice assignment" :: .funcStart "_sah" :: (sahBodyLines ++ [.funcEnd]) else []) ++
  (if s.schReq then .comment "slice copy" :: .funcStart "_sch" :: (schBodyLines ++ [.funcEnd]) else []) ++
  (if s.sshReq then .comment "substring" :: .funcStart "_ssh" :: (sshBodyLines ++ [.funcEnd]) else [])

def currentForVar : BM Nat := fun s =>
  match s.fors with
  | n :: _ => .ok (n, s)
  | [] => .panic "index out of range [-1]"

def storeRets : List String → Nat → BM Unit
  | [], _ => pure ()
  | v :: rest, i => do varAssignment s!"_rv{i}" v true; storeRets rest (i + 1)

def localParams : List String → Nat → BM Unit
  | [], _ => pure ()
  | p :: rest, i => do
      let s ← get
      addLine (.localAssign (varName s p false) (i + 1))
      localParams rest (i + 1)

/-- copies of the return registers after a call: `h_i="${_rv<i>}"` -/
def copyRets : Nat → Nat → BM (List String)
  | 0, _ => pure []
  | n + 1, i => do
      let h ← nextHelperVar
      let s ← get
      varAssignment h (varEvalString s s!"_rv{i}" true) false
      let e ← varEvaluation h false
      let rest ← copyRets n (i + 1)
      pure (e :: rest)

def funcCall (name : String) (args : List String) (rets : List ValueType) (used : Bool) : BM (List String) := do
  addLine (.callFn name args)
  let out ← (if used then copyRets rets.length 0 else pure [])
  -- make sure return values contain as many values as expected
  pure (out ++ List.replicate (rets.length - out.length) "")

/-- the bash converter as a `Conv` -/
def conv : Conv St where
  stringToString s := pure (stringToString s)
  programStart := addStartLine .shebang
  programEnd := pure ()                       -- the helper routines are added by `dumpLines`
  varDefinition := varAssignment
  sliceAssignment name index value dflt global := do
      modify fun s => { s with sahReq := true }
      let s ← get
      addLine (.sah (varEvalString s name global) index value dflt)
  funcStart name params := do
      modify fun s => { s with funcs := name :: s.funcs, funcCounter := s.funcCounter + 1 }
      addLine (.funcStart name)
      localParams params 0
  funcEnd := do
      addLine .funcEnd
      modify fun s => { s with funcs := s.funcs.drop 1 }
  ret vals := do storeRets vals 0; addLine .ret
  ifStart c := addLine (.ifStart "if" c)
  ifEnd := addLine .fi
  elseIfStart c := addLine (.ifStart "elif" c)
  elseIfEnd := pure ()
  elseStart := addLine .else_
  elseEnd := pure ()
  forStart := do
      modify fun s => { s with fors := s.forCounter :: s.fors, forCounter := s.forCounter + 1 }
      let n ← currentForVar
      addLine (.forFlagInit n)
      addLine .whileStart
  forIncrementStart := do let n ← currentForVar; addLine (.incrStart n)
  forIncrementEnd := do let n ← currentForVar; addLine .fi; addLine (.incrFlagSet n)
  forCondition c := addLine (.forCond c)
  forEnd := do
      addLine .done
      modify fun s => { s with fors := s.fors.drop 1 }
  brk := addLine .brk
  cont := addLine .cont
  print vals := addLine (.echo (" ".intercalate vals))
  panic v := do addLine (.echo v); addLine .exit1
  writeFile path content append := addLine (.writeFile append content path)
  nop := addLine .nop
  unaryOperation expr op _ _ := unaryOp expr op
  binaryOperation left op right vt _ := binaryOp left op right vt
  comparison left op right vt _ := comparisonOp left op right vt
  logicalOperation left op right _ _ := logicalOp left op right
  varEvaluation name _ global := varEvaluation name global
  sliceInstantiation vals _ := sliceInstantiation vals
  sliceEvaluation name index _ := sliceEvaluation name index
  sliceLen name _ := sliceLen name
  stringSubscript value a b _ := stringSubscript value a b
  stringLen value _ := stringLen value
  funcCall := funcCall
  appCall := appCall
  input prompt _ := inputOp prompt
  copy dst src _ global := copyOp dst src global
  exists_ path _ := existsOp path
  readFile path _ := readFile path

/-- all lines of the script, in `Dump` order (start code, helper routines, code) -/
def dumpLines (s : St) : List Line := s.startCode.reverse ++ helperLines s ++ s.code.reverse

def compile (p : Program) : Res (List Line) :=
  match evalProgram conv p {} with
  | .ok (_, s) => .ok (dumpLines s)
  | .error m => .error m
  | .panic m => .panic m

def renderScript (ls : List Line) : String :=
  "\n".intercalate (ls.map Line.render ++ [""])

def emitBash (p : Program) : Res String :=
  match compile p with
  | .ok ls => .ok (renderScript ls)
  | .error m => .error m
  | .panic m => .panic m

end Tsh.Bash
