/-
  What the PARSER guarantees about the ASTs it accepts, as an executable checker (`PT.program`).

  `Model/Typed.lean` is the discipline the EMITTERS need (hypothesis of the emit-totality theorems).  This file is the
  other half: the typing facts the parser's own checks establish, read off the parser function by function and PROVED
  of the parser model in `Lemmas/ParserTyped.lean` (`Props/C06Sem.lean`: every accepted program satisfies `PT.program`).
  The checker is also run on every AST the REAL parser returns (driver tag `PT`), so the theorem's conclusion is
  checked against the code in every correspondence run.

  `PT` is stronger than `typed` where the AST carries the information (a defined / assigned variable has the type of
  its value, slice elements and element assignments have the element type, the last statement of a value-returning
  function returns the declared types, no type outside bool / int / string / slices of them / the two pseudo types
  occurs) and WEAKER in exactly the places where the parser accepts more than the emitters take (`strict` below):
  ordering comparison of strings (accepted by the parser, refused by both emitters) and a program call in a
  single-value position (`f(@ls())`, `a, b := @x(), @y()`: its standard output is taken).
-/
import TshVerif.Model.Typed
import TshVerif.Model.Parser
namespace Tsh.PT
open Tsh Tsh.Tr

/-- a type of the language: bool, int, string, slices of them, and - never as a slice - the two pseudo types of calls
    (`unknown`: no value, `multiple`: several values / a program call) -/
def known (vt : ValueType) : Bool :=
  match vt.dt with
  | .other _ => false
  | .unknown | .multiple => !vt.isSlice
  | _ => true

/-- bool, int or string, possibly as a slice -/
def basic (vt : ValueType) : Bool := vt.dt == .bool || vt.dt == .int || vt.dt == .string

/-- the parser's comparison table (`allowedCompare`): ordering also on strings -/
def cmpAllowed (vt : ValueType) (op : String) : Bool :=
  !vt.isSlice &&
  ((vt.dt == .bool && (op == "==" || op == "!=")) ||
   ((vt.dt == .int || vt.dt == .string) &&
      (op == "==" || op == "!=" || op == "<" || op == "<=" || op == ">" || op == ">=")))

/-- a function call stands for exactly one value (every other expression does) -/
def callArity1 : Expr → Bool
  | .call _ rets _ => rets.length == 1
  | _ => true

def strT : ValueType := ⟨.string, false⟩
def intT : ValueType := ⟨.int, false⟩

/-- the value types of a call that yields several values -/
def multiTypes : Expr → Option (List ValueType)
  | .call _ rets _ => if rets.length > 1 then some rets else none
  | .app _ _ _ => some [strT, strT, intT]
  | _ => none

mutual
def expr : Expr → Bool
  | .boolLit _ | .intLit _ | .strLit _ => true
  | .varEval v => known v.vt
  | .unary op x vt => op == "!" && expr x && (Expr.valueType x).isBool && vt == Expr.valueType x
  | .binary op l r =>
      expr l && expr r && (Expr.valueType l).equals (Expr.valueType r) && binaryAllowed (Expr.valueType l) op
  | .compare op l r =>
      expr l && expr r && (Expr.valueType l).equals (Expr.valueType r) && cmpAllowed (Expr.valueType l) op
  | .logical op l r =>
      expr l && expr r && (Expr.valueType l).isBool && (Expr.valueType r).isBool && (op == "&&" || op == "||")
  | .group x => expr x
  | .call _ rets args => args_ args && rets.all basic
  | .app _ args none => args_ args
  | .app _ args (some nx) => args_ args && chain nx
  | .sliceNew dt vals => elems dt vals && basicDt dt
  | .sliceEval v i dt =>
      expr v && expr i && (Expr.valueType v).isSlice && (Expr.valueType i).isInt && dt == (Expr.valueType v).dt
  | .substr v a none => expr v && expr a && (Expr.valueType v).isString && (Expr.valueType a).isInt
  | .substr v a (some b) =>
      expr v && expr a && expr b && (Expr.valueType v).isString && (Expr.valueType a).isInt && (Expr.valueType b).isInt
  | .len x => expr x && ((Expr.valueType x).isString || (Expr.valueType x).isSlice)
  | .itoa x => expr x && (Expr.valueType x).isInt
  | .exists_ x => expr x && (Expr.valueType x).isString
  | .read x => expr x && (Expr.valueType x).isString
  | .input none => true
  | .input (some x) => expr x && (Expr.valueType x).isString
  | .copy dst src => expr src && known dst.vt && dst.vt.isSlice && dst.vt.equals (Expr.valueType src)
  | .write _ _ _ => false
  | .bad _ => false

/-- arguments of calls and builtins: typed, and not the "value" of a function without return values -/
def args_ : List Expr → Bool
  | [] => true
  | e :: rest => expr e && (Expr.valueType e).dt != .unknown && args_ rest

/-- slice literal elements -/
def elems (dt : DataType) : List Expr → Bool
  | [] => true
  | e :: rest => expr e && (Expr.valueType e).equals ⟨dt, false⟩ && elems dt rest

def chain : Expr → Bool
  | .app _ args none => args_ args
  | .app _ args (some nx) => args_ args && chain nx
  | _ => false
end

def exprs : List Expr → Bool
  | [] => true
  | e :: rest => expr e && exprs rest

/-- the values of a definition or assignment with one value per variable: typed, one value each, and a value at all (not the
    "result" of a function that returns nothing) -/
def isApp : Expr → Bool
  | .app _ _ _ => true
  | _ => false

/-- an expression that stands for a value: not the "result" of a function that returns nothing, and several values only as
    a program call (whose standard output is taken) -/
def hasValue (e : Expr) : Bool :=
  (Expr.valueType e).dt != .unknown && ((Expr.valueType e).dt != .multiple || isApp e)

def vals1 : List Expr → Bool
  | [] => true
  | e :: rest => expr e && callArity1 e && hasValue e && vals1 rest

def varsMatch : List Var → List ValueType → Bool
  | [], [] => true
  | v :: vs, t :: ts => v.vt.equals t && varsMatch vs ts
  | _, _ => false

def varsKnown (vs : List Var) : Bool := vs.all fun v => known v.vt

def appendFlag : Option Expr → Bool
  | none => true
  | some x => expr x && (Expr.valueType x).isBool

mutual
def stmt : Stmt → Bool
  | .varDef vars vals => vals1 vals && varsMatch vars (vals.map Expr.valueType) && !vars.isEmpty && varsKnown vars
  | .assign vars vals => vals1 vals && varsMatch vars (vals.map Expr.valueType) && !vars.isEmpty && varsKnown vars
  | .varDefCall vars call =>
      expr call && !vars.isEmpty && varsKnown vars &&
      (match multiTypes call with | some ts => varsMatch vars ts | none => false)
  | .assignCall vars call =>
      expr call && !vars.isEmpty && varsKnown vars &&
      (match multiTypes call with | some ts => varsMatch vars ts | none => false)
  | .sliceAssign v index value =>
      expr index && expr value && (Expr.valueType index).isInt && known v.vt && v.vt.isSlice &&
      (Expr.valueType value).equals ⟨v.vt.dt, false⟩
  | .funcDef _ _ rets params body =>
      stmts body && Parser.funcBodyCheck rets body true && rets.all basic && params.all (fun p => basic p.vt)
  | .ret vals => exprs vals
  | .ifS cond body elifs els =>
      expr cond && (Expr.valueType cond).isBool && stmts body && elifs_ elifs && stmts els
  | .forS init cond incr body =>
      opt init && expr cond && (Expr.valueType cond).isBool && opt incr && stmts body
  | .brk => true
  | .cont => true
  | .print es => args_ es
  | .panic e => expr e && (Expr.valueType e).dt != .unknown
  | .expr (.write path data append) =>
      expr path && expr data && (Expr.valueType path).isString && (Expr.valueType data).isString && appendFlag append
  | .expr e => expr e && e.isCallLike

def stmts : List Stmt → Bool
  | [] => true
  | s :: rest => stmt s && stmts rest

def opt : Option Stmt → Bool
  | none => true
  | some s => stmt s

def elifs_ : List (Expr × List Stmt) → Bool
  | [] => true
  | (e, body) :: rest => expr e && (Expr.valueType e).isBool && stmts body && elifs_ rest
end

def program (p : Program) : Bool := stmts p

/-! ### the two places where the parser accepts more than the emitters take -/

mutual
/-- no ordering comparison of strings, no program call (or call with several values) in a single-value position -/
def strictE : Expr → Bool
  | .boolLit _ | .intLit _ | .strLit _ | .varEval _ | .input none | .bad _ => true
  | .unary _ x _ | .group x | .len x | .itoa x | .exists_ x | .read x | .input (some x) => strictE x
  | .binary _ l r | .logical _ l r => strictE l && strictE r
  | .compare op l r => strictE l && strictE r && compareAllowed (Expr.valueType l) op
  | .call _ _ args => strictArgs args
  | .app _ args none => strictArgs args
  | .app _ args (some nx) => strictArgs args && strictE nx
  | .sliceNew _ vals => strictArgs vals
  | .sliceEval v i _ => strictE v && strictE i
  | .substr v a none => strictE v && strictE a
  | .substr v a (some b) => strictE v && strictE a && strictE b
  | .copy _ src => strictE src
  | .write p d none => strictE p && strictE d
  | .write p d (some a) => strictE p && strictE d && strictE a

def strictArgs : List Expr → Bool
  | [] => true
  | e :: rest => strictE e && Expr.arity e == 1 && strictArgs rest
end

def strictAll : List Expr → Bool
  | [] => true
  | e :: rest => strictE e && strictAll rest

mutual
def strictS : Stmt → Bool
  | .varDef _ vals | .assign _ vals | .ret vals => strictArgs vals
  | .varDefCall _ call | .assignCall _ call => strictE call
  | .sliceAssign _ index value => strictE index && strictE value && Expr.arity index == 1 && Expr.arity value == 1
  | .funcDef _ _ _ _ body => strictSs body
  | .ifS cond body elifs els => strictE cond && strictSs body && strictEl elifs && strictSs els
  | .forS init cond incr body => strictO init && strictE cond && strictO incr && strictSs body
  | .brk | .cont => true
  | .print es => strictAll es
  | .panic e => strictE e
  | .expr e => strictE e

def strictSs : List Stmt → Bool
  | [] => true
  | s :: rest => strictS s && strictSs rest

def strictO : Option Stmt → Bool
  | none => true
  | some s => strictS s

def strictEl : List (Expr × List Stmt) → Bool
  | [] => true
  | (e, body) :: rest => strictE e && strictSs body && strictEl rest
end
end Tsh.PT

/-! ### calls agree with the signatures of the functions they name -/
namespace Tsh.PT
open Tsh Tsh.Tr

structure Sig where
  name : String
  rets : List ValueType
  params : List ValueType
deriving DecidableEq, Repr

/-- the arguments have the parameters' types, one each -/
def argsMatch : List ValueType → List Expr → Bool
  | [], [] => true
  | p :: ps, e :: es => p.equals (Expr.valueType e) && argsMatch ps es
  | _, _ => false

def declares (F : List Sig) (n : String) (rets : List ValueType) (args : List Expr) : Bool :=
  F.any fun f => f.name == n && f.rets == rets && argsMatch f.params args

mutual
/-- every function call in the expression names a function of `F` and passes what it takes, and is typed as returning
    what it returns -/
def sigE (F : List Sig) : Expr → Bool
  | .boolLit _ | .intLit _ | .strLit _ | .varEval _ | .input none | .bad _ => true
  | .unary _ x _ | .group x | .len x | .itoa x | .exists_ x | .read x | .input (some x) => sigE F x
  | .binary _ l r | .compare _ l r | .logical _ l r => sigE F l && sigE F r
  | .call n rets args => sigEs F args && declares F n rets args
  | .app _ args none => sigEs F args
  | .app _ args (some nx) => sigEs F args && sigE F nx
  | .sliceNew _ vals => sigEs F vals
  | .sliceEval v i _ => sigE F v && sigE F i
  | .substr v a none => sigE F v && sigE F a
  | .substr v a (some b) => sigE F v && sigE F a && sigE F b
  | .copy _ src => sigE F src
  | .write p d none => sigE F p && sigE F d
  | .write p d (some a) => sigE F p && sigE F d && sigE F a

def sigEs (F : List Sig) : List Expr → Bool
  | [] => true
  | e :: rest => sigE F e && sigEs F rest
end

/-- the signature a statement declares for the statements after it -/
def declare (F : List Sig) : Stmt → List Sig
  | .funcDef name _ rets params _ => ⟨name, rets, params.map (·.vt)⟩ :: F
  | _ => F

mutual
def sigS (F : List Sig) : Stmt → Bool
  | .varDef _ vals | .assign _ vals | .ret vals | .print vals => sigEs F vals
  | .varDefCall _ call | .assignCall _ call => sigE F call
  | .sliceAssign _ index value => sigE F index && sigE F value
  | .funcDef _ _ _ _ body => sigSs F body          -- a function is not known inside its own body: no recursion
  | .ifS cond body elifs els => sigE F cond && sigSs F body && sigEl F elifs && sigSs F els
  | .forS init cond incr body => sigO F init && sigE F cond && sigO F incr && sigSs F body
  | .brk | .cont => true
  | .panic e | .expr e => sigE F e

/-- statements in order: a function is known to the statements after its definition -/
def sigSs (F : List Sig) : List Stmt → Bool
  | [] => true
  | s :: rest => sigS F s && sigSs (declare F s) rest

def sigO (F : List Sig) : Option Stmt → Bool
  | none => true
  | some s => sigS F s

def sigEl (F : List Sig) : List (Expr × List Stmt) → Bool
  | [] => true
  | (e, body) :: rest => sigE F e && sigSs F body && sigEl F rest
end

def declareAll (F : List Sig) (ss : List Stmt) : List Sig := ss.foldl declare F

/-! ### variables: every use is of a variable that a definition, parameter list or loop header visible at that place
    introduced, with the type it was introduced with

`Γ` is the list of the variables visible at a place (a `Var` carries its stored name, its type and whether it is a global).
A block's definitions end with the block, a function body starts from the globals and the parameters. -/

mutual
def useE (Γ : List Var) : Expr → Bool
  | .boolLit _ | .intLit _ | .strLit _ | .input none | .bad _ => true
  | .varEval v => Γ.contains v
  | .unary _ x _ | .group x | .len x | .itoa x | .exists_ x | .read x | .input (some x) => useE Γ x
  | .binary _ l r | .compare _ l r | .logical _ l r => useE Γ l && useE Γ r
  | .call _ _ args => useEs Γ args
  | .app _ args none => useEs Γ args
  | .app _ args (some nx) => useEs Γ args && useE Γ nx
  | .sliceNew _ vals => useEs Γ vals
  | .sliceEval v i _ => useE Γ v && useE Γ i
  | .substr v a none => useE Γ v && useE Γ a
  | .substr v a (some b) => useE Γ v && useE Γ a && useE Γ b
  | .copy dst src => Γ.contains dst && useE Γ src
  | .write p d none => useE Γ p && useE Γ d
  | .write p d (some a) => useE Γ p && useE Γ d && useE Γ a

def useEs (Γ : List Var) : List Expr → Bool
  | [] => true
  | e :: rest => useE Γ e && useEs Γ rest
end

/-- the variables visible after a statement of a list -/
def declared (Γ : List Var) : Stmt → List Var
  | .varDef vars _ | .varDefCall vars _ => vars ++ Γ
  | _ => Γ

/-- a `for … range` loop reaches the converters as a plain loop over a counter that the loop itself introduces
    (`idx = 0; idx < len(x); idx = idx + 1`): the counter, recognised by that shape -/
def rangeIdx : Option Stmt → Expr → Option Var
  | some (.assign [idx] [.intLit 0]), .compare _ (.varEval idx') (.len _) => if idx == idx' then some idx else none
  | _, _ => none

/-- … and the element variable, which the loop body starts by setting from the counter -/
def rangeElem (idx : Var) : List Stmt → Option Var
  | .assign [v] [.sliceEval _ (.varEval i) _] :: _ => if i == idx then some v else none
  | .assign [v] [.substr _ (.varEval i) none] :: _ => if i == idx then some v else none
  | _ => none

/-- the variables visible after an optional statement -/
def declaredO (Γ : List Var) : Option Stmt → List Var
  | some s => declared Γ s
  | none => Γ

/-- the variables a loop header brings in, for the condition, the step and the body -/
def forVars (Γ : List Var) (init : Option Stmt) (cond : Expr) (body : List Stmt) : List Var :=
  match rangeIdx init cond with
  | some idx => (match rangeElem idx body with | some v => [v, idx] | none => [idx]) ++ Γ
  | none => declaredO Γ init

mutual
def useS (Γ : List Var) : Stmt → Bool
  | .varDef _ vals => useEs Γ vals
  | .varDefCall _ call => useE Γ call
  | .assign vars vals => vars.all Γ.contains && useEs Γ vals
  | .assignCall vars call => vars.all Γ.contains && useE Γ call
  | .sliceAssign v index value => Γ.contains v && useE Γ index && useE Γ value
  | .funcDef _ _ _ params body => useSs (params ++ Γ.filter (·.global)) body
  | .ret vals | .print vals => useEs Γ vals
  | .ifS cond body elifs els => useE Γ cond && useSs Γ body && useEl Γ elifs && useSs Γ els
  | .forS init cond incr body =>
    ((rangeIdx init cond).isSome || useO Γ init) &&
    useE (forVars Γ init cond body) cond && useO (forVars Γ init cond body) incr && useSs (forVars Γ init cond body) body
  | .brk | .cont => true
  | .panic e | .expr e => useE Γ e

def useSs (Γ : List Var) : List Stmt → Bool
  | [] => true
  | s :: rest => useS Γ s && useSs (declared Γ s) rest

def useO (Γ : List Var) : Option Stmt → Bool
  | none => true
  | some s => useS Γ s

def useEl (Γ : List Var) : List (Expr × List Stmt) → Bool
  | [] => true
  | (e, body) :: rest => useE Γ e && useSs Γ body && useEl Γ rest
end

def declaredAll (Γ : List Var) (ss : List Stmt) : List Var := ss.foldl declared Γ

end Tsh.PT
