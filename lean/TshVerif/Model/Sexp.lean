/-
  S-expression reader/printer for the AST interchange format shared with the Go harness
  (harness/dump.go prints exactly this; DESIGN.md appendix D).
-/
import TshVerif.Model.Ast
namespace Tsh

inductive Sexp
  | atom (s : String)
  | list (xs : List Sexp)
deriving Repr, Inhabited

namespace Sexp

/-- tokenizer: parentheses and atoms separated by blanks -/
def tokens (cs : List Char) : List String :=
  let rec go (cs : List Char) (cur : List Char) (acc : List String) : List String :=
    let flush := if cur.isEmpty then acc else String.ofList cur.reverse :: acc
    match cs with
    | [] => flush.reverse
    | c :: rest =>
      if c == '(' then go rest [] ("(" :: flush)
      else if c == ')' then go rest [] (")" :: flush)
      else if c == ' ' then go rest [] flush
      else go rest (c :: cur) acc
  go cs [] []

/-- parse one S-expression with an explicit stack (no recursion on nesting depth needed) -/
def parseToks (ts : List String) : Option Sexp :=
  let rec go (ts : List String) (stack : List (List Sexp)) : Option Sexp :=
    match ts with
    | [] => match stack with
      | [[x]] => some x
      | _ => none
    | t :: rest =>
      if t == "(" then go rest ([] :: stack)
      else if t == ")" then
        match stack with
        | top :: next :: more => go rest ((Sexp.list top.reverse :: next) :: more)
        | _ => none
      else
        match stack with
        | top :: more => go rest ((Sexp.atom t :: top) :: more)
        | [] => none
  go ts [[]]

def parse (s : String) : Option Sexp := parseToks (tokens s.toList)

partial def toString : Sexp → String
  | .atom s => s
  | .list xs => "(" ++ " ".intercalate (xs.map toString) ++ ")"

end Sexp

/-! ### decoding -/

def decHex (s : String) : Option String :=
  match s.toList with
  | 'x' :: rest => (bytesOfHexChars rest).map bytesStr
  | _ => none

def decDT (s : String) : DataType :=
  if s == "unknown" then .unknown else if s == "multiple" then .multiple else if s == "bool" then .bool
  else if s == "int" then .int else if s == "string" then .string else .other s

def decVT (s : String) : ValueType :=
  if s.startsWith "[]" then { dt := decDT (s.drop 2).toString, isSlice := true } else { dt := decDT s, isSlice := false }

def decBool (s : String) : Option Bool := if s == "1" then some true else if s == "0" then some false else none

def decVar : Sexp → Option Var
  | .list [.atom "var", .atom n, .atom vt, .atom g, .atom p] => do
      pure { name := ← decHex n, vt := decVT vt, global := ← decBool g, pub := ← decBool p }
  | _ => none

def decVTs : Sexp → Option (List ValueType)
  | .list xs => xs.mapM fun | .atom s => some (decVT s) | _ => none
  | _ => none

def decVars : Sexp → Option (List Var)
  | .list xs => xs.mapM decVar
  | _ => none

mutual
partial def decExpr : Sexp → Option Expr
  | .list [.atom "bool", .atom b] => (decBool b).map .boolLit
  | .list [.atom "int", .atom n] => n.toInt?.map .intLit
  | .list [.atom "str", .atom h] => (decHex h).map .strLit
  | v@(.list (.atom "var" :: _)) => (decVar v).map .varEval
  | .list [.atom "un", .atom op, e, .atom vt] => do pure (.unary (← decHex op) (← decExpr e) (decVT vt))
  | .list [.atom "bin", .atom op, l, r] => do pure (.binary (← decHex op) (← decExpr l) (← decExpr r))
  | .list [.atom "cmp", .atom op, l, r] => do pure (.compare (← decHex op) (← decExpr l) (← decExpr r))
  | .list [.atom "log", .atom op, l, r] => do pure (.logical (← decHex op) (← decExpr l) (← decExpr r))
  | .list [.atom "group", e] => (decExpr e).map .group
  | .list [.atom "call", .atom n, rets, .list args] => do
      pure (.call (← decHex n) (← decVTs rets) (← args.mapM decExpr))
  | .list [.atom "app", .atom n, .list args, next] => do
      let nx ← match next with
        | .atom "nil" => pure none
        | e => (decExpr e).map some
      pure (.app (← decHex n) (← args.mapM decExpr) nx)
  | .list [.atom "slicenew", .atom dt, .list vals] => do pure (.sliceNew (decDT dt) (← vals.mapM decExpr))
  | .list [.atom "sliceeval", v, i, .atom dt] => do pure (.sliceEval (← decExpr v) (← decExpr i) (decVT dt).dt)
  | .list [.atom "substr", v, a, b] => do
      let stop ← match b with
        | .atom "nil" => pure none
        | e => (decExpr e).map some
      pure (.substr (← decExpr v) (← decExpr a) stop)
  | .list [.atom "len", e] => (decExpr e).map .len
  | .list [.atom "itoa", e] => (decExpr e).map .itoa
  | .list [.atom "exists", e] => (decExpr e).map .exists_
  | .list [.atom "read", e] => (decExpr e).map .read
  | .list [.atom "input", .atom "nil"] => some (.input none)
  | .list [.atom "input", e] => (decExpr e).map (fun x => .input (some x))
  | .list [.atom "copy", v, e] => do pure (.copy (← decVar v) (← decExpr e))
  | .list [.atom "write", p, d, a] => do
      let ap ← match a with
        | .atom "nil" => pure none
        | e => (decExpr e).map some
      pure (.write (← decExpr p) (← decExpr d) ap)
  | .list [.atom "unknown", .atom h] => (decHex h).map .bad
  | _ => none

partial def decStmt : Sexp → Option Stmt
  | .list [.atom "vardef", vars, .list vals] => do pure (.varDef (← decVars vars) (← vals.mapM decExpr))
  | .list [.atom "vardefcall", vars, call] => do pure (.varDefCall (← decVars vars) (← decExpr call))
  | .list [.atom "assign", vars, .list vals] => do pure (.assign (← decVars vars) (← vals.mapM decExpr))
  | .list [.atom "assigncall", vars, call] => do pure (.assignCall (← decVars vars) (← decExpr call))
  | .list [.atom "sliceassign", v, i, e] => do pure (.sliceAssign (← decVar v) (← decExpr i) (← decExpr e))
  | .list [.atom "func", .atom n, .atom p, rets, params, .list body] => do
      pure (.funcDef (← decHex n) (← decBool p) (← decVTs rets) (← decVars params) (← body.mapM decStmt))
  | .list [.atom "return", .list vals] => do pure (.ret (← vals.mapM decExpr))
  | .list [.atom "if", .list [.atom "br", c, .list body], .list elifs, .list els] => do
      let es ← elifs.mapM fun
        | .list [.atom "br", c, .list b] => do pure ((← decExpr c), (← b.mapM decStmt))
        | _ => none
      pure (.ifS (← decExpr c) (← body.mapM decStmt) es (← els.mapM decStmt))
  | .list [.atom "for", init, c, incr, .list body] => do
      let i ← match init with
        | .atom "nil" => pure none
        | s => (decStmt s).map some
      let n ← match incr with
        | .atom "nil" => pure none
        | s => (decStmt s).map some
      pure (.forS i (← decExpr c) n (← body.mapM decStmt))
  | .list [.atom "break"] => some .brk
  | .list [.atom "continue"] => some .cont
  | .list [.atom "print", .list es] => do pure (.print (← es.mapM decExpr))
  | .list [.atom "panic", e] => (decExpr e).map .panic
  | e => (decExpr e).map .expr
end

def decProgram : Sexp → Option Program
  | .list [.atom "prog", .list body] => body.mapM decStmt
  | _ => none

end Tsh

/-! ### printing (exactly the format of harness/dump.go) -/
namespace Tsh

def encHex (s : String) : String := "x" ++ hexOfString s
def enc01 (b : Bool) : String := if b then "1" else "0"
def encVT (v : ValueType) : String := v.name
def encVar (v : Var) : String := s!"(var {encHex v.name} {encVT v.vt} {enc01 v.global} {enc01 v.pub})"
def encVars (vs : List Var) : String := "(" ++ " ".intercalate (vs.map encVar) ++ ")"
def encVTs (vs : List ValueType) : String := "(" ++ " ".intercalate (vs.map encVT) ++ ")"

mutual
def encExpr : Expr → String
  | .boolLit b => s!"(bool {enc01 b})"
  | .intLit n => s!"(int {n})"
  | .strLit s => s!"(str {encHex s})"
  | .varEval v => encVar v
  | .unary op e vt => s!"(un {encHex op} {encExpr e} {encVT vt})"
  | .binary op l r => s!"(bin {encHex op} {encExpr l} {encExpr r})"
  | .compare op l r => s!"(cmp {encHex op} {encExpr l} {encExpr r})"
  | .logical op l r => s!"(log {encHex op} {encExpr l} {encExpr r})"
  | .group e => s!"(group {encExpr e})"
  | .call n rets args => s!"(call {encHex n} {encVTs rets} ({encExprs args}))"
  | .app n args next => s!"(app {encHex n} ({encExprs args}) {encOptExpr next})"
  | .sliceNew dt vals => s!"(slicenew {dt.name} ({encExprs vals}))"
  | .sliceEval v i dt => s!"(sliceeval {encExpr v} {encExpr i} {dt.name})"
  | .substr v a b => s!"(substr {encExpr v} {encExpr a} {encOptExpr b})"
  | .len e => s!"(len {encExpr e})"
  | .itoa e => s!"(itoa {encExpr e})"
  | .exists_ e => s!"(exists {encExpr e})"
  | .read e => s!"(read {encExpr e})"
  | .input p => s!"(input {encOptExpr p})"
  | .copy d s => s!"(copy {encVar d} {encExpr s})"
  | .write p d a => s!"(write {encExpr p} {encExpr d} {encOptExpr a})"
  | .bad w => s!"(unknown {encHex w})"

def encOptExpr : Option Expr → String
  | none => "nil"
  | some e => encExpr e

def encExprs : List Expr → String
  | [] => ""
  | [e] => encExpr e
  | e :: rest => encExpr e ++ " " ++ encExprs rest
end

mutual
def encStmt : Stmt → String
  | .varDef vars vals => s!"(vardef {encVars vars} ({encExprs vals}))"
  | .varDefCall vars call => s!"(vardefcall {encVars vars} {encExpr call})"
  | .assign vars vals => s!"(assign {encVars vars} ({encExprs vals}))"
  | .assignCall vars call => s!"(assigncall {encVars vars} {encExpr call})"
  | .sliceAssign v i e => s!"(sliceassign {encVar v} {encExpr i} {encExpr e})"
  | .funcDef n pub rets params body => s!"(func {encHex n} {enc01 pub} {encVTs rets} {encVars params} ({encStmts body}))"
  | .ret vals => s!"(return ({encExprs vals}))"
  | .ifS c body elifs els => s!"(if (br {encExpr c} ({encStmts body})) ({encBranches elifs}) ({encStmts els}))"
  | .forS init c incr body => s!"(for {encOptStmt init} {encExpr c} {encOptStmt incr} ({encStmts body}))"
  | .brk => "(break)"
  | .cont => "(continue)"
  | .print es => s!"(print ({encExprs es}))"
  | .panic e => s!"(panic {encExpr e})"
  | .expr e => encExpr e

def encOptStmt : Option Stmt → String
  | none => "nil"
  | some s => encStmt s

def encStmts : List Stmt → String
  | [] => ""
  | [s] => encStmt s
  | s :: rest => encStmt s ++ " " ++ encStmts rest

def encBranches : List (Expr × List Stmt) → String
  | [] => ""
  | [(c, b)] => s!"(br {encExpr c} ({encStmts b}))"
  | (c, b) :: rest => s!"(br {encExpr c} ({encStmts b})) " ++ encBranches rest
end

def encProgram (p : Program) : String := s!"(prog ({encStmts p}))"

end Tsh
