/-
  Well-formedness of an elaborated AST as the parser produces it: every statement emits code
  (definitions and assignments have at least one variable; an expression statement is a call).
  Executable, so the correspondence run checks it on every AST the real parser returns.
-/
import TshVerif.Model.Ast
namespace Tsh

/-- expressions the parser accepts as statements (function, program, copy, input, read, write) -/
def Expr.isCallLike : Expr → Bool
  | .call _ _ _ | .app _ _ _ | .copy _ _ | .input _ | .read _ | .write _ _ _ => true
  | _ => false

mutual
def Stmt.wf : Stmt → Bool
  | .varDef vars _ => !vars.isEmpty
  | .assign vars _ => !vars.isEmpty
  | .varDefCall vars _ => !vars.isEmpty
  | .assignCall vars _ => !vars.isEmpty
  | .funcDef _ _ _ _ body => wfStmts body
  | .ifS _ body elifs els => wfStmts body && wfElifs elifs && wfStmts els
  | .forS init _ incr body => wfOpt init && wfOpt incr && wfStmts body
  | .expr e => e.isCallLike
  | .sliceAssign _ _ _ | .ret _ | .brk | .cont | .print _ | .panic _ => true

def wfStmts : List Stmt → Bool
  | [] => true
  | s :: rest => Stmt.wf s && wfStmts rest

def wfOpt : Option Stmt → Bool
  | none => true
  | some s => Stmt.wf s

def wfElifs : List (Expr × List Stmt) → Bool
  | [] => true
  | (_, body) :: rest => wfStmts body && wfElifs rest
end

end Tsh
