/-
  Model of /repo/parser/parser.go: recursive descent fused with type checking, name resolution,
  import linking and unused-function removal.  Function by function after the Go code; every
  `evaluateX` of the Go parser is `evalX` here.  Result classes: ok | error | panic | diverge
  (error messages are not modelled).  Recursion is by fuel (structural); fuel exhaustion is the
  `diverge` outcome and its sufficiency is a theorem, not an assumption.

  Tied to the code by the AST-stage correspondence (harness `AST` dump vs. driver `PARSE`).
-/
import TshVerif.Model.Lexer
import TshVerif.Model.Ast
import TshVerif.Model.Transpile
namespace Tsh.Parser
open Tsh Tsh.LexTables

structure Tok where
  ty : Nat
  val : String
deriving Repr, Inhabited, DecidableEq

def Tok.zero : Tok := { ty := 0, val := "" }

inductive Scope | program | function | if_ | for_ | switch_
deriving Repr, DecidableEq

structure FuncInfo where
  name : String
  rets : List ValueType
  params : List Var
  pub : Bool
deriving Repr

structure Ctx where
  imports : List (String × String) := []
  vars : List (String × Var) := []
  funcs : List (String × FuncInfo) := []
  scopes : List Scope := []          -- innermost first
deriving Repr

def assocGet {β} (m : List (String × β)) (k : String) : Option β := (m.find? (·.1 == k)).map (·.2)
def assocSet {β} (m : List (String × β)) (k : String) (v : β) : List (String × β) :=
  if m.any (·.1 == k) then m.map (fun e => if e.1 == k then (k, v) else e) else m ++ [(k, v)]

namespace Ctx
def global (c : Ctx) : Bool := c.scopes.head? == some .program
def findScope (c : Ctx) (s : Scope) : Bool := c.scopes.contains s
def push (c : Ctx) (s : Scope) : Ctx := { c with scopes := s :: c.scopes }
end Ctx

/-- package-level `buildPrefixedName(prefix, funcName)` -/
def prefixed (pfx name : String) : String :=
  if pfx.length > 0 then
    let p := pfx ++ "_"
    if name.startsWith p then name else p ++ name
  else name

/-- `context.buildPrefixedName`; `none` = error -/
def Ctx.buildName (c : Ctx) (name pfx : String) (global checkExistence : Bool) : Option String :=
  if name.length == 0 then none else
  if pfx.length > 0 && global then
    match assocGet c.imports pfx with
    | some h => some (prefixed h name)
    | none => if checkExistence then none else some (prefixed "" name)
  else some name

/-- `findVariable`: first under the name as is (only if `global` is false), then under the
    prefixed name (globals of an imported file) -/
def Ctx.findVar (c : Ctx) (name pfx : String) (global : Bool) : Option Var :=
  match c.buildName name pfx global true with
  | none => none
  | some k =>
    match assocGet c.vars k with
    | some v => some v
    | none =>
      match c.buildName name pfx true true with
      | some k' => assocGet c.vars k'
      | none => none

def Ctx.findFunc (c : Ctx) (name pfx : String) : Option FuncInfo :=
  match c.buildName name pfx true true with
  | some k => assocGet c.funcs k
  | none => none

/-- `addVariables`; `none` = error ("no name provided") -/
def Ctx.addVars (c : Ctx) (pfx : String) (global : Bool) (vs : List Var) : Option Ctx :=
  vs.foldlM (fun (c : Ctx) v =>
    match c.buildName v.name pfx global false with
    | some k => some { c with vars := assocSet c.vars k v }
    | none => none) c

def Ctx.addFunc (c : Ctx) (pfx : String) (global : Bool) (f : FuncInfo) : Option Ctx :=
  match c.buildName f.name pfx global false with
  | some k => some { c with funcs := assocSet c.funcs k f }
  | none => none

/-! ### parser state and monad -/

structure PSt where
  toks : Array Tok
  idx : Nat := 0
  pfx : String := ""
  currFunc : String := ""
  usedFuncs : List (String × List String) := []
deriving Repr

inductive PRes (α : Type)
  | ok (a : α) (s : PSt)
  | error
  | panic
  | diverge

def PM (α : Type) := PSt → PRes α

instance : Monad PM where
  pure a := fun s => .ok a s
  bind x f := fun s => match x s with
    | .ok a s' => f a s'
    | .error => .error
    | .panic => .panic
    | .diverge => .diverge

def err {α} : PM α := fun _ => .error
def pan {α} : PM α := fun _ => .panic
def div {α} : PM α := fun _ => .diverge
def getS : PM PSt := fun s => .ok s s
def setS (s : PSt) : PM Unit := fun _ => .ok () s

def peekAt (k : Nat) : PM Tok := fun s => .ok (s.toks.getD (s.idx + k) Tok.zero) s
def peek : PM Tok := peekAt 0
def eat : PM Tok := fun s => .ok (s.toks.getD s.idx Tok.zero) { s with idx := s.idx + 1 }

def ofOpt {α} (o : Option α) : PM α := match o with | some a => pure a | none => err

/-- `findAllowed(search, allowed...)` from the current index: found? -/
def findAllowed (search : Nat) (allowed : List Nat) : PM Bool := fun s =>
  let rec go (i : Nat) (fuel : Nat) : Bool :=
    match fuel with
    | 0 => false
    | f + 1 =>
      if h : i < s.toks.size then
        let t := s.toks[i]
        if t.ty == search then true
        else if allowed.contains t.ty then go (i + 1) f else false
      else false
  .ok (go s.idx (s.toks.size + 1)) s

/-- `findBefore(search, before...)`: found before any of `before`? -/
def findBefore (search : Nat) (before : List Nat) : PM Bool := fun s =>
  let rec go (i : Nat) (fuel : Nat) : Bool :=
    match fuel with
    | 0 => false
    | f + 1 =>
      if h : i < s.toks.size then
        let t := s.toks[i]
        if t.ty == search then true
        else if before.contains t.ty then false else go (i + 1) f
      else false
  .ok (go s.idx (s.toks.size + 1)) s

def isShortVarInit : PM Bool := findAllowed TT_SHORT_INIT_OPERATOR [TT_IDENTIFIER, TT_COMMA]

def isPublic (name : String) : Bool :=
  match name.toList with
  | c :: _ => c.isUpper
  | [] => false

/-- `strconv.Atoi` on a NUMBER_LITERAL value (`-?\d+(\.\d+)?`): decimal int64, else error -/
def atoi (s : String) : Option Int :=
  match s.toInt? with
  | some n => if -9223372036854775808 ≤ n ∧ n ≤ 9223372036854775807 then some n else none
  | none => none

def typeOfName (s : String) : Option DataType :=
  if s == "bool" then some .bool else if s == "int" then some .int
  else if s == "string" then some .string else if s == "error" then some .string else none

def vtUnknown : ValueType := ⟨.unknown, false⟩

open Tsh.Tr (Expr.valueType fnValueType)

def allowedBinary (t : ValueType) : List String :=
  if t.isSlice then [] else
  match t.dt with
  | .int => ["*", "/", "%", "+", "-"]
  | .string => ["+"]
  | _ => []

def allowedCompare (t : ValueType) : List String :=
  if t.isSlice then [] else
  match t.dt with
  | .bool => ["==", "!="]
  | .int => ["==", "!=", "<", "<=", ">", ">="]
  | .string => ["==", "!=", "<", "<=", ">", ">="]
  | _ => []

def defaultVarValue (vt : ValueType) : Option Expr :=
  if !vt.isSlice then
    match vt.dt with
    | .bool => some (.boolLit false)
    | .int => some (.intLit 0)
    | .string => some (.strLit "")
    | _ => none
  else some (.sliceNew vt.dt [])

def incDecStmt (v : Var) (inc : Bool) : Stmt :=
  .assign [v] [.binary (if inc then "+" else "-") (.varEval v) (.intLit 1)]

/-- `checkNewVariableNameToken`: true = the name is still free -/
def isNewVar (ctx : Ctx) (pfx name : String) : Bool := (ctx.findVar name pfx ctx.global).isNone

def evalVarNames : Nat → PM (List Tok)
  | 0 => div
  | fuel + 1 => do
    let t ← eat
    if t.ty != TT_IDENTIFIER then err else
    let n ← peek
    if n.ty != TT_COMMA then pure [t] else do
      let _ ← eat
      let rest ← evalVarNames fuel
      pure (t :: rest)

def evalValueType : PM ValueType := do
  let t ← peek
  let (isSlice, t) ← (if t.ty == TT_OPENING_SQUARE_BRACKET then do
      let _ ← eat
      let c ← eat
      if c.ty != TT_CLOSING_SQUARE_BRACKET then err else do
        let n ← peek
        pure (true, n)
    else pure (false, t))
  if t.ty != TT_DATA_TYPE then err else do
    let _ ← eat
    match typeOfName t.val with
    | some dt => pure ⟨dt, isSlice⟩
    | none => err

/-- is the expression a call (FunctionCall or AppCall) with more than one return type? -/
def multiReturnTypes (vals : List Expr) : Option (List ValueType) :=
  match vals with
  | [.call _ rets _] => if rets.length > 1 then some rets else none
  | [.app _ _ _] => some [⟨.string, false⟩, ⟨.string, false⟩, ⟨.int, false⟩]
  | _ => none

def valuesTypes (vals : List Expr) : List ValueType :=
  match multiReturnTypes vals with
  | some ts => ts
  | none => vals.map Expr.valueType

def recordCall (name : String) : PM Unit := fun s =>
  let cur := s.currFunc
  let lst := (assocGet s.usedFuncs cur).getD []
  let lst' := if lst.contains name then lst else lst ++ [name]
  .ok () { s with usedFuncs := assocSet s.usedFuncs cur lst' }

structure Callbacks where
  /-- the function-body callback of `evaluateFunctionDefinition`: (statements so far, last?) → ok? -/
  check : List Stmt → Bool → Bool

def noCallback : Callbacks := ⟨fun _ _ => true⟩

/-- `evaluateVarEvaluation` -/
def evalVarEvaluation (ctx : Ctx) : PM Expr := do
  let t ← eat
  if t.ty != TT_IDENTIFIER then err else
  let s ← getS
  match ctx.findVar t.val s.pfx ctx.global with
  | some v => pure (.varEval v)
  | none => err

mutual

/-- `evaluateValues`; `first` = no value has been parsed before this one -/
def evalValues (fuel : Nat) (ctx : Ctx) (first : Bool := true) : PM (List Expr) :=
  match fuel with
  | 0 => div
  | fuel + 1 => do
    let e ← evalExpression fuel ctx
    let next ← peek
    let retLen : Int := match e with
      | .call _ rets _ => rets.length
      | _ => -1
    if retLen == 0 then err else
    if retLen > 1 && !first then err else
    -- only a call itself can stand for no value or for several values; any other expression of such a type (a call in
    -- brackets) is no value
    if (Expr.valueType e).dt == .unknown ||
       ((Expr.valueType e).dt == .multiple && !(match e with | .call _ _ _ | .app _ _ _ => true | _ => false)) then err else
    if next.ty != TT_COMMA then pure [e] else do
      let _ ← eat
      if retLen > 1 then err else do
        let rest ← evalValues fuel ctx false
        pure (e :: rest)

/-- argument list of a builtin: expressions separated by commas up to (not including) `)` -/
def evalBuiltinArgs (fuel : Nat) (ctx : Ctx) : PM (List Expr) :=
  match fuel with
  | 0 => div
  | fuel + 1 => do
    let e ← evalExpression fuel ctx
    if (Expr.valueType e).dt == .unknown then err else
    let next ← peek
    if next.ty == TT_COMMA then do
      let _ ← eat
      let rest ← evalBuiltinArgs fuel ctx
      pure (e :: rest)
    else if next.ty == TT_CLOSING_ROUND_BRACKET then pure [e]
    else err

/-- `evaluateBuiltInFunction` up to the callout: keyword `(` args `)` with arity check -/
def evalBuiltin (fuel : Nat) (ctx : Ctx) (tokenType : Nat) (minArgs : Nat) (maxArgs : Option Nat) : PM (List Expr) :=
  match fuel with
  | 0 => div
  | fuel + 1 => do
    let kw ← eat
    if kw.ty != tokenType then err else
    let o ← eat
    if o.ty != TT_OPENING_ROUND_BRACKET then err else
    let n ← peek
    let args ← (if n.ty != TT_CLOSING_ROUND_BRACKET then evalBuiltinArgs fuel ctx else pure [])
    if args.length < minArgs then err else
    if (match maxArgs with | some m => decide (args.length > m) | none => false) then err else
    let c ← eat
    if c.ty != TT_CLOSING_ROUND_BRACKET then err else pure args

/-- `evaluateArguments`: `(` args `)`; `params = none` means unchecked (app calls) -/
def evalArguments (fuel : Nat) (ctx : Ctx) (params : Option (List Var)) : PM (List Expr) :=
  match fuel with
  | 0 => div
  | fuel + 1 => do
    let o ← eat
    if o.ty != TT_OPENING_ROUND_BRACKET then err else
    let args ← evalArgLoop fuel ctx params []
    match params with
    | some ps => if args.length != ps.length then err else pure ()
    | none => pure ()
    let c ← eat
    if c.ty != TT_CLOSING_ROUND_BRACKET then err else pure args

def evalArgLoop (fuel : Nat) (ctx : Ctx) (params : Option (List Var)) (acc : List Expr) : PM (List Expr) :=
  match fuel with
  | 0 => div
  | fuel + 1 => do
    let n ← peek
    if n.ty == TT_CLOSING_ROUND_BRACKET then pure acc else
    let e ← evalExpression fuel ctx
    let acc := acc ++ [e]
    if (Expr.valueType e).dt == .unknown then err else
    match params with
    | some ps =>
      if acc.length > ps.length then err else
      match ps[acc.length - 1]? with
      | none => pan
      | some p => if !(p.vt.equals (Expr.valueType e)) then err else evalArgTail fuel ctx params acc
    | none => evalArgTail fuel ctx params acc

def evalArgTail (fuel : Nat) (ctx : Ctx) (params : Option (List Var)) (acc : List Expr) : PM (List Expr) :=
  match fuel with
  | 0 => div
  | fuel + 1 => do
    let n ← peek
    if n.ty != TT_COMMA && n.ty != TT_CLOSING_ROUND_BRACKET then
      -- `err = …; break`: the length check runs first, then the error is returned
      err
    else if n.ty == TT_COMMA then do
      let _ ← eat
      evalArgLoop fuel ctx params acc
    else evalArgLoop fuel ctx params acc

/-- `evaluateFunctionCall` -/
def evalFunctionCall (fuel : Nat) (ctx : Ctx) : PM Expr :=
  match fuel with
  | 0 => div
  | fuel + 1 => do
    let first ← eat
    let dot ← peek
    let (alias, nameTok) ← (if dot.ty == TT_DOT then do
        let _ ← eat
        let n ← eat
        pure (first.val, n)
      else pure ("", first))
    if nameTok.ty != TT_IDENTIFIER then err else
    let s ← getS
    let pfx := if alias.length > 0 then alias else s.pfx
    match ctx.findFunc nameTok.val pfx with
    | none => err
    | some f => do
      let args ← evalArguments fuel ctx (some f.params)
      recordCall f.name
      pure (.call f.name f.rets args)

/-- `evaluateAppCall` -/
def evalAppCall (fuel : Nat) (ctx : Ctx) : PM Expr :=
  match fuel with
  | 0 => div
  | fuel + 1 => do
    let at_ ← eat
    if at_.ty != TT_AT then err else
    let n ← eat
    if n.ty != TT_IDENTIFIER && n.ty != TT_STRING_LITERAL then err else
    let args ← evalArguments fuel ctx none
    let p ← peek
    if p.ty == TT_PIPE then do
      let _ ← eat
      let next ← evalAppCall fuel ctx
      pure (.app n.val args (some next))
    else pure (.app n.val args none)

/-- `evaluateSliceInstantiation` -/
def evalSliceInstantiation (fuel : Nat) (ctx : Ctx) : PM Expr :=
  match fuel with
  | 0 => div
  | fuel + 1 => do
    let vt ← evalValueType
    if !vt.isSlice then err else
    let o ← eat
    if o.ty != TT_OPENING_CURLY_BRACKET then err else
    let n ← peek
    let vals ← (if n.ty != TT_CLOSING_CURLY_BRACKET then evalSliceElems fuel ctx vt.dt else pure [])
    let c ← eat
    if c.ty != TT_CLOSING_CURLY_BRACKET then err else pure (.sliceNew vt.dt vals)

def evalSliceElems (fuel : Nat) (ctx : Ctx) (dt : DataType) : PM (List Expr) :=
  match fuel with
  | 0 => div
  | fuel + 1 => do
    let e ← evalExpression fuel ctx
    if !((Expr.valueType e).equals ⟨dt, false⟩) then err else
    let n ← peek
    if n.ty == TT_COMMA then do
      let _ ← eat
      let rest ← evalSliceElems fuel ctx dt
      pure (e :: rest)
    else if n.ty == TT_CLOSING_CURLY_BRACKET then pure [e]
    else err

/-- `evaluateSubscript` (only reached for IDENTIFIER `[`) -/
def evalSubscript (fuel : Nat) (ctx : Ctx) : PM Expr :=
  match fuel with
  | 0 => div
  | fuel + 1 => do
    let vt0 ← peek
    let value ← (if vt0.ty == TT_IDENTIFIER then evalVarEvaluation ctx
                 else if vt0.ty == TT_STRING_LITERAL then evalExpression fuel ctx else err)
    let valueType := Expr.valueType value
    let isSlice := valueType.isSlice
    if !isSlice && valueType.dt != .string then err else
    let o ← eat
    if o.ty != TT_OPENING_SQUARE_BRACKET then err else
    let n ← peek
    let gotRange0 := n.ty == TT_COLON
    let start ← (if gotRange0 then do let _ ← eat; pure (Expr.intLit 0) else evalExpression fuel ctx)
    if !(Expr.valueType start).isInt then err else
    let n ← peek
    let gotRange ← (if n.ty == TT_COLON then
        (if gotRange0 then err else do let _ ← eat; pure true)
      else pure gotRange0)
    if gotRange && isSlice then err else
    let n ← peek
    let stop ← (if n.ty == TT_CLOSING_SQUARE_BRACKET then do
        let _ ← eat
        pure (if gotRange then Expr.binary "-" (.len value) (.intLit 1) else start)
      else do
        let e ← evalExpression fuel ctx
        let c ← eat
        if c.ty != TT_CLOSING_SQUARE_BRACKET then err else pure (Expr.binary "-" e (.intLit 1)))
    if !(Expr.valueType stop).isInt then err else
    if !isSlice then pure (.substr value start (if gotRange then some stop else none))
    else pure (.sliceEval value start valueType.dt)

/-- `evaluateSingleExpression` -/
def evalSingle (fuel : Nat) (ctx : Ctx) : PM Expr :=
  match fuel with
  | 0 => div
  | fuel + 1 => do
    let t ← peek
    if t.ty == TT_BOOL_LITERAL then do
      let _ ← eat
      -- strconv.ParseBool of "true"/"false"
      pure (.boolLit (t.val == "true"))
    else if t.ty == TT_NUMBER_LITERAL then do
      let _ ← eat
      match atoi t.val with
      | some n => pure (.intLit n)
      | none => err
    else if t.ty == TT_NIL_LITERAL then do let _ ← eat; pure (.strLit "")
    else if t.ty == TT_STRING_LITERAL then do let _ ← eat; pure (.strLit t.val)
    else if t.ty == TT_OPENING_ROUND_BRACKET then do
      let _ ← eat
      let child ← evalExpression fuel ctx
      let c ← eat
      if c.ty != TT_CLOSING_ROUND_BRACKET then err else pure (.group child)
    else if t.ty == TT_OPENING_SQUARE_BRACKET then evalSliceInstantiation fuel ctx
    else if t.ty == TT_INPUT then do
      let args ← evalBuiltin fuel ctx TT_INPUT 0 (some 1)
      match args with
      | [] => pure (.input none)
      | p :: _ => if !(Expr.valueType p).isString then err else pure (.input (some p))
    else if t.ty == TT_READ then do
      let args ← evalBuiltin fuel ctx TT_READ 1 (some 1)
      match args with
      | [p] => if !(Expr.valueType p).isString then err else pure (.read p)
      | _ => pan
    else if t.ty == TT_COPY then do
      let args ← evalBuiltin fuel ctx TT_COPY 2 (some 2)
      match args with
      | [dst, src] =>
        match dst with
        | .varEval v =>
          if !(Expr.valueType dst).isSlice then err
          else if !(Expr.valueType src).isSlice then err
          else if !((Expr.valueType dst).equals (Expr.valueType src)) then err
          else pure (.copy v src)
        | _ => err
      | _ => pan
    else if t.ty == TT_ITOA then do
      let args ← evalBuiltin fuel ctx TT_ITOA 1 (some 1)
      match args with
      | [v] => if !(Expr.valueType v).isInt then err else pure (.itoa v)
      | _ => pan
    else if t.ty == TT_EXISTS then do
      let args ← evalBuiltin fuel ctx TT_EXISTS 1 (some 1)
      match args with
      | [v] => if !(Expr.valueType v).isString then err else pure (.exists_ v)
      | _ => pan
    else if t.ty == TT_LEN then do
      let args ← evalBuiltin fuel ctx TT_LEN 1 (some 1)
      match args with
      | [v] => if !(Expr.valueType v).isSlice && !(Expr.valueType v).isString then err else pure (.len v)
      | _ => pan
    else if t.ty == TT_AT then evalAppCall fuel ctx
    else if t.ty == TT_IDENTIFIER then do
      let n ← peekAt 1
      if n.ty == TT_OPENING_ROUND_BRACKET || n.ty == TT_DOT then evalFunctionCall fuel ctx
      else if n.ty == TT_OPENING_SQUARE_BRACKET then evalSubscript fuel ctx
      else evalVarEvaluation ctx
    else err

/-- `evaluateUnaryOperation` -/
def evalUnary (fuel : Nat) (ctx : Ctx) : PM Expr :=
  match fuel with
  | 0 => div
  | fuel + 1 => do
    let t ← peek
    let negate := t.ty == TT_UNARY_OPERATOR && t.val == "!"
    if negate then (do let _ ← eat; pure ()) else pure ()
    let e ← evalSingle fuel ctx
    if negate then
      if !(Expr.valueType e).isBool then err else pure (.unary "!" e (Expr.valueType e))
    else pure e

/-- `evaluateBinaryOperation(ops, higher)`: level 0 = multiplication (higher = unary), 1 = addition -/
def evalBinary (fuel : Nat) (ctx : Ctx) (level : Nat) : PM Expr :=
  match fuel with
  | 0 => div
  | fuel + 1 => do
    let left ← (if level == 0 then evalUnary fuel ctx else evalBinary fuel ctx 0)
    evalBinaryLoop fuel ctx level left

def evalBinaryLoop (fuel : Nat) (ctx : Ctx) (level : Nat) (left : Expr) : PM Expr :=
  match fuel with
  | 0 => div
  | fuel + 1 => do
    let ops := if level == 0 then ["*", "/", "%"] else ["+", "-"]
    let t ← peek
    if t.ty != TT_BINARY_OPERATOR || !ops.contains t.val then pure left else do
      let _ ← eat
      let right ← (if level == 0 then evalUnary fuel ctx else evalBinary fuel ctx 0)
      let lt := Expr.valueType left
      if !(lt.equals (Expr.valueType right)) then err else
      if !(allowedBinary lt).contains t.val then err else
      evalBinaryLoop fuel ctx level (.binary t.val left right)

/-- `evaluateComparison` (right-recursive on itself) -/
def evalComparison (fuel : Nat) (ctx : Ctx) : PM Expr :=
  match fuel with
  | 0 => div
  | fuel + 1 => do
    let left ← evalBinary fuel ctx 1
    let t ← peek
    if t.ty == TT_COMPARE_OPERATOR then do
      let _ ← eat
      let right ← evalComparison fuel ctx
      let lt := Expr.valueType left
      if !(lt.equals (Expr.valueType right)) then err else
      if !(allowedCompare lt).contains t.val then err else
      pure (.compare t.val left right)
    else pure left

/-- `evaluateLogicalOperation(op, higher)`: level 0 = && (higher = comparison), 1 = || -/
def evalLogical (fuel : Nat) (ctx : Ctx) (level : Nat) : PM Expr :=
  match fuel with
  | 0 => div
  | fuel + 1 => do
    let left ← (if level == 0 then evalComparison fuel ctx else evalLogical fuel ctx 0)
    evalLogicalLoop fuel ctx level left

def evalLogicalLoop (fuel : Nat) (ctx : Ctx) (level : Nat) (left : Expr) : PM Expr :=
  match fuel with
  | 0 => div
  | fuel + 1 => do
    let op := if level == 0 then "&&" else "||"
    let t ← peek
    if t.ty != TT_LOGICAL_OPERATOR || t.val != op then pure left else
    if !(Expr.valueType left).isBool then err else do
      let _ ← eat
      let right ← (if level == 0 then evalComparison fuel ctx else evalLogical fuel ctx 0)
      if !(Expr.valueType right).isBool then err else
      evalLogicalLoop fuel ctx level (.logical t.val left right)

/-- `evaluateExpression` -/
def evalExpression (fuel : Nat) (ctx : Ctx) : PM Expr :=
  match fuel with
  | 0 => div
  | fuel + 1 => evalLogical fuel ctx 1

end

/-! ### statements -/

def vtInt : ValueType := ⟨.int, false⟩

/-- register the definitions a statement introduces (`evaluateBlockContent`, `evaluateFor`) -/
def registerDefs (ctx : Ctx) (pfx : String) (global : Bool) (st : Stmt) : Option Ctx :=
  match st with
  | .varDef vars _ => ctx.addVars pfx global vars
  | .varDefCall vars _ => ctx.addVars pfx global vars
  | .funcDef name pub rets params _ => ctx.addFunc pfx global ⟨name, rets, params, pub⟩
  | _ => some ctx

/-- some name occurs twice in the list -/
def hasDupNames : List Tok → Bool
  | [] => false
  | t :: rest => rest.any (fun u => u.val == t.val) || hasDupNames rest

/-- `evaluateVarDefinition` -/
def evalVarDefinition (fuel : Nat) (ctx : Ctx) : PM Stmt := do
  let short ← isShortVarInit
  if !short then do
    let v ← eat
    if v.ty != TT_VAR_DEFINITION then err else pure ()
  else pure ()
  let names ← evalVarNames fuel
  let s ← getS
  let pfx := s.pfx
  match names with
  | [] => pan
  | first :: _ =>
  let n := names.length
  if n > 1 then do
    let already := (names.filter fun t => !(isNewVar ctx pfx t.val)).length
    if already > 0 && !short then err
    else if already == n then err
    else if hasDupNames names then err else pure ()        -- fix ebdb224: a definition lists every name once
  else
    if !(isNewVar ctx pfx first.val) then err else pure ()
  let specified ← (if short then do
      let t ← eat
      if t.ty != TT_SHORT_INIT_OPERATOR then err else pure vtUnknown
    else do
      let t ← peek
      let (spec, t) ← (if t.ty == TT_DATA_TYPE || t.ty == TT_OPENING_SQUARE_BRACKET then do
          let vt ← evalValueType
          let t' ← peek
          pure (vt, t')
        else pure (vtUnknown, t))
      if spec.dt == .unknown && t.ty != TT_ASSIGN_OPERATOR then err
      else if t.ty == TT_ASSIGN_OPERATOR then do let _ ← eat; pure spec
      else pure spec)
  let next ← peek
  let global := ctx.global
  -- fill the variables (type possibly still unknown)
  let mkVar (t : Tok) : Option Var :=
    match ctx.findVar t.val pfx global with
    | some v => if specified.dt != .unknown && !(specified.equals v.vt) then none
                else some ⟨if global then prefixed pfx t.val else t.val,
                           -- a name that exists on the same level is assigned to: it keeps its type
                           if v.global == global && specified.dt == .unknown then v.vt else specified,
                           global, isPublic t.val⟩
    | none => some ⟨if global then prefixed pfx t.val else t.val, specified, global, isPublic t.val⟩
  let vars ← ofOpt (names.mapM mkVar)
  if next.ty != TT_NEWLINE && next.ty != TT_EOF then do
    let values ← evalValues fuel ctx
    let types := valuesTypes values
    if types.length != vars.length then err else
    if specified.dt != .unknown && !(types.all fun t => t.equals specified) then err else
    let vars' ← ofOpt ((vars.zip types).mapM fun (v, t) =>
      if v.vt.dt == .unknown then some { v with vt := t } else if v.vt.equals t then some v else none)
    match multiReturnTypes values, values with
    | some _, [call] => pure (.varDefCall vars' call)
    | _, _ => pure (.varDef vars' values)
  else do
    let values ← ofOpt (vars.mapM fun v => defaultVarValue v.vt)
    pure (.varDef vars values)

/-- `evaluateCompoundAssignment` -/
def evalCompoundAssignment (fuel : Nat) (ctx : Ctx) : PM Stmt := do
  let names ← evalVarNames fuel
  match names with
  | [nameTok] => do
    let a ← eat
    if a.ty != TT_COMPOUND_ASSIGN_OPERATOR then err else
    let values ← evalValues fuel ctx
    let types := valuesTypes values
    if types.length > 1 then err else
    let s ← getS
    match ctx.findVar nameTok.val s.pfx ctx.global, types, values with
    | some v, [t], value :: _ =>
      if !(t == v.vt) then err else
      let op := (a.val.take 1).toString
      if !(allowedBinary t).contains op then err else
      pure (.assign [v] [.binary op (.varEval v) value])
    | none, _, _ => err
    | _, _, _ => pan
  | [] => pan
  | _ => err

/-- `evaluateVarAssignment` -/
def evalVarAssignment (fuel : Nat) (ctx : Ctx) : PM Stmt := do
  let names ← evalVarNames fuel
  let a ← eat
  if a.ty != TT_ASSIGN_OPERATOR then err else
  let values ← evalValues fuel ctx
  let types := valuesTypes values
  if names.length != types.length then err else
  let s ← getS
  let vars ← ofOpt ((names.zip types).mapM fun (t, vt) =>
    match ctx.findVar t.val s.pfx ctx.global with
    | some v => if vt == v.vt then some v else none
    | none => none)
  match multiReturnTypes values, values with
  | some _, [call] => pure (.assignCall vars call)
  | _, _ => pure (.assign vars values)

/-- `evaluateSliceAssignment` -/
def evalSliceAssignment (fuel : Nat) (ctx : Ctx) : PM Stmt := do
  let nameTok ← eat
  if nameTok.ty != TT_IDENTIFIER then err else
  let s ← getS
  match ctx.findVar nameTok.val s.pfx ctx.global with
  | none => err
  | some v =>
    if !v.vt.isSlice then err else do
    let o ← eat
    if o.ty != TT_OPENING_SQUARE_BRACKET then err else
    let index ← evalExpression fuel ctx
    if !(Expr.valueType index).isInt then err else
    let c ← eat
    if c.ty != TT_CLOSING_SQUARE_BRACKET then err else
    let a ← eat
    if a.ty != TT_ASSIGN_OPERATOR then err else
    let value ← evalExpression fuel ctx
    if !((Expr.valueType value).equals ⟨v.vt.dt, false⟩) then err else
    pure (.sliceAssign v index value)

/-- `evaluateIncrementDecrement` -/
def evalIncDec (ctx : Ctx) : PM Stmt := do
  let t ← eat
  if t.ty != TT_IDENTIFIER then err else
  let s ← getS
  match ctx.findVar t.val s.pfx ctx.global with
  | none => err
  | some v =>
    if !v.vt.isInt then err else do
    let o ← eat
    if o.ty == TT_INCREMENT_OPERATOR then pure (incDecStmt v true)
    else if o.ty == TT_DECREMENT_OPERATOR then pure (incDecStmt v false)
    else err

/-- `evaluateParams` -/
def evalParams : Nat → Ctx → List Var → PM (List Var)
  | 0, _, _ => div
  | fuel + 1, ctx, acc => do
    let t ← peek
    if t.ty == TT_CLOSING_ROUND_BRACKET then pure acc else
    if t.ty != TT_IDENTIFIER then err else
    let _ ← eat
    let s ← getS
    if (ctx.findVar t.val s.pfx false).isSome || acc.any (·.name == t.val) then err else
    let vt ← evalValueType
    let n ← peek
    if n.ty != TT_COMMA && n.ty != TT_CLOSING_ROUND_BRACKET then err else do
      if n.ty == TT_COMMA then (do let _ ← eat; pure ()) else pure ()
      evalParams fuel ctx (acc ++ [⟨t.val, vt, false, false⟩])

/-- return types of a function header -/
def evalReturnTypes : Nat → Bool → List ValueType → PM (List ValueType)
  | 0, _, _ => div
  | fuel + 1, multiple, acc => do
    let t ← peek
    let acc ← (if t.ty == TT_DATA_TYPE || t.ty == TT_OPENING_SQUARE_BRACKET then do
        let vt ← evalValueType
        pure (acc ++ [vt])
      else pure acc)
    if !multiple then pure acc else do
      let n ← eat
      if n.ty == TT_CLOSING_ROUND_BRACKET then pure acc
      else if n.ty != TT_COMMA then err
      else evalReturnTypes fuel multiple acc

/-- the function-body callback of `evaluateFunctionDefinition` -/
def funcBodyCheck (rets : List ValueType) (stmts : List Stmt) (last : Bool) : Bool :=
  let lastStmt := stmts.getLast?
  if rets.length > 0 then
    if last then
      match lastStmt with
      | some (.ret vals) =>
        vals.length == rets.length && (vals.zip rets).all fun (v, t) => (Expr.valueType v).equals t
      | _ => false
    else true
  else
    match lastStmt with
    | some (.ret _) => false
    | _ => true

mutual

/-- `evaluateBlockContent` -/
def evalBlockContent (fuel : Nat) (terms : List Nat) (cb : List Stmt → Bool → Bool) (ctx : Ctx) (scope : Scope) : PM (List Stmt) :=
  match fuel with
  | 0 => div
  | fuel + 1 => evalBlockLoop fuel terms cb (ctx.push scope) []

def evalBlockLoop (fuel : Nat) (terms : List Nat) (cb : List Stmt → Bool → Bool) (ctx : Ctx) (acc : List Stmt) : PM (List Stmt) :=
  match fuel with
  | 0 => div
  | fuel + 1 => do
    let t ← peek
    if terms.contains t.ty then
      if cb acc true then pure acc else err
    else do
      let (ctx, acc) ← (if t.ty == TT_NEWLINE then pure (ctx, acc) else do
          let st ← evalStatement fuel ctx
          let s ← getS
          let ctx ← ofOpt (registerDefs ctx s.pfx ctx.global st)
          let acc := acc ++ [st]
          if cb acc false then pure (ctx, acc) else err)
      let n ← peek
      if n.ty == TT_NEWLINE then do
        let _ ← eat
        evalBlockLoop fuel terms cb ctx acc
      else if terms.contains n.ty then evalBlockLoop fuel terms cb ctx acc
      else err

/-- `evaluateBlock` -/
def evalBlock (fuel : Nat) (cb : List Stmt → Bool → Bool) (ctx : Ctx) (scope : Scope) : PM (List Stmt) :=
  match fuel with
  | 0 => div
  | fuel + 1 => do
    let b ← eat
    if b.ty != TT_OPENING_CURLY_BRACKET then err else
    let n ← eat
    if n.ty != TT_NEWLINE then err else
    let stmts ← evalBlockContent fuel [TT_CLOSING_CURLY_BRACKET] cb ctx scope
    let e ← eat
    if e.ty != TT_CLOSING_CURLY_BRACKET then err else pure stmts

/-- `evaluateFunctionDefinition` -/
def evalFunctionDefinition (fuel : Nat) (ctx : Ctx) : PM Stmt :=
  match fuel with
  | 0 => div
  | fuel + 1 => do
    let f ← eat
    if !ctx.global then err else
    if f.ty != TT_FUNCTION_DEFINITION then err else
    let nameTok ← eat
    if nameTok.ty != TT_IDENTIFIER then err else
    let s ← getS
    let pfx := s.pfx
    if (ctx.findFunc nameTok.val pfx).isSome then err else
    let o ← peek
    let ctx := { ctx with vars := ctx.vars.filter fun e => e.2.global }
    let params ← (if o.ty == TT_OPENING_ROUND_BRACKET then do
        let _ ← eat
        let ps ← evalParams fuel ctx []
        let c ← eat
        if c.ty != TT_CLOSING_ROUND_BRACKET then err else pure ps
      else pure [])
    let r ← peek
    let multiple := r.ty == TT_OPENING_ROUND_BRACKET
    if multiple then (do let _ ← eat; pure ()) else pure ()
    let rets ← evalReturnTypes fuel multiple []
    let ctx ← ofOpt (ctx.addVars pfx false params)
    let fname := prefixed pfx nameTok.val
    let s ← getS
    setS { s with currFunc := fname }
    let body ← evalBlock fuel (funcBodyCheck rets) ctx .function
    let s ← getS
    setS { s with currFunc := "" }
    pure (.funcDef fname (isPublic nameTok.val) rets params body)

/-- `evaluateIf` -/
def evalIf (fuel : Nat) (ctx : Ctx) : PM Stmt :=
  match fuel with
  | 0 => div
  | fuel + 1 => do
    let t ← peek
    if t.ty != TT_IF then err else
    let _ ← eat
    let c ← evalExpression fuel ctx
    if !(Expr.valueType c).isBool then err else
    let body ← evalBlock fuel (fun _ _ => true) ctx .if_
    evalIfRest fuel ctx c body [] []

def evalIfRest (fuel : Nat) (ctx : Ctx) (c : Expr) (body : List Stmt) (elifs : List (Expr × List Stmt)) (els : List Stmt) : PM Stmt :=
  match fuel with
  | 0 => div
  | fuel + 1 => do
    let t ← peek
    if t.ty != TT_ELSE then pure (.ifS c body elifs els) else
    let _ ← eat
    let n ← peek
    if n.ty != TT_IF then do
      let b ← evalBlock fuel (fun _ _ => true) ctx .if_
      evalIfRest fuel ctx c body elifs b
    else do
      let _ ← eat
      let ec ← evalExpression fuel ctx
      if !(Expr.valueType ec).isBool then err else
      let b ← evalBlock fuel (fun _ _ => true) ctx .if_
      evalIfRest fuel ctx c body (elifs ++ [(ec, b)]) els

/-- `evaluateSwitch` -/
def evalSwitch (fuel : Nat) (ctx : Ctx) : PM Stmt :=
  match fuel with
  | 0 => div
  | fuel + 1 => do
    let sw ← eat
    if sw.ty != TT_SWITCH then err else
    let t ← peek
    let tag ← (if t.ty == TT_OPENING_CURLY_BRACKET then pure (Expr.boolLit true) else evalExpression fuel ctx)
    if (Expr.valueType tag).isSlice then err else
    if (Expr.valueType tag).dt == .unknown || (Expr.valueType tag).dt == .multiple then err else
    let b ← eat
    if b.ty != TT_OPENING_CURLY_BRACKET then err else
    let n ← eat
    if n.ty != TT_NEWLINE then err else
    skipNewlines fuel
    evalCases fuel ctx tag none [] none

def skipNewlines (fuel : Nat) : PM Unit :=
  match fuel with
  | 0 => div
  | fuel + 1 => do
    let t ← peek
    if t.ty == TT_NEWLINE then do let _ ← eat; skipNewlines fuel else pure ()

/-- the case loop; `first` = the first real case (replaces the fake if-branch), `dflt` = default body -/
def evalCases (fuel : Nat) (ctx : Ctx) (tag : Expr) (first : Option (Expr × List Stmt))
    (elifs : List (Expr × List Stmt)) (dflt : Option (List Stmt)) : PM Stmt :=
  match fuel with
  | 0 => div
  | fuel + 1 => do
    let t ← peek
    if t.ty == TT_CLOSING_CURLY_BRACKET then do
      let _ ← eat
      let (c, body) := first.getD (Expr.boolLit false, [])
      pure (.ifS c body elifs (dflt.getD []))
    else do
      let cmp ← (if t.ty == TT_CASE then do
          let _ ← eat
          let e ← evalExpression fuel ctx
          pure (some e)
        else if t.ty == TT_DEFAULT then do let _ ← eat; pure none
        else err)
      let colon ← eat
      if colon.ty != TT_COLON then err else
      let stmts ← evalBlockContent fuel [TT_CASE, TT_DEFAULT, TT_CLOSING_CURLY_BRACKET] (fun _ _ => true) ctx .switch_
      match cmp with
      | some e =>
        if !((Expr.valueType tag).equals (Expr.valueType e)) then err else
        let br := (Expr.compare "==" tag e, stmts)
        match first with
        | none => evalCases fuel ctx tag (some br) elifs dflt
        | some _ => evalCases fuel ctx tag first (elifs ++ [br]) dflt
      | none =>
        match dflt with
        | none => evalCases fuel ctx tag first elifs (some stmts)
        | some _ => err

/-- `evaluateFor` -/
def evalFor (fuel : Nat) (ctx : Ctx) : PM Stmt :=
  match fuel with
  | 0 => div
  | fuel + 1 => do
    let f ← eat
    if f.ty != TT_FOR then err else
    let t0 ← peek
    let t1 ← peekAt 1
    let t2 ← peekAt 2
    let s ← getS
    let pfx := s.pfx
    if t0.ty == TT_IDENTIFIER && (t1.ty == TT_COMMA || (t1.ty == TT_SHORT_INIT_OPERATOR && t2.ty == TT_RANGE)) then do
      let _ ← eat
      if !(isNewVar ctx pfx t0.val) then err else
      let n ← peek
      let valueName ← (if n.ty == TT_COMMA then do
          let _ ← eat
          let v ← eat
          if v.ty != TT_IDENTIFIER then err else
          if !(isNewVar ctx pfx v.val) then err else
          if v.val == t0.val then err else pure v.val
        else pure "")
      let si ← eat
      if si.ty != TT_SHORT_INIT_OPERATOR then err else
      let r ← eat
      if r.ty != TT_RANGE then err else
      let iterable ← evalExpression fuel ctx
      let it := Expr.valueType iterable
      let indexVar : Var := ⟨t0.val, vtInt, false, false⟩
      let elemEval ← (if it.isSlice then pure (Expr.sliceEval iterable (.varEval indexVar) it.dt)
                      else if it.isString then pure (Expr.substr iterable (.varEval indexVar) none)
                      else err)
      let ctx ← ofOpt (ctx.addVars pfx false [indexVar])
      let (ctx, pre) ← (if valueName.length > 0 then do
          let valueVar : Var := ⟨valueName, ⟨it.dt, false⟩, false, false⟩
          let ctx ← ofOpt (ctx.addVars pfx false [valueVar])
          pure (ctx, [Stmt.assign [valueVar] [elemEval]])
        else pure (ctx, []))
      let body ← evalBlock fuel (fun _ _ => true) ctx .for_
      pure (.forS (some (.assign [indexVar] [.intLit 0])) (.compare "<" (.varEval indexVar) (.len iterable))
              (some (incDecStmt indexVar true)) (pre ++ body))
    else do
      let three ← findBefore TT_SEMICOLON [TT_OPENING_CURLY_BRACKET]
      let (ctx, init, cond, incr) ← (
        if t0.ty == TT_OPENING_CURLY_BRACKET then pure (ctx, none, Expr.boolLit true, none)
        else if three then do
          let n ← peek
          let (ctx, init) ← (if n.ty != TT_SEMICOLON then do
              let st ← evalStatement fuel ctx
              match st with
              | .varDef vars _ => do let c ← ofOpt (ctx.addVars pfx false vars); pure (c, some st)
              | .varDefCall vars _ => do let c ← ofOpt (ctx.addVars pfx false vars); pure (c, some st)
              | .assign _ _ => pure (ctx, some st)
              | _ => err
            else pure (ctx, none))
          let sc ← eat
          if sc.ty != TT_SEMICOLON then err else
          let n ← peek
          let cond ← (if n.ty != TT_SEMICOLON then evalExpression fuel ctx else pure (Expr.boolLit true))
          let sc ← eat
          if sc.ty != TT_SEMICOLON then err else
          let n ← peek
          let incr ← (if n.ty != TT_OPENING_CURLY_BRACKET then do
              let st ← evalStatement fuel ctx
              match st with
              | .assign _ _ => pure (some st)
              | _ => err
            else pure none)
          pure (ctx, init, cond, incr)
        else do
          let c ← evalExpression fuel ctx
          pure (ctx, none, c, none))
      if !(Expr.valueType cond).isBool then err else
      let body ← evalBlock fuel (fun _ _ => true) ctx .for_
      pure (.forS init cond incr body)

/-- `evaluateStatement` -/
def evalStatement (fuel : Nat) (ctx : Ctx) : PM Stmt :=
  match fuel with
  | 0 => div
  | fuel + 1 => do
    let t ← peek
    if t.ty == TT_VAR_DEFINITION then evalVarDefinition fuel ctx
    else if t.ty == TT_FUNCTION_DEFINITION then evalFunctionDefinition fuel ctx
    else if t.ty == TT_RETURN then do
      let _ ← eat
      if !ctx.findScope .function then err else
      let vals ← evalValues fuel ctx
      pure (.ret vals)
    else if t.ty == TT_IF then evalIf fuel ctx
    else if t.ty == TT_SWITCH then evalSwitch fuel ctx
    else if t.ty == TT_FOR then evalFor fuel ctx
    else if t.ty == TT_BREAK then do
      let _ ← eat
      if ctx.findScope .for_ || ctx.findScope .switch_ then pure .brk else err
    else if t.ty == TT_CONTINUE then do
      let _ ← eat
      if ctx.findScope .for_ then pure .cont else err
    else if t.ty == TT_PRINT then do
      let args ← evalBuiltin fuel ctx TT_PRINT 0 none
      pure (.print args)
    else if t.ty == TT_WRITE then do
      let args ← evalBuiltin fuel ctx TT_WRITE 2 (some 3)
      match args with
      | [p, d] =>
        if !(Expr.valueType p).isString then err else if !(Expr.valueType d).isString then err
        else pure (.expr (.write p d (some (.boolLit false))))
      | [p, d, a] =>
        if !(Expr.valueType p).isString then err else if !(Expr.valueType d).isString then err
        else if !(Expr.valueType a).isBool then err
        else pure (.expr (.write p d (some a)))
      | _ => pan
    else if t.ty == TT_PANIC then do
      let args ← evalBuiltin fuel ctx TT_PANIC 1 (some 1)
      match args with
      | [e] => pure (.panic e)
      | _ => pan
    else do
      let short ← isShortVarInit
      if short then evalVarDefinition fuel ctx else
      let s ← getS
      let t1 ← peekAt 1
      if t.ty == TT_IDENTIFIER && (t1.ty == TT_INCREMENT_OPERATOR || t1.ty == TT_DECREMENT_OPERATOR) then evalIncDec ctx
      else if t.ty == TT_IDENTIFIER && t1.ty == TT_COMPOUND_ASSIGN_OPERATOR then evalCompoundAssignment fuel ctx
      else if t.ty == TT_IDENTIFIER && (t1.ty == TT_ASSIGN_OPERATOR || t1.ty == TT_COMMA) then evalVarAssignment fuel ctx
      else if t.ty == TT_IDENTIFIER && (match ctx.findVar t.val s.pfx ctx.global with | some v => v.vt.isSlice | none => false) then
        evalSliceAssignment fuel ctx
      else do
        let e ← evalExpression fuel ctx
        -- only calls can be used as statements
        match e with
        | .call _ _ _ | .app _ _ _ | .copy _ _ | .input _ | .read _ => pure (.expr e)
        | _ => err

end

/-! ### files, imports, program, unused-function removal -/

/-- abstract file system: absolute clean paths of regular files with their bytes and name prefixes
    (the prefix is "h" ++ first 7 hex digits of the SHA-256 of the content; supplied by the harness) -/
structure FileSys where
  files : List (String × Bytes × String)
  exeDir : String

def splitPath (p : String) : List String := (p.splitOn "/").filter (· != "")

/-- `filepath.Clean` for absolute paths -/
def cleanAbs (p : String) : String :=
  let parts := (splitPath p).foldl (fun (acc : List String) e =>
    if e == "." then acc else if e == ".." then acc.dropLast else acc ++ [e]) []
  "/" ++ "/".intercalate parts

def isAbs (p : String) : Bool := p.startsWith "/"

def pathJoin (a b : String) : String := cleanAbs (a ++ "/" ++ b)

def pathDir (p : String) : String := cleanAbs ("/" ++ "/".intercalate (splitPath p).dropLast)

/-- `filepath.Base` -/
def pathBase (p : String) : String :=
  match (splitPath p).getLast? with
  | some b => b
  | none => if p.startsWith "/" then "/" else "."

/-- `filepath.Ext`: from the last dot of the last path element -/
def pathExt (p : String) : String :=
  let cs := p.toList
  let rec go (rev : List Char) (acc : List Char) : String :=
    match rev with
    | [] => ""
    | c :: rest =>
      if c == '/' then "" else if c == '.' then String.ofList ('.' :: acc) else go rest (c :: acc)
  go cs.reverse []

def trimSuffix (s suf : String) : String :=
  if suf.length > 0 && s.endsWith suf then (s.dropEnd suf.length).toString else s

def FileSys.read (fs : FileSys) (p : String) : Option (Bytes × String) :=
  (fs.files.find? (·.1 == p)).map (·.2)

/-- `os.Stat` succeeds for regular files and for directories that contain a file -/
def FileSys.stat (fs : FileSys) (p : String) : Bool :=
  fs.files.any fun f => f.1 == p || f.1.startsWith (if p == "/" then "/" else p ++ "/")

structure Parsed where
  body : List Stmt
  usedFuncs : List (String × List String)
  pfx : String

/-- the local `add` of `getUsedFuncs`: append the functions that are not in the list yet -/
def addNewFuncs (acc fs : List String) : List String :=
  fs.foldl (fun a x => if a.contains x then a else a ++ [x]) acc

/-- the work list `for i := 0; i < len(usedFuncs); i++ { add(p.usedFuncs[usedFuncs[i]]) }` -/
def workList (used : List (String × List String)) : Nat → Nat → List String → Option (List String)
  | 0, _, _ => none
  | fuel + 1, i, acc =>
    if h : i < acc.length then workList used fuel (i + 1) (addNewFuncs acc ((assocGet used acc[i]).getD []))
    else some acc

/-- every name of the call graph (the list can never get longer than this) -/
def graphNames (used : List (String × List String)) : List String := used.flatMap fun e => e.1 :: e.2

/-- `getUsedFuncs` -/
def getUsedFuncs (used : List (String × List String)) (start : String) : Option (List String) :=
  match assocGet used start with
  | none => some []
  | some callees =>
    workList used ((graphNames used).length + 2) 0 (addNewFuncs (if start.length > 0 then [start] else []) callees)

def cleanProgram (used : List (String × List String)) (body : List Stmt) : Option (List Stmt) := do
  let keep ← getUsedFuncs used ""
  pure (body.filter fun st => match st with
    | .funcDef name _ _ _ _ => keep.contains name
    | _ => true)

/-- the merge loop of `evaluateImports` -/
def mergeUsed (mine imported : List (String × List String)) : List (String × List String) :=
  imported.foldl (fun acc (fn, callees) =>
    match assocGet acc fn with
    | none => acc ++ [(fn, callees)]
    | some found => assocSet acc fn (callees.foldl (fun l c => if found.contains c then l else l ++ [c]) found)) mine

/-- `evaluateImport`: optional alias, path literal, NEWLINE or EOF -/
def evalImport : PM (String × String) := do
  let t ← eat
  let (alias, t) ← (if t.ty == TT_IDENTIFIER then do let n ← eat; pure (t.val, n) else pure ("", t))
  if t.ty != TT_STRING_LITERAL then err else
  let n ← peek
  if n.ty != TT_NEWLINE && n.ty != TT_EOF then err else
  -- only the newline is consumed: the end-of-file token stays for the statement loop (fix 7299276)
  if n.ty == TT_NEWLINE then do let _ ← eat; pure (alias, t.val) else pure (alias, t.val)

def tokensOf (src : Bytes) : Option (Array Tok) :=
  match Lexer.tokenize src with
  | .ok ts => some (ts.map fun t => { ty := t.ty, val := bytesStr t.val }).toArray
  | _ => none

def fuelFor (ntoks : Nat) : Nat := 40 * ntoks + 200

def skipNL : Nat → PM Unit
  | 0 => div
  | fuel + 1 => do
    let t ← peek
    if t.ty == TT_NEWLINE then do let _ ← eat; skipNL fuel else pure ()

/-- keep the imported statements, registering public definitions (end of `evaluateImports`) -/
def registerImported (ctx : Ctx) (stmts : List Stmt) : Ctx × List Stmt :=
  stmts.foldl (fun (acc : Ctx × List Stmt) st =>
    let (ctx, out) := acc
    match st with
    | .varDef vars _ =>
      let (ctx, ex) := vars.foldl (fun (a : Ctx × Bool) v =>
        let e := (assocGet a.1.vars v.name).isSome
        (if !e && v.pub then { a.1 with vars := assocSet a.1.vars v.name v } else a.1, a.2 && e)) (ctx, true)
      (ctx, if ex then out else out ++ [st])
    | .funcDef name pub rets params _ =>
      let e := (assocGet ctx.funcs name).isSome
      (if !e && pub then { ctx with funcs := assocSet ctx.funcs name ⟨name, rets, params, pub⟩ } else ctx,
       if e then out else out ++ [st])
    | _ => (ctx, out ++ [st])) (ctx, [])

mutual

/-- `Parser.parse(path, imported)`; `depth` bounds the import nesting -/
def parseFile (depth : Nat) (fs : FileSys) (path : String) (imported : Bool) (importing : List String) : PRes Parsed :=
  match depth with
  | 0 => .diverge
  | depth + 1 =>
    if importing.contains path then .error else
    if !fs.stat path then .error else
    match fs.read path with
    | none => .error
    | some (src, hash) =>
      match tokensOf src with
      | none => .error
      | some toks =>
        let pfx := if imported then hash else ""
        let st : PSt := { toks, pfx }
        match evalProgram depth fs path importing (fuelFor toks.size) st with
        | .ok body s =>
          if imported then .ok ⟨body, s.usedFuncs, pfx⟩ s
          else match cleanProgram s.usedFuncs body with
            | some b => .ok ⟨b, s.usedFuncs, pfx⟩ s
            | none => .diverge
        | .error => .error
        | .panic => .panic
        | .diverge => .diverge

/-- `evaluateProgram` -/
def evalProgram (depth : Nat) (fs : FileSys) (path : String) (importing : List String) (fuel : Nat) : PM (List Stmt) :=
  fun s0 =>
  match evalImports depth fs path importing fuel {} s0 with
  | .ok (ctx, imported) s =>
    let ctx := { ctx with imports := assocSet ctx.imports s.pfx s.pfx }
    match evalBlockContent fuel [TT_EOF] (fun _ _ => true) ctx .program s with
    | .ok own s' => .ok (imported ++ own) s'
    | .error => .error
    | .panic => .panic
    | .diverge => .diverge
  | .error => .error
  | .panic => .panic
  | .diverge => .diverge

/-- `evaluateImports` -/
def evalImports (depth : Nat) (fs : FileSys) (path : String) (importing : List String) (fuel : Nat) (ctx : Ctx) : PM (Ctx × List Stmt) :=
  fun s0 =>
  match skipNL fuel s0 with
  | .ok _ s =>
    let t := s.toks.getD s.idx Tok.zero
    if t.ty != TT_IMPORT then .ok (ctx, []) s else
    let s := { s with idx := s.idx + 1 }
    let n := s.toks.getD s.idx Tok.zero
    let multiple := n.ty == TT_OPENING_ROUND_BRACKET
    if multiple then
      let s := { s with idx := s.idx + 1 }
      let nl := s.toks.getD s.idx Tok.zero
      let s := { s with idx := s.idx + 1 }
      if nl.ty != TT_NEWLINE then .error else
      match importLoop depth fs path importing fuel true ctx [] s with
      | .ok (ctx, stmts) s' => let (c, out) := registerImported ctx stmts; .ok (c, out) s'
      | .error => .error
      | .panic => .panic
      | .diverge => .diverge
    else
      match importLoop depth fs path importing fuel false ctx [] s with
      | .ok (ctx, stmts) s' => let (c, out) := registerImported ctx stmts; .ok (c, out) s'
      | .error => .error
      | .panic => .panic
      | .diverge => .diverge
  | .error => .error
  | .panic => .panic
  | .diverge => .diverge

def importLoop (depth : Nat) (fs : FileSys) (path : String) (importing : List String) (fuel : Nat) (multiple : Bool)
    (ctx : Ctx) (acc : List Stmt) : PM (Ctx × List Stmt) :=
  fun s0 =>
  match fuel with
  | 0 => .diverge
  | fuel + 1 =>
  match (if multiple then skipNL fuel s0 else .ok () s0) with
  | .ok _ s =>
    match evalImport s with
    | .ok (alias0, ipath) s =>
      let abs := if isAbs ipath then cleanAbs ipath else pathJoin (pathDir path) ipath
      -- std fallback / alias rules
      let res : Option (String × String) :=
        if !fs.stat abs then
          let noExt := trimSuffix ipath (pathExt ipath)
          let stdPath := pathJoin (pathJoin fs.exeDir "std") (noExt ++ ".tsh")
          some (stdPath, if alias0.length == 0 then pathBase noExt else alias0)
        else if alias0.length == 0 then none
        else some (abs, alias0)
      match res with
      | none => .error
      | some (abs, alias) =>
        match parseFile depth fs abs true (importing ++ [path]) with
        | .ok parsed _ =>
          if (assocGet ctx.imports alias).isSome then .error else
          let ctx := { ctx with imports := assocSet ctx.imports alias parsed.pfx }
          let acc := acc ++ parsed.body
          let s := { s with usedFuncs := mergeUsed s.usedFuncs parsed.usedFuncs }
          match (if multiple then skipNL fuel s else .ok () s) with
          | .ok _ s =>
            let n := s.toks.getD s.idx Tok.zero
            if !multiple then .ok (ctx, acc) s
            else if n.ty == TT_CLOSING_ROUND_BRACKET then .ok (ctx, acc) { s with idx := s.idx + 1 }
            else if n.ty == TT_IDENTIFIER || n.ty == TT_STRING_LITERAL then
              importLoop depth fs path importing fuel multiple ctx acc s
            else .error
          | .error => .error
          | .panic => .panic
          | .diverge => .diverge
        | .error => .error
        | .panic => .panic
        | .diverge => .diverge
    | .error => .error
    | .panic => .panic
    | .diverge => .diverge
  | .error => .error
  | .panic => .panic
  | .diverge => .diverge

end

/-- the main file as `Parse` sees it before the unused functions are removed: the statements of all imported files
    and its own, and the call graph -/
def parseRaw (fs : FileSys) (main : String) : PRes Parsed :=
  if !fs.stat main then .error else
  match fs.read main with
  | none => .error
  | some (src, _) =>
    match tokensOf src with
    | none => .error
    | some toks =>
      let st : PSt := { toks, pfx := "" }
      match evalProgram (fs.files.length + 1) fs main [] (fuelFor toks.size) st with
      | .ok body s => .ok ⟨body, s.usedFuncs, ""⟩ s
      | .error => .error
      | .panic => .panic
      | .diverge => .diverge

/-- `Parser.Parse(path)`: the main file (this is `parseFile` for a file that is not imported, written out), then the
    removal of the unused functions -/
def parse (fs : FileSys) (main : String) : PRes Parsed :=
  match parseRaw fs main with
  | .ok raw s =>
    match cleanProgram raw.usedFuncs raw.body with
    | some b => .ok ⟨b, raw.usedFuncs, ""⟩ s
    | none => .diverge
  | .error => .error
  | .panic => .panic
  | .diverge => .diverge

theorem parse_eq_clean {fs : FileSys} {main : String} {p : Parsed} {s : PSt} (h : parse fs main = .ok p s) :
    ∃ raw, parseRaw fs main = .ok raw s ∧ cleanProgram raw.usedFuncs raw.body = some p.body := by
  unfold parse at h
  split at h
  · rename_i raw s1 hraw
    split at h
    · rename_i b hcl
      simp only [PRes.ok.injEq] at h
      obtain ⟨rfl, rfl⟩ := h
      exact ⟨raw, hraw, hcl⟩
    · simp at h
  · simp at h
  · simp at h
  · simp at h

end Tsh.Parser
