/-
  Model of /repo/transpiler/transpiler.go driving /repo/converters/bash/converter.go.

  `compile` walks the AST exactly as `transpiler.evaluate*` and the converter methods do (same order
  of converter calls, same counters and stacks, same error points) and produces *structured* lines
  (`Line`, one constructor per line template of the converter); `Line.render` produces the text.
  `emitBash p = Dump()` of the converter after `Transpile`.

  Tied to the code by byte-for-byte comparison of `emitBash (AST dumped by the Go parser)` with the
  script returned by the real `Transpile` (harness stage `BASH`), on every run.
-/
import TshVerif.Model.Ast
namespace Tsh.Bash
open Tsh

/-- One emitted line of the bash converter.  Operands are already-rendered operand texts
    (`${x}`, `${_h3}`, literal text, decimal numbers) exactly as the Go code passes them around. -/
inductive Line
  | shebang
  | comment (text : String)                         -- `# global … helper`
  | raw (text : String)                             -- fixed helper-body lines
  | assign (name : String) (value : String)         -- varAssignmentString (quote heuristic in render)
  | localAssign (name : String) (value : String)    -- `local name="$i"`
  | sah (arr index value dflt : String)             -- `_sah ${arr} idx "v" "d"`
  | funcStart (name : String)
  | funcEnd
  | ret                                             -- `return`
  | ifStart (word cond : String)                    -- `if|elif [ c -eq 1 ]; then`
  | else_
  | fi
  | forFlagInit (n : Nat)                           -- `_fv<n>=`
  | whileStart                                      -- `while true; do`
  | incrStart (n : Nat)                             -- `if [ ! -z ${_fv<n>} ]; then`
  | incrFlagSet (n : Nat)                           -- `_fv<n>=1`
  | forCond (cond : String)                         -- `if [ c -ne 1 ]; then break; fi`
  | done
  | brk
  | cont
  | echo (text : String)                            -- `printf '%s\n' "text"`
  | exit1
  | nop
  | writeFile (append content path : String)        -- `if [ "a" -eq "1" ]; then printf … >> "p"; else printf … > "p"; fi`
  | dvcIncr                                         -- `_dvc=$((${_dvc}+1))`
  | sahInit (arr : String) (index : Nat) (value : String)   -- `_sah ${h} i "v" ""` (slice literal element)
  | sliceLoad (target name index : String)          -- `eval "t=\"\${name[idx]}\""`
  | ssh (value a b : String)                        -- `_ssh "v" a b`
  | callFn (name : String) (args : List String)     -- `name "a1" "a2"`
  | sch (dst src : String)                          -- `_sch dst src`
  | readIn (prompt helper : String)                 -- `IFS= read -r -p "p" h`
  | appCall (text : String)                         -- uncaptured program call chain
deriving Repr, DecidableEq

def Line.render : Line → String
  | .shebang => "#!/bin/bash"
  | .comment t => s!"# global {t} helper"
  | .raw t => t
  | .assign n v => s!"{n}=\"{v}\""
  | .localAssign n v => s!"local {n}=\"{v}\""
  | .sah a i v d => s!"_sah {a} {i} \"{v}\" \"{d}\""
  | .funcStart n => s!"{n}() \{"
  | .funcEnd => "}"
  | .ret => "return"
  | .ifStart w c => s!"{w} [ {c} -eq 1 ]; then"
  | .else_ => "else"
  | .fi => "fi"
  | .forFlagInit n => s!"_fv{n}="
  | .whileStart => "while true; do"
  | .incrStart n => "if [ ! -z ${_fv" ++ toString n ++ "} ]; then"
  | .incrFlagSet n => s!"_fv{n}=1"
  | .forCond c => s!"if [ {c} -ne 1 ]; then break; fi"
  | .done => "done"
  | .brk => "break"
  | .cont => "continue"
  | .echo t => "printf '%s\\n' \"" ++ t ++ "\""
  | .exit1 => "exit 1"
  | .nop => ": # No operation"
  | .writeFile a c p =>
      "if [ \"" ++ a ++ "\" -eq \"1\" ]; then printf '%s\\n' \"" ++ c ++ "\" >> \"" ++ p ++ "\"; else printf '%s\\n' \"" ++ c ++ "\" > \"" ++ p ++ "\"; fi"
  | .dvcIncr => "_dvc=$((${_dvc}+1))"
  | .sahInit a i v => s!"_sah {a} {i} \"{v}\" \"\""
  | .sliceLoad t n i => "eval \"" ++ t ++ "=\\\"\\${" ++ n ++ "[" ++ i ++ "]}\\\"\""
  | .ssh v a b => s!"_ssh \"{v}\" {a} {b}"
  | .callFn n args => s!"{n} {" ".intercalate (args.map fun a => "\"" ++ a ++ "\"")}"
  | .sch d s => s!"_sch {d} {s}"
  | .readIn p h => s!"IFS= read -r{p} {h}"
  | .appCall t => t

structure St where
  startCode : List Line := []      -- reversed
  code : List Line := []           -- reversed
  varCounter : Nat := 0
  forCounter : Nat := 0
  fors : List Nat := []            -- innermost first
  funcs : List String := []        -- innermost first
  funcCounter : Nat := 0
  sahReq : Bool := false
  schReq : Bool := false
  sshReq : Bool := false
deriving Repr

inductive Res (α : Type)
  | ok (a : α)
  | error (msg : String)
  | panic (msg : String)
deriving Repr

def EM (α : Type) := St → Res (α × St)

instance : Monad EM where
  pure a := fun s => .ok (a, s)
  bind x f := fun s => match x s with
    | .ok (a, s') => f a s'
    | .error m => .error m
    | .panic m => .panic m

def fail {α} (m : String) : EM α := fun _ => .error m
def panic {α} (m : String) : EM α := fun _ => .panic m
def get : EM St := fun s => .ok (s, s)
def modify (f : St → St) : EM Unit := fun s => .ok ((), f s)

def addLine (l : Line) : EM Unit := modify fun s => { s with code := l :: s.code }

def inFunction (s : St) : Bool := !s.funcs.isEmpty

def varName (s : St) (name : String) (global : Bool) : String :=
  if inFunction s && !global then s!"f{s.funcCounter}_{name}" else name

def varEvalString (s : St) (name : String) (global : Bool) : String :=
  "${" ++ varName s name global ++ "}"

def nextHelperVar : EM String := fun s =>
  .ok (s!"_h{s.varCounter}", { s with varCounter := s.varCounter + 1 })

/-- `VarAssignment` / `VarDefinition` -/
def varAssignment (name value : String) (global : Bool) : EM Unit := do
  let s ← get
  addLine (.assign (varName s name global) value)

def varEvaluation (name : String) (global : Bool) : EM String := do
  let s ← get
  pure (varEvalString s name global)

def boolStr (b : Bool) : String := if b then "1" else "0"

def sliceLenString (name : String) : String := "$(eval \"echo \\${#" ++ name ++ "[@]}\")"
def sliceEvaluationString (target name index : String) : String :=
  "eval \"" ++ target ++ "=\\\"\\${" ++ name ++ "[" ++ index ++ "]}\\\"\""
def sliceAssignmentString (name index valueVar : String) : String :=
  "eval \"" ++ name ++ "[" ++ index ++ "]=\\\"\\${" ++ valueVar ++ "}\\\"\""

/-- `functionValueType` and the `ValueType()` methods of the AST nodes. -/
def fnValueType (rets : List ValueType) : ValueType :=
  match rets with
  | [] => { dt := .unknown, isSlice := false }
  | [t] => t
  | _ => { dt := .multiple, isSlice := false }

def Expr.valueType : Expr → ValueType
  | .boolLit _ => ⟨.bool, false⟩
  | .intLit _ => ⟨.int, false⟩
  | .strLit _ => ⟨.string, false⟩
  | .varEval v => v.vt
  | .unary _ _ vt => vt
  | .binary _ l _ => Expr.valueType l
  | .compare _ _ _ => ⟨.bool, false⟩
  | .logical _ _ _ => ⟨.bool, false⟩
  | .group e => Expr.valueType e
  | .call _ rets _ => fnValueType rets
  | .app _ _ _ => ⟨.multiple, false⟩
  | .sliceNew dt _ => ⟨dt, true⟩
  | .sliceEval _ _ dt => ⟨dt, false⟩
  | .substr _ _ _ => ⟨.string, false⟩
  | .len _ => ⟨.int, false⟩
  | .itoa _ => ⟨.string, false⟩
  | .exists_ _ => ⟨.bool, false⟩
  | .read _ => ⟨.string, false⟩
  | .input _ => ⟨.string, false⟩
  | .copy _ _ => ⟨.int, false⟩
  | .write _ _ _ => ⟨.string, false⟩
  | .bad _ => ⟨.unknown, false⟩

def firstValue (vs : List String) : String := vs.headD ""

/-- escaping of one character of a string literal (`StringToString`): backslash and double quote -/
def escChar (c : Char) : List Char := if c == '\\' || c == '"' then ['\\', c] else [c]

/-- bash `StringToString` -/
def stringToString (s : String) : String := String.ofList (s.toList.flatMap escChar)

/-! ### converter methods (expression side) -/

def condAssign (test : String) (t f : String) : String :=
  s!"$(if {test}; then echo {t}; else echo {f}; fi)"

def unaryOp (expr op : String) : EM String := do
  let h ← nextHelperVar
  if op == "!" then
    varAssignment h (condAssign s!"[ \"{expr}\" -eq \"1\" ]" "0" "1") false
    varEvaluation h false
  else fail s!"unknown unary operator \"{op}\""

def binaryOp (left op right : String) (vt : ValueType) : EM String := do
  let h ← nextHelperVar
  let notAllowed : EM String := fail s!"binary operation {op} is not allowed on type {vt.name}"
  if vt.isSlice then notAllowed else
  match vt.dt with
  | .int =>
    if op == "*" || op == "/" || op == "%" || op == "+" || op == "-" then do
      varAssignment h s!"$(({left}{op}{right}))" false
      varEvaluation h false
    else notAllowed
  | .string =>
    if op == "+" then do
      varAssignment h s!"{left}{right}" false
      varEvaluation h false
    else notAllowed
  | _ => notAllowed

def compareOpString (op : String) (vt : ValueType) : String :=
  if vt.isSlice then "" else
  match vt.dt with
  | .bool => if op == "==" then "-eq" else if op == "!=" then "-ne" else ""
  | .int =>
    if op == "==" then "-eq" else if op == "!=" then "-ne" else if op == ">" then "-gt"
    else if op == ">=" then "-ge" else if op == "<" then "-lt" else if op == "<=" then "-le" else ""
  | .string => if op == "==" then "==" else if op == "!=" then "!=" else ""
  | _ => ""

def comparisonOp (left op right : String) (vt : ValueType) : EM String := do
  let os := compareOpString op vt
  if os.length == 0 then fail s!"comparison {op} is not allowed on type {vt.name}" else
  let h ← nextHelperVar
  varAssignment h (condAssign s!"[ \"{left}\" {os} \"{right}\" ]" "1" "0") false
  varEvaluation h false

def logicalOp (left op right : String) : EM String := do
  if op == "&&" || op == "||" then
    let h ← nextHelperVar
    varAssignment h (condAssign s!"[ \"{left}\" -eq \"1\" ] {op} [ \"{right}\" -eq \"1\" ]" "1" "0") false
    varEvaluation h false
  else fail s!"unknown logical operator \"{op}\""

def sahInits (arr : String) : List String → Nat → EM Unit
  | [], _ => pure ()
  | v :: rest, i => do
      modify fun s => { s with sahReq := true }
      addLine (.sahInit arr i v)
      sahInits arr rest (i + 1)

def sliceInstantiation (values : List String) : EM String := do
  let s ← get
  addLine .dvcIncr
  let h ← nextHelperVar
  varAssignment h ("_dv" ++ varEvalString s "_dvc" true) false
  let s ← get
  sahInits (varEvalString s h false) values 0
  pure (varEvalString s h false)

def sliceEvaluation (name index : String) : EM String := do
  let h ← nextHelperVar
  let s ← get
  addLine (.sliceLoad (varName s h false) name index)
  varEvaluation h false

def sliceLen (name : String) : EM String := do
  let h ← nextHelperVar
  varAssignment h (sliceLenString name) false
  varEvaluation h false

def stringSubscript (value a b : String) : EM String := do
  let h ← nextHelperVar
  addLine (.ssh value a b)
  let s ← get
  varAssignment h (varEvalString s "_ret" true) false
  modify fun s => { s with sshReq := true }
  let s ← get
  pure (varEvalString s h false)

def stringLen (value : String) : EM String := do
  let h ← nextHelperVar
  varAssignment h value false
  let s ← get
  varAssignment h ("${#" ++ varName s h false ++ "}") false
  varEvaluation h false

def funcCall (name : String) (args : List String) (rets : List ValueType) (used : Bool) : EM (List String) := do
  addLine (.callFn name args)
  let mut out : List String := []
  if used then
    for i in List.range rets.length do
      let h ← nextHelperVar
      let s ← get
      varAssignment h (varEvalString s s!"_rv{i}" true) false
      out := out ++ [← varEvaluation h false]
  -- make sure return values contain as many values as expected
  pure (out ++ List.replicate (rets.length - out.length) "")

def appCallString (calls : List (String × List String)) : String :=
  " | ".intercalate (calls.map fun (name, args) =>
    let args' := args.map fun a => "\"" ++ a ++ "\""
    name ++ (if args'.isEmpty then "" else " ") ++ " ".intercalate args')

def appCall (calls : List (String × List String)) (used : Bool) : EM (List String) := do
  let cs := appCallString calls
  if used then
    let h1 ← nextHelperVar
    let h2 ← nextHelperVar
    varAssignment h1 s!"$({cs})" false
    let e ← varEvaluation h1 false
    varAssignment h2 "$?" false
    let s ← get
    pure [e, "", varEvalString s h2 false]
  else
    addLine (.appCall cs)
    pure ["", "", "0"]

def inputOp (prompt : String) : EM String := do
  let h ← nextHelperVar
  let p := if prompt.length > 0 then s!" -p \"{prompt}\"" else prompt
  let s ← get
  addLine (.readIn p (varName s h false))
  varEvaluation h false

def copyOp (dst src : String) (global : Bool) : EM String := do
  let s ← get
  let d := varName s dst global
  addLine (.sch d src)
  modify fun s => { s with sahReq := true, schReq := true }
  let h ← nextHelperVar
  let s ← get
  varAssignment h (sliceLenString (varEvalString s d true)) false
  let s ← get
  pure (varEvalString s h false)

def existsOp (path : String) : EM String := do
  let h ← nextHelperVar
  varAssignment h (condAssign s!"[ -e \"{path}\" ]" "1" "0") false
  varEvaluation h false

def readFile (path : String) : EM String := do
  let h ← nextHelperVar
  varAssignment h s!"$(cat -- \"{path}\")" false
  varEvaluation h false

/-! ### transpiler: expressions -/

mutual
/-- `evaluateExpression`; returns `expressionResult.values`. -/
def evalExpr (e : Expr) (used : Bool) : EM (List String) :=
  match e with
  | .boolLit b => pure [boolStr b]
  | .intLit n => pure [toString n]
  | .strLit s => pure [stringToString s]
  | .unary op x _ => do
      let r ← evalExpr x true
      let s ← unaryOp (firstValue r) op
      pure [s]
  | .binary op l r => do
      let a ← evalExpr l true
      let b ← evalExpr r true
      let s ← binaryOp (firstValue a) op (firstValue b) (Expr.valueType l)
      pure [s]
  | .compare op l r => do
      let a ← evalExpr l true
      let b ← evalExpr r true
      let s ← comparisonOp (firstValue a) op (firstValue b) (Expr.valueType l)
      pure [s]
  | .logical op l r => do
      let a ← evalExpr l true
      let b ← evalExpr r true
      let s ← logicalOp (firstValue a) op (firstValue b)
      pure [s]
  | .varEval v => do
      let s ← varEvaluation v.name v.global
      pure [s]
  | .sliceEval value index _ => do
      let v ← evalExpr value true
      let i ← evalExpr index true
      let s ← sliceEvaluation (firstValue v) (firstValue i)
      pure [s]
  | .substr value start stop => do
      let a ← evalExpr start true
      let b ← match stop with
        | none => pure a
        | some st => evalExpr st true
      let v ← evalExpr value true
      let s ← stringSubscript (firstValue v) (firstValue a) (firstValue b)
      pure [s]
  | .group x => evalExpr x used
  | .call name rets args => do
      let as ← evalArgs args
      let vs ← funcCall name as rets used
      if used && vs.length != rets.length then
        fail s!"function \"{name}\" must return {rets.length} values but returned {vs.length}"
      else pure vs
  | .app name args next => do
      let calls ← evalAppChain (.app name args next)
      appCall calls used
  | .sliceNew _ vals => do
      let vs ← evalArgs vals
      let s ← sliceInstantiation vs
      pure [s]
  | .input prompt => do
      let p ← match prompt with
        | none => pure ""
        | some x => do let r ← evalExpr x used; pure (firstValue r)
      let s ← inputOp p
      pure [s]
  | .copy dst src => do
      let r ← evalExpr src true
      let s ← copyOp dst.name (firstValue r) dst.global
      pure [s]
  | .itoa x => do
      let r ← evalExpr x true
      pure [firstValue r]
  | .exists_ x => do
      let r ← evalExpr x true
      let s ← existsOp (firstValue r)
      pure [s]
  | .len x => do
      let r ← evalExpr x true
      let s ← if (Expr.valueType x).isString then stringLen (firstValue r) else sliceLen (firstValue r)
      pure [s]
  | .read path => do
      if !(Expr.valueType path).isString then
        fail s!"expected string but got {(Expr.valueType path).name} as read path"
      else
        let r ← evalExpr path true
        let s ← readFile (firstValue r)
        pure [s]
  | .write _ _ _ => fail "unknown expression type write"
  | .bad w => fail s!"unknown expression type {w}"

/-- first values of a list of expressions, evaluated left to right with `valueUsed = true` -/
def evalArgs (es : List Expr) : EM (List String) :=
  match es with
  | [] => pure []
  | e :: rest => do
      let r ← evalExpr e true
      let rs ← evalArgs rest
      pure (firstValue r :: rs)

/-- the chain of an app call: `(name, argument texts)` per program, left to right -/
def evalAppChain (e : Expr) : EM (List (String × List String)) :=
  match e with
  | .app name args next => do
      let as ← evalArgs args
      match next with
      | some nx => do
          let rest ← evalAppChain nx
          pure ((name, as) :: rest)
      | none => pure [(name, as)]
  | _ => pure []
end

/-- all values of a list of expressions (`print`) -/
def evalAll (es : List Expr) : EM (List String) :=
  match es with
  | [] => pure []
  | e :: rest => do
      let r ← evalExpr e true
      let rs ← evalAll rest
      pure (r ++ rs)

/-! ### transpiler: statements -/

def defaultValue (vt : ValueType) : EM String :=
  match vt.dt with
  | .bool => pure "0"
  | .int => pure "0"
  | .string => pure ""
  | _ => fail s!"no default value defined for {vt.name}"

def currentForVar : EM Nat := fun s =>
  match s.fors with
  | n :: _ => .ok (n, s)
  | [] => .panic "index out of range [-1]"

/-- `evaluateAssignedValues` + the store loop of `evaluateVarDefinition` / `evaluateVarAssignment`. -/
def assignValues (vars : List Var) (vals : List Expr) : EM Unit := do
  let count := vars.length
  let mut values : List String := []
  for i in List.range count do
    match vals[i]? with
    | none => panic "index out of range"
    | some e =>
      let r ← evalExpr e true
      let mut v := firstValue r
      if count > 1 then
        let tmp := s!"_ma{i}"
        varAssignment tmp v false
        v ← varEvaluation tmp false
      values := values ++ [v]
  for (x, v) in vars.zip values do
    varAssignment x.name v x.global

def assignCallValues (vars : List Var) (call : Expr) : EM Unit := do
  let values ← evalExpr call true
  if values.length != vars.length then
    fail s!"require {vars.length} values but got {values.length}"
  else
    for (x, v) in vars.zip values do
      varAssignment x.name v x.global

mutual
def evalStmt (st : Stmt) : EM Unit :=
  match st with
  | .varDef vars vals => assignValues vars vals
  | .assign vars vals => assignValues vars vals
  | .varDefCall vars call => assignCallValues vars call
  | .assignCall vars call => assignCallValues vars call
  | .sliceAssign v index value => do
      let i ← evalExpr index true
      let r ← evalExpr value true
      let d ← defaultValue (Expr.valueType value)
      modify fun s => { s with sahReq := true }
      let s ← get
      addLine (.sah (varEvalString s v.name v.global) (firstValue i) (firstValue r) d)
  | .funcDef name _ _ params body => do
      modify fun s => { s with funcs := name :: s.funcs, funcCounter := s.funcCounter + 1 }
      addLine (.funcStart name)
      let s ← get
      for (p, i) in params.zipIdx do
        addLine (.localAssign (varName s p.name false) s!"${i + 1}")
      evalBlock body
      addLine .funcEnd
      modify fun s => { s with funcs := s.funcs.drop 1 }
  | .ret vals => do
      -- all values are evaluated first (left to right), then stored into _rv<i> in order
      let vs ← evalArgs vals
      for (v, i) in vs.zipIdx do
        varAssignment s!"_rv{i}" v true
      addLine .ret
  | .ifS cond body elifs els => do
      let c ← evalExpr cond true
      let ecs ← evalConds elifs
      addLine (.ifStart "if" (firstValue c))
      evalBlock body
      evalElifs elifs ecs
      if !els.isEmpty then
        addLine .else_
        evalBlock els
      addLine .fi
  | .forS init cond incr body => do
      match init with
      | some i => evalStmt i
      | none => pure ()
      modify fun s => { s with fors := s.forCounter :: s.fors, forCounter := s.forCounter + 1 }
      let n ← currentForVar
      addLine (.forFlagInit n)
      addLine .whileStart
      match incr with
      | some i => do
          addLine (.incrStart n)
          evalStmt i
          addLine .fi
          addLine (.incrFlagSet n)
      | none => pure ()
      let c ← evalExpr cond true
      addLine (.forCond (firstValue c))
      evalBlock body
      addLine .done
      modify fun s => { s with fors := s.fors.drop 1 }
  | .brk => addLine .brk
  | .cont => addLine .cont
  | .print es => do
      let vs ← evalAll es
      addLine (.echo (" ".intercalate vs))
  | .panic e => do
      let r ← evalExpr e true
      addLine (.echo s!"panic: {firstValue r}")
      addLine .exit1
  | .expr (.write path data append) => do
      if !(Expr.valueType path).isString then
        fail s!"expected string but got {(Expr.valueType path).name} as read path"
      else
      let p ← evalExpr path true
      if !(Expr.valueType data).isString then
        fail s!"expected string but got {(Expr.valueType data).name} as data"
      else
      let d ← evalExpr data true
      let a ← match append with
        | none => pure "0"
        | some x =>
          if !(Expr.valueType x).isBool then fail s!"expected bool but got {(Expr.valueType x).name} as append flag"
          else do let r ← evalExpr x true; pure (firstValue r)
      addLine (.writeFile a (firstValue d) (firstValue p))
  | .expr e => do
      let _ ← evalExpr e false
      pure ()

/-- `evaluateBlock`: an empty body becomes a no-op line -/
def evalBlock (body : List Stmt) : EM Unit :=
  match body with
  | [] => addLine .nop
  | s :: rest => do evalStmt s; evalStmts rest

def evalStmts (body : List Stmt) : EM Unit :=
  match body with
  | [] => pure ()
  | s :: rest => do evalStmt s; evalStmts rest

/-- conditions of all else-if branches, evaluated before `IfStart` -/
def evalConds (elifs : List (Expr × List Stmt)) : EM (List String) :=
  match elifs with
  | [] => pure []
  | (c, _) :: rest => do
      let r ← evalExpr c true
      let rs ← evalConds rest
      pure (firstValue r :: rs)

def evalElifs (elifs : List (Expr × List Stmt)) (conds : List String) : EM Unit :=
  match elifs, conds with
  | (_, body) :: rest, c :: cs => do
      addLine (.ifStart "elif" c)
      evalBlock body
      evalElifs rest cs
  | _, _ => pure ()
end

/-! ### ProgramEnd / Dump -/

def helperLines (s : St) : List Line :=
  (if s.sahReq then
    [.comment "slice assignment", .funcStart "_sah",
     .raw "local _i=${2}",
     .raw ("local _l=" ++ sliceLenString "${1}"),
     .raw "for ((_c=${_l};_c<${_i};_c++)); do",
     .raw (sliceAssignmentString "${1}" "${_c}" "4"),
     .raw "done",
     .raw (sliceAssignmentString "${1}" "${_i}" "3"),
     .funcEnd]
   else []) ++
  (if s.schReq then
    [.comment "slice copy", .funcStart "_sch",
     .raw "local _i=0",
     .raw ("local _l=" ++ sliceLenString "${2}"),
     .raw "local _n=$(eval \"echo \\${${1}}\")",
     .raw "while [ ${_i} -lt ${_l} ]; do",
     .raw (sliceEvaluationString "local _v" "${2}" "${_i}"),
     .raw (sliceAssignmentString "${_n}" "${_i}" "_v"),
     .raw "_i=$((${_i}+1))",
     .raw "done",
     .funcEnd]
   else []) ++
  (if s.sshReq then
    [.comment "substring", .funcStart "_ssh",
     .raw "_ls=$((${2}))",
     .raw "_ll=$(((${3}-${2})+1))",
     .raw "_ret=\"${1:${_ls}:${_ll}}\"",
     .funcEnd]
   else [])

/-- all lines of the script, in `Dump` order -/
def compile (p : Program) : Res (List Line) :=
  match evalStmts p {} with
  | .ok (_, s) =>
      -- in the Go code the sch helper flag also sets the sah flag (Copy sets both)
      .ok ([Line.shebang] ++ helperLines s ++ s.code.reverse)
  | .error m => .error m
  | .panic m => .panic m

def renderScript (ls : List Line) : String :=
  "\n".intercalate (ls.map Line.render ++ [""])

def emitBash (p : Program) : Res String :=
  match compile p with
  | .ok ls => .ok (renderScript ls)
  | .error m => .error m
  | .panic m => .panic m

end Tsh.Bash
