/-
  The elaborated AST that /repo/parser produces (parser/*.go node types), as the transpiler sees it
  through the exported accessors.
-/
import TshVerif.Base
namespace Tsh

inductive DataType | unknown | multiple | bool | int | string | other (s : String)
deriving Repr, DecidableEq, Inhabited

structure ValueType where
  dt : DataType
  isSlice : Bool
deriving Repr, DecidableEq, Inhabited

namespace ValueType
def isBool (v : ValueType) : Bool := v.dt == .bool && !v.isSlice
def isInt (v : ValueType) : Bool := v.dt == .int && !v.isSlice
def isString (v : ValueType) : Bool := v.dt == .string && !v.isSlice
def equals (a b : ValueType) : Bool := a.dt == b.dt && a.isSlice == b.isSlice
end ValueType

def DataType.name : DataType → String
  | .unknown => "unknown" | .multiple => "multiple" | .bool => "bool" | .int => "int"
  | .string => "string" | .other s => s

def ValueType.name (v : ValueType) : String := (if v.isSlice then "[]" else "") ++ v.dt.name

structure Var where
  name : String
  vt : ValueType
  global : Bool
  pub : Bool
deriving Repr, DecidableEq, Inhabited

mutual
inductive Expr
  | boolLit (b : Bool)
  | intLit (n : Int)
  | strLit (s : String)
  | varEval (v : Var)
  | unary (op : String) (e : Expr) (vt : ValueType)
  | binary (op : String) (l r : Expr)
  | compare (op : String) (l r : Expr)
  | logical (op : String) (l r : Expr)
  | group (e : Expr)
  | call (name : String) (rets : List ValueType) (args : List Expr)
  | app (name : String) (args : List Expr) (next : Option Expr)
  | sliceNew (dt : DataType) (vals : List Expr)
  | sliceEval (value index : Expr) (dt : DataType)
  | substr (value start : Expr) (stop : Option Expr)
  | len (e : Expr)
  | itoa (e : Expr)
  | exists_ (e : Expr)
  | read (e : Expr)
  | input (prompt : Option Expr)
  | copy (dst : Var) (src : Expr)
  | write (path data : Expr) (append : Option Expr)
  | bad (what : String)       -- a node the dumper does not know (never produced by the parser)
end

inductive Stmt
  | varDef (vars : List Var) (vals : List Expr)
  | varDefCall (vars : List Var) (call : Expr)
  | assign (vars : List Var) (vals : List Expr)
  | assignCall (vars : List Var) (call : Expr)
  | sliceAssign (v : Var) (index value : Expr)
  | funcDef (name : String) (pub : Bool) (rets : List ValueType) (params : List Var) (body : List Stmt)
  | ret (vals : List Expr)
  | ifS (cond : Expr) (body : List Stmt) (elifs : List (Expr × List Stmt)) (els : List Stmt)
  | forS (init : Option Stmt) (cond : Expr) (incr : Option Stmt) (body : List Stmt)
  | brk
  | cont
  | print (es : List Expr)
  | panic (e : Expr)
  | expr (e : Expr)

abbrev Program := List Stmt

end Tsh
