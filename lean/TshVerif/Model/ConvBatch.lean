/-
  Model of /repo/converters/batch/converter.go: converter state (five code buffers, counters, label
  and loop stacks, helper flags), every method as a state transformer over structured lines
  (`BLine`), `render`, `Dump` (start, helpers, function blocks in reverse order, global code, end).

  Tied to the code by byte-for-byte comparison with the script the real `Transpile` returns.
-/
import TshVerif.Model.Transpile
namespace Tsh.Batch
open Tsh Tsh.Tr

/-- One emitted line.  Control structure is explicit (labels, jumps, calls, parenthesised blocks);
    everything else is `raw`. -/
inductive BLine
  | raw (text : String)
  | label (name : String)                        -- `:name`   (function labels, `end`)
  | goto (name : String)                         -- `goto :name`
  | clabel (name : String)                       -- `:name`   label of an if / loop construct (allocated from a counter)
  | cgoto (name : String)                        -- `goto :name`   jump to such a label
  | call (name : String) (args : List String)    -- `call :name a1 a2`
  | opn (text : String)                          -- a line that ends with `(` and opens a block
  | close                                        -- `)`
  | elseOpen                                     -- `) else (`
  | elseIfOpen (text : String)                   -- `) else if … (`
  -- the lines of scalar computations, structured so that `Sem/Cmd` can give them a meaning (same text as before)
  | set (name value : String)                    -- `set "name=value"`
  | setA (name l op r : String)                  -- `set /A "name=l<op>r"`   (`%` is written `%%`)
  | ifSet (q l os r h a b : String)              -- `if qlq os qrq (set "h=a") else set "h=b"`
  | andSet (l r h : String)                      -- `if l equ 1 (if r equ 1 (set "h=1") else set "h=0") else set "h=0"`
  | orSet (l r h : String)                       -- `if l equ 1 (set "h=1") else if r equ 1 (set "h=1") else set "h=0"`
deriving Repr, DecidableEq

def BLine.render : BLine → String
  | .raw t => t
  | .label n => ":" ++ n
  | .goto n => "goto :" ++ n
  | .clabel n => ":" ++ n
  | .cgoto n => "goto :" ++ n
  | .call n args => "call :" ++ n ++ " " ++ " ".intercalate args
  | .opn t => t
  | .close => ")"
  | .elseOpen => ") else ("
  | .elseIfOpen t => ") else " ++ t
  | .set n v => "set \"" ++ n ++ "=" ++ v ++ "\""
  | .setA n l op r => "set /A \"" ++ n ++ "=" ++ l ++ (if op == "%" then "%%" else op) ++ r ++ "\""
  | .ifSet q l os r h a b =>
      "if " ++ q ++ l ++ q ++ " " ++ os ++ " " ++ q ++ r ++ q ++ " (set \"" ++ h ++ "=" ++ a ++ "\") else set \"" ++ h ++ "=" ++ b ++ "\""
  | .andSet l r h =>
      "if " ++ l ++ " equ 1 (if " ++ r ++ " equ 1 (set \"" ++ h ++ "=1\") else set \"" ++ h ++ "=0\") else set \"" ++ h ++ "=0\""
  | .orSet l r h =>
      "if " ++ l ++ " equ 1 (set \"" ++ h ++ "=1\") else if " ++ r ++ " equ 1 (set \"" ++ h ++ "=1\") else set \"" ++ h ++ "=0\""

structure St where
  startCode : List BLine := []          -- all buffers reversed
  helperCode : List BLine := []
  globalCode : List BLine := []
  previousFunctionName : String := ""
  functionsCode : List (List BLine) := []   -- newest block first, each block reversed
  endCode : List BLine := []
  varCounter : Nat := 0
  ifCounter : Nat := 0
  forCounter : Nat := 0
  endLabels : List String := []         -- innermost first
  funcs : List String := []             -- innermost first
  funcCounter : Nat := 0
  fors : List String := []              -- labels, innermost first
  ifs : List String := []               -- labels, innermost first
  lfSet : Bool := false
  appCallReq : Bool := false
  readReq : Bool := false
  sahReq : Bool := false
  schReq : Bool := false
  slsReq : Bool := false
  slgReq : Bool := false
  stshReq : Bool := false
  stlhReq : Bool := false
  fwhReq : Bool := false
  echReq : Bool := false
deriving Repr

abbrev BM := EM St

def inFunction (s : St) : Bool := !s.funcs.isEmpty

def addStartLine (l : BLine) : BM Unit := modify fun s => { s with startCode := l :: s.startCode }
def addHelperLine (l : BLine) : BM Unit := modify fun s => { s with helperCode := l :: s.helperCode }
def addEndLine (l : BLine) : BM Unit := modify fun s => { s with endCode := l :: s.endCode }

/-- `addLine`: into the block of the current function (a new block when the function changes), else global -/
def addLine (l : BLine) : BM Unit := fun s =>
  match s.funcs with
  | [] => .ok ((), { s with globalCode := l :: s.globalCode })
  | cur :: _ =>
    let s := if cur != s.previousFunctionName then { s with previousFunctionName := cur, functionsCode := [] :: s.functionsCode } else s
    match s.functionsCode with
    | blk :: rest => .ok ((), { s with functionsCode := (l :: blk) :: rest })
    | [] => .panic "index out of range [-1]"

def varName (s : St) (name : String) (global : Bool) : String :=
  if inFunction s && !global then s!"f{s.funcCounter}_{name}" else name

def varAssignmentString (s : St) (name value : String) (global : Bool) : String :=
  "set \"" ++ varName s name global ++ "=" ++ value ++ "\""

def varEvalString (s : St) (name : String) (global : Bool) : String := "!" ++ varName s name global ++ "!"

def nextHelperVar : BM String := fun s => .ok (s!"_h{s.varCounter}", { s with varCounter := s.varCounter + 1 })

def varAssignment (name value : String) (global : Bool) : BM Unit := do
  let s ← get
  addLine (.set (varName s name global) value)

def varEvaluation (name : String) (global : Bool) : BM String := do
  let s ← get
  pure (varEvalString s name global)

def addLf : BM Unit := do
  let s ← get
  if !s.lfSet then
    addStartLine (.raw "(set LF=^")
    addStartLine (.raw "")
    addStartLine (.raw ")")
    modify fun s => { s with lfSet := true }
  else pure ()

def replaceAll (s pat rep : String) : String := rep.intercalate (s.splitOn pat)

/-- `!` -> `^!`, line feed -> `!LF!`: two `strings.ReplaceAll` with one-character patterns, i.e. a map over the characters
    (the second replacement does not see the first one's output: it contains no line feed) -/
def escCharB (c : Char) : List Char := if c == '!' then ['^', '!'] else if c == '\n' then ['!', 'L', 'F', '!'] else [c]

def escapeB (value : String) : String := String.ofList (value.toList.flatMap escCharB)

def stringToString (value : String) : BM String := do
  addLf
  pure (escapeB value)

def funcArgVar (i : Nat) : String := s!"_fa{i}"
def returnValVar (i : Nat) : String := s!"_rv{i}"

/-- `callFuncString`: the global arguments are assigned first, then `call :name args` -/
def setGlobalArgs : List String → Nat → BM Unit
  | [], _ => pure ()
  | a :: rest, i => do varAssignment (funcArgVar i) a true; setGlobalArgs rest (i + 1)

def trimLeftColon (s : String) : String := String.ofList (s.toList.dropWhile (· == ':'))

def callFunc (name : String) (globalArgs : List String) (args : List String) : BM Unit := do
  setGlobalArgs globalArgs 0
  addLine (.call (trimLeftColon name) args)

def callEcho (values : List String) : BM Unit := do
  modify fun s => { s with echReq := true }
  callFunc "_ech" [" ".intercalate values] []

def sliceAssignmentString (name index value : String) : String := "set \"" ++ name ++ "_" ++ index ++ "=" ++ value ++ "\""

def currentFunc : BM String := fun s =>
  match s.funcs with
  | f :: _ => .ok (f, s)
  | [] => .panic "index out of range [-1]"

def currentIf : BM String := fun s =>
  match s.ifs with
  | l :: _ => .ok (l, s)
  | [] => .panic "index out of range [-1]"

def currentFor : BM String := fun s =>
  match s.fors with
  | l :: _ => .ok (l, s)
  | [] => .panic "index out of range [-1]"

def currentForVar (s : St) : String := s!"_fv{s.forCounter - 1}"

def ifStartLine (condition : String) : String := "if \"" ++ condition ++ "\" equ \"1\" ("

def compareOpString (op : String) (vt : ValueType) : String × String :=
  if vt.isSlice then ("", "") else
  match vt.dt with
  | .bool => (if op == "==" then "equ" else if op == "!=" then "neq" else "", "")
  | .int =>
    (if op == "==" then "equ" else if op == "!=" then "neq" else if op == ">" then "gtr"
     else if op == ">=" then "geq" else if op == "<" then "lss" else if op == "<=" then "leq" else "", "")
  | .string => (if op == "==" then "equ" else if op == "!=" then "neq" else "", "\"")
  | _ => ("", "")

def setParams : List String → Nat → BM Unit
  | [], _ => pure ()
  | p :: rest, i => do
      let s ← get
      addLine (.raw (varAssignmentString s p (varEvalString s (funcArgVar i) true) false))
      setParams rest (i + 1)

def storeRets : List String → Nat → BM Unit
  | [], _ => pure ()
  | v :: rest, i => do varAssignment (returnValVar i) v true; storeRets rest (i + 1)

def copyRets : Nat → Nat → BM (List String)
  | 0, _ => pure []
  | n + 1, i => do
      let h ← nextHelperVar
      let s ← get
      varAssignment h (varEvalString s (returnValVar i) true) false
      let e ← varEvaluation h false
      let rest ← copyRets n (i + 1)
      pure (e :: rest)

def sliceInits (arr : String) : List String → Nat → BM Unit
  | [], _ => pure ()
  | v :: rest, i => do addLine (.raw (sliceAssignmentString arr (toString i) v)); sliceInits arr rest (i + 1)

def appCallStrings (calls : List (String × List String)) : List String :=
  calls.map fun (name, args) =>
    let args' := args.map fun a => if a.startsWith "%" || (a.splitOn " ").length > 1 then "\"" ++ a ++ "\"" else a
    name ++ (if args'.isEmpty then "" else " ") ++ " ".intercalate args'

def programStart : BM Unit := do
  addStartLine (.raw "@echo off")
  addStartLine (.raw "setlocal EnableDelayedExpansion")
  addStartLine (.raw "setlocal")
  addStartLine (.set "_e" "0")

def sliceAssignmentOp (name index value dflt : String) (global : Bool) : BM Unit := do
  modify fun s => { s with sahReq := true }
  let s ← get
  callFunc "_sah" [value] [varName s name global, index, dflt]

def funcStartOp (name : String) (params : List String) : BM Unit := do
  modify fun s => { s with funcCounter := s.funcCounter + 1, funcs := name :: s.funcs }
  addLine (.raw s!":: {name} function begin")
  addLine (.goto ("_eo_" ++ name))
  addLine (.label name)
  setParams params 0

def funcEndOp : BM Unit := do
  let name ← currentFunc
  addLine (.label ("_ret_" ++ name))
  addLine (.raw "exit /B")
  addLine (.label ("_eo_" ++ name))
  addLine (.raw s!":: {name} function end")
  modify fun s => { s with funcs := s.funcs.drop 1 }

def retOp (vals : List String) : BM Unit := do
  let name ← currentFunc
  storeRets vals 0
  addLine (.goto ("_ret_" ++ name))

def ifStartOp (c : String) : BM Unit := do
  modify fun s => { s with ifs := s!"_i{s.ifCounter}" :: s.ifs, ifCounter := s.ifCounter + 1 }
  addLine (.opn (ifStartLine c))

def ifEndOp : BM Unit := do
  let l ← currentIf
  addLine (.cgoto l)
  addLine .close
  addLine (.clabel l)
  modify fun s => { s with ifs := s.ifs.drop 1 }

def elseIfStartOp (c : String) : BM Unit := do
  let l ← currentIf
  addLine (.cgoto l)
  addLine (.elseIfOpen (ifStartLine c))

def elseStartOp : BM Unit := do
  let l ← currentIf
  addLine (.cgoto l)
  addLine .elseOpen

def forStartOp : BM Unit := do
  modify fun s => { s with endLabels := s!"_e{s.forCounter}" :: s.endLabels,
                            fors := s!"_f{s.forCounter}" :: s.fors, forCounter := s.forCounter + 1 }
  let s ← get
  let l ← currentFor
  addLine (.set (currentForVar s) "")
  addLine (.clabel l)

def forIncrementStartOp : BM Unit := do
  let s ← get
  addLine (.opn ("if defined " ++ currentForVar s ++ " ("))

def forIncrementEndOp : BM Unit := do
  let s ← get
  addLine .close
  addLine (.set (currentForVar s) "1")

def forEndTail : List String → BM Unit
  | e :: rest => do
      modify fun s => { s with endLabels := rest, fors := s.fors.drop 1 }
      addLine (.clabel e)
  | [] => Tr.panic "index out of range [-1]"

def forEndOp : BM Unit := do
  let l ← currentFor
  addLine (.cgoto l)
  addLine .close
  let s ← get
  forEndTail s.endLabels

def brkTail : List String → BM Unit
  | e :: _ => addLine (.cgoto e)
  | [] => fail "break outside of a loop is not supported"

def brkOp : BM Unit := do
  let s ← get
  brkTail s.endLabels

def contOp : BM Unit := do
  let l ← currentFor
  addLine (.cgoto l)

def panicOp (v : String) : BM Unit := do
  callEcho [v]
  addLine (.set "_e" "1")
  addLine (.goto "end")

def writeFileOp (path content append : String) : BM Unit := do
  modify fun s => { s with fwhReq := true }
  callFunc "_fwh" [content] [path, append]

def unaryOp (expr op : String) : BM String := do
  let h ← nextHelperVar
  if op == "!" then do
    let s ← get
    addLine (.ifSet "" expr "equ" "1" (varName s h false) "0" "1")
    varEvaluation h false
  else fail s!"unknown unary operator \"{op}\""

def notAllowedBin (op : String) (vt : ValueType) : BM String :=
  fail s!"binary operation {op} is not allowed on type {vt.name}"

def binaryOp (left op right : String) (vt : ValueType) : BM String := do
  let h ← nextHelperVar
  if vt.isSlice then notAllowedBin op vt else
  match vt.dt with
  | .int =>
    if op == "*" || op == "/" || op == "+" || op == "-" || op == "%" then do
      let s ← get
      addLine (.setA (varName s h false) left op right)
      varEvaluation h false
    else notAllowedBin op vt
  | .string =>
    if op == "+" then do
      varAssignment h (left ++ right) false
      varEvaluation h false
    else notAllowedBin op vt
  | _ => notAllowedBin op vt

def comparisonOpWith (os q left op right : String) (vt : ValueType) : BM String :=
  if os.length == 0 then fail s!"comparison {op} is not allowed on type {vt.name}" else do
  let h ← nextHelperVar
  let s ← get
  addLine (.ifSet q left os right (varName s h false) "1" "0")
  varEvaluation h false

def comparisonOp (left op right : String) (vt : ValueType) : BM String :=
  comparisonOpWith (compareOpString op vt).1 (compareOpString op vt).2 left op right vt

def logicalOp (left op right : String) : BM String := do
  let h ← nextHelperVar
  let s ← get
  if op == "&&" then do
    addLine (.andSet left right (varName s h false))
    varEvaluation h false
  else if op == "||" then do
    addLine (.orSet left right (varName s h false))
    varEvaluation h false
  else fail s!"unknown logical operator \"{op}\""

def sliceInstantiationOp (vals : List String) : BM String := do
  addLine (.raw "set /A \"_dvc=!_dvc!+1\"")
  let h ← nextHelperVar
  varAssignment h "_dv!_dvc!" false
  modify fun s => { s with slsReq := true }
  let s ← get
  callFunc "_sls" [] [varEvalString s h false, toString vals.length]
  sliceInits (varEvalString s h false) vals 0
  pure (varEvalString s h false)

def sliceEvaluationOp (name index : String) : BM String := do
  let h ← nextHelperVar
  let s ← get
  addLine (.raw ("for /f \"delims=\" %%i in (\"" ++ name ++ "_" ++ index ++ "\") do set \"" ++ varName s h false ++ "=!%%i!\""))
  varEvaluation h false

def sliceLenOp (name : String) : BM String := do
  let h ← nextHelperVar
  modify fun s => { s with slgReq := true }
  callFunc "_slg" [] [name]
  let s ← get
  varAssignment h (varEvalString s "_len" true) false
  varEvaluation h false

def stringSubscriptOp (value a b : String) : BM String := do
  let h ← nextHelperVar
  modify fun s => { s with stshReq := true }
  callFunc "_stsh" [value] [a, b]
  let s ← get
  varAssignment h (varEvalString s "_sub" true) false
  let s ← get
  pure (varEvalString s h false)

def stringLenOp (value : String) : BM String := do
  let h ← nextHelperVar
  modify fun s => { s with stlhReq := true }
  callFunc "_stlh" [value] []
  let s ← get
  varAssignment h (varEvalString s "_l" true) false
  varEvaluation h false

def funcCallOp (name : String) (args : List String) (rets : List ValueType) (used : Bool) : BM (List String) := do
  callFunc name args []
  let out ← (if used then copyRets rets.length 0 else pure [])
  pure (out ++ List.replicate (rets.length - out.length) "")

def appCallWith (cs : List String) (used : Bool) : BM (List String) :=
  if used then do
    let h1 ← nextHelperVar
    let h2 ← nextHelperVar
    modify fun s => { s with appCallReq := true }
    addLf
    callFunc "_ach" [" | ".intercalate cs] []
    let s ← get
    varAssignment h1 (varEvalString s "_h" true) false
    let e ← varEvaluation h1 false
    let s ← get
    varAssignment h2 (varEvalString s "_te" true) false
    let s ← get
    pure [e, "", varEvalString s h2 false]
  else do
    addLine (.raw ("call " ++ " | ".intercalate cs))
    pure ["", "", "0"]

def appCallOp (calls : List (String × List String)) (used : Bool) : BM (List String) :=
  appCallWith (appCallStrings calls) used

def inputOp (prompt : String) : BM String := do
  let h ← nextHelperVar
  addLine (.raw ("set /p \"" ++ h ++ "=" ++ prompt ++ "\""))
  varEvaluation h false

def copyOp (dst src : String) (global : Bool) : BM String := do
  modify fun s => { s with schReq := true }
  let s ← get
  callFunc "_sch" [] [varName s dst global, src]
  let h ← nextHelperVar
  callFunc "_slg" [] [src]
  let s ← get
  varAssignment h (varEvalString s "_len" true) false
  varEvaluation h false

def existsOp (path : String) : BM String := do
  let h ← nextHelperVar
  let s ← get
  addLine (.raw ("if exist \"" ++ path ++ "\" (" ++ varAssignmentString s h "1" false ++ ") else " ++ varAssignmentString s h "0" false))
  varEvaluation h false

def readFileOp (path : String) : BM String := do
  let h ← nextHelperVar
  modify fun s => { s with readReq := true }
  addLf
  callFunc "_frh" [] [path]
  let s ← get
  varAssignment h (varEvalString s "_h" true) false
  varEvaluation h false

/-- the batch converter as a `Conv` -/
def conv : Conv St where
  stringToString := stringToString
  programStart := programStart
  programEnd := pure ()            -- helpers and end code are added by `dumpLines`
  varDefinition := varAssignment
  sliceAssignment := sliceAssignmentOp
  funcStart := funcStartOp
  funcEnd := funcEndOp
  ret := retOp
  ifStart := ifStartOp
  ifEnd := ifEndOp
  elseIfStart := elseIfStartOp
  elseIfEnd := pure ()
  elseStart := elseStartOp
  elseEnd := pure ()
  forStart := forStartOp
  forIncrementStart := forIncrementStartOp
  forIncrementEnd := forIncrementEndOp
  forCondition c := addLine (.opn (ifStartLine c))
  forEnd := forEndOp
  brk := brkOp
  cont := contOp
  print vals := callEcho vals
  panic := panicOp
  writeFile := writeFileOp
  nop := addLine (.raw "rem No operation")
  unaryOperation expr op _ _ := unaryOp expr op
  binaryOperation left op right vt _ := binaryOp left op right vt
  comparison left op right vt _ := comparisonOp left op right vt
  logicalOperation left op right _ _ := logicalOp left op right
  varEvaluation name _ global := varEvaluation name global
  sliceInstantiation vals _ := sliceInstantiationOp vals
  sliceEvaluation name index _ := sliceEvaluationOp name index
  sliceLen name _ := sliceLenOp name
  stringSubscript value a b _ := stringSubscriptOp value a b
  stringLen value _ := stringLenOp value
  funcCall := funcCallOp
  appCall := appCallOp
  input prompt _ := inputOp prompt
  copy dst src _ global := copyOp dst src global
  exists_ path _ := existsOp path
  readFile path _ := readFileOp path

/-! ### ProgramEnd: helper routines -/

def helper (helperType label : String) (code : List BLine) : List BLine :=
  [.raw s!":: global {helperType} helper begin", .goto ("_eo_" ++ label), .label label] ++ code ++
  [.raw "exit /B", .label ("_eo_" ++ label), .raw s!":: global {helperType} helper end"]

/-- the helper routines in the order `ProgramEnd` adds them; the flags cascade as in the Go code -/
def helperLines (s : St) : List BLine :=
  let fwh := if s.fwhReq then helper "file write" "_fwh"
      [.raw "set \"_a=>\"", .raw "if \"%2\" equ \"1\" set \"_a=>>\"",
       .opn "for /f \"delims=\" %%i in (\"!_fa0!\") do (",
       .opn "for /f \"delims=\" %%j in ('echo %%i!_a! %~1') do (",
       .raw "rem", .close, .raw "set \"_a=>>\"", .close] else []
  let ach := if s.appCallReq then helper "app call" "_ach"
      [.raw "set \"_h=\"", .raw "set \"_te=\"",
       .opn "for /f \"delims=\" %%i in ('cmd /V:ON /C \"!_fa0! & echo ^!errorlevel^!\"') do (",
       .raw "if defined _h set \"_h=!_h!!LF!\"", .raw "set \"_h=!_h!!_te!\"", .raw "set _te=%%i", .close] else []
  let frh := if s.readReq then helper "read" "_frh"
      [.raw "set \"_h=\"", .opn "for /f \"delims=\" %%i in (%~1) do (",
       .raw "if defined _h set \"_h=!_h!!LF!\"", .raw "set \"_h=!_h!%%i\"", .close] else []
  let sch := if s.schReq then helper "slice copy" "_sch"
      [.raw "set \"_i=0\"", .call "_slg" ["%2"], .label "_sch_loop", .opn "if !_i! lss !_len! (",
       .raw "for /f \"delims=\" %%i in (\"%2_!_i!\") do set \"_v=!%%i!\"",
       .raw (sliceAssignmentString "!%1!" "!_i!" "!_v!"), .raw "set /A \"_i=!_i!+1\"", .goto "_sch_loop", .close,
       .call "_slg" ["!%1!"], .raw "if !_i! gtr !_len! call :_sls !%1! !_i!"] else []
  let sahReq := s.sahReq
  let sah := if sahReq then helper "slice assignment" "_sah"
      [.call "_slg" ["!%1!"], .raw "set \"_i=!_len!\"", .label "_sah_loop", .opn "if !_i! lss %2 (",
       .raw (sliceAssignmentString "!%1!" "!_i!" "%3"), .raw "set /A \"_i=!_i!+1\"", .goto "_sah_loop", .elseOpen,
       .opn "if %2 geq !_len! (", .raw "set /A \"_len=%2+1\"", .call "_sls" ["!%1!", "!_len!"], .close, .close,
       .raw (sliceAssignmentString "!%1!" "%2" "!_fa0!")] else []
  let slsReq := s.slsReq || sahReq || s.schReq
  let slgReq := s.slgReq || sahReq || s.schReq
  let sls := if slsReq then helper "slice length set" "_sls" [.raw "set \"%1_len=%2\""] else []
  let slg := if slgReq then helper "slice length get" "_slg" [.raw "set \"_len=!%1_len!\""] else []
  let stsh := if s.stshReq then helper "string subscript" "_stsh"
      [.raw "set /A \"_sh=(%2-%1)+1\"", .raw "set \"_sub=!_fa0:~%1,%_sh%!\""] else []
  let stlh := if s.stlhReq then helper "string length" "_stlh"
      [.raw "set _l=0", .label "_stlhl",
       .raw "if \"!_fa0!\" equ \"\" (goto :_stlhle) else if \"!_fa0:~%_l%!\" equ \"\" goto :_stlhle",
       .raw "set /A \"_l=%_l%+1\"", .goto "_stlhl", .label "_stlhle"] else []
  let ech := if s.echReq then helper "echo" "_ech" [.raw "if \"!_fa0!\" neq \"\" (echo !_fa0!) else echo."] else []
  fwh ++ ach ++ frh ++ sch ++ sah ++ sls ++ slg ++ stsh ++ stlh ++ ech

def dumpLines (s : St) : List BLine :=
  s.startCode.reverse ++ helperLines s ++ (s.functionsCode.map List.reverse).flatten ++ s.globalCode.reverse ++
  [.label "end", .raw "endlocal & exit /B %_e%"]

def compile (p : Program) : Res (List BLine) :=
  match evalProgram conv p {} with
  | .ok (_, s) => .ok (dumpLines s)
  | .error m => .error m
  | .panic m => .panic m

def renderScript (ls : List BLine) : String :=
  "\r\n".intercalate (ls.map BLine.render ++ [""])

def emitBatch (p : Program) : Res String :=
  match compile p with
  | .ok ls => .ok (renderScript ls)
  | .error m => .error m
  | .panic m => .panic m

end Tsh.Batch
