/-
  Model of /repo/transpiler/transpiler.go: the walk over the AST that drives a `Converter`.
  Written once, generically over the converter's state `σ` and its operations `Conv σ`
  (= the Go interface `transpiler.Converter`); `ConvBash.lean` and `ConvBatch.lean` instantiate it.

  Same order of converter calls as the Go code, same `valueUsed` flags, same error points.
-/
import TshVerif.Model.Ast
namespace Tsh.Tr
open Tsh

inductive Res (α : Type)
  | ok (a : α)
  | error (msg : String)
  | panic (msg : String)
deriving Repr

def EM (σ α : Type) := σ → Res (α × σ)

instance {σ} : Monad (EM σ) where
  pure a := fun s => .ok (a, s)
  bind x f := fun s => match x s with
    | .ok (a, s') => f a s'
    | .error m => .error m
    | .panic m => .panic m

def fail {σ α} (m : String) : EM σ α := fun _ => .error m
def panic {σ α} (m : String) : EM σ α := fun _ => .panic m
def get {σ} : EM σ σ := fun s => .ok (s, s)
def modify {σ} (f : σ → σ) : EM σ Unit := fun s => .ok ((), f s)

def boolStr (b : Bool) : String := if b then "1" else "0"
def firstValue (vs : List String) : String := vs.headD ""

/-- `functionValueType` -/
def fnValueType (rets : List ValueType) : ValueType :=
  match rets with
  | [] => { dt := .unknown, isSlice := false }
  | [t] => t
  | _ => { dt := .multiple, isSlice := false }

/-- the `ValueType()` methods of the AST nodes -/
def Expr.valueType : Expr → ValueType
  | .boolLit _ => ⟨.bool, false⟩
  | .intLit _ => ⟨.int, false⟩
  | .strLit _ => ⟨.string, false⟩
  | .varEval v => v.vt
  | .unary _ _ vt => vt
  | .binary _ l _ => Expr.valueType l
  | .compare _ _ _ => ⟨.bool, false⟩
  | .logical _ _ _ => ⟨.bool, false⟩
  | .group e => Expr.valueType e
  | .call _ rets _ => fnValueType rets
  | .app _ _ _ => ⟨.multiple, false⟩
  | .sliceNew dt _ => ⟨dt, true⟩
  | .sliceEval _ _ dt => ⟨dt, false⟩
  | .substr _ _ _ => ⟨.string, false⟩
  | .len _ => ⟨.int, false⟩
  | .itoa _ => ⟨.string, false⟩
  | .exists_ _ => ⟨.bool, false⟩
  | .read _ => ⟨.string, false⟩
  | .input _ => ⟨.string, false⟩
  | .copy _ _ => ⟨.int, false⟩
  | .write _ _ _ => ⟨.string, false⟩
  | .bad _ => ⟨.unknown, false⟩

/-- the Go interface `transpiler.Converter` (the `valueUsed` arguments are kept where a converter
    could look at them) -/
structure Conv (σ : Type) where
  stringToString : String → EM σ String
  programStart : EM σ Unit
  programEnd : EM σ Unit
  varDefinition : (name value : String) → (global : Bool) → EM σ Unit
  sliceAssignment : (name index value dflt : String) → (global : Bool) → EM σ Unit
  funcStart : (name : String) → (params : List String) → EM σ Unit
  funcEnd : EM σ Unit
  ret : List String → EM σ Unit
  ifStart : String → EM σ Unit
  ifEnd : EM σ Unit
  elseIfStart : String → EM σ Unit
  elseIfEnd : EM σ Unit
  elseStart : EM σ Unit
  elseEnd : EM σ Unit
  forStart : EM σ Unit
  forIncrementStart : EM σ Unit
  forIncrementEnd : EM σ Unit
  forCondition : String → EM σ Unit
  forEnd : EM σ Unit
  brk : EM σ Unit
  cont : EM σ Unit
  print : List String → EM σ Unit
  panic : String → EM σ Unit
  writeFile : (path content append : String) → EM σ Unit
  nop : EM σ Unit
  unaryOperation : (expr op : String) → ValueType → Bool → EM σ String
  binaryOperation : (left op right : String) → ValueType → Bool → EM σ String
  comparison : (left op right : String) → ValueType → Bool → EM σ String
  logicalOperation : (left op right : String) → ValueType → Bool → EM σ String
  varEvaluation : (name : String) → (used global : Bool) → EM σ String
  sliceInstantiation : List String → Bool → EM σ String
  sliceEvaluation : (name index : String) → Bool → EM σ String
  sliceLen : String → Bool → EM σ String
  stringSubscript : (value a b : String) → Bool → EM σ String
  stringLen : String → Bool → EM σ String
  funcCall : (name : String) → (args : List String) → (rets : List ValueType) → Bool → EM σ (List String)
  appCall : List (String × List String) → Bool → EM σ (List String)
  input : String → Bool → EM σ String
  copy : (dst src : String) → (used global : Bool) → EM σ String
  exists_ : String → Bool → EM σ String
  readFile : String → Bool → EM σ String

section
variable {σ : Type} (cv : Conv σ)

mutual
/-- `evaluateExpression`; returns `expressionResult.values` -/
def evalExpr (e : Expr) (used : Bool) : EM σ (List String) :=
  match e with
  | .boolLit b => pure [boolStr b]
  | .intLit n => pure [toString n]
  | .strLit s => do let v ← cv.stringToString s; pure [v]
  | .unary op x _ => do
      let r ← evalExpr x true
      let s ← cv.unaryOperation (firstValue r) op (Expr.valueType x) used
      pure [s]
  | .binary op l r => do
      let a ← evalExpr l true
      let b ← evalExpr r true
      let s ← cv.binaryOperation (firstValue a) op (firstValue b) (Expr.valueType l) used
      pure [s]
  | .compare op l r => do
      let a ← evalExpr l true
      let b ← evalExpr r true
      let s ← cv.comparison (firstValue a) op (firstValue b) (Expr.valueType l) used
      pure [s]
  | .logical op l r => do
      let a ← evalExpr l true
      let b ← evalExpr r true
      let s ← cv.logicalOperation (firstValue a) op (firstValue b) (Expr.valueType l) used
      pure [s]
  | .varEval v => do
      let s ← cv.varEvaluation v.name used v.global
      pure [s]
  | .sliceEval value index _ => do
      let v ← evalExpr value true
      let i ← evalExpr index true
      let s ← cv.sliceEvaluation (firstValue v) (firstValue i) used
      pure [s]
  | .substr value start none => do
      let a ← evalExpr start true
      let v ← evalExpr value true
      let s ← cv.stringSubscript (firstValue v) (firstValue a) (firstValue a) used
      pure [s]
  | .substr value start (some st) => do
      let a ← evalExpr start true
      let b ← evalExpr st true
      let v ← evalExpr value true
      let s ← cv.stringSubscript (firstValue v) (firstValue a) (firstValue b) used
      pure [s]
  | .group x => evalExpr x used
  | .call name rets args => do
      let as ← evalArgs args
      let vs ← cv.funcCall name as rets used
      if used && vs.length != rets.length then
        fail s!"function \"{name}\" must return {rets.length} values but returned {vs.length}"
      else pure vs
  | .app name args next => do
      let calls ← evalAppChain (.app name args next)
      cv.appCall calls used
  | .sliceNew _ vals => do
      let vs ← evalArgs vals
      let s ← cv.sliceInstantiation vs used
      pure [s]
  | .input none => do
      let s ← cv.input "" used
      pure [s]
  | .input (some x) => do
      let r ← evalExpr x used
      let s ← cv.input (firstValue r) used
      pure [s]
  | .copy dst src => do
      let r ← evalExpr src true
      let s ← cv.copy dst.name (firstValue r) used dst.global
      pure [s]
  | .itoa x => do
      let r ← evalExpr x true
      pure [firstValue r]
  | .exists_ x => do
      let r ← evalExpr x true
      let s ← cv.exists_ (firstValue r) used
      pure [s]
  | .len x => do
      let r ← evalExpr x true
      if (Expr.valueType x).isString then do
        let s ← cv.stringLen (firstValue r) used
        pure [s]
      else do
        let s ← cv.sliceLen (firstValue r) used
        pure [s]
  | .read path => do
      if !(Expr.valueType path).isString then
        fail s!"expected string but got {(Expr.valueType path).name} as read path"
      else
        let r ← evalExpr path true
        let s ← cv.readFile (firstValue r) used
        pure [s]
  | .write _ _ _ => fail "unknown expression type write"
  | .bad w => fail s!"unknown expression type {w}"

/-- first values of a list of expressions, evaluated left to right with `valueUsed = true` -/
def evalArgs (es : List Expr) : EM σ (List String) :=
  match es with
  | [] => pure []
  | e :: rest => do
      let r ← evalExpr e true
      let rs ← evalArgs rest
      pure (firstValue r :: rs)

/-- the chain of an app call: `(name, argument texts)` per program, left to right -/
def evalAppChain (e : Expr) : EM σ (List (String × List String)) :=
  match e with
  | .app name args (some nx) => do
      let as ← evalArgs args
      let rest ← evalAppChain nx
      pure ((name, as) :: rest)
  | .app name args none => do
      let as ← evalArgs args
      pure [(name, as)]
  | _ => pure []
end

/-- all values of a list of expressions (`print`) -/
def evalAll (es : List Expr) : EM σ (List String) :=
  match es with
  | [] => pure []
  | e :: rest => do
      let r ← evalExpr cv e true
      let rs ← evalAll rest
      pure (r ++ rs)

/-- `evaluateValueTypeDefaultValue` -/
def defaultValue (vt : ValueType) : EM σ String :=
  match vt.dt with
  | .bool => pure "0"
  | .int => pure "0"
  | .string => cv.stringToString ""
  | _ => fail s!"no default value defined for {vt.name}"

/-- `evaluateAssignedValues`: values of the first `count` expressions; with several variables every
    value goes through a temporary `_ma<i>` -/
def assignedValues (count : Nat) : List Expr → Nat → Nat → EM σ (List String)
  | _, 0, _ => pure []
  | [], _ + 1, _ => panic "index out of range"
  | e :: rest, n + 1, i => do
      let r ← evalExpr cv e true
      let v ← (if count > 1 then do
          let tmp := s!"_ma{i}"
          cv.varDefinition tmp (firstValue r) false
          cv.varEvaluation tmp true false
        else pure (firstValue r))
      let vs ← assignedValues count rest n (i + 1)
      pure (v :: vs)

def storeValues : List Var → List String → EM σ Unit
  | x :: xs, v :: vs => do cv.varDefinition x.name v x.global; storeValues xs vs
  | _, _ => pure ()

/-- `evaluateVarDefinition` / `evaluateVarAssignment` -/
def assignValues (vars : List Var) (vals : List Expr) : EM σ Unit := do
  let values ← assignedValues cv vars.length vals vars.length 0
  storeValues cv vars values

/-- `evaluateVarDefinitionCallAssignment` / `evaluateVarAssignmentCallAssignment` -/
def assignCallValues (vars : List Var) (call : Expr) : EM σ Unit := do
  let values ← evalExpr cv call true
  if values.length != vars.length then
    fail s!"require {vars.length} values but got {values.length}"
  else storeValues cv vars values

/-- the append flag of `write` -/
def evalAppend (append : Option Expr) : EM σ String :=
  match append with
  | none => pure "0"
  | some x =>
    if !(Expr.valueType x).isBool then fail s!"expected bool but got {(Expr.valueType x).name} as append flag"
    else do let r ← evalExpr cv x true; pure (firstValue r)

mutual
/-- `evaluate` -/
def evalStmt (st : Stmt) : EM σ Unit :=
  match st with
  | .varDef vars vals => assignValues cv vars vals
  | .assign vars vals => assignValues cv vars vals
  | .varDefCall vars call => assignCallValues cv vars call
  | .assignCall vars call => assignCallValues cv vars call
  | .sliceAssign v index value => do
      let i ← evalExpr cv index true
      let r ← evalExpr cv value true
      let d ← defaultValue cv (Expr.valueType value)
      cv.sliceAssignment v.name (firstValue i) (firstValue r) d v.global
  | .funcDef name _ _ params body => do
      cv.funcStart name (params.map (·.name))
      evalBlock body
      cv.funcEnd
  | .ret vals => do
      let vs ← evalArgs cv vals
      cv.ret vs
  | .ifS cond body elifs els => do
      let c ← evalExpr cv cond true
      let ecs ← evalConds elifs
      cv.ifStart (firstValue c)
      evalBlock body
      evalElifs elifs ecs
      evalElse els
      cv.ifEnd
  | .forS init cond incr body => do
      evalInit init
      cv.forStart
      evalIncr incr
      let c ← evalExpr cv cond true
      cv.forCondition (firstValue c)
      evalBlock body
      cv.forEnd
  | .brk => cv.brk
  | .cont => cv.cont
  | .print es => do
      let vs ← evalAll cv es
      cv.print vs
  | .panic e => do
      let r ← evalExpr cv e true
      cv.panic s!"panic: {firstValue r}"
  | .expr (.write path data append) => do
      if !(Expr.valueType path).isString then
        fail s!"expected string but got {(Expr.valueType path).name} as read path"
      else
      let p ← evalExpr cv path true
      if !(Expr.valueType data).isString then
        fail s!"expected string but got {(Expr.valueType data).name} as data"
      else
      let d ← evalExpr cv data true
      let a ← evalAppend cv append
      cv.writeFile (firstValue p) (firstValue d) a
  | .expr e => do
      let _ ← evalExpr cv e false
      pure ()

/-- the optional init statement of a loop -/
def evalInit (init : Option Stmt) : EM σ Unit :=
  match init with
  | some i => evalStmt i
  | none => pure ()

/-- the optional increment statement of a loop, between `ForIncrementStart` and `ForIncrementEnd` -/
def evalIncr (incr : Option Stmt) : EM σ Unit :=
  match incr with
  | some i => do
      cv.forIncrementStart
      evalStmt i
      cv.forIncrementEnd
  | none => pure ()

/-- the else branch (`HasElse` = non-empty body) -/
def evalElse (els : List Stmt) : EM σ Unit :=
  match els with
  | [] => pure ()
  | s :: rest => do
      cv.elseStart
      evalStmt s
      evalStmts rest
      cv.elseEnd

/-- `evaluateBlock`: an empty body becomes a no-op -/
def evalBlock (body : List Stmt) : EM σ Unit :=
  match body with
  | [] => cv.nop
  | s :: rest => do evalStmt s; evalStmts rest

def evalStmts (body : List Stmt) : EM σ Unit :=
  match body with
  | [] => pure ()
  | s :: rest => do evalStmt s; evalStmts rest

/-- conditions of all else-if branches, evaluated before `IfStart` -/
def evalConds (elifs : List (Expr × List Stmt)) : EM σ (List String) :=
  match elifs with
  | [] => pure []
  | (c, _) :: rest => do
      let r ← evalExpr cv c true
      let rs ← evalConds rest
      pure (firstValue r :: rs)

def evalElifs (elifs : List (Expr × List Stmt)) (conds : List String) : EM σ Unit :=
  match elifs, conds with
  | (_, body) :: rest, c :: cs => do
      cv.elseIfStart c
      evalBlock body
      cv.elseIfEnd
      evalElifs rest cs
  | _, _ => pure ()
end

/-- `evaluateProgram` -/
def evalProgram (p : Program) : EM σ Unit := do
  cv.programStart
  evalStmts cv p
  cv.programEnd

end

end Tsh.Tr
