/-
  std/strings.tsh, function by function:
    * `Lib.*`  -- a hand-written rendering of the library source (loop for loop, same variables, the
                  compiled meaning of an out-of-range `s[i]`: the empty string), tied to the library by
                  running both on the same arguments in every run (driver command STRM vs the executed script);
    * `Go.*`   -- a declarative specification of the functions of Go's `strings` package on ASCII
                  arguments, tied to the real package by the same arguments (STRS vs `tshdump gostrings`).
  `Props/C15.lean` proves `Lib.f = Go.f`.
-/
namespace Tsh.Std

abbrev Str := List Char

/-- `s[i]` as the compiled code yields it: a one-character string, empty beyond the end -/
def charAt (s : Str) (i : Nat) : Str := (s.drop i).take 1
/-- `s[a:b]` -/
def slice (s : Str) (a b : Nat) : Str := (s.take b).drop a

namespace Lib

/-- the inner `for ; j < sul; j++` of Index: returns the final `j` -/
def innerMatch (s sub : Str) (i : Nat) : Nat → Nat → Nat
  | 0, j => j
  | f + 1, j =>
    if j < sub.length then
      if charAt s (i + j) != charAt sub j then j else innerMatch s sub i f (j + 1)
    else j

def indexLoop (s sub : Str) : Nat → Nat → Int
  | 0, _ => -1
  | f + 1, i =>
    if i < s.length then
      if innerMatch s sub i sub.length 0 == sub.length then (i : Int) else indexLoop s sub f (i + 1)
    else -1

def index (s sub : Str) : Int := if sub.length == 0 then 0 else indexLoop s sub s.length 0

def contains (s sub : Str) : Bool := decide (index s sub ≥ 0)

def joinLoop (elems : List Str) (sep : Str) (l : Nat) : Nat → Nat → Str → Str
  | 0, _, acc => acc
  | f + 1, i, acc =>
    if i < l then
      let acc := acc ++ elems.getD i []
      let acc := if i < l - 1 then acc ++ sep else acc
      joinLoop elems sep l f (i + 1) acc
    else acc

def join (elems : List Str) (sep : Str) : Str := joinLoop elems sep elems.length elems.length 0 []

def hasPrefix (s p : Str) : Bool := if s.length ≥ p.length then slice s 0 p.length == p else false

def hasSuffix (s p : Str) : Bool := if s.length ≥ p.length then slice s (s.length - p.length) s.length == p else false

def countLoop (s sub : Str) : Nat → Nat → Nat → Nat
  | 0, _, c => c
  | f + 1, i, c =>
    if i < s.length then
      if hasPrefix (slice s i s.length) sub then countLoop s sub f (i + sub.length) (c + 1)
      else countLoop s sub f (i + 1) c
    else c

def count (s sub : Str) : Int := if sub.length == 0 then (s.length : Int) + 1 else (countLoop s sub s.length 0 0 : Nat)

/-- growing store `elems[i] = v` on a slice of strings (the `_sah` semantics, zero value "") -/
def store (elems : List Str) (i : Nat) (v : Str) : List Str :=
  if i < elems.length then elems.set i v else elems ++ List.replicate (i - elems.length) [] ++ [v]

def splitChars (s : Str) : Nat → Nat → List Str → List Str
  | 0, _, elems => elems
  | f + 1, i, elems => if i < s.length then splitChars s f (i + 1) (store elems i (charAt s i)) else elems

def splitLoop (s sep : Str) : Nat → Nat → Nat → Nat → List Str → (List Str × Nat × Nat)
  | 0, startI, _, elIndex, elems => (elems, startI, elIndex)
  | f + 1, startI, endI, elIndex, elems =>
    if endI + sep.length ≤ s.length then
      if slice s endI (endI + sep.length) == sep then
        splitLoop s sep f (endI + sep.length) (endI + sep.length) (elIndex + 1) (store elems elIndex (slice s startI endI))
      else splitLoop s sep f startI (endI + 1) elIndex elems
    else (elems, startI, elIndex)

def split (s sep : Str) : List Str :=
  if sep.length == 0 then splitChars s s.length 0 []
  else
    let (elems, startI, elIndex) := splitLoop s sep (s.length + 1) 0 0 0 []
    store elems elIndex (slice s startI s.length)

def repeatLoop (s : Str) (count : Int) : Nat → Int → Str → Str
  | 0, _, acc => acc
  | f + 1, i, acc => if i < count then repeatLoop s count f (i + 1) (acc ++ s) else acc

def repeat_ (s : Str) (count : Int) : Str := repeatLoop s count count.toNat 0 []

def replaceLoop (s old new : Str) (n : Int) : Nat → Nat → Int → Str → (Str × Nat)
  | 0, i, _, res => (res, i)
  | f + 1, i, rep, res =>
    if i < s.length && (rep < n || n < 0) then
      if old.length == 0 then replaceLoop s old new n f (i + 1) (rep + 1) (res ++ charAt s i ++ new)
      else if hasPrefix (slice s i s.length) old then replaceLoop s old new n f (i + old.length) (rep + 1) (res ++ new)
      else replaceLoop s old new n f (i + 1) rep (res ++ charAt s i)
    else (res, i)

def replace (s old new : Str) (n : Int) : Str :=
  let (res0, rep0) := if old.length == 0 && n != 0 then (new, (1 : Int)) else ([], 0)
  let (res, i) := replaceLoop s old new n (s.length + 1) 0 rep0 res0
  res ++ slice s i s.length

def replaceAll (s old new : Str) : Str := replace s old new (-1)

def cutPrefix (s p : Str) : Str × Bool := if hasPrefix s p then (slice s p.length s.length, true) else (s, false)
def cutSuffix (s p : Str) : Str × Bool := if hasSuffix s p then (slice s 0 (s.length - p.length), true) else (s, false)

def cut (s sep : Str) : Str × Str × Bool :=
  let i := index s sep
  if i ≥ 0 then (slice s 0 i.toNat, slice s (i.toNat + sep.length) s.length, true) else (s, [], false)

def trimPrefix (s p : Str) : Str := (cutPrefix s p).1
def trimSuffix (s p : Str) : Str := (cutSuffix s p).1

/-- one pass `for i := 0; i < lenCS; i++ { s, cut := CutX(s, cutset[i]); if cut { trimmed = true } }` -/
def trimPass (cutF : Str → Str → Str × Bool) (cutset : Str) : Nat → Nat → Str → Bool → (Str × Bool)
  | 0, _, s, t => (s, t)
  | f + 1, i, s, t =>
    if i < cutset.length then
      let (s', c) := cutF s (charAt cutset i)
      trimPass cutF cutset f (i + 1) s' (t || c)
    else (s, t)

def trimLoop (cutF : Str → Str → Str × Bool) (cutset : Str) : Nat → Str → Str
  | 0, s => s
  | f + 1, s =>
    let (s', t) := trimPass cutF cutset cutset.length 0 s false
    if !t then s' else trimLoop cutF cutset f s'

def trimLeft (s cutset : Str) : Str :=
  if s.length > 0 && cutset.length > 0 then trimLoop cutPrefix cutset (s.length + 1) s else s
def trimRight (s cutset : Str) : Str :=
  if s.length > 0 && cutset.length > 0 then trimLoop cutSuffix cutset (s.length + 1) s else s
def trim (s cutset : Str) : Str := trimRight (trimLeft s cutset) cutset
def trimSpace (s : Str) : Str := trim s ['\t', '\n', '\x0b', '\x0c', '\r', ' ']

end Lib

namespace Go

/-- index of the first occurrence, -1 if none -/
def indexFrom (sub : Str) : Str → Nat → Int
  | [], off => if sub.isPrefixOf [] then off else -1
  | c :: t, off => if sub.isPrefixOf (c :: t) then off else indexFrom sub t (off + 1)

def index (s sub : Str) : Int := indexFrom sub s 0
def contains (s sub : Str) : Bool := decide (index s sub ≥ 0)
def join (elems : List Str) (sep : Str) : Str := sep.intercalate elems
def hasPrefix (s p : Str) : Bool := p.isPrefixOf s
def hasSuffix (s p : Str) : Bool := p.isSuffixOf s

/-- non-overlapping occurrences, scanning left to right (`sub` non-empty) -/
def countFrom (sub : Str) : Nat → Str → Nat
  | 0, _ => 0
  | _ + 1, [] => 0
  | f + 1, c :: t => if sub.isPrefixOf (c :: t) then 1 + countFrom sub f ((c :: t).drop sub.length) else countFrom sub f t

def count (s sub : Str) : Int := if sub.isEmpty then (s.length : Int) + 1 else (countFrom sub s.length s : Nat)

/-- split at non-overlapping occurrences of a non-empty separator -/
def splitFrom (sep : Str) : Nat → Str → Str → List Str
  | 0, cur, _ => [cur]
  | _ + 1, cur, [] => [cur]
  | f + 1, cur, c :: t =>
    if sep.isPrefixOf (c :: t) then cur :: splitFrom sep f [] ((c :: t).drop sep.length)
    else splitFrom sep f (cur ++ [c]) t

def split (s sep : Str) : List Str := if sep.isEmpty then s.map (fun c => [c]) else splitFrom sep (s.length + 1) [] s

def repeat_ (s : Str) (count : Int) : Option Str := if count < 0 then none else some (List.replicate count.toNat s).flatten

/-- replace the first `n` (all if n < 0) non-overlapping occurrences; an empty `old` matches before each character and at the end -/
def replaceFrom (old new : Str) : Nat → Int → Str → Str
  | 0, _, s => s
  | f + 1, n, s =>
    if n == 0 then s else
    match s with
    | [] => []
    | c :: t =>
      if old.isPrefixOf (c :: t) then new ++ replaceFrom old new f (n - 1) ((c :: t).drop old.length)
      else c :: replaceFrom old new f n t

def replaceEmpty (new : Str) : Int → Str → Str
  | n, [] => if n == 0 then [] else new
  | n, c :: t => if n == 0 then c :: t else new ++ c :: replaceEmpty new (n - 1) t

def replace (s old new : Str) (n : Int) : Str :=
  if old.isEmpty then replaceEmpty new n s else replaceFrom old new (s.length + 1) n s

def replaceAll (s old new : Str) : Str := replace s old new (-1)

def cutPrefix (s p : Str) : Str × Bool := if p.isPrefixOf s then (s.drop p.length, true) else (s, false)
def cutSuffix (s p : Str) : Str × Bool := if p.isSuffixOf s then (s.take (s.length - p.length), true) else (s, false)
def cut (s sep : Str) : Str × Str × Bool :=
  let i := index s sep
  if i ≥ 0 then (s.take i.toNat, s.drop (i.toNat + sep.length), true) else (s, [], false)
def trimPrefix (s p : Str) : Str := (cutPrefix s p).1
def trimSuffix (s p : Str) : Str := (cutSuffix s p).1
def trimLeft (s cutset : Str) : Str := s.dropWhile (cutset.contains ·)
def trimRight (s cutset : Str) : Str := (s.reverse.dropWhile (cutset.contains ·)).reverse
def trim (s cutset : Str) : Str := trimRight (trimLeft s cutset) cutset
def trimSpace (s : Str) : Str := trim s ['\t', '\n', '\x0b', '\x0c', '\r', ' ']

end Go
end Tsh.Std
