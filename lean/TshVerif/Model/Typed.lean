/-
  The typing discipline of elaborated ASTs, as an executable checker: Go's rules for the shared syntax,
  the README's signatures for the builtins -- as far as they are visible in the AST the parser hands to
  the transpiler.  It is (1) run on every AST the real parser returns (driver tag `ILLTYPED`), and
  (2) the hypothesis of the emit-totality theorems: a typed AST is translated by both converters
  without an error and without a panic.
-/
import TshVerif.Model.Transpile
import TshVerif.Model.Wf
namespace Tsh
open Tsh.Tr

def binaryAllowed (vt : ValueType) (op : String) : Bool :=
  !vt.isSlice &&
  ((vt.dt == .int && (op == "*" || op == "/" || op == "%" || op == "+" || op == "-")) ||
   (vt.dt == .string && op == "+"))

def compareAllowed (vt : ValueType) (op : String) : Bool :=
  !vt.isSlice &&
  ((vt.dt == .bool && (op == "==" || op == "!=")) ||
   (vt.dt == .int && (op == "==" || op == "!=" || op == ">" || op == ">=" || op == "<" || op == "<=")) ||
   (vt.dt == .string && (op == "==" || op == "!=")))

def basicDt (dt : DataType) : Bool := dt == .bool || dt == .int || dt == .string

/-- number of values an expression yields -/
def Expr.arity : Expr → Nat
  | .call _ rets _ => rets.length
  | .app _ _ _ => 3
  | .group x => Expr.arity x
  | _ => 1

mutual
def Expr.typed : Expr → Bool
  | .boolLit _ | .intLit _ | .strLit _ => true
  | .varEval _ => true
  | .unary op x vt => op == "!" && Expr.typed x && (Expr.valueType x).isBool && vt.isBool
  | .binary op l r =>
      Expr.typed l && Expr.typed r && (Expr.valueType l).equals (Expr.valueType r) && binaryAllowed (Expr.valueType l) op
  | .compare op l r =>
      Expr.typed l && Expr.typed r && (Expr.valueType l).equals (Expr.valueType r) && compareAllowed (Expr.valueType l) op
  | .logical op l r =>
      Expr.typed l && Expr.typed r && (Expr.valueType l).isBool && (Expr.valueType r).isBool && (op == "&&" || op == "||")
  | .group x => Expr.typed x
  | .call _ _ args => typedArgs args
  | .app _ args none => typedArgs args
  | .app _ args (some nx) => typedArgs args && typedChain nx
  | .sliceNew dt vals => typedArgs vals && basicDt dt
  | .sliceEval v i _ => Expr.typed v && Expr.typed i && (Expr.valueType v).isSlice && (Expr.valueType i).isInt
  | .substr v a none => Expr.typed v && Expr.typed a && (Expr.valueType v).isString && (Expr.valueType a).isInt
  | .substr v a (some b) =>
      Expr.typed v && Expr.typed a && Expr.typed b && (Expr.valueType v).isString && (Expr.valueType a).isInt && (Expr.valueType b).isInt
  | .len x => Expr.typed x && ((Expr.valueType x).isString || (Expr.valueType x).isSlice)
  | .itoa x => Expr.typed x && (Expr.valueType x).isInt
  | .exists_ x => Expr.typed x && (Expr.valueType x).isString
  | .read x => Expr.typed x && (Expr.valueType x).isString
  | .input none => true
  | .input (some x) => Expr.typed x && (Expr.valueType x).isString
  | .copy dst src => Expr.typed src && dst.vt.isSlice && dst.vt.equals (Expr.valueType src)
  | .write _ _ _ => false         -- only as a statement
  | .bad _ => false

def typedArgs : List Expr → Bool
  | [] => true
  | e :: rest => Expr.typed e && Expr.arity e == 1 && typedArgs rest

/-- the continuation of a program-call chain is a program call -/
def typedChain : Expr → Bool
  | .app _ args none => typedArgs args
  | .app _ args (some nx) => typedArgs args && typedChain nx
  | _ => false
end

def typedAll : List Expr → Bool
  | [] => true
  | e :: rest => Expr.typed e && typedAll rest

def typedAppend : Option Expr → Bool
  | none => true
  | some x => Expr.typed x && (Expr.valueType x).isBool

mutual
def Stmt.typed : Stmt → Bool
  | .varDef vars vals => typedArgs vals && vals.length == vars.length && !vars.isEmpty
  | .assign vars vals => typedArgs vals && vals.length == vars.length && !vars.isEmpty
  | .varDefCall vars call => Expr.typed call && Expr.arity call == vars.length && !vars.isEmpty
  | .assignCall vars call => Expr.typed call && Expr.arity call == vars.length && !vars.isEmpty
  | .sliceAssign _ index value =>
      Expr.typed index && Expr.typed value && (Expr.valueType index).isInt && basicDt (Expr.valueType value).dt &&
      Expr.arity index == 1 && Expr.arity value == 1
  | .funcDef _ _ _ _ body => typedStmts body
  | .ret vals => typedArgs vals
  | .ifS cond body elifs els =>
      Expr.typed cond && (Expr.valueType cond).isBool && typedStmts body && typedElifs elifs && typedStmts els
  | .forS init cond incr body =>
      typedOpt init && Expr.typed cond && (Expr.valueType cond).isBool && typedOpt incr && typedStmts body
  | .brk => true
  | .cont => true
  | .print es => typedAll es
  | .panic e => Expr.typed e
  | .expr (.write path data append) =>
      Expr.typed path && Expr.typed data && (Expr.valueType path).isString && (Expr.valueType data).isString && typedAppend append
  | .expr e => Expr.typed e && e.isCallLike

def typedStmts : List Stmt → Bool
  | [] => true
  | s :: rest => Stmt.typed s && typedStmts rest

def typedOpt : Option Stmt → Bool
  | none => true
  | some s => Stmt.typed s

def typedElifs : List (Expr × List Stmt) → Bool
  | [] => true
  | (e, body) :: rest => Expr.typed e && (Expr.valueType e).isBool && typedStmts body && typedElifs rest
end

def typedProgram (p : Program) : Bool := typedStmts p

/-- statement context: inside a loop (break / continue allowed), inside a function (return allowed) -/
structure SCtx where
  inLoop : Bool := false
  inFunc : Bool := false
  /-- the parser also accepts `break` inside a switch (which the AST no longer shows): with this flag
      `break` is not constrained (used for the run-time check of parser output; see known finding break-in-switch) -/
  brkAnywhere : Bool := false

/- placement rules: break / continue only inside a loop, return only inside a function, function
   definitions only at top level (the Batch converter relies on them: it keeps construct stacks) -/
mutual
def Stmt.placed (c : SCtx) : Stmt → Bool
  | .funcDef name _ _ _ body => !c.inFunc && !c.inLoop && name != "" && placedStmts { c with inLoop := false, inFunc := true } body
  | .ret _ => c.inFunc
  | .ifS _ body elifs els => placedStmts c body && placedElifs c elifs && placedStmts c els
  | .forS init _ incr body => placedOpt c init && placedOpt { c with inLoop := true } incr && placedStmts { c with inLoop := true } body
  | .brk => c.inLoop || c.brkAnywhere
  | .cont => c.inLoop
  | _ => true

def placedStmts (c : SCtx) : List Stmt → Bool
  | [] => true
  | s :: rest => Stmt.placed c s && placedStmts c rest

def placedOpt (c : SCtx) : Option Stmt → Bool
  | none => true
  | some s => Stmt.placed c s

def placedElifs (c : SCtx) : List (Expr × List Stmt) → Bool
  | [] => true
  | (_, body) :: rest => placedStmts c body && placedElifs c rest
end

end Tsh
