/-
  Model of /repo/tsh.go: option parsing, one fresh converter per requested output, output naming,
  the write and its error handling.  The library is a parameter (`transpile`), the file system is
  abstract.  A Go `panic(...)` in tsh.go ends the process with status 2.
-/
import TshVerif.Base
namespace Tsh.Cli

inductive Target | bash | batch
deriving Repr, DecidableEq

def Target.ext : Target → String
  | .bash => "sh"
  | .batch => "bat"

def targetOf (s : String) : Option Target :=
  if s == "bash" then some .bash else if s == "batch" then some .batch else none

/-- file system as far as tsh.go looks at it (paths are compared after `filepath.Clean`) -/
structure FS where
  files : List (String × Bytes)     -- regular files
  dirs : List String                -- directories
deriving Repr

/-- `filepath.Clean` (relative or absolute, `/` separator) -/
def clean (p : String) : String :=
  let abs := p.startsWith "/"
  let parts := ((p.splitOn "/").filter (· != "")).foldl (fun (acc : List String) e =>
    if e == "." then acc
    else if e == ".." then
      match acc.getLast? with
      | some l => if l == ".." then acc ++ [e] else acc.dropLast
      | none => if abs then acc else acc ++ [e]
    else acc ++ [e]) []
  let body := "/".intercalate parts
  if abs then "/" ++ body else if body == "" then "." else body

def FS.isFile (fs : FS) (p : String) : Bool := fs.files.any (·.1 == clean p)
def FS.isDir (fs : FS) (p : String) : Bool := fs.dirs.contains (clean p)
def FS.stat (fs : FS) (p : String) : Bool := fs.isFile p || fs.isDir p

def base (p : String) : String :=
  match ((p.splitOn "/").filter (· != "")).getLast? with
  | some b => b
  | none => if p.startsWith "/" then "/" else "."

/-- `filepath.Ext`: from the last dot of the last path element -/
def ext (p : String) : String :=
  let rec go (rev : List Char) (acc : List Char) : String :=
    match rev with
    | [] => ""
    | c :: rest =>
      if c == '/' then "" else if c == '.' then String.ofList ('.' :: acc) else go rest (c :: acc)
  go p.toList.reverse []

structure Opts where
  inp : String := ""
  out : String := ""
  convs : List Target := []
deriving Repr

/-- `parseOptions`: pairs from index 1; a single trailing argument is a panic; `none` = panic -/
def parsePairs (fs : FS) : List String → Opts → Option Opts
  | sw :: v :: rest, o =>
    if sw == "-i" || sw == "--in" then
      if !fs.stat v then none else if fs.isDir v then none else parsePairs fs rest { o with inp := v }
    else if sw == "-o" || sw == "--out" then
      if !fs.stat v then none else if !fs.isDir v then none else parsePairs fs rest { o with out := v }
    else if sw == "-t" || sw == "--type" then
      match targetOf v with
      | some t => parsePairs fs rest { o with convs := o.convs ++ [t] }
      | none => none
    else none
  | [], o => some o
  | [_], _ => none            -- an option without its value (fix: it had been ignored)

def parseOptions (fs : FS) (args : List String) : Option Opts :=
  match parsePairs fs args {} with
  | some o => if o.inp.length == 0 || o.out.length == 0 || o.convs.isEmpty then none else some o
  | none => none

/-- output file of a target: `<out>/<base(in) without ext(in)>.<extension>` -/
def outPath (o : Opts) (t : Target) : String :=
  let b := base o.inp
  let e := ext o.inp
  clean (o.out ++ "/" ++ (b.take (b.length - e.length)).toString ++ "." ++ t.ext)

structure Result where
  status : Nat
  writes : List (String × Bytes)    -- in order
deriving Repr

/-- the loop of `main`; `transpile t = none` means the library returned an error -/
def runConvs (fs : FS) (o : Opts) (transpile : Target → Option Bytes) : List Target → List (String × Bytes) → Result
  | [], acc => { status := 0, writes := acc }
  | t :: rest, acc =>
    match transpile t with
    | none => { status := 2, writes := acc }
    | some script =>
      let target := outPath o t
      if clean o.inp == target then { status := 2, writes := acc }          -- the output would be the input
      else if fs.isDir target then { status := 2, writes := acc }           -- the write fails
      else runConvs fs o transpile rest (acc ++ [(target, script)])

/-- `main(args[1:])` -/
def run (fs : FS) (args : List String) (transpile : Target → Option Bytes) : Result :=
  match parseOptions fs args with
  | none => { status := 2, writes := [] }
  | some o => runConvs fs o transpile o.convs []

end Tsh.Cli
