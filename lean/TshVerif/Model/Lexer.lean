/-
  Model of /repo/lexer/lexer.go (`Tokenize`).  Hand-written, function by function; tied to the code
  by (1) the regenerated tables `Generated/LexTables.lean` (punctuation table in source order, keyword
  map, token-type numbering, the regular-expression literals, the `endsOperand` set) and (2) the
  token-level correspondence check (harness `tshdump lex` vs. driver `LEX`).

  The five regular expressions are modelled by hand-written scanners; `Props/C11.lean` states the
  literals they stand for as an equality with the regenerated list.
-/
import TshVerif.Base
import TshVerif.Generated.LexTables

namespace Tsh.Lexer
open Tsh Tsh.LexTables

structure Lexeme where
  ty   : Nat
  val  : Bytes
  row  : Nat
  col  : Nat
  text : Bytes          -- the source bytes this lexeme consumed
deriving Repr, DecidableEq

structure Token where
  ty  : Nat
  val : Bytes
  row : Nat
  col : Nat
deriving Repr, DecidableEq

/-- `strings.ReplaceAll(source, "\r\n", "\n")`. -/
def normCRLF : Bytes → Bytes
  | 13 :: 10 :: rest => 10 :: normCRLF rest
  | b :: rest => b :: normCRLF rest
  | [] => []

/-- Position after reading `text` starting at `(row, col)`: the lexer's row/column bookkeeping
    (`row++; column = 1` on a line break, `column + 1` per other byte). -/
def advance (pos : Nat × Nat) (text : Bytes) : Nat × Nat :=
  text.foldl (fun (p : Nat × Nat) b => if b == 10 then (p.1 + 1, 1) else (p.1, p.2 + 1)) pos

/-! ### scanners (each returns the consumed prefix and the remaining input) -/

/-- `(?s)^\/\*(.*?)\*\/` applied after the opening `/*`: the body up to the FIRST `*/`. -/
def scanBlockBody : Bytes → Option (Bytes × Bytes)
  | 42 :: 47 :: rest => some ([], rest)
  | b :: rest => (scanBlockBody rest).map fun (body, r) => (b :: body, r)
  | [] => none

/-- `^\/\/(.*)`: everything up to (not including) the next line feed. -/
def scanLine (s : Bytes) : Bytes × Bytes := (s.takeWhile (· != 10), s.dropWhile (· != 10))

def spanDigits (s : Bytes) : Bytes × Bytes := (s.takeWhile isDigitB, s.dropWhile isDigitB)

/-- `^\d+(\.\d+)?` (the optional sign is handled by the caller). -/
def scanNumber (s : Bytes) : Option (Bytes × Bytes) :=
  let (ds, rest) := spanDigits s
  if ds.isEmpty then none else
  match rest with
  | 46 :: rest' =>
      let (fs, rest'') := spanDigits rest'
      if fs.isEmpty then some (ds, rest) else some (ds ++ 46 :: fs, rest'')
  | _ => some (ds, rest)

def scanIdent (s : Bytes) : Bytes × Bytes := (s.takeWhile isIdentB, s.dropWhile isIdentB)

/-- `^(true|false)\b` -/
def scanBool (s : Bytes) : Option (Bytes × Bytes) :=
  let try_ (w : Bytes) : Option (Bytes × Bytes) :=
    match stripPrefix? w s with
    | some rest =>
        match rest with
        | b :: _ => if isIdentB b then none else some (w, rest)
        | [] => some (w, rest)
    | none => none
  match try_ [116, 114, 117, 101] with            -- "true"
  | some r => some r
  | none => try_ [102, 97, 108, 115, 101]         -- "false"

/-- First entry of the ordered punctuation table that is a prefix of the input. -/
def scanPunct : List (Bytes × Nat) → Bytes → Option (Nat × Bytes × Bytes)
  | [], _ => none
  | (k, ty) :: tbl, s =>
      match stripPrefix? k s with
      | some rest => some (ty, k, rest)
      | none => scanPunct tbl s

def lookupKeyword (tbl : List (Bytes × Nat)) (w : Bytes) : Option Nat :=
  (tbl.find? fun (k, _) => k == w).map (·.2)

/-! ### string literals -/

inductive EscRes
  | noMatch                              -- the escape regex does not match here
  | bad                                   -- matched, but `strconv.Unquote` rejects it
  | ok (val : Bytes) (len : Nat)         -- decoded bytes, and length of the matched text (incl. `\`)

def simpleEscape (b : UInt8) : Option UInt8 :=
  if b == 97 then some 7 else if b == 98 then some 8 else if b == 102 then some 12
  else if b == 110 then some 10 else if b == 114 then some 13 else if b == 116 then some 9
  else if b == 118 then some 11 else if b == 92 then some 92 else if b == 34 then some 34
  else none

def hexNum (ds : Bytes) : Nat := ds.foldl (fun a d => a * 16 + hexValB d) 0

def validRune (cp : Nat) : Bool := cp ≤ 0x10FFFF && !(0xD800 ≤ cp && cp ≤ 0xDFFF)

/-- The escape regex `^\\(x[0-9a-fA-F]{2}|u[0-9a-fA-F]{4}|U[0-9a-fA-F]{8}|[0-7]{3}|.)` at a
    backslash, followed by `strconv.Unquote("\"" + match + "\"")`.  `s` is the input AFTER the
    backslash. -/
def decodeEscape (s : Bytes) : EscRes :=
  match s with
  | [] => .noMatch
  | c :: rest =>
    let hexN (n : Nat) : Option Bytes :=
      let ds := rest.take n
      if ds.length == n && ds.all isHexB then some ds else none
    if c == 120 then            -- \xNN : one raw byte
      match hexN 2 with
      | some ds => .ok [UInt8.ofNat (hexNum ds)] 4
      | none => .bad            -- falls to `.`: "\x" alone is rejected by Unquote
    else if c == 117 then       -- \uNNNN
      match hexN 4 with
      | some ds => if validRune (hexNum ds) then .ok (utf8Encode (hexNum ds)) 6 else .bad
      | none => .bad
    else if c == 85 then        -- \UNNNNNNNN
      match hexN 8 with
      | some ds => if validRune (hexNum ds) then .ok (utf8Encode (hexNum ds)) 10 else .bad
      | none => .bad
    else if isOctB c then
      let ds := s.take 3
      if ds.length == 3 && ds.all isOctB then
        let v := ds.foldl (fun a d => a * 8 + (d.toNat - 48)) 0
        if v ≤ 255 then .ok [UInt8.ofNat v] 4 else .bad
      else .bad                 -- a single octal digit after `\` is not an escape
    else if c == 10 then .noMatch     -- `.` does not match a line feed
    else match simpleEscape c with
      | some v => .ok [v] 2
      | none => .bad

inductive StrRes
  | ok (val : Bytes) (rest : Bytes)
  | badEscape
  | unterminated

/-- The inner loop of the string branch; `s` is the input after the opening quote. -/
def scanString (raw : Bool) : Nat → Bytes → Bytes → StrRes
  | 0, _, _ => .unterminated
  | _ + 1, _, [] => .unterminated
  | fuel + 1, acc, c :: rest =>
    if !raw && c == 92 then
      match decodeEscape rest with
      | .ok v n => scanString raw fuel (acc ++ v) (rest.drop (n - 1))
      | .bad => .badEscape
      | .noMatch => scanString raw fuel (acc ++ [c]) rest
    else if (raw && c == 96) || (!raw && c == 34) then .ok acc rest
    else scanString raw fuel (acc ++ [c]) rest

/-! ### one iteration of the outer loop -/

inductive Step
  | tok (ty : Nat) (val : Bytes) (rest : Bytes)
  | err

/-- One iteration of `for i < sourceLength`, in the probe order of the Go code.
    `last` is the type of the last token kept (0 at the start), used by `endsOperand`. -/
def step (last : Nat) (s : Bytes) : Step :=
  match s with
  | [] => .err
  | c0 :: s1 =>
    if c0 == 96 || c0 == 34 then
      match scanString (c0 == 96) (s1.length + 1) [] s1 with
      | .ok v rest => .tok TT_STRING_LITERAL v rest
      | _ => .err
    else
    let blockComment : Option Step :=
      match s with
      | 47 :: 42 :: body => (scanBlockBody body).map fun (b, rest) => .tok TT_COMMENT b rest
      | _ => none
    match blockComment with
    | some r => r
    | none =>
    match s with
    | 47 :: 47 :: body => let (b, rest) := scanLine body; .tok TT_COMMENT b rest
    | _ =>
    match scanBool s with
    | some (w, rest) => .tok TT_BOOL_LITERAL w rest
    | none =>
    let number : Option Step :=
      if c0 == 45 then
        if endsOperand.contains last then none
        else (scanNumber s1).map fun (n, rest) => .tok TT_NUMBER_LITERAL (45 :: n) rest
      else (scanNumber s).map fun (n, rest) => .tok TT_NUMBER_LITERAL n rest
    match number with
    | some r => r
    | none =>
    if isAlphaB c0 then
      let (w, rest) := scanIdent s
      .tok ((lookupKeyword keywordsB w).getD TT_IDENTIFIER) w rest
    else
      match scanPunct punctB s with
      | some (ty, v, rest) => .tok ty v rest
      | none => .err

/-- Text consumed by a step = input minus rest. -/
def consumed (s rest : Bytes) : Bytes := s.take (s.length - rest.length)

inductive Res (α : Type)
  | ok (a : α)
  | err
  | diverge
deriving Repr

/-- The outer loop.  Returns every lexeme (blanks and comments included) and the final position. -/
def loop : Nat → Nat → Nat × Nat → Bytes → List Lexeme → Res (List Lexeme × (Nat × Nat))
  | _, _, pos, [], acc => .ok (acc.reverse, pos)
  | 0, _, _, _ :: _, _ => .diverge
  | fuel + 1, last, pos, s@(_ :: _), acc =>
    match step last s with
    | .err => .err
    | .tok ty val rest =>
      let text := consumed s rest
      let lx : Lexeme := { ty, val, row := pos.1, col := pos.2, text }
      let last' := if ty == TT_SPACE || ty == TT_COMMENT then last else ty
      loop fuel last' (advance pos text) rest (lx :: acc)

def tokenizeTrace (src : Bytes) : Res (List Lexeme × (Nat × Nat)) :=
  let s := normCRLF src
  loop s.length 0 (1, 1) s []

def Lexeme.toToken (l : Lexeme) : Token := { ty := l.ty, val := l.val, row := l.row, col := l.col }

/-- `Tokenize`: blanks and comments dropped, `EOF` appended. -/
def tokenize (src : Bytes) : Res (List Token) :=
  match tokenizeTrace src with
  | .ok (ls, pos) =>
      .ok ((ls.filter fun l => !(l.ty == TT_SPACE || l.ty == TT_COMMENT)).map Lexeme.toToken
            ++ [{ ty := TT_EOF, val := [], row := pos.1, col := pos.2 }])
  | .err => .err
  | .diverge => .diverge

end Tsh.Lexer
