/-
  Meaning of the elaborated AST, scalar fragment plus functions.

  Differences to `Sem/Src`: expressions have effects (a call may print, change global variables, end the
  program through `panic`), so everything threads a configuration; a variable that is used as a direct operand
  is READ WHEN THE OPERATION IS EXECUTED, not when the operand is evaluated (`x + f()` reads `x` after `f` has
  run).  Go leaves the order of a variable read and a call in the same expression unspecified; TypeShell's
  converters implement this order, the semantics states it.  Function-local variables live in their own
  environment; a function sees the global environment and its own locals.  No recursion (the parser rejects it).
-/
import TshVerif.Sem.Src
import TshVerif.Sem2.Bash
namespace Tsh.Sem2.Src
open Tsh Tsh.Tr Tsh.Sem Tsh.Sem.Src

structure FunDef where
  name : String
  params : List Var
  rets : List ValueType
  body : List Stmt

structure SCfg where
  genv : Env
  lenv : Env
  inFn : Bool
  out : List String
  funs : List FunDef           -- latest definition first
  heap : Nat → List Val        -- the elements of slice number `id` (slices are references, as in Go)
  next : Nat                   -- the number of slices allocated so far

/-- an operand: a value, or a variable still to be read, possibly seen through `itoa` -/
inductive Opd
  | lit (v : Val)
  | var (x : Var)
  | itoa (o : Opd)

def readVar (c : SCfg) (x : Var) : Option Val :=
  if c.inFn && !x.global then c.lenv x.name else c.genv x.name

def writeVar (c : SCfg) (x : Var) (v : Val) : SCfg :=
  if c.inFn && !x.global then { c with lenv := c.lenv.set x.name v } else { c with genv := c.genv.set x.name v }

def resolve (c : SCfg) : Opd → Option Val
  | .lit v => some v
  | .var x => readVar c x
  | .itoa o =>
      match resolve c o with
      | some (.int n) => some (.str (toString n))
      | _ => none

def resolveAll (c : SCfg) : List Opd → Option (List Val)
  | [] => some []
  | o :: os =>
      match resolve c o, resolveAll c os with
      | some v, some vs => some (v :: vs)
      | _, _ => none

def hset (h : Nat → List Val) (id : Nat) (vs : List Val) : Nat → List Val := fun j => if j = id then vs else h j

/-- the zero value a slice is filled with when an element beyond its end is assigned -/
def zeroVal (vt : ValueType) : Option Val :=
  match vt.dt with
  | .bool => some (.bool false)
  | .int => some (.int 0)
  | .string => some (.str "")
  | _ => none

def lookupFun (fs : List FunDef) (name : String) : Option FunDef :=
  match fs with
  | [] => none
  | f :: rest => if f.name = name then some f else lookupFun rest name

def bindParams (env : Env) : List Var → List Val → Env
  | x :: xs, v :: vs => bindParams (env.set x.name v) xs vs
  | _, _ => env

def storeVars (c : SCfg) : List Var → List Val → SCfg
  | x :: xs, v :: vs => storeVars (writeVar c x v) xs vs
  | _, _ => c

/-- a result, or the end of the program (`panic` inside a called function) -/
inductive R (α : Type)
  | ok (a : α) (c : SCfg)
  | exit (k : Nat) (c : SCfg)

inductive SOut
  | normal
  | brk
  | cont
  | ret (vs : List Val)
  | exit (k : Nat)

def headOpd (os : List Opd) : Option Opd := os.head?

mutual
/-- expressions: the operands they yield -/
def evalE : Nat → Expr → SCfg → Option (R (List Opd))
  | 0, _, _ => none
  | _ + 1, .boolLit b, c => some (.ok [.lit (.bool b)] c)
  | _ + 1, .intLit n, c => if inRange n then some (.ok [.lit (.int n)] c) else none
  | _ + 1, .strLit s, c => if plainLit s then some (.ok [.lit (.str s)] c) else none
  | _ + 1, .varEval x, c => some (.ok [.var x] c)
  | f + 1, .group e, c => evalE f e c
  | f + 1, .itoa e, c =>
      match evalE f e c with
      | some (.ok [o] c1) => some (.ok [.itoa o] c1)
      | some (.exit k c1) => some (.exit k c1)
      | _ => none
  | f + 1, .unary op e _, c =>
      if op == "!" then
        match evalE f e c with
        | some (.ok [o] c1) =>
            match resolve c1 o with
            | some (.bool b) => some (.ok [.lit (.bool (!b))] c1)
            | _ => none
        | some (.exit k c1) => some (.exit k c1)
        | _ => none
      else none
  | f + 1, .binary op l r, c =>
      match evalE f l c with
      | some (.ok [a] c1) =>
          match evalE f r c1 with
          | some (.ok [b] c2) =>
              match resolve c2 a, resolve c2 b with
              | some va, some vb =>
                  match binVal (Expr.valueType l) op va vb with
                  | some v => some (.ok [.lit v] c2)
                  | none => none
              | _, _ => none
          | some (.exit k c2) => some (.exit k c2)
          | _ => none
      | some (.exit k c1) => some (.exit k c1)
      | _ => none
  | f + 1, .compare op l r, c =>
      match evalE f l c with
      | some (.ok [a] c1) =>
          match evalE f r c1 with
          | some (.ok [b] c2) =>
              match resolve c2 a, resolve c2 b with
              | some va, some vb =>
                  match cmpVal (Expr.valueType l) op va vb with
                  | some v => some (.ok [.lit v] c2)
                  | none => none
              | _, _ => none
          | some (.exit k c2) => some (.exit k c2)
          | _ => none
      | some (.exit k c1) => some (.exit k c1)
      | _ => none
  | f + 1, .logical op l r, c =>
      match evalE f l c with
      | some (.ok [a] c1) =>
          match evalE f r c1 with
          | some (.ok [b] c2) =>
              match resolve c2 a, resolve c2 b with
              | some (.bool x), some (.bool y) =>
                  if op == "&&" then some (.ok [.lit (.bool (x && y))] c2)
                  else if op == "||" then some (.ok [.lit (.bool (x || y))] c2)
                  else none
              | _, _ => none
          | some (.exit k c2) => some (.exit k c2)
          | _ => none
      | some (.exit k c1) => some (.exit k c1)
      | _ => none
  | f + 1, .call name rets args, c =>
      match evalArgs f args c with
      | some (.ok os c1) =>
          match resolveAll c1 os, lookupFun c1.funs name with
          | some vals, some fd =>
              if vals.length == fd.params.length && fd.rets.length == rets.length then
                match execSs f fd.body { c1 with lenv := bindParams (fun _ => none) fd.params vals, inFn := true } with
                | some (.ret vs, c2) =>
                    if vs.length == rets.length then some (.ok (vs.map Opd.lit) { c2 with lenv := c1.lenv, inFn := c1.inFn }) else none
                | some (.normal, c2) =>
                    if rets.length == 0 then some (.ok [] { c2 with lenv := c1.lenv, inFn := c1.inFn }) else none
                | some (.exit k, c2) => some (.exit k c2)
                | _ => none
              else none
          | _, _ => none
      | some (.exit k c1) => some (.exit k c1)
      | none => none
  -- slices and strings.  A slice literal allocates the next storage number; an element is read when the index
  -- expression has been evaluated; `len` and the subscripts go by the static type of their operand.
  | f + 1, .sliceNew _ vals, c =>
      match evalArgs f vals c with
      | some (.ok os c1) =>
          match resolveAll c1 os with
          | some vs =>
              if inRange (c1.next + 1) then
                some (.ok [.lit (.slice (c1.next + 1))] { c1 with heap := hset c1.heap (c1.next + 1) vs, next := c1.next + 1 })
              else none
          | none => none
      | some (.exit k c1) => some (.exit k c1)
      | none => none
  | f + 1, .sliceEval value index _, c =>
      match evalE f value c with
      | some (.ok [a] c1) =>
          match evalE f index c1 with
          | some (.ok [b] c2) =>
              match resolve c2 a, resolve c2 b with
              | some (.slice id), some (.int k) =>
                  match natOf k with
                  | some i => match (c2.heap id)[i]? with
                      | some v => some (.ok [.lit v] c2)
                      | none => none
                  | none => none
              | _, _ => none
          | some (.exit k c2) => some (.exit k c2)
          | _ => none
      | some (.exit k c1) => some (.exit k c1)
      | _ => none
  | f + 1, .len x, c =>
      match evalE f x c with
      | some (.ok [a] c1) =>
          match resolve c1 a with
          | some (.str s) => if (Expr.valueType x).isString then some (.ok [.lit (.int s.length)] c1) else none
          | some (.slice id) => if (Expr.valueType x).isString then none else some (.ok [.lit (.int (c1.heap id).length)] c1)
          | _ => none
      | some (.exit k c1) => some (.exit k c1)
      | _ => none
  | f + 1, .substr value start none, c =>
      match evalE f start c with
      | some (.ok [a] c1) =>
          match evalE f value c1 with
          | some (.ok [v] c2) =>
              match resolve c2 a, resolve c2 v with
              | some (.int i), some (.str s) =>
                  match natOf i with
                  | some n => if n < s.length then some (.ok [.lit (.str (substrOf s n 1))] c2) else none
                  | none => none
              | _, _ => none
          | some (.exit k c2) => some (.exit k c2)
          | _ => none
      | some (.exit k c1) => some (.exit k c1)
      | _ => none
  | f + 1, .substr value start (some stop), c =>
      match evalE f start c with
      | some (.ok [a] c1) =>
          match evalE f stop c1 with
          | some (.ok [b] c2) =>
              match evalE f value c2 with
              | some (.ok [v] c3) =>
                  match resolve c3 a, resolve c3 b, resolve c3 v with
                  | some (.int i), some (.int j), some (.str s) =>
                      -- `stop` is the index of the last character (the parser has subtracted one)
                      match natOf i, natOf (j - i + 1) with
                      | some n, some l => if n + l ≤ s.length then some (.ok [.lit (.str (substrOf s n l))] c3) else none
                      | _, _ => none
                  | _, _, _ => none
              | some (.exit k c3) => some (.exit k c3)
              | _ => none
          | some (.exit k c2) => some (.exit k c2)
          | _ => none
      | some (.exit k c1) => some (.exit k c1)
      | _ => none
  | f + 1, .copy dst src, c =>
      match evalE f src c with
      | some (.ok [a] c1) =>
          match resolve c1 a, readVar c1 dst with
          | some (.slice sid), some (.slice did) =>
              if did ≤ c1.next then
                some (.ok [.lit (.int (c1.heap sid).length)] { c1 with heap := hset c1.heap did (copyInto (c1.heap sid) (c1.heap did)) })
              else none
          | _, _ => none
      | some (.exit k c1) => some (.exit k c1)
      | _ => none
  | _ + 1, _, _ => none
/-- first operands of a list of expressions, left to right -/
def evalArgs : Nat → List Expr → SCfg → Option (R (List Opd))
  | 0, _, _ => none
  | _ + 1, [], c => some (.ok [] c)
  | f + 1, e :: rest, c =>
      match evalE f e c with
      | some (.ok [o] c1) =>
          match evalArgs f rest c1 with
          | some (.ok os c2) => some (.ok (o :: os) c2)
          | some (.exit k c2) => some (.exit k c2)
          | none => none
      | some (.exit k c1) => some (.exit k c1)
      | _ => none
/-- values of a list of expressions, each read as soon as it is evaluated (simultaneous assignment) -/
def evalVals : Nat → List Expr → SCfg → Option (R (List Val))
  | 0, _, _ => none
  | _ + 1, [], c => some (.ok [] c)
  | f + 1, e :: rest, c =>
      match evalE f e c with
      | some (.ok [o] c1) =>
          match resolve c1 o with
          | some v =>
              match evalVals f rest c1 with
              | some (.ok vs c2) => some (.ok (v :: vs) c2)
              | some (.exit k c2) => some (.exit k c2)
              | none => none
          | none => none
      | some (.exit k c1) => some (.exit k c1)
      | _ => none
/-- conditions of the else-if branches -/
def evalCs : Nat → List (Expr × List Stmt) → SCfg → Option (R (List Opd))
  | 0, _, _ => none
  | _ + 1, [], c => some (.ok [] c)
  | f + 1, (e, _) :: rest, c =>
      match evalE f e c with
      | some (.ok [o] c1) =>
          match evalCs f rest c1 with
          | some (.ok os c2) => some (.ok (o :: os) c2)
          | some (.exit k c2) => some (.exit k c2)
          | none => none
      | some (.exit k c1) => some (.exit k c1)
      | _ => none
def execS : Nat → Stmt → SCfg → Option (SOut × SCfg)
  | 0, _, _ => none
  | f + 1, .varDef vars vals, c =>
      if vars.length == vals.length then
        match evalVals f vals c with
        | some (.ok vs c1) => some (.normal, storeVars c1 vars vs)
        | some (.exit k c1) => some (.exit k, c1)
        | none => none
      else none
  | f + 1, .assign vars vals, c =>
      if vars.length == vals.length then
        match evalVals f vals c with
        | some (.ok vs c1) => some (.normal, storeVars c1 vars vs)
        | some (.exit k c1) => some (.exit k, c1)
        | none => none
      else none
  | f + 1, .varDefCall vars call, c =>
      match evalE f call c with
      | some (.ok os c1) =>
          match resolveAll c1 os with
          | some vs => if vs.length == vars.length then some (.normal, storeVars c1 vars vs) else none
          | none => none
      | some (.exit k c1) => some (.exit k, c1)
      | none => none
  | f + 1, .assignCall vars call, c =>
      match evalE f call c with
      | some (.ok os c1) =>
          match resolveAll c1 os with
          | some vs => if vs.length == vars.length then some (.normal, storeVars c1 vars vs) else none
          | none => none
      | some (.exit k c1) => some (.exit k, c1)
      | none => none
  | f + 1, .sliceAssign x index value, c =>
      match evalE f index c with
      | some (.ok [a] c1) =>
          match evalE f value c1 with
          | some (.ok [b] c2) =>
              match resolve c2 a, resolve c2 b, readVar c2 x, zeroVal (Expr.valueType value) with
              | some (.int k), some w, some (.slice id), some z =>
                  match natOf k with
                  | some i =>
                      if id ≤ c2.next then some (.normal, { c2 with heap := hset c2.heap id (sahSet (c2.heap id) i w z) }) else none
                  | none => none
              | _, _, _, _ => none
          | some (.exit k c2) => some (.exit k, c2)
          | _ => none
      | some (.exit k c1) => some (.exit k, c1)
      | _ => none
  | _ + 1, .funcDef name _ rets params body, c =>
      if c.inFn then none else some (.normal, { c with funs := { name := name, params := params, rets := rets, body := body } :: c.funs })
  | f + 1, .ret vals, c =>
      match evalArgs f vals c with
      | some (.ok os c1) =>
          match resolveAll c1 os with
          | some vs => some (.ret vs, c1)
          | none => none
      | some (.exit k c1) => some (.exit k, c1)
      | none => none
  | f + 1, .ifS cond body elifs els, c =>
      match evalE f cond c with
      | some (.ok [o] c1) =>
          match evalCs f elifs c1 with
          | some (.ok os c2) =>
              match resolve c2 o, resolveAll c2 os with
              | some (.bool b), some bs =>
                  if b then execSs f body c2 else execEl f elifs bs els c2
              | _, _ => none
          | some (.exit k c2) => some (.exit k, c2)
          | none => none
      | some (.exit k c1) => some (.exit k, c1)
      | _ => none
  | f + 1, .forS init cond incr body, c =>
      match init with
      | some i =>
          match execS f i c with
          | some (.normal, c1) => execLp f cond incr body c1
          | some (.exit k, c1) => some (.exit k, c1)
          | _ => none
      | none => execLp f cond incr body c
  | _ + 1, .brk, c => some (.brk, c)
  | _ + 1, .cont, c => some (.cont, c)
  | f + 1, .print es, c =>
      match evalArgs f es c with
      | some (.ok os c1) =>
          match resolveAll c1 os with
          | some vs => some (.normal, { c1 with out := c1.out ++ [" ".intercalate (vs.map Val.render)] })
          | none => none
      | some (.exit k c1) => some (.exit k, c1)
      | none => none
  | f + 1, .panic e, c =>
      match evalE f e c with
      | some (.ok [o] c1) =>
          match resolve c1 o with
          | some v => some (.exit 1, { c1 with out := c1.out ++ ["panic: " ++ v.render] })
          | none => none
      | some (.exit k c1) => some (.exit k, c1)
      | _ => none
  | f + 1, .expr (.call name rets args), c =>
      match evalE f (.call name rets args) c with
      | some (.ok _ c1) => some (.normal, c1)
      | some (.exit k c1) => some (.exit k, c1)
      | none => none
  | _ + 1, _, _ => none
def execSs : Nat → List Stmt → SCfg → Option (SOut × SCfg)
  | 0, _, _ => none
  | _ + 1, [], c => some (.normal, c)
  | f + 1, s :: rest, c =>
      match execS f s c with
      | some (.normal, c1) => execSs f rest c1
      | r => r
def execEl : Nat → List (Expr × List Stmt) → List Val → List Stmt → SCfg → Option (SOut × SCfg)
  | 0, _, _, _, _ => none
  | f + 1, (_, body) :: rest, b :: bs, els, c =>
      match b with
      | .bool true => execSs f body c
      | .bool false => execEl f rest bs els c
      | _ => none
  | f + 1, _, _, els, c => execSs f els c
def execLp : Nat → Expr → Option Stmt → List Stmt → SCfg → Option (SOut × SCfg)
  | 0, _, _, _, _ => none
  | f + 1, cond, incr, body, c =>
      match evalE f cond c with
      | some (.ok [o] c0) =>
          match resolve c0 o with
          | some (.bool true) =>
              match execSs f body c0 with
              | some (.brk, c1) => some (.normal, c1)
              | some (.exit k, c1) => some (.exit k, c1)
              | some (.ret vs, c1) => some (.ret vs, c1)
              | some (_, c1) =>
                  match incr with
                  | some i =>
                      match execS f i c1 with
                      | some (.normal, c2) => execLp f cond incr body c2
                      | some (.exit k, c2) => some (.exit k, c2)
                      | _ => none
                  | none => execLp f cond incr body c1
              | none => none
          | some (.bool false) => some (.normal, c0)
          | _ => none
      | some (.exit k c0) => some (.exit k, c0)
      | _ => none
end

/-! ### the fragment, statically -/

mutual
/-- expressions of the fragment; `ds`: the functions defined so far -/
def fragE (ds : List String) : Expr → Bool
  | .boolLit _ => true
  | .intLit _ => true
  | .strLit _ => true
  | .varEval x => Tsh.Sem2.goodName2 x.name
  | .unary _ e _ => fragE ds e
  | .binary _ l r => fragE ds l && fragE ds r
  | .compare _ l r => fragE ds l && fragE ds r
  | .logical _ l r => fragE ds l && fragE ds r
  | .group e => fragE ds e
  | .itoa e => fragE ds e
  | .call name _ args => ds.contains name && fragEs ds args
  | .sliceNew _ vals => fragEs ds vals
  | .sliceEval value index _ => fragE ds value && fragE ds index
  | .len x => fragE ds x
  | .substr value start none => fragE ds start && fragE ds value
  | .substr value start (some stop) => fragE ds start && fragE ds stop && fragE ds value
  | .copy dst src => Tsh.Sem2.goodName2 dst.name && fragE ds src
  | _ => false
def fragEs (ds : List String) : List Expr → Bool
  | [] => true
  | e :: rest => fragE ds e && fragEs ds rest
end

def isCallE : Expr → Bool
  | .call _ _ _ => true
  | _ => false

mutual
/-- statements of the fragment (no function definitions: those are top-level items, see `fragP`) -/
def fragS (ds : List String) : Stmt → Bool
  | .varDef vars vals =>
      vars.length == vals.length && !vars.isEmpty && vars.all (fun x => Tsh.Sem2.goodName2 x.name) && fragEs ds vals
  | .assign vars vals =>
      vars.length == vals.length && !vars.isEmpty && vars.all (fun x => Tsh.Sem2.goodName2 x.name) && fragEs ds vals
  | .varDefCall vars call => vars.all (fun x => Tsh.Sem2.goodName2 x.name) && isCallE call && fragE ds call
  | .assignCall vars call => vars.all (fun x => Tsh.Sem2.goodName2 x.name) && isCallE call && fragE ds call
  | .ifS cond body elifs els => fragE ds cond && fragSs ds body && fragEl ds elifs && fragSs ds els
  | .forS init cond incr body => fragO ds init && fragE ds cond && fragO ds incr && fragSs ds body
  | .brk => true
  | .cont => true
  | .print es => fragEs ds es
  | .panic e => fragE ds e
  | .ret vals => fragEs ds vals
  | .expr e => isCallE e && fragE ds e
  | .sliceAssign x index value => Tsh.Sem2.goodName2 x.name && fragE ds index && fragE ds value
  | _ => false
def fragSs (ds : List String) : List Stmt → Bool
  | [] => true
  | s :: rest => fragS ds s && fragSs ds rest
def fragEl (ds : List String) : List (Expr × List Stmt) → Bool
  | [] => true
  | (c, b) :: rest => fragE ds c && fragSs ds b && fragEl ds rest
def fragO (ds : List String) : Option Stmt → Bool
  | none => true
  | some s => fragS ds s
end

/-- whole programs: function definitions at top level only, every function defined before it is called,
    no two functions of the same name -/
def fragP (ds : List String) : List Stmt → Bool
  | [] => true
  | .funcDef name _ _ params body :: rest =>
      !ds.contains name && params.all (fun x => Tsh.Sem2.goodName2 x.name) && fragSs ds body && fragP (name :: ds) rest
  | st :: rest => fragS ds st && fragP ds rest

def SCfg.init : SCfg := { genv := fun _ => none, lenv := fun _ => none, inFn := false, out := [], funs := [], heap := fun _ => [], next := 0 }

/-- outcome of a whole program: exit status and printed lines -/
def runProgram (fuel : Nat) (p : Program) : Option (Nat × List String) :=
  match execSs fuel p SCfg.init with
  | some (.normal, c) => some (0, c.out)
  | some (.exit k, c) => some (k, c.out)
  | _ => none

/-! ### what is called -/

mutual
/-- every function the expression calls is in `keep` -/
def callsE (keep : List String) : Expr → Bool
  | .call name _ args => keep.contains name && callsEs keep args
  | .unary _ e _ => callsE keep e
  | .binary _ l r => callsE keep l && callsE keep r
  | .compare _ l r => callsE keep l && callsE keep r
  | .logical _ l r => callsE keep l && callsE keep r
  | .group e => callsE keep e
  | .itoa e => callsE keep e
  | .len e => callsE keep e
  | .sliceNew _ vals => callsEs keep vals
  | .sliceEval v i _ => callsE keep v && callsE keep i
  | .substr v a none => callsE keep a && callsE keep v
  | .substr v a (some b) => callsE keep a && callsE keep b && callsE keep v
  | .copy _ src => callsE keep src
  | _ => true
def callsEs (keep : List String) : List Expr → Bool
  | [] => true
  | e :: rest => callsE keep e && callsEs keep rest
end

mutual
/-- the same for statements; a statement inside a block or a function body defines no function -/
def callsS (keep : List String) : Stmt → Bool
  | .varDef _ vals => callsEs keep vals
  | .assign _ vals => callsEs keep vals
  | .varDefCall _ call => callsE keep call
  | .assignCall _ call => callsE keep call
  | .sliceAssign _ i v => callsE keep i && callsE keep v
  | .funcDef _ _ _ _ _ => false
  | .ret vals => callsEs keep vals
  | .ifS c body elifs els => callsE keep c && callsSs keep body && callsEl keep elifs && callsSs keep els
  | .forS init c incr body => callsO keep init && callsE keep c && callsO keep incr && callsSs keep body
  | .brk => true
  | .cont => true
  | .print es => callsEs keep es
  | .panic e => callsE keep e
  | .expr e => callsE keep e
def callsSs (keep : List String) : List Stmt → Bool
  | [] => true
  | s :: rest => callsS keep s && callsSs keep rest
def callsEl (keep : List String) : List (Expr × List Stmt) → Bool
  | [] => true
  | (c, b) :: rest => callsE keep c && callsSs keep b && callsEl keep rest
def callsO (keep : List String) : Option Stmt → Bool
  | none => true
  | some s => callsS keep s
end

/-- the top level: a function definition is either dropped or its body calls kept functions only -/
def callsTop (keep : List String) : List Stmt → Bool
  | [] => true
  | .funcDef name _ _ _ body :: rest => (!keep.contains name || callsSs keep body) && callsTop keep rest
  | st :: rest => callsS keep st && callsTop keep rest

/-- removal of the definitions that are not kept -/
def cleanP (keep : List String) (p : List Stmt) : List Stmt :=
  p.filter fun st => match st with
    | .funcDef name _ _ _ _ => keep.contains name
    | _ => true


end Tsh.Sem2.Src
