/-
  The bash model of `Sem/Bash`, extended with functions: definitions, calls with positional parameters,
  `local`, `return`, the return registers.  Same principles: structured lines, executable interpreter with
  fuel, big-step relation, lines -> block structure.  Validated against /bin/bash in every run (driver `SEM`).
-/
import TshVerif.Sem.Bash
namespace Tsh.Sem2
open Tsh Tsh.Bash Tsh.Sem

/-- the prefix of everything function number `k` owns -/
def fnPrefix (k : Nat) : String := "f" ++ Nat.repr k ++ "_"

/-- looks like a name the converter builds for function-local data: `f<digits>_…` -/
def mangledLike (x : String) : Bool :=
  match x.toList with
  | 'f' :: rest =>
      let ds := rest.takeWhile Char.isDigit
      !ds.isEmpty && (rest.drop ds.length).head? == some '_'
  | _ => false

/-- names a program may use: identifiers that are neither the compiler's (`_…`) nor shaped like mangled names -/
def goodName2 (x : String) : Bool := goodName x && !mangledLike x

def rvName (i : Nat) : String := "_rv" ++ Nat.repr i

/-- block structure of a script -/
inductive Cmd
  | simple (l : Line)
  | ifc (g : Line) (thn : List Cmd) (elifs : List (Line × List Cmd)) (els : Option (List Cmd))
  | loop (body : List Cmd)
  | fn (name : String) (body : List Cmd)

mutual
def flat : Cmd → List Line
  | .simple l => [l]
  | .ifc g thn elifs els => g :: (flats thn ++ (flatElifs elifs ++ (flatElse els ++ [.fi])))
  | .loop body => .whileStart :: (flats body ++ [.done])
  | .fn name body => .funcStart name :: (flats body ++ [.funcEnd])
def flats : List Cmd → List Line
  | [] => []
  | c :: cs => flat c ++ flats cs
def flatElifs : List (Line × List Cmd) → List Line
  | [] => []
  | (g, b) :: rest => g :: (flats b ++ flatElifs rest)
def flatElse : Option (List Cmd) → List Line
  | none => []
  | some b => .else_ :: flats b
end

structure Cfg where
  ρ : Store
  out : List String
  funs : List (String × List Cmd)       -- latest definition first
  args : List String                    -- positional parameters of the running function
  saved : List (String × String)        -- values hidden by `local` in the running function, latest first
  arr : String → List String            -- indexed arrays (the storage of slices), by name; an unset array is empty

inductive Out
  | normal
  | brk
  | cont
  | ret
  | exit (code : Nat)
deriving Repr, DecidableEq

def lookupFun (fs : List (String × List Cmd)) (name : String) : Option (List Cmd) :=
  match fs with
  | [] => none
  | (n, b) :: rest => if n = name then some b else lookupFun rest name

/-- undo the `local`s of a function, latest first (so the oldest saved value of a name wins) -/
def restore : List (String × String) → Store → Store
  | [], ρ => ρ
  | (x, v) :: rest, ρ => restore rest (ρ.set x v)

/-- update of one array -/
def aset (a : String → List String) (x : String) (v : List String) : String → List String := fun y => if y = x then v else a y

/-- what `_sah arr i v d` does to the elements: store at `i`, filling a gap with the default value -/
def sahSet {α : Type} (l : List α) (i : Nat) (v d : α) : List α :=
  if i < l.length then l.set i v else l ++ List.replicate (i - l.length) d ++ [v]

/-- what `_sch` does to the destination: element by element from the front, the rest stays -/
def copyInto {α : Type} (src dst : List α) : List α := src ++ dst.drop src.length

def natOf (k : Int) : Option Nat := if 0 ≤ k then some k.toNat else none

/-- `${v:ls:ll}` -/
def substrOf (s : String) (ls ll : Nat) : String := String.ofList ((s.toList.drop ls).take ll)

def expandList (ρ : Store) : List String → Option (List String)
  | [] => some []
  | t :: ts =>
      match expand ρ t, expandList ρ ts with
      | some v, some vs => some (v :: vs)
      | _, _ => none

/-- one simple command other than a function call; `none`: not covered by this model -/
def stepSimple (l : Line) (c : Cfg) : Option (Out × Cfg) :=
  match l with
  | .shebang => some (.normal, c)
  | .comment _ => some (.normal, c)
  | .nop => some (.normal, c)
  | .assign n v =>
      match expand c.ρ v with
      | some t => some (.normal, { c with ρ := c.ρ.set n t })
      | none => none
  | .assignArith n l op r =>
      match expandInt c.ρ l, expandInt c.ρ r with
      | some a, some b =>
          match arith op a b with
          | some x => some (.normal, { c with ρ := c.ρ.set n (toString x) })
          | none => none
      | _, _ => none
  | .assignTest n t a b =>
      if bit a && bit b then
        match evalTest c.ρ t with
        | some v => some (.normal, { c with ρ := c.ρ.set n (if v then a else b) })
        | none => none
      else none
  | .localAssign n i =>
      some (.normal, { c with ρ := c.ρ.set n (c.args.getD (i - 1) ""), saved := (n, c.ρ n) :: c.saved })
  | .forFlagInit n => some (.normal, { c with ρ := c.ρ.set (flagName n) "" })
  | .incrFlagSet n => some (.normal, { c with ρ := c.ρ.set (flagName n) "1" })
  | .forCond cnd =>
      match expandInt c.ρ cnd with
      | some a => some (if a != 1 then .brk else .normal, c)
      | none => none
  | .brk => some (.brk, c)
  | .cont => some (.cont, c)
  | .ret => some (.ret, c)
  | .echo t =>
      match expand c.ρ t with
      | some s => some (.normal, { c with out := c.out ++ [s] })
      | none => none
  | .exit1 => some (.exit 1, c)
  -- slices: a counter names the arrays; `_sah`, `_sch`, `_ssh` are the helper routines of the script, taken as
  -- primitives here (their text is fixed; what bash does with it is observed in every run)
  | .dvcIncr =>
      match (if c.ρ "_dvc" = "" then some 0 else asInt (c.ρ "_dvc")) with
      | some k => some (.normal, { c with ρ := c.ρ.set "_dvc" (toString (wrap64 (k + 1))) })
      | none => none
  | .sahInit a i v =>
      match expand c.ρ a, expand c.ρ v with
      | some n, some w =>
          some (.normal, { c with ρ := c.ρ.set "_c" (toString (max (c.arr n).length i)), arr := aset c.arr n (sahSet (c.arr n) i w "") })
      | _, _ => none
  | .sah a i v d =>
      match expand c.ρ a, (expandInt c.ρ i).bind natOf, expand c.ρ v, expand c.ρ d with
      | some n, some k, some w, some z =>
          some (.normal, { c with ρ := c.ρ.set "_c" (toString (max (c.arr n).length k)), arr := aset c.arr n (sahSet (c.arr n) k w z) })
      | _, _, _, _ => none
  | .sliceLoad t name index =>
      match expand c.ρ name, (expandInt c.ρ index).bind natOf with
      | some n, some k => some (.normal, { c with ρ := c.ρ.set t ((c.arr n).getD k "") })
      | _, _ => none
  | .assignSliceLen n src =>
      match expand c.ρ src with
      | some a => some (.normal, { c with ρ := c.ρ.set n (toString (c.arr a).length) })
      | none => none
  | .assignStrLen n v => some (.normal, { c with ρ := c.ρ.set n (toString (c.ρ v).length) })
  | .sch dst src =>
      match expand c.ρ src with
      | some a => some (.normal, { c with arr := aset c.arr (c.ρ dst) (copyInto (c.arr a) (c.arr (c.ρ dst))) })
      | none => none
  | .ssh v a b =>
      match expand c.ρ v, expandInt c.ρ a, expandInt c.ρ b with
      | some s, some x, some y =>
          match natOf x, natOf (y - x + 1) with
          | some ls, some ll =>
              some (.normal, { c with ρ := ((c.ρ.set "_ls" (toString ls)).set "_ll" (toString ll)).set "_ret" (substrOf s ls ll) })
          | _, _ => none
      | _, _, _ => none
  | _ => none

/-- what the caller sees when the body of a function ended with outcome `o` in configuration `c1` -/
def callResult (caller : Cfg) (o : Out) (c1 : Cfg) : Option (Out × Cfg) :=
  match o with
  | .normal => some (.normal, { c1 with ρ := restore c1.saved c1.ρ, args := caller.args, saved := caller.saved })
  | .ret => some (.normal, { c1 with ρ := restore c1.saved c1.ρ, args := caller.args, saved := caller.saved })
  | .exit k => some (.exit k, c1)
  | _ => none

/-! ### executable interpreter -/

mutual
def execCmd : Nat → Cmd → Cfg → Option (Out × Cfg)
  | 0, _, _ => none
  | f + 1, .simple (.callFn name args), c =>
      match lookupFun c.funs name, expandList c.ρ args with
      | some body, some vals =>
          match execCmds f body { c with args := vals, saved := [] } with
          | some (o, c1) => callResult c o c1
          | none => none
      | _, _ => none
  | _ + 1, .simple l, c => stepSimple l c
  | f + 1, .ifc g thn elifs els, c =>
      match guard c.ρ g with
      | some true => execCmds f thn c
      | some false => execElifs f elifs els c
      | none => none
  | f + 1, .loop body, c => execLoop f body c
  | _ + 1, .fn name body, c => some (.normal, { c with funs := (name, body) :: c.funs })
def execCmds : Nat → List Cmd → Cfg → Option (Out × Cfg)
  | 0, _, _ => none
  | _ + 1, [], c => some (.normal, c)
  | f + 1, x :: xs, c =>
      match execCmd f x c with
      | some (.normal, c') => execCmds f xs c'
      | r => r
def execElifs : Nat → List (Line × List Cmd) → Option (List Cmd) → Cfg → Option (Out × Cfg)
  | 0, _, _, _ => none
  | _ + 1, [], none, c => some (.normal, c)
  | f + 1, [], some b, c => execCmds f b c
  | f + 1, (g, b) :: rest, els, c =>
      match guard c.ρ g with
      | some true => execCmds f b c
      | some false => execElifs f rest els c
      | none => none
def execLoop : Nat → List Cmd → Cfg → Option (Out × Cfg)
  | 0, _, _ => none
  | f + 1, body, c =>
      match execCmds f body c with
      | some (.normal, c') => execLoop f body c'
      | some (.cont, c') => execLoop f body c'
      | some (.brk, c') => some (.normal, c')
      | some (.ret, c') => some (.ret, c')
      | some (.exit k, c') => some (.exit k, c')
      | none => none
end

/-! ### big-step relation -/

def isCall : Line → Bool
  | .callFn _ _ => true
  | _ => false

mutual
inductive ExecCmd : Cmd → Cfg → Out → Cfg → Prop
  | simple {l c o c'} : isCall l = false → stepSimple l c = some (o, c') → ExecCmd (.simple l) c o c'
  | call {name args c body vals o1 c1 o c'} : lookupFun c.funs name = some body → expandList c.ρ args = some vals →
      ExecCmds body { c with args := vals, saved := [] } o1 c1 → callResult c o1 c1 = some (o, c') →
      ExecCmd (.simple (.callFn name args)) c o c'
  | ifTrue {g thn elifs els c o c'} : guard c.ρ g = some true → ExecCmds thn c o c' → ExecCmd (.ifc g thn elifs els) c o c'
  | ifFalse {g thn elifs els c o c'} : guard c.ρ g = some false → ExecElifs elifs els c o c' → ExecCmd (.ifc g thn elifs els) c o c'
  | loop {body c o c'} : ExecLoop body c o c' → ExecCmd (.loop body) c o c'
  | fnDef {name body c} : ExecCmd (.fn name body) c .normal { c with funs := (name, body) :: c.funs }
inductive ExecCmds : List Cmd → Cfg → Out → Cfg → Prop
  | nil {c} : ExecCmds [] c .normal c
  | cons {x xs c c1 o c'} : ExecCmd x c .normal c1 → ExecCmds xs c1 o c' → ExecCmds (x :: xs) c o c'
  | stop {x xs c o c'} : ExecCmd x c o c' → o ≠ .normal → ExecCmds (x :: xs) c o c'
inductive ExecElifs : List (Line × List Cmd) → Option (List Cmd) → Cfg → Out → Cfg → Prop
  | none {c} : ExecElifs [] none c .normal c
  | els {b c o c'} : ExecCmds b c o c' → ExecElifs [] (some b) c o c'
  | hit {g b rest els c o c'} : guard c.ρ g = some true → ExecCmds b c o c' → ExecElifs ((g, b) :: rest) els c o c'
  | miss {g b rest els c o c'} : guard c.ρ g = some false → ExecElifs rest els c o c' → ExecElifs ((g, b) :: rest) els c o c'
inductive ExecLoop : List Cmd → Cfg → Out → Cfg → Prop
  | next {body c c1 o c'} : ExecCmds body c .normal c1 → ExecLoop body c1 o c' → ExecLoop body c o c'
  | cont {body c c1 o c'} : ExecCmds body c .cont c1 → ExecLoop body c1 o c' → ExecLoop body c o c'
  | brk {body c c'} : ExecCmds body c .brk c' → ExecLoop body c .normal c'
  | ret {body c c'} : ExecCmds body c .ret c' → ExecLoop body c .ret c'
  | exit {body c k c'} : ExecCmds body c (.exit k) c' → ExecLoop body c (.exit k) c'
end

/-! ### lines -> block structure (driver only) -/

mutual
def parseCmds : Nat → List Line → Option (List Cmd × List Line)
  | 0, _ => none
  | _ + 1, [] => some ([], [])
  | f + 1, l :: rest =>
      if isCloser l then some ([], l :: rest) else
      match l with
      | .ifStart _ _ | .incrStart _ =>
          match parseCmds f rest with
          | some (thn, rest1) =>
              match parseTail f rest1 with
              | some (elifs, els, rest2) =>
                  match parseCmds f rest2 with
                  | some (more, rest3) => some (.ifc l thn elifs els :: more, rest3)
                  | none => none
              | none => none
          | none => none
      | .whileStart =>
          match parseCmds f rest with
          | some (body, .done :: rest1) =>
              match parseCmds f rest1 with
              | some (more, rest2) => some (.loop body :: more, rest2)
              | none => none
          | _ => none
      | .funcStart name =>
          match parseCmds f rest with
          | some (body, .funcEnd :: rest1) =>
              match parseCmds f rest1 with
              | some (more, rest2) => some (.fn name body :: more, rest2)
              | none => none
          | _ => none
      | _ =>
          match parseCmds f rest with
          | some (more, rest1) => some (.simple l :: more, rest1)
          | none => none
def parseTail : Nat → List Line → Option (List (Line × List Cmd) × Option (List Cmd) × List Line)
  | 0, _ => none
  | _ + 1, .fi :: rest => some ([], none, rest)
  | f + 1, .else_ :: rest =>
      match parseCmds f rest with
      | some (b, .fi :: rest1) => some ([], some b, rest1)
      | _ => none
  | f + 1, .ifStart w c :: rest =>
      if w == "elif" then
        match parseCmds f rest with
        | some (b, rest1) =>
            match parseTail f rest1 with
            | some (elifs, els, rest2) => some ((.ifStart w c, b) :: elifs, els, rest2)
            | none => none
        | none => none
      else none
  | _ + 1, _ => none
end

def parse (ls : List Line) : Option (List Cmd) :=
  match parseCmds (2 * ls.length + 2) ls with
  | some (cs, []) => some cs
  | _ => none

def Cfg.init : Cfg := { ρ := fun _ => "", out := [], funs := [], args := [], saved := [], arr := fun _ => [] }

def run (fuel : Nat) (ls : List Line) : Option (Out × List String) :=
  match parse ls with
  | some cs =>
      match execCmds fuel cs Cfg.init with
      | some (o, c) => some (o, c.out)
      | none => none
  | none => none

end Tsh.Sem2
