/-
  The run-time side condition of `C09.unused_function_removal_is_safe`: the call graph the parser collected covers
  every call of the code that the removal keeps.  Evaluated by the driver on every program the check parses.
-/
import TshVerif.Sem2.Src
import TshVerif.Model.Parser
namespace Tsh.C09
open Tsh Tsh.Parser Tsh.Sem2.Src

/-- every call of the code that is kept goes to a function that is kept -/
def graphCovers (used : List (String × List String)) (body : List Stmt) : Bool :=
  match getUsedFuncs used "" with
  | some keep => callsTop keep body
  | none => false

end Tsh.C09
