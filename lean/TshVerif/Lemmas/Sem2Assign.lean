/-
  Simultaneous assignment with effectful right-hand sides: every value goes through a temporary as soon as it is
  evaluated, then the temporaries are stored.
-/
import TshVerif.Lemmas.Sem2Stmt
namespace Tsh.Sem2
open Tsh Tsh.Tr Tsh.Bash Tsh.Sem Tsh.Sem2.Src
open Tsh.Sem.Src (Val Env)

def tmpTextsF (ctx : Ctx) : Nat → Nat → List String
  | _, 0 => []
  | i, n + 1 => ("${" ++ ctx.tn i ++ "}") :: tmpTextsF ctx (i + 1) n

def TmpValsF (ctx : Ctx) : Nat → List Val → Store → Prop
  | _, [], _ => True
  | i, v :: vs, ρ => ρ (ctx.tn i) = v.render ∧ TmpValsF ctx (i + 1) vs ρ

theorem TmpValsF.congr {ctx : Ctx} : ∀ {i : Nat} {vs : List Val} {ρ ρ' : Store}, (∀ j, i ≤ j → ρ' (ctx.tn j) = ρ (ctx.tn j)) →
    TmpValsF ctx i vs ρ → TmpValsF ctx i vs ρ'
  | _, [], _, _, _, _ => trivial
  | i, _ :: _, _, _, h, hv => ⟨by rw [h i (Nat.le_refl _)]; exact hv.1, TmpValsF.congr (fun j hj => h j (by omega)) hv.2⟩

theorem tn_eq (s : St) (i : Nat) : varName s (s!"_ma{i}") false = (ctxOf s).tn i := by
  rw [varName_ctx]; rfl

theorem Inv.set_tn {ctx : Ctx} {T : List FEntry} {c : SCfg} {m : Cfg} (h : Inv ctx T c m) (j : Nat) (w : String) :
    Inv ctx T c { m with ρ := m.ρ.set (ctx.tn j) w } :=
  ⟨h.agree.set_tn j w, h.tables⟩

/-- the result of evaluating the right-hand sides into temporaries -/
def RunsV (ctx : Ctx) (T : List FEntry) (B : Nat) (new : List Line) (i : Nat) (m : Cfg) : R (List Val) → Prop
  | .ok vs c1 => ∃ m1, ExecCmds (new.reverse.map Cmd.simple) m .normal m1 ∧ Inv ctx T c1 m1 ∧ Ctl m m1 ∧
      (∀ n, B ≤ n → m1.ρ (flagName n) = m.ρ (flagName n)) ∧ (∀ j, j < i → m1.ρ (ctx.tn j) = m.ρ (ctx.tn j)) ∧ TmpValsF ctx i vs m1.ρ
  | .exit k c1 => ∃ m1, ExecCmds (new.reverse.map Cmd.simple) m (.exit k) m1 ∧ c1.out = m1.out

theorem src_vals_cons {fuel : Nat} {e : Expr} {rest : List Expr} {c : SCfg} {res : R (List Val)}
    (h : evalVals fuel (e :: rest) c = some res) :
    (∃ f k c1, evalE f e c = some (.exit k c1) ∧ res = .exit k c1) ∨
    (∃ f o c1 v, evalE f e c = some (.ok [o] c1) ∧ resolve c1 o = some v ∧
      ((∃ f' k c2, evalVals f' rest c1 = some (.exit k c2) ∧ res = .exit k c2) ∨
       (∃ f' vs c2, evalVals f' rest c1 = some (.ok vs c2) ∧ res = .ok (v :: vs) c2))) := by
  cases fuel with
  | zero => simp [evalVals] at h
  | succ f =>
    simp only [evalVals] at h
    split at h
    · rename_i o c1 he
      split at h
      · rename_i v hv
        refine Or.inr ⟨f, o, c1, v, he, hv, ?_⟩
        split at h
        · rename_i vs c2 hr
          simp only [Option.some.injEq] at h
          exact Or.inr ⟨f, vs, c2, hr, h.symm⟩
        · rename_i k c2 hr
          simp only [Option.some.injEq] at h
          exact Or.inl ⟨f, k, c2, hr, h.symm⟩
        · simp at h
      · simp at h
    · rename_i k c1 he
      simp only [Option.some.injEq] at h
      exact Or.inl ⟨f, k, c1, he, h.symm⟩
    · simp at h

theorem assignedValues_semF {ctx : Ctx} {T : List FEntry} {B : Nat} (hT : TableOK T) (hctx : CtxOK ctx T B) (count : Nat) (hcnt : count > 1) :
    ∀ (vals : List Expr) (i : Nat) (s : St) (ts : List String) (s' : St), fragEs (tnames T) vals = true → ctxOf s = ctx →
      assignedValues conv count vals vals.length i s = .ok (ts, s') →
      ∃ new n rq, s' = reqSt (adv s new n) rq ∧ ts = tmpTextsF ctx i vals.length ∧ LinesOK ctx 0 (tnames T) new ∧
        ∀ fuel c res, evalVals fuel vals c = some res → ∀ m, Inv ctx T c m → RunsV ctx T B new i m res
  | [], i, s, ts, s', _, _, h => by
    simp only [List.length_nil] at h
    unfold assignedValues at h
    obtain ⟨ev, es⟩ := pure_ok h
    refine ⟨[], 0, Req.none, by rw [es, reqSt_none]; rfl, ev, LinesOK.nil _ _ _, ?_⟩
    intro fuel c res hs m hi
    cases fuel with
    | zero => simp [evalVals] at hs
    | succ f =>
      simp only [evalVals, Option.some.injEq] at hs
      subst hs
      exact ⟨m, ExecCmds.nil, hi, Ctl.refl m, fun _ _ => rfl, fun _ _ => rfl, trivial⟩
  | e :: rest, i, s, ts, s', hf, hc, h => by
    simp only [List.length_cons] at h
    unfold assignedValues at h
    simp only [fragEs, Bool.and_eq_true] at hf
    obtain ⟨r, s1, h1, g1⟩ := bind_ok h
    simp only [hcnt, if_true] at g1
    obtain ⟨v, s2, hv, g2⟩ := bind_ok g1
    obtain ⟨vs', s3, hvs, g3⟩ := bind_ok g2
    obtain ⟨ev, es⟩ := pure_ok g3
    obtain ⟨new1, n1, r1, e1, sim1⟩ := expr_semF hT hctx e s r s1 hf.1 hc h1
    subst e1
    have sim1' := esim_first sim1
    have hv' : (do varAssignment (s!"_ma{i}") (firstValue r) false; varEvaluation (s!"_ma{i}") false : BM String) (reqSt (adv s new1 n1) r1) = .ok (v, s2) := hv
    simp only [varAssignment, varEvaluation, bind, Tr.get, addLine, Tr.modify, pure, varEvalString, varName_upd] at hv'
    rw [varName_ctx, ctxOf_reqSt, ctxOf_adv, hc] at hv'
    injection hv' with hv'
    injection hv' with ev2 es2
    have hc2 : ctxOf s2 = ctx := by rw [← es2]; exact hc
    obtain ⟨new3, n3, r3, e3, ets, hl3, sem3⟩ := assignedValues_semF hT hctx count hcnt rest (i + 1) s2 vs' s3 hf.2 hc2 hvs
    refine ⟨new3 ++ (Line.assign (ctx.tn i) (firstValue r) :: new1), n1 + n3, r1.or r3, ?_, ?_, ?_, ?_⟩
    · rw [es, e3, ← es2]; simp [adv, reqSt, Req.or, Nat.add_assoc, Bool.or_assoc]; rfl
    · rw [ev, ets, ← ev2]; simp [tmpTextsF, Ctx.tn]; rfl
    · refine hl3.append (LinesOK.cons ⟨fun y hy => ?_, fun nm ar e' => (by cases e'), rfl⟩ sim1.lines)
      simp only [lineTargets, List.mem_singleton] at hy
      exact Or.inr (Or.inl ⟨i, hy⟩)
    · intro fuel c res hs m hi
      have shape : (new3 ++ (Line.assign (ctx.tn i) (firstValue r) :: new1)).reverse.map Cmd.simple =
          new1.reverse.map Cmd.simple ++ (Cmd.simple (.assign (ctx.tn i) (firstValue r)) :: new3.reverse.map Cmd.simple) := by simp
      rcases src_vals_cons hs with ⟨f, k, c1, he, rfl⟩ | ⟨f, o, c1, v0, he, hv0, hrest⟩
      · obtain ⟨m1, ex, ho⟩ := sim1'.run f c _ (single_exit he) m hi
        exact ⟨m1, by rw [shape]; exact execCmds_stop_append _ ex (by simp), ho⟩
      · obtain ⟨m1, ex1, hi1, hc1, hk1, hh1⟩ := runs_ok_then (sim1'.run f c _ (single_ok he) m hi)
        have hst := step2_assign m1 (ctx.tn i) (hh1.1.expand hi1.agree hv0)
        have hi2 : Inv ctx T c1 { m1 with ρ := m1.ρ.set (ctx.tn i) v0.render } := hi1.set_tn i _
        rcases hrest with ⟨f', k, c2, hr, rfl⟩ | ⟨f', vs, c2, hr, rfl⟩
        · obtain ⟨m3, ex3, ho⟩ := sem3 f' c1 _ hr _ hi2
          refine ⟨m3, ?_, ho⟩
          rw [shape]
          exact execCmds_append ex1 (ExecCmds.cons (ExecCmd.simple rfl hst) ex3)
        · obtain ⟨m3, ex3, hi3, hc3, hf3, hlow3, tv3⟩ := sem3 f' c1 _ hr _ hi2
          refine ⟨m3, ?_, hi3, hc1.trans hc3, ?_, ?_, ?_, tv3⟩
          · rw [shape]
            exact execCmds_append ex1 (ExecCmds.cons (ExecCmd.simple rfl hst) ex3)
          · intro nn hB
            rw [hf3 nn hB]
            show (m1.ρ.set _ _) (flagName nn) = _
            rw [Sem.set_other _ _ _ _ (fun e' => ctx.tn_ne_flag i nn e'.symm)]
            exact hk1.flags nn hB
          · intro j hj
            rw [hlow3 j (by omega)]
            show (m1.ρ.set _ _) (ctx.tn j) = _
            rw [Sem.set_other _ _ _ _ (fun e' => by have := ctx.tn_inj e'; omega)]
            exact hk1.tmps j
          · rw [hlow3 i (by omega)]
            exact Sem.set_same _ _ _

theorem storeTmps_sem (ctx : Ctx) (T : List FEntry) (B k : Nat) : ∀ (vars : List Var) (i : Nat) (vs : List Val) (c : SCfg) (m : Cfg),
    (vars.all (fun x => goodName2 x.name)) = true → vs.length = vars.length → Inv ctx T c m → TmpValsF ctx i vs m.ρ →
    ∃ m', ExecCmds ((storeLines ctx vars (tmpTextsF ctx i vars.length)).map Cmd.simple) m .normal m' ∧ Inv ctx T (storeVars c vars vs) m' ∧
      Ctl m m' ∧ FlagsKept B k m m'
  | [], i, vs, c, m, _, hl, hi, _ => by
    have : vs = [] := List.eq_nil_of_length_eq_zero (by simpa using hl)
    subst this
    exact ⟨m, by simp [storeLines, tmpTextsF]; exact ExecCmds.nil, by simpa [storeVars] using hi, Ctl.refl m, FlagsKept.refl _ _ m⟩
  | x :: xs, i, vs, c, m, hg, hl, hi, tv => by
    simp only [List.all_cons, Bool.and_eq_true] at hg
    match vs, hl, tv with
    | v :: vs', hl, tv =>
      have hcmp : Complete m.ρ ("${" ++ ctx.tn i ++ "}").toList v.render.toList := by
        rw [← tv.1]; exact complete_var m.ρ _ (ctx.tn_valid i)
      have hst := step2_assign m (ctx.mg x.name x.global) hcmp.toExpand
      have hi1 := hi.write x v hg.1
      have tv1 : TmpValsF ctx (i + 1) vs' (m.ρ.set (ctx.mg x.name x.global) v.render) :=
        TmpValsF.congr (fun j _ => Sem.set_other _ _ _ _ (fun e => ctx.mg_ne_tn _ _ j hg.1 e.symm)) tv.2
      obtain ⟨m', ex, hi', hc', hf'⟩ := storeTmps_sem ctx T B k xs (i + 1) vs' _ _ hg.2 (by simpa using hl) hi1 tv1
      refine ⟨m', ?_, by simpa [storeVars] using hi', hc', ?_⟩
      · simp only [List.length_cons, tmpTextsF, storeLines, List.map_cons]
        exact ExecCmds.cons (ExecCmd.simple rfl hst) ex
      · intro nn hB hn
        rw [hf' nn hB hn]
        exact Sem.set_other _ _ _ _ (fun e => ctx.mg_ne_flag _ _ nn hg.1 e.symm)
    | [], hl, _ => simp at hl

theorem evalVals_length {fuel : Nat} : ∀ {es : List Expr} {c c1 : SCfg} {vs : List Val}, evalVals fuel es c = some (.ok vs c1) → vs.length = es.length := by
  induction fuel with
  | zero => intro es c c1 vs h; simp [evalVals] at h
  | succ f ih =>
    intro es c c1 vs h
    cases es with
    | nil => simp only [evalVals, Option.some.injEq, R.ok.injEq] at h; rw [← h.1]; rfl
    | cons e rest =>
      rcases src_vals_cons h with ⟨_, _, _, _, h2⟩ | ⟨f1, o, c1', v, _, _, h3⟩
      · cases h2
      · rcases h3 with ⟨_, _, _, _, h4⟩ | ⟨f', vs', c2, hr, h4⟩
        · cases h4
        · simp only [R.ok.injEq] at h4
          obtain ⟨rfl, rfl⟩ := h4
          -- the recursive evaluation used the fuel `f` of this unfolding
          simp only [evalVals] at h
          split at h
          · rename_i o' c1'' he'
            split at h
            · split at h
              · rename_i vs'' c2'' hr''
                simp only [Option.some.injEq, R.ok.injEq] at h
                have := ih hr''
                simp [← h.1, this]
              · simp at h
              · simp at h
            · simp at h
          · simp at h
          · simp at h

theorem assignN_semF {ctx : Ctx} {T : List FEntry} {B : Nat} (hT : TableOK T) (hctx : CtxOK ctx T B) {vars : List Var} {vals : List Expr}
    (hlen : vars.length = vals.length) (hcnt : vars.length > 1)
    (hg : (vars.all (fun x => goodName2 x.name)) = true) (hf : fragEs (tnames T) vals = true) {s s' : St} (hc : ctxOf s = ctx)
    (h : assignValues conv vars vals s = .ok ((), s')) (src : Nat → SCfg → Option (SOut × SCfg))
    (hsrc : ∀ fuel c o c', src fuel c = some (o, c') →
      (∃ f k, evalVals f vals c = some (.exit k c') ∧ o = .exit k) ∨
      (∃ f vs c1, evalVals f vals c = some (.ok vs c1) ∧ o = .normal ∧ c' = storeVars c1 vars vs)) :
    StmtSemF ctx T B src s s' := by
  unfold assignValues at h
  obtain ⟨values, s1, h1, h2⟩ := bind_ok h
  rw [hlen] at h1
  obtain ⟨new1, n1, r1, e1, ets, hl1, sem1⟩ := assignedValues_semF hT hctx vals.length (by omega) vals 0 s values s1 hf hc h1
  subst e1
  rw [ets, ← hlen, storeValues_run] at h2
  injection h2 with h2
  injection h2 with _ e2
  refine ⟨new1.reverse.map Cmd.simple ++ (storeLines ctx vars (tmpTextsF ctx 0 vars.length)).map Cmd.simple, n1, 0, r1, ?_, ?_, ?_⟩
  · rw [← e2, flats_append, flats_simples, flats_simples, ctxOf_reqSt, ctxOf_adv, hc]; simp [adv, adv2, reqSt]
  · rw [flats_append, flats_simples, flats_simples]
    exact ((hl1.reverse).mono (Nat.zero_le _)).append (storeLines_ok ctx _ _ vars _ hg)
  · intro fuel c o c' hs m hi
    rcases hsrc fuel c o c' hs with ⟨f, k, he, rfl⟩ | ⟨f, vs, c1, he, rfl, rfl⟩
    · obtain ⟨m1, ex, ho⟩ := sem1 f c _ he m hi
      exact ⟨m1, .exit k, execCmds_stop_append _ ex (by simp), rfl, ho, fun hne => absurd rfl (hne k), fun vs hv => by cases hv⟩
    · obtain ⟨m1, ex, hi1, hc1, hf1, _, tv1⟩ := sem1 f c _ he m hi
      obtain ⟨m2, ex2, hi2, hc2, hf2⟩ := storeTmps_sem ctx T B s.forCounter vars 0 vs c1 m1 hg (by rw [evalVals_length he, hlen]) hi1 tv1
      refine ⟨m2, .normal, execCmds_append ex ex2, trivial, hi2.out, fun _ => ⟨hi2, hc1.trans hc2, ?_⟩, fun vs' hv => by cases hv⟩
      intro nn hB hn
      rw [hf2 nn hB hn, hf1 nn hB]

end Tsh.Sem2
