/-
  A frame property of the bash model: commands whose lines assign only names in `P`, and which call only functions
  whose bodies have the same property, leave every other variable alone (and define no function).
-/
import TshVerif.Lemmas.Sem2Call
namespace Tsh.Sem2
open Tsh Tsh.Tr Tsh.Bash Tsh.Sem Tsh.Sem2.Src
open Tsh.Sem.Src (Val Env)

/-- static condition on a list of lines -/
def SL (P Q : String → Prop) (D : List String) (ls : List Line) : Prop :=
  ∀ l ∈ ls, (∀ x ∈ lineTargets l, P x) ∧ (∀ name args, l = .callFn name args → name ∈ D) ∧ (∀ n, l ≠ .funcStart n) ∧
    (∀ n i, l = .localAssign n i → Q n)

theorem SL.sub {P Q : String → Prop} {D : List String} {a b : List Line} (h : SL P Q D b) (hs : ∀ l ∈ a, l ∈ b) : SL P Q D a :=
  fun l hl => h l (hs l hl)

/-- every callable function has a body with the static property (each with its own set `Q'` of `local` names) -/
def TblStatic (P : String → Prop) (D : List String) (funs : List (String × List Cmd)) : Prop :=
  ∀ name ∈ D, ∃ body Q', lookupFun funs name = some body ∧ SL P Q' D (flats body) ∧ ∀ n, Q' n → P n

/-- what a frame is -/
structure Framed (P Q : String → Prop) (o : Out) (m m' : Cfg) : Prop where
  rho : ∀ x, ¬ P x → m'.ρ x = m.ρ x
  funs : m'.funs = m.funs
  saved : (∀ k, o ≠ .exit k) → (∀ p ∈ m.saved, Q p.1) → ∀ p ∈ m'.saved, Q p.1

theorem Framed.refl (P Q : String → Prop) (o : Out) (m : Cfg) : Framed P Q o m m := ⟨fun _ _ => rfl, rfl, fun _ h => h⟩
theorem Framed.trans {P Q : String → Prop} {o1 o : Out} {a b c : Cfg} (h1 : Framed P Q o1 a b) (hne : ∀ k, o1 ≠ .exit k) (h2 : Framed P Q o b c) :
    Framed P Q o a c :=
  ⟨fun x hx => by rw [h2.rho x hx, h1.rho x hx], h2.funs.trans h1.funs, fun ho h => h2.saved ho (h1.saved hne h)⟩

theorem Framed.cast {P Q : String → Prop} {o1 o2 : Out} {a b : Cfg} (h : Framed P Q o1 a b) (hne : ∀ k, o1 ≠ .exit k) : Framed P Q o2 a b :=
  ⟨h.rho, h.funs, fun _ hs => h.saved hne hs⟩

theorem framed_set (P Q : String → Prop) (o : Out) (m : Cfg) (n v : String) (hn : P n) : Framed P Q o m { m with ρ := m.ρ.set n v } :=
  ⟨fun x hx => Sem.set_other _ _ _ _ (fun e => hx (e ▸ hn)), rfl, fun _ h => h⟩

theorem step_framed {P Q : String → Prop} {l : Line} {m m' : Cfg} {o : Out} (h : stepSimple l m = some (o, m'))
    (ht : ∀ x ∈ lineTargets l, P x) (hq : ∀ n i, l = .localAssign n i → Q n) : Framed P Q o m m' := by
  cases l
  case shebang => simp only [stepSimple, Option.some.injEq, Prod.mk.injEq] at h; obtain ⟨_, rfl⟩ := h; exact Framed.refl P Q _ m
  case comment => simp only [stepSimple, Option.some.injEq, Prod.mk.injEq] at h; obtain ⟨_, rfl⟩ := h; exact Framed.refl P Q _ m
  case nop => simp only [stepSimple, Option.some.injEq, Prod.mk.injEq] at h; obtain ⟨_, rfl⟩ := h; exact Framed.refl P Q _ m
  case brk => simp only [stepSimple, Option.some.injEq, Prod.mk.injEq] at h; obtain ⟨_, rfl⟩ := h; exact Framed.refl P Q _ m
  case cont => simp only [stepSimple, Option.some.injEq, Prod.mk.injEq] at h; obtain ⟨_, rfl⟩ := h; exact Framed.refl P Q _ m
  case ret => simp only [stepSimple, Option.some.injEq, Prod.mk.injEq] at h; obtain ⟨_, rfl⟩ := h; exact Framed.refl P Q _ m
  case exit1 => simp only [stepSimple, Option.some.injEq, Prod.mk.injEq] at h; obtain ⟨_, rfl⟩ := h; exact Framed.refl P Q _ m
  case forFlagInit n =>
    simp only [stepSimple, Option.some.injEq, Prod.mk.injEq] at h; obtain ⟨_, rfl⟩ := h
    exact framed_set P Q _ m _ _ (ht _ (by simp [lineTargets]))
  case incrFlagSet n =>
    simp only [stepSimple, Option.some.injEq, Prod.mk.injEq] at h; obtain ⟨_, rfl⟩ := h
    exact framed_set P Q _ m _ _ (ht _ (by simp [lineTargets]))
  case assign n v =>
    simp only [stepSimple] at h
    split at h
    · simp only [Option.some.injEq, Prod.mk.injEq] at h; obtain ⟨_, rfl⟩ := h
      exact framed_set P Q _ m _ _ (ht _ (by simp [lineTargets]))
    · simp at h
  case assignArith n a op b =>
    simp only [stepSimple] at h
    split at h
    · split at h
      · simp only [Option.some.injEq, Prod.mk.injEq] at h; obtain ⟨_, rfl⟩ := h
        exact framed_set P Q _ m _ _ (ht _ (by simp [lineTargets]))
      · simp at h
    · simp at h
  case assignTest n t a b =>
    simp only [stepSimple] at h
    split at h
    · split at h
      · simp only [Option.some.injEq, Prod.mk.injEq] at h; obtain ⟨_, rfl⟩ := h
        exact framed_set P Q _ m _ _ (ht _ (by simp [lineTargets]))
      · simp at h
    · simp at h
  case localAssign n i =>
    simp only [stepSimple, Option.some.injEq, Prod.mk.injEq] at h; obtain ⟨_, rfl⟩ := h
    have hn : P n := ht _ (by simp [lineTargets])
    refine ⟨fun x hx => Sem.set_other _ _ _ _ (fun e => hx (e ▸ hn)), rfl, fun _ hs p hp => ?_⟩
    simp only [List.mem_cons] at hp
    rcases hp with rfl | hp
    · exact hq n i rfl
    · exact hs p hp
  case forCond c =>
    simp only [stepSimple] at h
    split at h
    · simp only [Option.some.injEq, Prod.mk.injEq] at h; obtain ⟨_, rfl⟩ := h; exact Framed.refl P Q _ m
    · simp at h
  case echo t =>
    simp only [stepSimple] at h
    split at h
    · simp only [Option.some.injEq, Prod.mk.injEq] at h; obtain ⟨_, rfl⟩ := h
      exact ⟨fun _ _ => rfl, rfl, fun _ hs => hs⟩
    · simp at h
  case dvcIncr =>
    simp only [stepSimple] at h
    split at h
    · simp only [Option.some.injEq, Prod.mk.injEq] at h; obtain ⟨_, rfl⟩ := h
      exact framed_set P Q _ m _ _ (ht _ (by simp [lineTargets]))
    · simp at h
  case sahInit a i v =>
    simp only [stepSimple] at h
    split at h
    · simp only [Option.some.injEq, Prod.mk.injEq] at h; obtain ⟨_, rfl⟩ := h
      have hn : P "_c" := ht _ (by simp [lineTargets])
      exact ⟨fun x hx => Sem.set_other _ _ _ _ (fun e => hx (e ▸ hn)), rfl, fun _ hs => hs⟩
    · simp at h
  case sah a i v d =>
    simp only [stepSimple] at h
    split at h
    · simp only [Option.some.injEq, Prod.mk.injEq] at h; obtain ⟨_, rfl⟩ := h
      have hn : P "_c" := ht _ (by simp [lineTargets])
      exact ⟨fun x hx => Sem.set_other _ _ _ _ (fun e => hx (e ▸ hn)), rfl, fun _ hs => hs⟩
    · simp at h
  case sliceLoad t name index =>
    simp only [stepSimple] at h
    split at h
    · simp only [Option.some.injEq, Prod.mk.injEq] at h; obtain ⟨_, rfl⟩ := h
      exact framed_set P Q _ m _ _ (ht _ (by simp [lineTargets]))
    · simp at h
  case assignSliceLen n src =>
    simp only [stepSimple] at h
    split at h
    · simp only [Option.some.injEq, Prod.mk.injEq] at h; obtain ⟨_, rfl⟩ := h
      exact framed_set P Q _ m _ _ (ht _ (by simp [lineTargets]))
    · simp at h
  case assignStrLen n v =>
    simp only [stepSimple, Option.some.injEq, Prod.mk.injEq] at h; obtain ⟨_, rfl⟩ := h
    exact framed_set P Q _ m _ _ (ht _ (by simp [lineTargets]))
  case sch dst src =>
    simp only [stepSimple] at h
    split at h
    · simp only [Option.some.injEq, Prod.mk.injEq] at h; obtain ⟨_, rfl⟩ := h
      exact ⟨fun _ _ => rfl, rfl, fun _ hs => hs⟩
    · simp at h
  case ssh v a b =>
    simp only [stepSimple] at h
    split at h
    · split at h
      · simp only [Option.some.injEq, Prod.mk.injEq] at h; obtain ⟨_, rfl⟩ := h
        have h1 : P "_ls" := ht _ (by simp [lineTargets])
        have h2 : P "_ll" := ht _ (by simp [lineTargets])
        have h3 : P "_ret" := ht _ (by simp [lineTargets])
        refine ⟨fun x hx => ?_, rfl, fun _ hs => hs⟩
        have e3 : x ≠ "_ret" := fun e => hx (e ▸ h3)
        have e2 : x ≠ "_ll" := fun e => hx (e ▸ h2)
        have e1 : x ≠ "_ls" := fun e => hx (e ▸ h1)
        show (((m.ρ.set "_ls" _).set "_ll" _).set "_ret" _) x = m.ρ x
        rw [Sem.set_other _ _ _ _ e3, Sem.set_other _ _ _ _ e2, Sem.set_other _ _ _ _ e1]
      · simp at h
    · simp at h
  all_goals simp [stepSimple] at h

theorem lookupFun_det {fs : List (String × List Cmd)} {name : String} {a b : List Cmd} (h1 : lookupFun fs name = some a) (h2 : lookupFun fs name = some b) : a = b := by
  rw [h1] at h2; exact Option.some.inj h2

mutual
theorem execCmd_frame {P Q : String → Prop} {D : List String} {x : Cmd} {m m' : Cfg} {o : Out} (h : ExecCmd x m o m')
    (hs : SL P Q D (flat x)) (ht : TblStatic P D m.funs) : Framed P Q o m m' :=
  match h with
  | .simple _ hstep => step_framed hstep (hs _ (by simp [flat])).1 (hs _ (by simp [flat])).2.2.2
  | .call (name := name) (args := args) (vals := vals) (o1 := o1) (c1 := c1) hl _ hb hcr => by
    have hname : name ∈ D := (hs _ (by simp [flat])).2.1 name args rfl
    obtain ⟨body', Q', hl', hsb, hqp⟩ := ht name hname
    have := lookupFun_det hl hl'
    subst this
    have fb := execCmds_frame hb hsb ht
    cases o1 with
    | normal =>
      simp only [callResult, Option.some.injEq, Prod.mk.injEq] at hcr
      obtain ⟨_, rfl⟩ := hcr
      have hsv := fb.saved (fun k => by simp) (fun p hp => by simp at hp)
      exact ⟨fun x hx => by
          show restore c1.saved c1.ρ x = _
          rw [restore_other _ _ _ (fun p hp e => hx (by rw [← e]; exact hqp _ (hsv p hp)))]; exact fb.rho x hx,
        fb.funs, fun _ hm => hm⟩
    | ret =>
      simp only [callResult, Option.some.injEq, Prod.mk.injEq] at hcr
      obtain ⟨_, rfl⟩ := hcr
      have hsv := fb.saved (fun k => by simp) (fun p hp => by simp at hp)
      exact ⟨fun x hx => by
          show restore c1.saved c1.ρ x = _
          rw [restore_other _ _ _ (fun p hp e => hx (by rw [← e]; exact hqp _ (hsv p hp)))]; exact fb.rho x hx,
        fb.funs, fun _ hm => hm⟩
    | exit k =>
      simp only [callResult, Option.some.injEq, Prod.mk.injEq] at hcr
      obtain ⟨rfl, rfl⟩ := hcr
      exact ⟨fb.rho, fb.funs, fun hne => absurd rfl (hne k)⟩
    | brk => simp [callResult] at hcr
    | cont => simp [callResult] at hcr
  | .ifTrue _ hb => execCmds_frame hb (hs.sub (fun l hl => by simp [flat]; exact Or.inr (Or.inl hl))) ht
  | .ifFalse _ hb => execElifs_frame hb (hs.sub (fun l hl => by
      simp only [flat, List.mem_cons, List.mem_append] at hl ⊢
      rcases hl with hl | hl
      · exact Or.inr (Or.inr (Or.inl hl))
      · exact Or.inr (Or.inr (Or.inr (Or.inl hl))))) ht
  | .loop hb => execLoop_frame hb (hs.sub (fun l hl => by simp [flat]; exact Or.inr (Or.inl hl))) ht
  | .fnDef => by
    exfalso
    rename_i nm bd
    exact (hs (.funcStart nm) (by simp [flat])).2.2.1 nm rfl
termination_by structural h
theorem execCmds_frame {P Q : String → Prop} {D : List String} {xs : List Cmd} {m m' : Cfg} {o : Out} (h : ExecCmds xs m o m')
    (hs : SL P Q D (flats xs)) (ht : TblStatic P D m.funs) : Framed P Q o m m' :=
  match h with
  | .nil => Framed.refl P Q _ _
  | .cons h1 h2 => by
    have f1 := execCmd_frame h1 (hs.sub (fun l hl => by simp [flats]; exact Or.inl hl)) ht
    have f2 := execCmds_frame h2 (hs.sub (fun l hl => by simp [flats]; exact Or.inr hl)) (by rw [f1.funs]; exact ht)
    exact f1.trans (fun k => by simp) f2
  | .stop h1 _ => execCmd_frame h1 (hs.sub (fun l hl => by simp [flats]; exact Or.inl hl)) ht
termination_by structural h
theorem execElifs_frame {P Q : String → Prop} {D : List String} {es : List (Line × List Cmd)} {els : Option (List Cmd)} {m m' : Cfg} {o : Out}
    (h : ExecElifs es els m o m') (hs : SL P Q D (flatElifs es ++ flatElse els)) (ht : TblStatic P D m.funs) : Framed P Q o m m' :=
  match h with
  | .none => Framed.refl P Q _ _
  | .els hb => execCmds_frame hb (hs.sub (fun l hl => by simp [flatElifs, flatElse]; exact Or.inr hl)) ht
  | .hit _ hb => execCmds_frame hb (hs.sub (fun l hl => by
      simp only [flatElifs, List.cons_append, List.append_assoc, List.mem_cons, List.mem_append]
      exact Or.inr (Or.inl hl))) ht
  | .miss _ hb => execElifs_frame hb (hs.sub (fun l hl => by
      simp only [flatElifs, List.cons_append, List.append_assoc, List.mem_cons, List.mem_append] at hl ⊢
      rcases hl with hl | hl
      · exact Or.inr (Or.inr (Or.inl hl))
      · exact Or.inr (Or.inr (Or.inr hl)))) ht
termination_by structural h
theorem execLoop_frame {P Q : String → Prop} {D : List String} {body : List Cmd} {m m' : Cfg} {o : Out}
    (h : ExecLoop body m o m') (hs : SL P Q D (flats body)) (ht : TblStatic P D m.funs) : Framed P Q o m m' :=
  match h with
  | .next h1 h2 => by
    have f1 := execCmds_frame h1 hs ht
    exact f1.trans (fun k => by simp) (execLoop_frame h2 hs (by rw [f1.funs]; exact ht))
  | .cont h1 h2 => by
    have f1 := execCmds_frame h1 hs ht
    exact f1.trans (fun k => by simp) (execLoop_frame h2 hs (by rw [f1.funs]; exact ht))
  | .brk h1 => (execCmds_frame h1 hs ht).cast (fun k => by simp)
  | .ret h1 => execCmds_frame h1 hs ht
  | .exit h1 => execCmds_frame h1 hs ht
termination_by structural h
end

end Tsh.Sem2
