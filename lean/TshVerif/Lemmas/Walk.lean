/-
  Generic induction over the transpiler walk (Model/Transpile.lean): any predicate on computations
  that is closed under `pure`, `bind`, `fail` and holds of every converter operation holds of
  `evalExpr`, `evalArgs`, `evalAppChain`, `evalAll`, `evalStmt`, `evalBlock`, … for every AST.
  Used for frame properties (stack neutrality, monotone counters, no panic, only-appends).
-/
import TshVerif.Model.Transpile
namespace Tsh.Tr
open Tsh

/-- a family of predicates on computations of all result types -/
structure Closed (σ : Type) where
  P : {α : Type} → EM σ α → Prop
  pure : ∀ {α : Type} (a : α), P (Pure.pure a : EM σ α)
  bind : ∀ {α β : Type} (x : EM σ α) (f : α → EM σ β), P x → (∀ a, P (f a)) → P (x >>= f)
  fail : ∀ {α : Type} (m : String), P (fail m : EM σ α)

/-- every operation of the converter that the expression walk (and plain stores) use satisfies the predicate -/
structure ExprOps {σ : Type} (C : Closed σ) (cv : Conv σ) : Prop where
  stringToString : ∀ s, C.P (cv.stringToString s)
  varDefinition : ∀ n v g, C.P (cv.varDefinition n v g)
  unaryOperation : ∀ e o t u, C.P (cv.unaryOperation e o t u)
  binaryOperation : ∀ l o r t u, C.P (cv.binaryOperation l o r t u)
  comparison : ∀ l o r t u, C.P (cv.comparison l o r t u)
  logicalOperation : ∀ l o r t u, C.P (cv.logicalOperation l o r t u)
  varEvaluation : ∀ n u g, C.P (cv.varEvaluation n u g)
  sliceInstantiation : ∀ vs u, C.P (cv.sliceInstantiation vs u)
  sliceEvaluation : ∀ n i u, C.P (cv.sliceEvaluation n i u)
  sliceLen : ∀ n u, C.P (cv.sliceLen n u)
  stringSubscript : ∀ v a b u, C.P (cv.stringSubscript v a b u)
  stringLen : ∀ v u, C.P (cv.stringLen v u)
  funcCall : ∀ n a r u, C.P (cv.funcCall n a r u)
  appCall : ∀ cs u, C.P (cv.appCall cs u)
  input : ∀ p u, C.P (cv.input p u)
  copy : ∀ d s u g, C.P (cv.copy d s u g)
  exists_ : ∀ p u, C.P (cv.exists_ p u)
  readFile : ∀ p u, C.P (cv.readFile p u)

/-- the statement-level operations satisfy the predicate -/
structure StmtOps {σ : Type} (C : Closed σ) (cv : Conv σ) : Prop where
  sliceAssignment : ∀ n i v d g, C.P (cv.sliceAssignment n i v d g)
  funcStart : ∀ n ps, C.P (cv.funcStart n ps)
  funcEnd : C.P cv.funcEnd
  ret : ∀ vs, C.P (cv.ret vs)
  ifStart : ∀ c, C.P (cv.ifStart c)
  ifEnd : C.P cv.ifEnd
  elseIfStart : ∀ c, C.P (cv.elseIfStart c)
  elseIfEnd : C.P cv.elseIfEnd
  elseStart : C.P cv.elseStart
  elseEnd : C.P cv.elseEnd
  forStart : C.P cv.forStart
  forIncrementStart : C.P cv.forIncrementStart
  forIncrementEnd : C.P cv.forIncrementEnd
  forCondition : ∀ c, C.P (cv.forCondition c)
  forEnd : C.P cv.forEnd
  brk : C.P cv.brk
  cont : C.P cv.cont
  print : ∀ vs, C.P (cv.print vs)
  panic : ∀ v, C.P (cv.panic v)
  writeFile : ∀ p c a, C.P (cv.writeFile p c a)
  nop : C.P cv.nop

section
variable {σ : Type} (C : Closed σ) (cv : Conv σ) (ops : ExprOps C cv)
include ops

mutual
theorem evalExpr_closed (e : Expr) (used : Bool) : C.P (evalExpr cv e used) := by
  match e with
  | .boolLit b => unfold evalExpr; exact C.pure _
  | .intLit n => unfold evalExpr; exact C.pure _
  | .strLit s => unfold evalExpr; exact C.bind _ _ (ops.stringToString s) (fun _ => C.pure _)
  | .unary op x vt =>
    unfold evalExpr
    exact C.bind _ _ (evalExpr_closed x true) (fun _ => C.bind _ _ (ops.unaryOperation _ _ _ _) (fun _ => C.pure _))
  | .binary op l r =>
    unfold evalExpr
    exact C.bind _ _ (evalExpr_closed l true) (fun _ => C.bind _ _ (evalExpr_closed r true) (fun _ =>
      C.bind _ _ (ops.binaryOperation _ _ _ _ _) (fun _ => C.pure _)))
  | .compare op l r =>
    unfold evalExpr
    exact C.bind _ _ (evalExpr_closed l true) (fun _ => C.bind _ _ (evalExpr_closed r true) (fun _ =>
      C.bind _ _ (ops.comparison _ _ _ _ _) (fun _ => C.pure _)))
  | .logical op l r =>
    unfold evalExpr
    exact C.bind _ _ (evalExpr_closed l true) (fun _ => C.bind _ _ (evalExpr_closed r true) (fun _ =>
      C.bind _ _ (ops.logicalOperation _ _ _ _ _) (fun _ => C.pure _)))
  | .varEval v => unfold evalExpr; exact C.bind _ _ (ops.varEvaluation _ _ _) (fun _ => C.pure _)
  | .sliceEval value index dt =>
    unfold evalExpr
    exact C.bind _ _ (evalExpr_closed value true) (fun _ => C.bind _ _ (evalExpr_closed index true) (fun _ =>
      C.bind _ _ (ops.sliceEvaluation _ _ _) (fun _ => C.pure _)))
  | .substr value start none =>
    unfold evalExpr
    exact C.bind _ _ (evalExpr_closed start true) (fun a =>
      C.bind _ _ (evalExpr_closed value true) (fun _ => C.bind _ _ (ops.stringSubscript _ _ _ _) (fun _ => C.pure _)))
  | .substr value start (some st) =>
    unfold evalExpr
    exact C.bind _ _ (evalExpr_closed start true) (fun a => C.bind _ _ (evalExpr_closed st true) (fun _ =>
      C.bind _ _ (evalExpr_closed value true) (fun _ => C.bind _ _ (ops.stringSubscript _ _ _ _) (fun _ => C.pure _))))
  | .group x => unfold evalExpr; exact evalExpr_closed x used
  | .call name rets args =>
    unfold evalExpr
    refine C.bind _ _ (evalArgs_closed args) (fun _ => C.bind _ _ (ops.funcCall _ _ _ _) (fun vs => ?_))
    split
    · exact C.fail _
    · exact C.pure _
  | .app name args next =>
    unfold evalExpr
    exact C.bind _ _ (evalAppChain_closed (.app name args next)) (fun _ => ops.appCall _ _)
  | .sliceNew dt vals =>
    unfold evalExpr
    exact C.bind _ _ (evalArgs_closed vals) (fun _ => C.bind _ _ (ops.sliceInstantiation _ _) (fun _ => C.pure _))
  | .input none =>
    unfold evalExpr
    exact C.bind _ _ (ops.input _ _) (fun _ => C.pure _)
  | .input (some x) =>
    unfold evalExpr
    exact C.bind _ _ (evalExpr_closed x used) (fun _ => C.bind _ _ (ops.input _ _) (fun _ => C.pure _))
  | .copy dst src =>
    unfold evalExpr
    exact C.bind _ _ (evalExpr_closed src true) (fun _ => C.bind _ _ (ops.copy _ _ _ _) (fun _ => C.pure _))
  | .itoa x => unfold evalExpr; exact C.bind _ _ (evalExpr_closed x true) (fun _ => C.pure _)
  | .exists_ x =>
    unfold evalExpr
    exact C.bind _ _ (evalExpr_closed x true) (fun _ => C.bind _ _ (ops.exists_ _ _) (fun _ => C.pure _))
  | .len x =>
    unfold evalExpr
    refine C.bind _ _ (evalExpr_closed x true) (fun _ => ?_)
    split
    · exact C.bind _ _ (ops.stringLen _ _) (fun _ => C.pure _)
    · exact C.bind _ _ (ops.sliceLen _ _) (fun _ => C.pure _)
  | .read path =>
    unfold evalExpr
    split
    · exact C.fail _
    · exact C.bind _ _ (evalExpr_closed path true) (fun _ => C.bind _ _ (ops.readFile _ _) (fun _ => C.pure _))
  | .write _ _ _ => unfold evalExpr; exact C.fail _
  | .bad w => unfold evalExpr; exact C.fail _

theorem evalArgs_closed (es : List Expr) : C.P (evalArgs cv es) := by
  match es with
  | [] => unfold evalArgs; exact C.pure _
  | e :: rest =>
    unfold evalArgs
    exact C.bind _ _ (evalExpr_closed e true) (fun _ => C.bind _ _ (evalArgs_closed rest) (fun _ => C.pure _))

theorem evalAppChain_closed (e : Expr) : C.P (evalAppChain cv e) := by
  match e with
  | .app name args (some nx) =>
    unfold evalAppChain
    exact C.bind _ _ (evalArgs_closed args) (fun _ => C.bind _ _ (evalAppChain_closed nx) (fun _ => C.pure _))
  | .app name args none =>
    unfold evalAppChain
    exact C.bind _ _ (evalArgs_closed args) (fun _ => C.pure _)
  | .boolLit _ | .intLit _ | .strLit _ | .varEval _ | .unary _ _ _ | .binary _ _ _ | .compare _ _ _
  | .logical _ _ _ | .group _ | .call _ _ _ | .sliceNew _ _ | .sliceEval _ _ _ | .substr _ _ _ | .len _
  | .itoa _ | .exists_ _ | .read _ | .input _ | .copy _ _ | .write _ _ _ | .bad _ =>
    unfold evalAppChain; exact C.pure _
end

theorem evalAll_closed (es : List Expr) : C.P (evalAll cv es) := by
  induction es with
  | nil => unfold evalAll; exact C.pure _
  | cons e rest ih =>
    unfold evalAll
    exact C.bind _ _ (evalExpr_closed C cv ops e true) (fun _ => C.bind _ _ ih (fun _ => C.pure _))

theorem defaultValue_closed (vt : ValueType) : C.P (defaultValue cv vt) := by
  unfold defaultValue
  split
  · exact C.pure _
  · exact C.pure _
  · exact ops.stringToString _
  · exact C.fail _

theorem storeValues_closed (vars : List Var) (vals : List String) : C.P (storeValues cv vars vals) := by
  induction vars generalizing vals with
  | nil => unfold storeValues; exact C.pure _
  | cons x xs ih =>
    cases vals with
    | nil => unfold storeValues; exact C.pure _
    | cons v vs => unfold storeValues; exact C.bind _ _ (ops.varDefinition _ _ _) (fun _ => ih vs)

theorem evalAppend_closed (a : Option Expr) : C.P (evalAppend cv a) := by
  unfold evalAppend
  split
  · exact C.pure _
  · split
    · exact C.fail _
    · exact C.bind _ _ (evalExpr_closed C cv ops _ true) (fun _ => C.pure _)

/-- `panic` satisfies the predicate (true for all "if it succeeds then …" properties) -/
def PanicOK : Prop := ∀ {α : Type} (m : String), C.P (Tr.panic m : EM σ α)

theorem assignedValues_closed (hp : PanicOK C) (count : Nat) :
    ∀ (vals : List Expr) (n i : Nat), C.P (assignedValues cv count vals n i) := by
  intro vals n
  induction n generalizing vals with
  | zero => intro i; unfold assignedValues; exact C.pure _
  | succ n ih =>
    intro i
    cases vals with
    | nil => unfold assignedValues; exact hp _
    | cons e rest =>
      unfold assignedValues
      refine C.bind _ _ (evalExpr_closed C cv ops e true) (fun _ => C.bind _ _ ?_ (fun _ => C.bind _ _ (ih rest (i + 1)) (fun _ => C.pure _)))
      split
      · exact C.bind _ _ (ops.varDefinition _ _ _) (fun _ => ops.varEvaluation _ _ _)
      · exact C.pure _

theorem assignValues_closed (hp : PanicOK C) (vars : List Var) (vals : List Expr) : C.P (assignValues cv vars vals) := by
  unfold assignValues
  exact C.bind _ _ (assignedValues_closed C cv ops hp _ _ _ _) (fun _ => storeValues_closed C cv ops _ _)

theorem assignCallValues_closed (vars : List Var) (call : Expr) : C.P (assignCallValues cv vars call) := by
  unfold assignCallValues
  refine C.bind _ _ (evalExpr_closed C cv ops call true) (fun _ => ?_)
  split
  · exact C.fail _
  · exact storeValues_closed C cv ops _ _

variable (sops : StmtOps C cv)
include sops

mutual
theorem evalStmt_closed (hp : PanicOK C) (st : Stmt) : C.P (evalStmt cv st) := by
  match st with
  | .varDef vars vals => unfold evalStmt; exact assignValues_closed C cv ops hp _ _
  | .assign vars vals => unfold evalStmt; exact assignValues_closed C cv ops hp _ _
  | .varDefCall vars call => unfold evalStmt; exact assignCallValues_closed C cv ops _ _
  | .assignCall vars call => unfold evalStmt; exact assignCallValues_closed C cv ops _ _
  | .sliceAssign v index value =>
    unfold evalStmt
    exact C.bind _ _ (evalExpr_closed C cv ops index true) (fun _ => C.bind _ _ (evalExpr_closed C cv ops value true) (fun _ =>
      C.bind _ _ (defaultValue_closed C cv ops _) (fun _ => sops.sliceAssignment _ _ _ _ _)))
  | .funcDef name pub rets params body =>
    unfold evalStmt
    exact C.bind _ _ (sops.funcStart _ _) (fun _ => C.bind _ _ (evalBlock_closed hp body) (fun _ => sops.funcEnd))
  | .ret vals =>
    unfold evalStmt
    exact C.bind _ _ (evalArgs_closed C cv ops vals) (fun _ => sops.ret _)
  | .ifS cond body elifs els =>
    unfold evalStmt
    exact C.bind _ _ (evalExpr_closed C cv ops cond true) (fun _ => C.bind _ _ (evalConds_closed hp elifs) (fun _ =>
      C.bind _ _ (sops.ifStart _) (fun _ => C.bind _ _ (evalBlock_closed hp body) (fun _ =>
        C.bind _ _ (evalElifs_closed hp elifs _) (fun _ => C.bind _ _ (evalElse_closed hp els) (fun _ => sops.ifEnd))))))
  | .forS init cond incr body =>
    unfold evalStmt
    exact C.bind _ _ (evalInit_closed hp init) (fun _ => C.bind _ _ sops.forStart (fun _ => C.bind _ _ (evalIncr_closed hp incr) (fun _ =>
      C.bind _ _ (evalExpr_closed C cv ops cond true) (fun _ => C.bind _ _ (sops.forCondition _) (fun _ =>
        C.bind _ _ (evalBlock_closed hp body) (fun _ => sops.forEnd))))))
  | .brk => unfold evalStmt; exact sops.brk
  | .cont => unfold evalStmt; exact sops.cont
  | .print es => unfold evalStmt; exact C.bind _ _ (evalAll_closed C cv ops es) (fun _ => sops.print _)
  | .panic e => unfold evalStmt; exact C.bind _ _ (evalExpr_closed C cv ops e true) (fun _ => sops.panic _)
  | .expr (.write path data append) =>
    unfold evalStmt
    split
    · exact C.fail _
    · refine C.bind _ _ (evalExpr_closed C cv ops path true) (fun _ => ?_)
      split
      · exact C.fail _
      · exact C.bind _ _ (evalExpr_closed C cv ops data true) (fun _ => C.bind _ _ (evalAppend_closed C cv ops append) (fun _ => sops.writeFile _ _ _))
  | .expr (.boolLit _) | .expr (.intLit _) | .expr (.strLit _) | .expr (.varEval _) | .expr (.unary _ _ _)
  | .expr (.binary _ _ _) | .expr (.compare _ _ _) | .expr (.logical _ _ _) | .expr (.group _) | .expr (.call _ _ _)
  | .expr (.app _ _ _) | .expr (.sliceNew _ _) | .expr (.sliceEval _ _ _) | .expr (.substr _ _ _) | .expr (.len _)
  | .expr (.itoa _) | .expr (.exists_ _) | .expr (.read _) | .expr (.input _) | .expr (.copy _ _) | .expr (.bad _) =>
    unfold evalStmt
    exact C.bind _ _ (evalExpr_closed C cv ops _ false) (fun _ => C.pure _)

theorem evalInit_closed (hp : PanicOK C) (init : Option Stmt) : C.P (evalInit cv init) := by
  match init with
  | some i => unfold evalInit; exact evalStmt_closed hp i
  | none => unfold evalInit; exact C.pure _

theorem evalIncr_closed (hp : PanicOK C) (incr : Option Stmt) : C.P (evalIncr cv incr) := by
  match incr with
  | some i =>
    unfold evalIncr
    exact C.bind _ _ sops.forIncrementStart (fun _ => C.bind _ _ (evalStmt_closed hp i) (fun _ => sops.forIncrementEnd))
  | none => unfold evalIncr; exact C.pure _

theorem evalElse_closed (hp : PanicOK C) (els : List Stmt) : C.P (evalElse cv els) := by
  match els with
  | [] => unfold evalElse; exact C.pure _
  | s :: rest =>
    unfold evalElse
    exact C.bind _ _ sops.elseStart (fun _ => C.bind _ _ (evalStmt_closed hp s) (fun _ => C.bind _ _ (evalStmts_closed hp rest) (fun _ => sops.elseEnd)))

theorem evalBlock_closed (hp : PanicOK C) (body : List Stmt) : C.P (evalBlock cv body) := by
  match body with
  | [] => unfold evalBlock; exact sops.nop
  | s :: rest =>
    unfold evalBlock
    exact C.bind _ _ (evalStmt_closed hp s) (fun _ => evalStmts_closed hp rest)

theorem evalStmts_closed (hp : PanicOK C) (body : List Stmt) : C.P (evalStmts cv body) := by
  match body with
  | [] => unfold evalStmts; exact C.pure _
  | s :: rest =>
    unfold evalStmts
    exact C.bind _ _ (evalStmt_closed hp s) (fun _ => evalStmts_closed hp rest)

theorem evalConds_closed (hp : PanicOK C) (elifs : List (Expr × List Stmt)) : C.P (evalConds cv elifs) := by
  match elifs with
  | [] => unfold evalConds; exact C.pure _
  | (c, _) :: rest =>
    unfold evalConds
    exact C.bind _ _ (evalExpr_closed C cv ops c true) (fun _ => C.bind _ _ (evalConds_closed hp rest) (fun _ => C.pure _))

theorem evalElifs_closed (hp : PanicOK C) (elifs : List (Expr × List Stmt)) (conds : List String) : C.P (evalElifs cv elifs conds) := by
  match elifs, conds with
  | (_, body) :: rest, c :: cs =>
    unfold evalElifs
    exact C.bind _ _ (sops.elseIfStart _) (fun _ => C.bind _ _ (evalBlock_closed hp body) (fun _ =>
      C.bind _ _ sops.elseIfEnd (fun _ => evalElifs_closed hp rest cs)))
  | [], _ => unfold evalElifs; exact C.pure _
  | _ :: _, [] => unfold evalElifs; exact C.pure _
end

end

end Tsh.Tr
