/-
  Graded induction over the statement walk: a family of predicates `P k m` ("running `m` changes a
  measure by exactly `k`") that adds up along `bind`.  If every expression-level operation has grade 0 and
  the grades of the structural operations cancel per construct (if: start + end = 0, …), then every
  statement of every program has grade 0.  Used for nesting depth (parentheses) and stack heights.
-/
import TshVerif.Lemmas.Walk
namespace Tsh.Tr
open Tsh

structure Graded (σ : Type) where
  P : {α : Type} → Int → EM σ α → Prop
  pure : ∀ {α : Type} (a : α), P 0 (Pure.pure a : EM σ α)
  bind : ∀ {α β : Type} {j k : Int} (x : EM σ α) (f : α → EM σ β), P j x → (∀ a, P k (f a)) → P (j + k) (x >>= f)
  fail : ∀ {α : Type} (k : Int) (m : String), P k (fail m : EM σ α)
  panic : ∀ {α : Type} (k : Int) (m : String), P k (Tr.panic m : EM σ α)

/-- the grade-0 part of a graded family is a `Closed` family -/
def Graded.zero {σ : Type} (G : Graded σ) : Closed σ where
  P := fun m => G.P 0 m
  pure := G.pure
  bind := fun x f hx hf => by have := G.bind x f hx hf; simpa using this
  fail := G.fail 0

/-- grades of the structural operations -/
structure Weights where
  ifStart : Int
  ifEnd : Int
  elseIfStart : Int
  elseIfEnd : Int
  elseStart : Int
  elseEnd : Int
  forStart : Int
  forIncrementStart : Int
  forIncrementEnd : Int
  forCondition : Int
  forEnd : Int
  funcStart : Int
  funcEnd : Int

/-- the grades cancel per construct -/
structure Weights.Balanced (w : Weights) : Prop where
  if_ : w.ifStart + w.ifEnd = 0
  elif : w.elseIfStart + w.elseIfEnd = 0
  else_ : w.elseStart + w.elseEnd = 0
  incr : w.forIncrementStart + w.forIncrementEnd = 0
  for_ : w.forStart + w.forCondition + w.forEnd = 0
  func : w.funcStart + w.funcEnd = 0

structure GStmtOps {σ : Type} (G : Graded σ) (cv : Conv σ) (w : Weights) : Prop where
  sliceAssignment : ∀ n i v d g, G.P 0 (cv.sliceAssignment n i v d g)
  funcStart : ∀ n ps, G.P w.funcStart (cv.funcStart n ps)
  funcEnd : G.P w.funcEnd cv.funcEnd
  ret : ∀ vs, G.P 0 (cv.ret vs)
  ifStart : ∀ c, G.P w.ifStart (cv.ifStart c)
  ifEnd : G.P w.ifEnd cv.ifEnd
  elseIfStart : ∀ c, G.P w.elseIfStart (cv.elseIfStart c)
  elseIfEnd : G.P w.elseIfEnd cv.elseIfEnd
  elseStart : G.P w.elseStart cv.elseStart
  elseEnd : G.P w.elseEnd cv.elseEnd
  forStart : G.P w.forStart cv.forStart
  forIncrementStart : G.P w.forIncrementStart cv.forIncrementStart
  forIncrementEnd : G.P w.forIncrementEnd cv.forIncrementEnd
  forCondition : ∀ c, G.P w.forCondition (cv.forCondition c)
  forEnd : G.P w.forEnd cv.forEnd
  brk : G.P 0 cv.brk
  cont : G.P 0 cv.cont
  print : ∀ vs, G.P 0 (cv.print vs)
  panic : ∀ v, G.P 0 (cv.panic v)
  writeFile : ∀ p c a, G.P 0 (cv.writeFile p c a)
  nop : G.P 0 cv.nop

theorem Graded.cast {σ α : Type} (G : Graded σ) {j k : Int} {m : EM σ α} (h : G.P j m) (e : j = k) : G.P k m := e ▸ h

section
variable {σ : Type} (G : Graded σ) (cv : Conv σ) (ops : ExprOps G.zero cv) (w : Weights) (hb : w.Balanced) (sops : GStmtOps G cv w)
include ops hb sops

mutual
theorem evalStmt_graded (st : Stmt) : G.P 0 (evalStmt cv st) := by
  have hp : PanicOK G.zero := fun m => G.panic 0 m
  match st with
  | .varDef vars vals => unfold evalStmt; exact assignValues_closed G.zero cv ops hp _ _
  | .assign vars vals => unfold evalStmt; exact assignValues_closed G.zero cv ops hp _ _
  | .varDefCall vars call => unfold evalStmt; exact assignCallValues_closed G.zero cv ops _ _
  | .assignCall vars call => unfold evalStmt; exact assignCallValues_closed G.zero cv ops _ _
  | .sliceAssign v index value =>
    unfold evalStmt
    exact G.zero.bind _ _ (evalExpr_closed G.zero cv ops index true) (fun _ => G.zero.bind _ _ (evalExpr_closed G.zero cv ops value true) (fun _ =>
      G.zero.bind _ _ (defaultValue_closed G.zero cv ops _) (fun _ => sops.sliceAssignment _ _ _ _ _)))
  | .funcDef name pub rets params body =>
    unfold evalStmt
    exact G.cast (G.bind _ _ (sops.funcStart _ _) (fun _ => G.bind _ _ (evalBlock_graded body) (fun _ => sops.funcEnd)))
      (by have := hb.func; omega)
  | .ret vals =>
    unfold evalStmt
    exact G.zero.bind _ _ (evalArgs_closed G.zero cv ops vals) (fun _ => sops.ret _)
  | .ifS cond body elifs els =>
    unfold evalStmt
    exact G.cast (G.bind _ _ (evalExpr_closed G.zero cv ops cond true) (fun _ => G.bind _ _ (evalConds_graded elifs) (fun _ =>
      G.bind _ _ (sops.ifStart _) (fun _ => G.bind _ _ (evalBlock_graded body) (fun _ =>
        G.bind _ _ (evalElifs_graded elifs _) (fun _ => G.bind _ _ (evalElse_graded els) (fun _ => sops.ifEnd)))))))
      (by have := hb.if_; omega)
  | .forS init cond incr body =>
    unfold evalStmt
    exact G.cast (G.bind _ _ (evalInit_graded init) (fun _ => G.bind _ _ sops.forStart (fun _ => G.bind _ _ (evalIncr_graded incr) (fun _ =>
      G.bind _ _ (evalExpr_closed G.zero cv ops cond true) (fun _ => G.bind _ _ (sops.forCondition _) (fun _ =>
        G.bind _ _ (evalBlock_graded body) (fun _ => sops.forEnd)))))))
      (by have := hb.for_; omega)
  | .brk => unfold evalStmt; exact sops.brk
  | .cont => unfold evalStmt; exact sops.cont
  | .print es => unfold evalStmt; exact G.zero.bind _ _ (evalAll_closed G.zero cv ops es) (fun _ => sops.print _)
  | .panic e => unfold evalStmt; exact G.zero.bind _ _ (evalExpr_closed G.zero cv ops e true) (fun _ => sops.panic _)
  | .expr (.write path data append) =>
    unfold evalStmt
    split
    · exact G.fail 0 _
    · refine G.zero.bind _ _ (evalExpr_closed G.zero cv ops path true) (fun _ => ?_)
      split
      · exact G.fail 0 _
      · exact G.zero.bind _ _ (evalExpr_closed G.zero cv ops data true) (fun _ =>
          G.zero.bind _ _ (evalAppend_closed G.zero cv ops append) (fun _ => sops.writeFile _ _ _))
  | .expr (.boolLit _) | .expr (.intLit _) | .expr (.strLit _) | .expr (.varEval _) | .expr (.unary _ _ _)
  | .expr (.binary _ _ _) | .expr (.compare _ _ _) | .expr (.logical _ _ _) | .expr (.group _) | .expr (.call _ _ _)
  | .expr (.app _ _ _) | .expr (.sliceNew _ _) | .expr (.sliceEval _ _ _) | .expr (.substr _ _ _) | .expr (.len _)
  | .expr (.itoa _) | .expr (.exists_ _) | .expr (.read _) | .expr (.input _) | .expr (.copy _ _) | .expr (.bad _) =>
    unfold evalStmt
    exact G.zero.bind _ _ (evalExpr_closed G.zero cv ops _ false) (fun _ => G.pure _)

theorem evalInit_graded (init : Option Stmt) : G.P 0 (evalInit cv init) := by
  match init with
  | some i => unfold evalInit; exact evalStmt_graded i
  | none => unfold evalInit; exact G.pure _

theorem evalIncr_graded (incr : Option Stmt) : G.P 0 (evalIncr cv incr) := by
  match incr with
  | some i =>
    unfold evalIncr
    exact G.cast (G.bind _ _ sops.forIncrementStart (fun _ => G.bind _ _ (evalStmt_graded i) (fun _ => sops.forIncrementEnd)))
      (by have := hb.incr; omega)
  | none => unfold evalIncr; exact G.pure _

theorem evalElse_graded (els : List Stmt) : G.P 0 (evalElse cv els) := by
  match els with
  | [] => unfold evalElse; exact G.pure _
  | s :: rest =>
    unfold evalElse
    exact G.cast (G.bind _ _ sops.elseStart (fun _ => G.bind _ _ (evalStmt_graded s) (fun _ => G.bind _ _ (evalStmts_graded rest) (fun _ => sops.elseEnd))))
      (by have := hb.else_; omega)

theorem evalBlock_graded (body : List Stmt) : G.P 0 (evalBlock cv body) := by
  match body with
  | [] => unfold evalBlock; exact sops.nop
  | s :: rest =>
    unfold evalBlock
    exact G.zero.bind _ _ (evalStmt_graded s) (fun _ => evalStmts_graded rest)

theorem evalStmts_graded (body : List Stmt) : G.P 0 (evalStmts cv body) := by
  match body with
  | [] => unfold evalStmts; exact G.pure _
  | s :: rest =>
    unfold evalStmts
    exact G.zero.bind _ _ (evalStmt_graded s) (fun _ => evalStmts_graded rest)

theorem evalConds_graded (elifs : List (Expr × List Stmt)) : G.P 0 (evalConds cv elifs) := by
  match elifs with
  | [] => unfold evalConds; exact G.pure _
  | (c, _) :: rest =>
    unfold evalConds
    exact G.zero.bind _ _ (evalExpr_closed G.zero cv ops c true) (fun _ => G.zero.bind _ _ (evalConds_graded rest) (fun _ => G.pure _))

theorem evalElifs_graded (elifs : List (Expr × List Stmt)) (conds : List String) : G.P 0 (evalElifs cv elifs conds) := by
  match elifs, conds with
  | (_, body) :: rest, c :: cs =>
    unfold evalElifs
    exact G.cast (G.bind _ _ (sops.elseIfStart _) (fun _ => G.bind _ _ (evalBlock_graded body) (fun _ =>
      G.bind _ _ sops.elseIfEnd (fun _ => evalElifs_graded rest cs))))
      (by have := hb.elif; omega)
  | [], _ => unfold evalElifs; exact G.pure _
  | _ :: _, [] => unfold evalElifs; exact G.pure _
end

end

end Tsh.Tr
