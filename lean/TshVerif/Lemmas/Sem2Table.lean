/-
  The table of functions defined so far, with what is known about each body; the run-time invariant; what
  "running the lines of an expression" has to achieve.
-/
import TshVerif.Lemmas.Sem2Exec
namespace Tsh.Sem2
open Tsh Tsh.Tr Tsh.Bash Tsh.Sem Tsh.Sem2.Src
open Tsh.Sem.Src (Val Env)

/-- one defined function: its source definition, the block structure of its shell body, its number, and a bound
    above the loop flags it (and everything it calls) may write -/
structure FEntry where
  fd : FunDef
  body : List Cmd
  j : Nat
  b : Nat

def srcTable (T : List FEntry) : List FunDef := T.map (·.fd)
def shTable (T : List FEntry) : List (String × List Cmd) := T.map fun e => (e.fd.name, e.body)
def tnames (T : List FEntry) : List String := T.map (·.fd.name)

/-- what function number `≤ j` with loop flags `< b` may write -/
def Touched (j b : Nat) (x : String) : Prop :=
  (∃ i a, i ≤ j ∧ x = fnPrefix i ++ a) ∨ (∃ i, x = rvName i) ∨ goodName2 x = true ∨ (∃ n, n < b ∧ x = flagName n) ∨ isSpecial x = true

/-- the return registers hold the values -/
def ValsRv : Nat → List Val → Store → Prop
  | _, [], _ => True
  | i, v :: vs, ρ => ρ (rvName i) = v.render ∧ ValsRv (i + 1) vs ρ

theorem ValsRv.congr : ∀ {i : Nat} {vs : List Val} {ρ ρ' : Store}, (∀ j, ρ' (rvName j) = ρ (rvName j)) → ValsRv i vs ρ → ValsRv i vs ρ'
  | _, [], _, _, _, _ => trivial
  | i, _ :: _, _, _, h, hv => ⟨by rw [h i]; exact hv.1, ValsRv.congr h hv.2⟩

/-- what source and shell agree on across a call: output and global variables -/
structure AgreeG (c : SCfg) (m : Cfg) : Prop where
  out : c.out = m.out
  glob : ∀ x v, c.genv x = some v → goodName2 x = true ∧ m.ρ x = v.render
  hp : HeapOK c m

theorem AgreeF.toG {ctx : Ctx} {c : SCfg} {m : Cfg} (h : AgreeF ctx c m) : AgreeG c m := ⟨h.out, h.glob, h.hp⟩

def OutRel : SOut → Out → Prop
  | .normal, .normal => True
  | .brk, .brk => True
  | .cont, .cont => True
  | .ret _, .ret => True
  | .exit k, .exit k' => k = k'
  | _, _ => False

/-- the shell body of `e` does what its source body does, in every later state of the program (when the body ends
    the program - `exit` - only the printed lines matter) -/
def BodySim (e : FEntry) (T : List FEntry) : Prop :=
  ∀ (Tr : List FEntry) (c : SCfg) (m : Cfg) (vals : List Val) (fuel : Nat) (o : SOut) (c2 : SCfg),
    (e :: T) <:+ Tr → (tnames Tr).Nodup → c.funs = srcTable Tr → m.funs = shTable Tr → AgreeG c m →
    vals.length = e.fd.params.length →
    execSs fuel e.fd.body { c with lenv := bindParams (fun _ => none) e.fd.params vals, inFn := true } = some (o, c2) →
    ∃ m2 o', ExecCmds e.body { m with args := vals.map Val.render, saved := [] } o' m2 ∧ OutRel o o' ∧ c2.out = m2.out ∧
      ((∀ k, o ≠ .exit k) →
        AgreeG c2 m2 ∧ c2.funs = c.funs ∧ m2.funs = m.funs ∧
        (∀ vs, o = .ret vs → ValsRv 0 vs m2.ρ) ∧
        (∀ x, ¬ Touched e.j e.b x → m2.ρ x = m.ρ x) ∧
        (∀ p ∈ m2.saved, ∃ a, p.1 = fnPrefix e.j ++ a))

def TableOK : List FEntry → Prop
  | [] => True
  | e :: T => BodySim e T ∧ TableOK T ∧ (∀ e' ∈ T, e'.j < e.j ∧ e'.b ≤ e.b)

theorem TableOK.entry : ∀ {T : List FEntry} {e : FEntry}, TableOK T → e ∈ T → ∃ T', (e :: T') <:+ T ∧ BodySim e T'
  | e0 :: T, e, h, he => by
    simp only [List.mem_cons] at he
    rcases he with rfl | he
    · exact ⟨T, List.suffix_refl _, h.1⟩
    · obtain ⟨T', hs, hb⟩ := TableOK.entry h.2.1 he
      exact ⟨T', hs.trans (List.suffix_cons e0 T), hb⟩

/-! ### lookups in tables with distinct names -/

theorem lookup_src : ∀ (T : List FEntry) (e : FEntry), (tnames T).Nodup → e ∈ T → Src.lookupFun (srcTable T) e.fd.name = some e.fd
  | e0 :: T, e, hn, he => by
    simp only [tnames, List.map_cons, List.nodup_cons, List.mem_map, not_exists, not_and] at hn
    simp only [srcTable, List.map_cons, Src.lookupFun]
    simp only [List.mem_cons] at he
    rcases he with rfl | he
    · simp
    · have : e0.fd.name ≠ e.fd.name := fun h => hn.1 e he h.symm
      simp only [this, if_false]
      exact lookup_src T e hn.2 he

theorem lookup_sh : ∀ (T : List FEntry) (e : FEntry), (tnames T).Nodup → e ∈ T → lookupFun (shTable T) e.fd.name = some e.body
  | e0 :: T, e, hn, he => by
    simp only [tnames, List.map_cons, List.nodup_cons, List.mem_map, not_exists, not_and] at hn
    simp only [shTable, List.map_cons, lookupFun]
    simp only [List.mem_cons] at he
    rcases he with rfl | he
    · simp
    · have : e0.fd.name ≠ e.fd.name := fun h => hn.1 e he h.symm
      simp only [this, if_false]
      exact lookup_sh T e hn.2 he

theorem lookup_src_mem : ∀ (T : List FEntry) (name : String) (fd : FunDef), Src.lookupFun (srcTable T) name = some fd →
    ∃ e ∈ T, e.fd = fd ∧ fd.name = name
  | [], _, _, h => by simp [srcTable, Src.lookupFun] at h
  | e0 :: T, name, fd, h => by
    simp only [srcTable, List.map_cons, Src.lookupFun] at h
    split at h
    · rename_i hn
      simp only [Option.some.injEq] at h
      exact ⟨e0, by simp, h, by rw [← h]; exact hn⟩
    · obtain ⟨e, he, h1, h2⟩ := lookup_src_mem T name fd h
      exact ⟨e, by simp [he], h1, h2⟩

/-! ### the run-time invariant -/

/-- what relates the context of the code being translated to the table of functions known at that point -/
structure CtxOK (ctx : Ctx) (T : List FEntry) (B : Nat) : Prop where
  above : ctx.inFn = true → ∀ e ∈ T, e.j < ctx.k
  flags : ∀ e ∈ T, e.b ≤ B

/-- source and shell configuration in step: agreement, and the same functions defined on both sides (at least the
    ones of the table `T` known where the code was translated) -/
structure Inv (ctx : Ctx) (T : List FEntry) (c : SCfg) (m : Cfg) : Prop where
  agree : AgreeF ctx c m
  tables : ∃ Tr, T <:+ Tr ∧ (tnames Tr).Nodup ∧ c.funs = srcTable Tr ∧ m.funs = shTable Tr

/-- what stays: arguments, saved locals and the function table -/
def Ctl (m m1 : Cfg) : Prop := m1.args = m.args ∧ m1.saved = m.saved ∧ m1.funs = m.funs

theorem Ctl.refl (m : Cfg) : Ctl m m := ⟨rfl, rfl, rfl⟩
theorem Ctl.trans {a b c : Cfg} (h1 : Ctl a b) (h2 : Ctl b c) : Ctl a c :=
  ⟨h2.1.trans h1.1, h2.2.1.trans h1.2.1, h2.2.2.trans h1.2.2⟩

/-- what the evaluation of an expression keeps: helper variables below `lo`, all temporaries, loop flags from `B` on -/
structure KeepE (ctx : Ctx) (B lo : Nat) (m m1 : Cfg) : Prop where
  helpers : ∀ j, j < lo → m1.ρ (ctx.hn j) = m.ρ (ctx.hn j)
  tmps : ∀ j, m1.ρ (ctx.tn j) = m.ρ (ctx.tn j)
  flags : ∀ n, B ≤ n → m1.ρ (flagName n) = m.ρ (flagName n)

theorem KeepE.refl (ctx : Ctx) (B lo : Nat) (m : Cfg) : KeepE ctx B lo m m := ⟨fun _ _ => rfl, fun _ => rfl, fun _ _ => rfl⟩
theorem KeepE.trans {ctx : Ctx} {B lo lo' : Nat} {a b c : Cfg} (h1 : KeepE ctx B lo a b) (h2 : KeepE ctx B lo' b c) (hl : lo ≤ lo') :
    KeepE ctx B lo a c :=
  ⟨fun j hj => by rw [h2.helpers j (by omega), h1.helpers j hj], fun j => by rw [h2.tmps j, h1.tmps j],
   fun n hn => by rw [h2.flags n hn, h1.flags n hn]⟩

/-- setting a helper at or above `lo` -/
theorem KeepE.set_helper (ctx : Ctx) (B lo j : Nat) (m : Cfg) (w : String) (hj : lo ≤ j) :
    KeepE ctx B lo m { m with ρ := m.ρ.set (ctx.hn j) w } :=
  ⟨fun i hi => Sem.set_other _ _ _ _ (fun e => by have := ctx.hn_inj e; omega),
   fun i => Sem.set_other _ _ _ _ (fun e => ctx.hn_ne_tn j i e.symm),
   fun n _ => Sem.set_other _ _ _ _ (fun e => ctx.hn_ne_flag j n e.symm)⟩

/-! ### what the emitted lines may assign (static) -/

/-- the variables a line assigns -/
def lineTargets : Line → List String
  | .assign n _ => [n]
  | .assignArith n _ _ _ => [n]
  | .assignTest n _ _ _ => [n]
  | .localAssign n _ => [n]
  | .forFlagInit k => [flagName k]
  | .incrFlagSet k => [flagName k]
  | .dvcIncr => ["_dvc"]
  | .sahInit _ _ _ => ["_c"]
  | .sah _ _ _ _ => ["_c"]
  | .sliceLoad t _ _ => [t]
  | .assignSliceLen n _ => [n]
  | .assignStrLen n _ => [n]
  | .ssh _ _ _ => ["_ls", "_ll", "_ret"]
  | _ => []

/-- names the code of context `ctx` may assign: its helpers and temporaries, program variables, the return
    registers, loop flags below `hi`, the globals of the slice and substring routines -/
def OwnT (ctx : Ctx) (hi : Nat) (x : String) : Prop :=
  (∃ k, x = ctx.hn k) ∨ (∃ k, x = ctx.tn k) ∨ (∃ v g, goodName2 v = true ∧ x = ctx.mg v g) ∨ (∃ i, x = rvName i) ∨ (∃ n, n < hi ∧ x = flagName n) ∨
    isSpecial x = true

/-- lines that only the head of a function definition has -/
def isDefLine : Line → Bool
  | .localAssign _ _ => true
  | .funcStart _ => true
  | _ => false

/-- a line of context `ctx`: assigns only what the context owns, calls only functions of `ds`, is no part of a function head -/
def SLine (ctx : Ctx) (hi : Nat) (ds : List String) (l : Line) : Prop :=
  (∀ x ∈ lineTargets l, OwnT ctx hi x) ∧ (∀ name args, l = .callFn name args → name ∈ ds) ∧ isDefLine l = false

def LinesOK (ctx : Ctx) (hi : Nat) (ds : List String) (ls : List Line) : Prop := ∀ l ∈ ls, SLine ctx hi ds l

theorem LinesOK.nil (ctx : Ctx) (hi : Nat) (ds : List String) : LinesOK ctx hi ds [] := fun _ h => by simp at h
theorem LinesOK.cons {ctx : Ctx} {hi : Nat} {ds : List String} {l : Line} {ls : List Line} (h1 : SLine ctx hi ds l) (h2 : LinesOK ctx hi ds ls) :
    LinesOK ctx hi ds (l :: ls) := fun x hx => by
  simp only [List.mem_cons] at hx
  rcases hx with rfl | hx
  · exact h1
  · exact h2 x hx
theorem LinesOK.append {ctx : Ctx} {hi : Nat} {ds : List String} {a b : List Line} (h1 : LinesOK ctx hi ds a) (h2 : LinesOK ctx hi ds b) :
    LinesOK ctx hi ds (a ++ b) := fun x hx => by
  simp only [List.mem_append] at hx
  rcases hx with hx | hx
  · exact h1 x hx
  · exact h2 x hx
theorem LinesOK.reverse {ctx : Ctx} {hi : Nat} {ds : List String} {a : List Line} (h : LinesOK ctx hi ds a) : LinesOK ctx hi ds a.reverse :=
  fun x hx => h x (List.mem_reverse.mp hx)
theorem LinesOK.mono {ctx : Ctx} {hi hi' : Nat} {ds : List String} {a : List Line} (h : LinesOK ctx hi ds a) (hh : hi ≤ hi') : LinesOK ctx hi' ds a := by
  intro l hl
  obtain ⟨h1, h2⟩ := h l hl
  refine ⟨fun x hx => ?_, h2⟩
  rcases h1 x hx with h | h | h | h | ⟨n, hn, h⟩ | h
  · exact Or.inl h
  · exact Or.inr (Or.inl h)
  · exact Or.inr (Or.inr (Or.inl h))
  · exact Or.inr (Or.inr (Or.inr (Or.inl h)))
  · exact Or.inr (Or.inr (Or.inr (Or.inr (Or.inl ⟨n, by omega, h⟩))))
  · exact Or.inr (Or.inr (Or.inr (Or.inr (Or.inr h))))

/-- a line that assigns one helper variable -/
theorem sline_helper (ctx : Ctx) (hi : Nat) (ds : List String) (l : Line) (k : Nat) (h1 : lineTargets l = [ctx.hn k]) (h2 : isCall l = false)
    (h3 : isDefLine l = false := by rfl) : SLine ctx hi ds l :=
  ⟨fun x hx => by rw [h1] at hx; simp at hx; exact Or.inl ⟨k, hx⟩, fun name args e => by subst e; simp [isCall] at h2, h3⟩

theorem sline_plain (ctx : Ctx) (hi : Nat) (ds : List String) (l : Line) (h1 : lineTargets l = []) (h2 : isCall l = false)
    (h3 : isDefLine l = false := by rfl) : SLine ctx hi ds l :=
  ⟨fun x hx => by rw [h1] at hx; simp at hx, fun name args e => by subst e; simp [isCall] at h2, h3⟩

/-- the result of running the lines `new` (latest first) of an expression -/
def RunsW (wv : Bool) (ctx : Ctx) (T : List FEntry) (B : Nat) (new : List Line) (lo n : Nat) (ts : List String) (m : Cfg) : R (List Opd) → Prop
  | .ok os c1 => ∃ m1, ExecCmds (new.reverse.map Cmd.simple) m .normal m1 ∧ Inv ctx T c1 m1 ∧ Ctl m m1 ∧
      KeepE ctx B lo m m1 ∧ (wv = true → HoldsAllF ctx ts os (lo + n) m1.ρ)
  | .exit k c1 => ∃ m1, ExecCmds (new.reverse.map Cmd.simple) m (.exit k) m1 ∧ c1.out = m1.out

/-- with the operand texts valid at the end -/
abbrev Runs := RunsW true

/-- the lines `new` do what the source-level evaluation `src` does -/
structure ESimW (wv : Bool) (ctx : Ctx) (T : List FEntry) (B : Nat) (src : Nat → SCfg → Option (R (List Opd))) (new : List Line) (lo n : Nat)
    (ts : List String) : Prop where
  lines : LinesOK ctx 0 (tnames T) new
  run : ∀ fuel c res, src fuel c = some res → ∀ m, Inv ctx T c m → RunsW wv ctx T B new lo n ts m res

abbrev ESim := ESimW true

theorem ESimW.weaken {wv : Bool} {ctx : Ctx} {T : List FEntry} {B : Nat} {src : Nat → SCfg → Option (R (List Opd))} {new : List Line}
    {lo n : Nat} {ts : List String} (h : ESimW true ctx T B src new lo n ts) : ESimW wv ctx T B src new lo n ts := by
  refine ⟨h.lines, ?_⟩
  intro fuel c res hs m hi
  have := h.run fuel c res hs m hi
  cases res with
  | ok os c1 =>
    obtain ⟨m1, a, b, c', d, e⟩ := this
    exact ⟨m1, a, b, c', d, fun _ => e rfl⟩
  | exit k c1 => exact this

end Tsh.Sem2
