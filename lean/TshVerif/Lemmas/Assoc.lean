/-
  Lemmas about the association lists of the parser model (`assocGet` / `assocSet`: Go maps with insertion order).
-/
import TshVerif.Model.Parser
namespace Tsh.Parser
open Tsh

/-! ### association lists -/

theorem find_map_same {β : Type} (k : String) (v : β) : ∀ (m : List (String × β)), m.any (·.1 == k) = true →
    (m.map (fun e => if e.1 == k then (k, v) else e)).find? (fun x => x.1 == k) = some (k, v) := by
  intro m
  induction m with
  | nil => intro h; simp at h
  | cons e rest ih =>
    intro h
    cases hb : (e.1 == k) with
    | true => simp only [List.map_cons, hb, if_true, List.find?_cons, beq_self_eq_true]
    | false =>
      simp only [List.any_cons, hb, Bool.false_or] at h
      simp only [List.map_cons, hb, Bool.false_eq_true, if_false, List.find?_cons]
      exact ih h

theorem find_map_other {β : Type} (k k' : String) (v : β) (hne : k' ≠ k) : ∀ (m : List (String × β)),
    ((m.map (fun e => if e.1 == k then (k, v) else e)).find? (fun x => x.1 == k')).map (·.2) =
      (m.find? (fun x => x.1 == k')).map (·.2) := by
  intro m
  have hkk : (k == k') = false := by simp [Ne.symm hne]
  induction m with
  | nil => simp
  | cons e rest ih =>
    cases hb : (e.1 == k) with
    | true =>
      have hk : e.1 = k := by simpa using hb
      have h2 : (e.1 == k') = false := by rw [hk]; exact hkk
      simp only [List.map_cons, hb, if_true, List.find?_cons, hkk, h2]
      exact ih
    | false =>
      simp only [List.map_cons, hb, Bool.false_eq_true, if_false, List.find?_cons]
      cases hb' : (e.1 == k') with
      | true => rfl
      | false => exact ih

theorem assocGet_set_same {β : Type} (m : List (String × β)) (k : String) (v : β) : assocGet (assocSet m k v) k = some v := by
  unfold assocSet assocGet
  split
  · rename_i h
    rw [find_map_same k v m h]; rfl
  · rename_i h
    have hn : List.find? (fun x => x.1 == k) m = none := by
      rw [List.find?_eq_none]
      intro e he hc
      exact h (List.any_eq_true.mpr ⟨e, he, hc⟩)
    rw [List.find?_append, hn]
    simp

theorem assocGet_set_other {β : Type} (m : List (String × β)) (k k' : String) (v : β) (hne : k' ≠ k) :
    assocGet (assocSet m k v) k' = assocGet m k' := by
  unfold assocSet assocGet
  split
  · exact find_map_other k k' v hne m
  · rw [List.find?_append]
    have : (k == k') = false := by simp [Ne.symm hne]
    cases hf : List.find? (fun x => x.1 == k') m with
    | none => simp [List.find?, this]
    | some x => simp


theorem assocGet_mem {β : Type} (m : List (String × β)) (k : String) (v : β) (h : assocGet m k = some v) : ∃ k', (k', v) ∈ m ∧ k' = k := by
  unfold assocGet at h
  cases hf : List.find? (fun x => x.1 == k) m with
  | none => simp [hf] at h
  | some e =>
    simp [hf] at h
    have hm := List.mem_of_find?_eq_some hf
    have hp := List.find?_some hf
    refine ⟨e.1, ?_, by simpa using hp⟩
    rw [← h]; exact hm

end Tsh.Parser
