/-
  Statements with effectful expressions and calls: assignment, print, panic, return, break, continue.
-/
import TshVerif.Lemmas.Sem2ExprMain
import TshVerif.Lemmas.SemAssign
namespace Tsh.Sem2
open Tsh Tsh.Tr Tsh.Bash Tsh.Sem Tsh.Sem2.Src
open Tsh.Sem.Src (Val Env sliceName)

/-- loop flags between `B` and `k` keep their values -/
def FlagsKept (B k : Nat) (m m' : Cfg) : Prop := ∀ n, B ≤ n → n < k → m'.ρ (flagName n) = m.ρ (flagName n)

theorem FlagsKept.refl (B k : Nat) (m : Cfg) : FlagsKept B k m m := fun _ _ _ => rfl
theorem FlagsKept.trans {B k k' : Nat} {a b c : Cfg} (h1 : FlagsKept B k a b) (h2 : FlagsKept B k' b c) (hk : k ≤ k') : FlagsKept B k a c :=
  fun n hB hn => by rw [h2 n hB (by omega), h1 n hB hn]
theorem FlagsKept.mono {B k k' : Nat} {a b : Cfg} (h : FlagsKept B k' a b) (hk : k ≤ k') : FlagsKept B k a b :=
  fun n hB hn => h n hB (by omega)
theorem KeepE.flagsKept {ctx : Ctx} {B lo k : Nat} {m m' : Cfg} (h : KeepE ctx B lo m m') : FlagsKept B k m m' :=
  fun n hB _ => h.flags n hB

/-- what is kept of a statement that did not end the program -/
structure Kept (ctx : Ctx) (T : List FEntry) (B k : Nat) (c' : SCfg) (m m' : Cfg) : Prop where
  inv : Inv ctx T c' m'
  ctl : Ctl m m'
  flags : FlagsKept B k m m'

/-- the commands `cmds` do what the source-level execution `src` does -/
def SimF (ctx : Ctx) (T : List FEntry) (B : Nat) (src : Nat → SCfg → Option (SOut × SCfg)) (cmds : List Cmd) (k : Nat) : Prop :=
  ∀ fuel c o c', src fuel c = some (o, c') → ∀ m, Inv ctx T c m →
    ∃ m' o', ExecCmds cmds m o' m' ∧ OutRel o o' ∧ c'.out = m'.out ∧
      ((∀ j, o ≠ .exit j) → Kept ctx T B k c' m m') ∧ (∀ vs, o = .ret vs → ValsRv 0 vs m'.ρ)

/-- what translating a statement (or a block) from converter state `s` to `s'` achieved -/
def StmtSemF (ctx : Ctx) (T : List FEntry) (B : Nat) (src : Nat → SCfg → Option (SOut × SCfg)) (s s' : St) : Prop :=
  ∃ cmds n mm rq, s' = reqSt (adv2 s (flats cmds).reverse n mm) rq ∧ LinesOK ctx (s.forCounter + mm) (tnames T) (flats cmds) ∧
    SimF ctx T B src cmds s.forCounter

theorem ctxOf_adv2 (s : St) (new : List Line) (n mm : Nat) : ctxOf (adv2 s new n mm) = ctxOf s := rfl

theorem StmtSemF.ctx {ctx : Ctx} {T : List FEntry} {B : Nat} {src} {s s' : St} (h : StmtSemF ctx T B src s s') : ctxOf s' = ctxOf s := by
  obtain ⟨_, _, _, _, e, _, _⟩ := h; rw [e]; rfl

theorem StmtSemF.forCounter {ctx : Ctx} {T : List FEntry} {B : Nat} {src} {s s' : St} (h : StmtSemF ctx T B src s s') : s.forCounter ≤ s'.forCounter := by
  obtain ⟨_, _, m, _, e, _, _⟩ := h; rw [e]; simp [adv2, reqSt]

theorem StmtSemF.fors {ctx : Ctx} {T : List FEntry} {B : Nat} {src} {s s' : St} (h : StmtSemF ctx T B src s s') : s'.fors = s.fors := by
  obtain ⟨_, _, _, _, e, _, _⟩ := h; rw [e]; rfl

theorem Inv.out {ctx : Ctx} {T : List FEntry} {c : SCfg} {m : Cfg} (h : Inv ctx T c m) : c.out = m.out := h.agree.out

theorem linesOK_simples {ctx : Ctx} {hi : Nat} {ds : List String} {ls : List Line} (h : LinesOK ctx hi ds ls) :
    LinesOK ctx hi ds (flats (ls.map Cmd.simple)) := by rw [flats_simples]; exact h

theorem linesOK_plain1 (ctx : Ctx) (hi : Nat) (ds : List String) (l : Line) (h1 : lineTargets l = []) (h2 : isCall l = false)
    (h3 : isDefLine l = false := by rfl) : LinesOK ctx hi ds [l] := LinesOK.cons (sline_plain _ _ _ _ h1 h2 h3) (LinesOK.nil _ _ _)

/-- the lines of an expression as commands, then more commands -/
theorem runs_ok_then {ctx : Ctx} {T : List FEntry} {B : Nat} {new : List Line} {lo n : Nat} {ts : List String} {m : Cfg} {os : List Opd} {c1 : SCfg}
    (h : Runs ctx T B new lo n ts m (.ok os c1)) :
    ∃ m1, ExecCmds (new.reverse.map Cmd.simple) m .normal m1 ∧ Inv ctx T c1 m1 ∧ Ctl m m1 ∧ KeepE ctx B lo m m1 ∧
      HoldsAllF ctx ts os (lo + n) m1.ρ := by
  obtain ⟨m1, a, b, c, d, e⟩ := h
  exact ⟨m1, a, b, c, d, e rfl⟩

/-- a statement that is the lines of expressions followed by simple lines; exit from the expression part -/
theorem simF_exit_of_runs {ctx : Ctx} {T : List FEntry} {B : Nat} {new : List Line} {lo n : Nat} {ts : List String} {m : Cfg} {k : Nat} {c1 : SCfg}
    (h : Runs ctx T B new lo n ts m (.exit k c1)) (rest : List Cmd) (kk : Nat) :
    ∃ m' o', ExecCmds (new.reverse.map Cmd.simple ++ rest) m o' m' ∧ OutRel (.exit k) o' ∧ c1.out = m'.out ∧
      ((∀ j, SOut.exit k ≠ .exit j) → Kept ctx T B kk c1 m m') ∧ (∀ vs, SOut.exit k = .ret vs → ValsRv 0 vs m'.ρ) := by
  obtain ⟨m1, ex, ho⟩ := h
  exact ⟨m1, .exit k, execCmds_stop_append _ ex (by simp), rfl, ho, fun hne => absurd rfl (hne k), fun vs hv => by cases hv⟩

/-! ### break, continue -/

theorem brk_semF {ctx : Ctx} {T : List FEntry} {B : Nat} {s s' : St} (h : conv.brk s = .ok ((), s')) :
    StmtSemF ctx T B (fun fuel c => execS fuel .brk c) s s' := by
  have h' : addLine .brk s = .ok ((), s') := h
  have e := addLine_ok h'
  refine ⟨[Cmd.simple .brk], 0, 0, Req.none, by rw [e, reqSt_none]; simp [adv2, flats, flat], linesOK_simples (ls := [.brk]) (linesOK_plain1 _ _ _ _ rfl rfl), ?_⟩
  intro fuel c o c' hs m hi
  cases fuel with
  | zero => simp [execS] at hs
  | succ f =>
    simp only [execS, Option.some.injEq, Prod.mk.injEq] at hs
    obtain ⟨rfl, rfl⟩ := hs
    exact ⟨m, .brk, ExecCmds.stop (ExecCmd.simple rfl rfl) (by simp), trivial, hi.out,
      fun _ => ⟨hi, Ctl.refl m, FlagsKept.refl _ _ m⟩, fun vs hv => by cases hv⟩

theorem cont_semF {ctx : Ctx} {T : List FEntry} {B : Nat} {s s' : St} (h : conv.cont s = .ok ((), s')) :
    StmtSemF ctx T B (fun fuel c => execS fuel .cont c) s s' := by
  have h' : addLine .cont s = .ok ((), s') := h
  have e := addLine_ok h'
  refine ⟨[Cmd.simple .cont], 0, 0, Req.none, by rw [e, reqSt_none]; simp [adv2, flats, flat], linesOK_simples (ls := [.cont]) (linesOK_plain1 _ _ _ _ rfl rfl), ?_⟩
  intro fuel c o c' hs m hi
  cases fuel with
  | zero => simp [execS] at hs
  | succ f =>
    simp only [execS, Option.some.injEq, Prod.mk.injEq] at hs
    obtain ⟨rfl, rfl⟩ := hs
    exact ⟨m, .cont, ExecCmds.stop (ExecCmd.simple rfl rfl) (by simp), trivial, hi.out,
      fun _ => ⟨hi, Ctl.refl m, FlagsKept.refl _ _ m⟩, fun vs hv => by cases hv⟩

/-! ### print, panic, return, call statements -/

theorem esim_all_cons {ctx : Ctx} {T : List FEntry} {B : Nat} {e : Expr} {rest : List Expr} {newE newR : List Line} {lo nE nR : Nat}
    {r ts : List String}
    (he : ESim ctx T B (fun f c => evalE f e c) newE lo nE r)
    (hr : ESim ctx T B (fun f c => Src.evalArgs f rest c) newR (lo + nE) nR ts) :
    ESim ctx T B (fun f c => Src.evalArgs f (e :: rest) c) (newR ++ newE) lo (nE + nR) (r ++ ts) := by
  refine ⟨hr.lines.append he.lines, ?_⟩
  intro fuel c res hs m hi
  rcases src_args_cons hs with ⟨f, k, c1, h1, rfl⟩ | ⟨f, o, c1, h1, hrest⟩
  · obtain ⟨m1, ex, ho⟩ := he.run f c _ h1 m hi
    refine ⟨m1, ?_, ho⟩
    rw [map_reverse_append]
    exact execCmds_stop_append _ ex (by simp)
  · obtain ⟨m1, ex1, hi1, hc1, hk1, hh1⟩ := he.run f c _ h1 m hi
    rcases hrest with ⟨f', k, c2, h2, rfl⟩ | ⟨f', os, c2, h2, rfl⟩
    · obtain ⟨m2, ex2, ho⟩ := hr.run f' c1 _ h2 m1 hi1
      refine ⟨m2, ?_, ho⟩
      rw [map_reverse_append]
      exact execCmds_append ex1 ex2
    · obtain ⟨m2, ex2, hi2, hc2, hk2, hh2⟩ := hr.run f' c1 _ h2 m1 hi1
      refine ⟨m2, ?_, hi2, hc1.trans hc2, hk1.trans hk2 (by omega), fun _ => ?_⟩
      · rw [map_reverse_append]
        exact execCmds_append ex1 ex2
      · have e3 : lo + (nE + nR) = lo + nE + nR := by omega
        rw [e3]
        have hh1' := hh1 rfl
        match r, hh1' with
        | [t], hh1' => exact ⟨hh1'.1.mono (by omega) (fun j hj => hk2.helpers j hj), hh2 rfl⟩
        | [], hh1' => exact hh1'.elim
        | _ :: _ :: _, hh1' => exact hh1'.2.elim

theorem all_semF {ctx : Ctx} {T : List FEntry} {B : Nat} (hT : TableOK T) (hctx : CtxOK ctx T B) :
    ∀ (es : List Expr) (s : St) (ts : List String) (s' : St), fragEs (tnames T) es = true → ctxOf s = ctx →
      evalAll conv es s = .ok (ts, s') →
      ∃ new n rq, s' = reqSt (adv s new n) rq ∧ ESim ctx T B (fun f c => Src.evalArgs f es c) new s.varCounter n ts
  | [], s, ts, s', _, hc, h => by
    unfold evalAll at h
    obtain ⟨er, es⟩ := pure_ok h
    subst er
    refine ⟨[], 0, Req.none, by rw [es, reqSt_none]; rfl, esim_leaf ctx T B _ _ _ ?_⟩
    intro fuel c res hs
    cases fuel with
    | zero => simp [Src.evalArgs] at hs
    | succ f =>
      simp only [Src.evalArgs, Option.some.injEq] at hs
      exact ⟨[], hs.symm, fun _ => trivial⟩
  | e :: rest, s, ts, s', hf, hc, h => by
    unfold evalAll at h
    simp only [fragEs, Bool.and_eq_true] at hf
    obtain ⟨r, s1, h1, h⟩ := bind_ok h
    obtain ⟨rs, s2, h2, h⟩ := bind_ok h
    obtain ⟨er, es⟩ := pure_ok h
    obtain ⟨newE, nE, rE, e1, simE⟩ := expr_semF hT hctx e s r s1 hf.1 hc h1
    subst e1
    obtain ⟨newR, nR, rR, e2, simR⟩ := all_semF hT hctx rest (reqSt (adv s newE nE) rE) rs s2 hf.2 hc h2
    subst e2
    subst er
    exact ⟨newR ++ newE, nE + nR, rE.or rR, by rw [es]; simp only [adv_reqSt, reqSt_reqSt, adv_adv], esim_all_cons simE simR⟩

theorem resolveAll_length {c : SCfg} : ∀ {os : List Opd} {vs : List Val}, resolveAll c os = some vs → vs.length = os.length
  | [], vs, h => by simp only [resolveAll, Option.some.injEq] at h; subst h; rfl
  | o :: os, vs, h => by
    simp only [resolveAll] at h
    split at h
    · rename_i v vs' _ hvs
      simp only [Option.some.injEq] at h
      subst h
      simp [resolveAll_length hvs]
    · simp at h

theorem holdsAllF_intercalate {ctx : Ctx} {c : SCfg} {m : Cfg} (ha : AgreeF ctx c m) : ∀ {ts : List String} {os : List Opd} {n : Nat} {vs : List Val},
    HoldsAllF ctx ts os n m.ρ → resolveAll c os = some vs →
    Complete m.ρ (" ".intercalate ts).toList (" ".intercalate (vs.map Val.render)).toList
  | [], [], _, vs, _, hr => by
    simp only [resolveAll, Option.some.injEq] at hr
    subst hr
    simpa using Complete.nil m.ρ
  | [t], [o], _, vs, h, hr => by
    simp only [resolveAll] at hr
    split at hr
    · rename_i v vs' hv hvs
      simp only [resolveAll, Option.some.injEq] at hvs hr
      subst hvs; subst hr
      simpa using h.1 c m ha (fun _ _ => rfl) v hv
    · simp at hr
  | t :: t2 :: ts, o :: o2 :: os, n, vs, h, hr => by
    simp only [resolveAll] at hr
    split at hr
    · rename_i v vs' hv hvs
      simp only [Option.some.injEq] at hr
      subst hr
      have ih := holdsAllF_intercalate ha h.2 hvs
      match vs', hvs, ih with
      | v2 :: vs'', hvs, ih =>
        simp only [List.map_cons]
        rw [String.intercalate_cons_cons, String.intercalate_cons_cons]
        simp only [String.toList_append]
        have hsp : Complete m.ρ (" " : String).toList (" " : String).toList :=
          complete_plain m.ρ _ (by intro ch hc; simp at hc; subst hc; decide)
        exact ((h.1 c m ha (fun _ _ => rfl) v hv).append hsp).append (by simpa using ih)
      | [], hvs, _ =>
        have hvs' : resolveAll c (o2 :: os) = some [] := by simp only [resolveAll]; exact hvs
        have := resolveAll_length hvs'
        simp at this
    · simp at hr
  | [], _ :: _, _, _, h, _ => h.elim
  | _ :: _, [], _, _, h, _ => h.elim
  | [_], _ :: _ :: _, _, _, h, _ => h.2.elim
  | _ :: _ :: _, [_], _, _, h, _ => h.2.elim

theorem print_semF {ctx : Ctx} {T : List FEntry} {B : Nat} (hT : TableOK T) (hctx : CtxOK ctx T B) {es : List Expr}
    (hf : fragEs (tnames T) es = true) {s s' : St} (hc : ctxOf s = ctx)
    (h : (do let vs ← evalAll conv es; conv.print vs : BM Unit) s = .ok ((), s')) :
    StmtSemF ctx T B (fun fuel c => execS fuel (.print es) c) s s' := by
  obtain ⟨vals, s1, h1, h2⟩ := bind_ok h
  obtain ⟨new, n, rq, e1, sim⟩ := all_semF hT hctx es s vals s1 hf hc h1
  subst e1
  have h2' : addLine (.echo (" ".intercalate vals)) (reqSt (adv s new n) rq) = .ok ((), s') := h2
  have es' := addLine_ok h2'
  refine ⟨(new.reverse ++ [Line.echo (" ".intercalate vals)]).map Cmd.simple, n, 0, rq, ?_, ?_, ?_⟩
  · rw [es', flats_simples]; simp [adv, adv2, reqSt]
  · exact linesOK_simples (((sim.lines.reverse).mono (Nat.zero_le _)).append (linesOK_plain1 _ _ _ _ rfl rfl))
  · intro fuel c o c' hs m hi
    cases fuel with
    | zero => simp [execS] at hs
    | succ f =>
      simp only [execS] at hs
      split at hs
      · rename_i os c1 ha
        split at hs
        · rename_i vs hvs
          simp only [Option.some.injEq, Prod.mk.injEq] at hs
          obtain ⟨rfl, rfl⟩ := hs
          obtain ⟨m1, ex, hi1, hc1, hk1, hh⟩ := runs_ok_then (sim.run f c _ ha m hi)
          have hcmp := holdsAllF_intercalate hi1.agree hh hvs
          have hst : stepSimple (.echo (" ".intercalate vals)) m1 = some (.normal, { m1 with out := m1.out ++ [" ".intercalate (vs.map Val.render)] }) := by
            simp only [stepSimple, hcmp.toExpand]
          refine ⟨{ m1 with out := m1.out ++ [" ".intercalate (vs.map Val.render)] }, .normal, ?_, trivial, ?_,
            fun _ => ⟨⟨⟨hi1.agree.inFn, ?_, hi1.agree.glob, hi1.agree.loc, ⟨hi1.agree.hp.dvc, hi1.agree.hp.heap, hi1.agree.hp.fresh⟩⟩, hi1.tables⟩, hc1, hk1.flagsKept⟩, fun vs' hv => by cases hv⟩
          · rw [List.map_append]
            exact execCmds_append ex (execCmds_step rfl hst)
          · show c1.out ++ _ = m1.out ++ _
            rw [hi1.out]
          · show c1.out ++ _ = m1.out ++ _
            rw [hi1.out]
        · simp at hs
      · rename_i k c1 ha
        simp only [Option.some.injEq, Prod.mk.injEq] at hs
        obtain ⟨rfl, rfl⟩ := hs
        rw [List.map_append]
        exact simF_exit_of_runs (sim.run f c _ ha m hi) _ _
      · simp at hs

theorem panic_semF {ctx : Ctx} {T : List FEntry} {B : Nat} (hT : TableOK T) (hctx : CtxOK ctx T B) {e : Expr}
    (hf : fragE (tnames T) e = true) {s s' : St} (hc : ctxOf s = ctx)
    (h : (do let r ← Tr.evalExpr conv e true; conv.panic s!"panic: {firstValue r}" : BM Unit) s = .ok ((), s')) :
    StmtSemF ctx T B (fun fuel c => execS fuel (.panic e) c) s s' := by
  obtain ⟨r, s1, h1, h2⟩ := bind_ok h
  obtain ⟨new, n, rq, e1, sim⟩ := expr_semF hT hctx e s r s1 hf hc h1
  subst e1
  have sim1 := esim_first sim
  have h2' : (do addLine (.echo ("panic: " ++ firstValue r)); addLine .exit1 : BM Unit) (reqSt (adv s new n) rq) = .ok ((), s') := h2
  obtain ⟨_, s2, h3, h4⟩ := bind_ok h2'
  have e3 := addLine_ok h3
  have e4 := addLine_ok h4
  refine ⟨new.reverse.map Cmd.simple ++ [Cmd.simple (.echo ("panic: " ++ firstValue r)), Cmd.simple .exit1], n, 0, rq, ?_, ?_, ?_⟩
  · rw [e4, e3, flats_append, flats_simples]; simp [adv, adv2, reqSt, flats, flat]
  · rw [flats_append, flats_simples]
    refine ((sim.lines.reverse).mono (Nat.zero_le _)).append ?_
    exact linesOK_simples (ls := [.echo ("panic: " ++ firstValue r), .exit1])
      (LinesOK.cons (sline_plain _ _ _ _ rfl rfl) (linesOK_plain1 _ _ _ _ rfl rfl))
  · intro fuel c o c' hs m hi
    cases fuel with
    | zero => simp [execS] at hs
    | succ f =>
      simp only [execS] at hs
      split at hs
      · rename_i ov c1 ha
        split at hs
        · rename_i v hv
          simp only [Option.some.injEq, Prod.mk.injEq] at hs
          obtain ⟨rfl, rfl⟩ := hs
          obtain ⟨m1, ex, hi1, hc1, hk1, hh⟩ := runs_ok_then (sim1.run f c _ (single_ok ha) m hi)
          have hcmp : Complete m1.ρ ("panic: " ++ firstValue r).toList ("panic: " ++ v.render).toList := by
            rw [String.toList_append, String.toList_append]
            refine Complete.append (complete_plain m1.ρ _ ?_) (hh.1 c1 m1 hi1.agree (fun _ _ => rfl) v hv)
            intro ch hc'; simp at hc'; rcases hc' with rfl | rfl | rfl | rfl | rfl | rfl | rfl <;> decide
          have hst : stepSimple (.echo ("panic: " ++ firstValue r)) m1 = some (.normal, { m1 with out := m1.out ++ ["panic: " ++ v.render] }) := by
            simp only [stepSimple, hcmp.toExpand]
          refine ⟨{ m1 with out := m1.out ++ ["panic: " ++ v.render] }, .exit 1, ?_, rfl, ?_, fun hne => absurd rfl (hne 1), fun vs' hv' => by cases hv'⟩
          · refine execCmds_append ex (ExecCmds.cons (ExecCmd.simple rfl hst) (execCmds_single (ExecCmd.simple rfl rfl)))
          · show c1.out ++ _ = m1.out ++ _
            rw [hi1.out]
        · simp at hs
      · rename_i k c1 ha
        simp only [Option.some.injEq, Prod.mk.injEq] at hs
        obtain ⟨rfl, rfl⟩ := hs
        exact simF_exit_of_runs (sim1.run f c _ (single_exit ha) m hi) _ _
      · simp at hs

/-- the lines that store return values -/
theorem retLines_sem (ctx : Ctx) : ∀ (ts : List String) (os : List Opd) (vs : List Val) (i n : Nat) (c : SCfg) (m : Cfg),
    AgreeF ctx c m → HoldsAllF ctx ts os n m.ρ → resolveAll c os = some vs →
    ∃ m', ExecCmds ((C02.retLines ts i).map Cmd.simple) m .normal m' ∧ AgreeF ctx c m' ∧ Ctl m m' ∧ m'.out = m.out ∧ ValsRv i vs m'.ρ ∧
      (∀ x, (∀ j, i ≤ j → x ≠ rvName j) → m'.ρ x = m.ρ x)
  | [], [], vs, i, n, c, m, ha, _, hr => by
    simp only [resolveAll, Option.some.injEq] at hr
    subst hr
    exact ⟨m, ExecCmds.nil, ha, Ctl.refl m, rfl, trivial, fun _ _ => rfl⟩
  | t :: ts, o :: os, vs, i, n, c, m, ha, hh, hr => by
    simp only [resolveAll] at hr
    split at hr
    · rename_i v vs' hv hvs
      simp only [Option.some.injEq] at hr
      subst hr
      have hst := step2_assign m (rvName i) (hh.1.expand ha hv)
      have ha1 : AgreeF ctx c { m with ρ := m.ρ.set (rvName i) v.render } := ha.set_rv i _
      have hh1 : HoldsAllF ctx ts os n (m.ρ.set (rvName i) v.render) :=
        hh.2.mono (Nat.le_refl _) (fun j _ => Sem.set_other _ _ _ _ (fun e => ctx.hn_ne_rv j i e))
      obtain ⟨m', ex, ha', hc', ho', hv', hfr'⟩ := retLines_sem ctx ts os vs' (i + 1) n c _ ha1 hh1 hvs
      refine ⟨m', ?_, ha', hc', ho', ⟨?_, hv'⟩, ?_⟩
      · simp only [C02.retLines, List.map_cons]
        exact ExecCmds.cons (ExecCmd.simple rfl hst) ex
      · rw [hfr' _ (fun j hj e => by have := rvName_inj e; omega)]
        exact Sem.set_same _ _ _
      · intro x hx
        rw [hfr' x (fun j hj => hx j (by omega))]
        exact Sem.set_other _ _ _ _ (hx i (Nat.le_refl _))
    · simp at hr
  | [], _ :: _, _, _, _, _, _, _, hh, _ => hh.elim
  | _ :: _, [], _, _, _, _, _, _, hh, _ => hh.elim

theorem retLines_ok (ctx : Ctx) (hi : Nat) (ds : List String) : ∀ (ts : List String) (i : Nat), LinesOK ctx hi ds (C02.retLines ts i)
  | [], _ => LinesOK.nil _ _ _
  | t :: ts, i => by
    simp only [C02.retLines]
    refine LinesOK.cons ⟨fun x hx => ?_, fun nm ar e => (by cases e), rfl⟩ (retLines_ok ctx hi ds ts (i + 1))
    simp only [lineTargets, List.mem_singleton] at hx
    exact Or.inr (Or.inr (Or.inr (Or.inl ⟨i, by rw [hx]; rfl⟩)))

theorem ret_semF {ctx : Ctx} {T : List FEntry} {B : Nat} (hT : TableOK T) (hctx : CtxOK ctx T B) {vals : List Expr}
    (hf : fragEs (tnames T) vals = true) {s s' : St} (hc : ctxOf s = ctx)
    (h : (do let vs ← Tr.evalArgs conv vals; conv.ret vs : BM Unit) s = .ok ((), s')) :
    StmtSemF ctx T B (fun fuel c => execS fuel (.ret vals) c) s s' := by
  obtain ⟨ts, s1, h1, h2⟩ := bind_ok h
  obtain ⟨new, n, rq, e1, sim⟩ := args_semF hT hctx vals s ts s1 hf hc h1
  subst e1
  have h2' : (do storeRets ts 0; addLine .ret : BM Unit) (reqSt (adv s new n) rq) = .ok ((), s') := h2
  obtain ⟨_, s2, h3, h4⟩ := bind_ok h2'
  rw [C02.return_registers_in_order] at h3
  injection h3 with h3
  injection h3 with _ e3
  have e4 := addLine_ok h4
  refine ⟨new.reverse.map Cmd.simple ++ ((C02.retLines ts 0).map Cmd.simple ++ [Cmd.simple .ret]), n, 0, rq, ?_, ?_, ?_⟩
  · rw [e4, ← e3, flats_append, flats_append, flats_simples, flats_simples]; simp [adv, adv2, reqSt, flats, flat]
  · rw [flats_append, flats_append, flats_simples, flats_simples]
    refine ((sim.lines.reverse).mono (Nat.zero_le _)).append ((retLines_ok ctx _ _ ts 0).append ?_)
    exact linesOK_simples (ls := [.ret]) (linesOK_plain1 _ _ _ _ rfl rfl)
  · intro fuel c o c' hs m hi
    cases fuel with
    | zero => simp [execS] at hs
    | succ f =>
      simp only [execS] at hs
      split at hs
      · rename_i os c1 ha
        split at hs
        · rename_i vs hvs
          simp only [Option.some.injEq, Prod.mk.injEq] at hs
          obtain ⟨rfl, rfl⟩ := hs
          obtain ⟨m1, ex, hi1, hc1, hk1, hh⟩ := runs_ok_then (sim.run f c _ ha m hi)
          obtain ⟨m2, ex2, ha2, hc2, ho2, hv2, hfr2⟩ := retLines_sem ctx ts os vs 0 _ c1 m1 hi1.agree hh hvs
          refine ⟨m2, .ret, ?_, trivial, by rw [ha2.out], fun _ => ⟨⟨ha2, ?_⟩, hc1.trans hc2, ?_⟩, fun vs' hv' => ?_⟩
          · exact execCmds_append ex (execCmds_append ex2 (ExecCmds.stop (ExecCmd.simple rfl rfl) (by simp)))
          · obtain ⟨Tr, a, b, c', d⟩ := hi1.tables
            exact ⟨Tr, a, b, c', by rw [hc2.2.2]; exact d⟩
          · intro nn hB hn
            rw [hfr2 _ (fun j _ e => rv_ne_flag j nn e.symm)]
            exact hk1.flags nn hB
          · simp only [SOut.ret.injEq] at hv'
            subst hv'
            exact hv2
        · simp at hs
      · rename_i k c1 ha
        simp only [Option.some.injEq, Prod.mk.injEq] at hs
        obtain ⟨rfl, rfl⟩ := hs
        exact simF_exit_of_runs (sim.run f c _ ha m hi) _ _
      · simp at hs

/-! ### assignments -/

theorem mg_ne_flag' (ctx : Ctx) (x : Var) (n : Nat) (hx : goodName2 x.name = true) : ctx.mg x.name x.global ≠ flagName n :=
  ctx.mg_ne_flag _ _ _ hx

theorem evalVals_single {fuel : Nat} {e : Expr} {c : SCfg} {res : R (List Val)} (h : evalVals fuel [e] c = some res) :
    (∃ f k c1, evalE f e c = some (.exit k c1) ∧ res = .exit k c1) ∨
    (∃ f ov c1 v, evalE f e c = some (.ok [ov] c1) ∧ resolve c1 ov = some v ∧ res = .ok [v] c1) := by
  cases fuel with
  | zero => simp [evalVals] at h
  | succ f =>
    simp only [evalVals] at h
    split at h
    · rename_i ov c1 he
      split at h
      · rename_i v hv
        cases f with
        | zero => simp [evalVals] at h
        | succ f' =>
          simp only [evalVals, Option.some.injEq] at h
          exact Or.inr ⟨_, ov, c1, v, he, hv, h.symm⟩
      · simp at h
    · rename_i k c1 he
      simp only [Option.some.injEq] at h
      exact Or.inl ⟨_, k, c1, he, h.symm⟩
    · simp at h

theorem src_assign1 {fuel : Nat} {x : Var} {e : Expr} {c c' : SCfg} {o : SOut}
    (hs : execS fuel (.assign [x] [e]) c = some (o, c')) :
    (∃ f k, evalE f e c = some (.exit k c') ∧ o = .exit k) ∨
    (∃ f ov c1 v, evalE f e c = some (.ok [ov] c1) ∧ resolve c1 ov = some v ∧ o = .normal ∧ c' = writeVar c1 x v) := by
  cases fuel with
  | zero => simp [execS] at hs
  | succ f =>
    simp only [execS, List.length_cons, List.length_nil, beq_self_eq_true, if_true] at hs
    split at hs
    · rename_i vs c1 hv
      simp only [Option.some.injEq, Prod.mk.injEq] at hs
      obtain ⟨rfl, rfl⟩ := hs
      rcases evalVals_single hv with ⟨f', k, c1', _, h2⟩ | ⟨f', ov, c1', v, h1, h2, h3⟩
      · cases h2
      · simp only [R.ok.injEq] at h3
        obtain ⟨rfl, rfl⟩ := h3
        exact Or.inr ⟨f', ov, _, v, h1, h2, rfl, by simp [storeVars]⟩
    · rename_i k c1 hv
      simp only [Option.some.injEq, Prod.mk.injEq] at hs
      obtain ⟨rfl, rfl⟩ := hs
      rcases evalVals_single hv with ⟨f', k', c1', h1, h2⟩ | ⟨f', ov, c1', v, _, _, h3⟩
      · simp only [R.exit.injEq] at h2
        obtain ⟨rfl, rfl⟩ := h2
        exact Or.inl ⟨f', _, h1, rfl⟩
      · cases h3
    · simp at hs

theorem src_varDef1 {fuel : Nat} {x : Var} {e : Expr} {c c' : SCfg} {o : SOut}
    (hs : execS fuel (.varDef [x] [e]) c = some (o, c')) :
    (∃ f k, evalE f e c = some (.exit k c') ∧ o = .exit k) ∨
    (∃ f ov c1 v, evalE f e c = some (.ok [ov] c1) ∧ resolve c1 ov = some v ∧ o = .normal ∧ c' = writeVar c1 x v) := by
  cases fuel with
  | zero => simp [execS] at hs
  | succ f =>
    simp only [execS, List.length_cons, List.length_nil, beq_self_eq_true, if_true] at hs
    split at hs
    · rename_i vs c1 hv
      simp only [Option.some.injEq, Prod.mk.injEq] at hs
      obtain ⟨rfl, rfl⟩ := hs
      rcases evalVals_single hv with ⟨f', k, c1', _, h2⟩ | ⟨f', ov, c1', v, h1, h2, h3⟩
      · cases h2
      · simp only [R.ok.injEq] at h3
        obtain ⟨rfl, rfl⟩ := h3
        exact Or.inr ⟨f', ov, _, v, h1, h2, rfl, by simp [storeVars]⟩
    · rename_i k c1 hv
      simp only [Option.some.injEq, Prod.mk.injEq] at hs
      obtain ⟨rfl, rfl⟩ := hs
      rcases evalVals_single hv with ⟨f', k', c1', h1, h2⟩ | ⟨f', ov, c1', v, _, _, h3⟩
      · simp only [R.exit.injEq] at h2
        obtain ⟨rfl, rfl⟩ := h2
        exact Or.inl ⟨f', _, h1, rfl⟩
      · cases h3
    · simp at hs

/-- writing a program variable keeps the run-time invariant -/
theorem Inv.write {ctx : Ctx} {T : List FEntry} {c : SCfg} {m : Cfg} (h : Inv ctx T c m) (x : Var) (v : Val) (hx : goodName2 x.name = true) :
    Inv ctx T (writeVar c x v) { m with ρ := m.ρ.set (ctx.mg x.name x.global) v.render } := by
  refine ⟨h.agree.write x v hx, ?_⟩
  obtain ⟨Tr, a, b, c', d⟩ := h.tables
  refine ⟨Tr, a, b, ?_, d⟩
  simp only [writeVar]
  split <;> exact c'

theorem assign1_semF {ctx : Ctx} {T : List FEntry} {B : Nat} (hT : TableOK T) (hctx : CtxOK ctx T B) {x : Var} {e : Expr}
    (hx : goodName2 x.name = true) (hf : fragE (tnames T) e = true) {s s' : St} (hc : ctxOf s = ctx)
    (h : assignValues conv [x] [e] s = .ok ((), s')) (src : Nat → SCfg → Option (SOut × SCfg))
    (hsrc : ∀ fuel c o c', src fuel c = some (o, c') →
      (∃ f k, evalE f e c = some (.exit k c') ∧ o = .exit k) ∨
      (∃ f ov c1 v, evalE f e c = some (.ok [ov] c1) ∧ resolve c1 ov = some v ∧ o = .normal ∧ c' = writeVar c1 x v)) :
    StmtSemF ctx T B src s s' := by
  obtain ⟨r, s1, hr, es'⟩ := assign1_ok h
  obtain ⟨new, n, rq, e1, sim⟩ := expr_semF hT hctx e s r s1 hf hc hr
  subst e1
  have sim1 := esim_first sim
  refine ⟨(new.reverse ++ [Line.assign (ctx.mg x.name x.global) (firstValue r)]).map Cmd.simple, n, 0, rq, ?_, ?_, ?_⟩
  · rw [es', flats_simples, varName_ctx, ctxOf_reqSt, ctxOf_adv, hc]
    simp [adv, adv2, reqSt]
  · refine linesOK_simples (((sim.lines.reverse).mono (Nat.zero_le _)).append (LinesOK.cons ⟨fun y hy => ?_, fun nm ar e' => (by cases e'), rfl⟩ (LinesOK.nil _ _ _)))
    simp only [lineTargets, List.mem_singleton] at hy
    exact Or.inr (Or.inr (Or.inl ⟨x.name, x.global, hx, hy⟩))
  · intro fuel c o c' hs m hi
    rcases hsrc fuel c o c' hs with ⟨f, k, he, rfl⟩ | ⟨f, ov, c1, v, he, hv, rfl, rfl⟩
    · rw [List.map_append]
      exact simF_exit_of_runs (sim1.run f c _ (single_exit he) m hi) _ _
    · obtain ⟨m1, ex, hi1, hc1, hk1, hh⟩ := runs_ok_then (sim1.run f c _ (single_ok he) m hi)
      have hst := step2_assign m1 (ctx.mg x.name x.global) (hh.1.expand hi1.agree hv)
      refine ⟨{ m1 with ρ := m1.ρ.set (ctx.mg x.name x.global) v.render }, .normal, ?_, trivial, ?_,
        fun _ => ⟨hi1.write x v hx, hc1, ?_⟩, fun vs hv' => by cases hv'⟩
      · rw [List.map_append]
        exact execCmds_append ex (execCmds_step rfl hst)
      · exact (hi1.write x v hx).out
      · intro nn hB hn
        show (m1.ρ.set _ _) (flagName nn) = _
        rw [Sem.set_other _ _ _ _ (fun e' => mg_ne_flag' ctx x nn hx e'.symm)]
        exact hk1.flags nn hB

/-! ### assignment to an element of a slice -/

theorem sahSet_map {α β : Type} (f : α → β) (l : List α) (i : Nat) (v d : α) : sahSet (l.map f) i (f v) (f d) = (sahSet l i v d).map f := by
  simp only [sahSet, List.length_map]
  split <;> simp [List.map_set]

theorem src_sliceAssign {fuel : Nat} {x : Var} {index value : Expr} {c c' : SCfg} {o : SOut}
    (h : execS fuel (.sliceAssign x index value) c = some (o, c')) :
    (∃ f k, evalSeq f [index, value] c = some (.exit k c') ∧ o = .exit k) ∨
    (∃ f a b c2 k w id z i, evalSeq f [index, value] c = some (.ok [a, b] c2) ∧ resolve c2 a = some (.int k) ∧ resolve c2 b = some w ∧
      readVar c2 x = some (.slice id) ∧ zeroVal (Expr.valueType value) = some z ∧ natOf k = some i ∧ id ≤ c2.next ∧ o = .normal ∧
      c' = { c2 with heap := hset c2.heap id (sahSet (c2.heap id) i w z) }) := by
  cases fuel with
  | zero => simp [execS] at h
  | succ f =>
    simp only [execS] at h
    split at h
    · rename_i a c1 h1
      split at h
      · rename_i b c2 h2
        split at h
        · rename_i k w id z ha hb hx hz
          split at h
          · rename_i i hi
            split at h
            · rename_i hle
              simp only [Option.some.injEq, Prod.mk.injEq] at h
              exact Or.inr ⟨f, a, b, c2, k, w, id, z, i, by simp [evalSeq, h1, h2], ha, hb, hx, hz, hi, hle, h.1.symm, h.2.symm⟩
            · simp at h
          · simp at h
        · simp at h
      · rename_i k c2 h2
        simp only [Option.some.injEq, Prod.mk.injEq] at h
        obtain ⟨rfl, rfl⟩ := h
        exact Or.inl ⟨f, k, by simp [evalSeq, h1, h2], rfl⟩
      · simp at h
    · rename_i k c1 h1
      simp only [Option.some.injEq, Prod.mk.injEq] at h
      obtain ⟨rfl, rfl⟩ := h
      exact Or.inl ⟨f, k, by simp [evalSeq, h1], rfl⟩
    · simp at h

/-- the text of the zero value and the value it stands for -/
theorem defaultValue_spec {vt : ValueType} {s s1 : St} {d : String} (h : defaultValue conv vt s = .ok (d, s1)) :
    s1 = s ∧ ∀ z, zeroVal vt = some z → ∀ ρ : Store, Sem.expand ρ d = some z.render := by
  unfold defaultValue at h
  cases hd : vt.dt <;> simp only [hd] at h
  case bool =>
    obtain ⟨rfl, rfl⟩ := pure_ok h
    refine ⟨rfl, fun z hz ρ => ?_⟩
    simp only [zeroVal, hd, Option.some.injEq] at hz; subst hz
    exact (complete_bool ρ false).toExpand
  case int =>
    obtain ⟨rfl, rfl⟩ := pure_ok h
    refine ⟨rfl, fun z hz ρ => ?_⟩
    simp only [zeroVal, hd, Option.some.injEq] at hz; subst hz
    exact (complete_int ρ 0).toExpand
  case string =>
    have h' : (pure (stringToString "") : BM String) s = .ok (d, s1) := h
    obtain ⟨rfl, rfl⟩ := pure_ok h'
    refine ⟨rfl, fun z hz ρ => ?_⟩
    simp only [zeroVal, hd, Option.some.injEq] at hz; subst hz
    exact (Complete.nil ρ).toExpand
  all_goals simp [Tr.fail] at h

theorem sliceassign_semF {ctx : Ctx} {T : List FEntry} {B : Nat} (hT : TableOK T) (hctx : CtxOK ctx T B) {x : Var} {index value : Expr}
    (hx : goodName2 x.name = true) (hfi : fragE (tnames T) index = true) (hfv : fragE (tnames T) value = true) {s s' : St} (hc : ctxOf s = ctx)
    (h : (do let i ← Tr.evalExpr conv index true
             let r ← Tr.evalExpr conv value true
             let d ← defaultValue conv (Expr.valueType value)
             conv.sliceAssignment x.name (firstValue i) (firstValue r) d x.global : BM Unit) s = .ok ((), s')) :
    StmtSemF ctx T B (fun fuel c => execS fuel (.sliceAssign x index value) c) s s' := by
  obtain ⟨ti, s1, h1, h⟩ := bind_ok h
  obtain ⟨tv, s2, h2, h⟩ := bind_ok h
  obtain ⟨d, s3, h3, h4⟩ := bind_ok h
  obtain ⟨newI, nI, rI, e1, simI⟩ := expr_semF hT hctx index s ti s1 hfi hc h1
  subst e1
  obtain ⟨newV, nV, rV, e2, simV⟩ := expr_semF hT hctx value (reqSt (adv s newI nI) rI) tv s2 hfv hc h2
  subst e2
  obtain ⟨e3, hd⟩ := defaultValue_spec h3
  subst e3
  have h4' : (do Tr.modify (fun s => { s with sahReq := true }); let s ← Tr.get
                 addLine (.sah (varEvalString s x.name x.global) (firstValue ti) (firstValue tv) d) : BM Unit)
      (reqSt (adv (reqSt (adv s newI nI) rI) newV nV) rV) = .ok ((), s') := h4
  simp only [bind, Tr.modify, Tr.get, addLine, varEvalString, varName_ctx] at h4'
  injection h4' with h4'
  injection h4' with _ es
  have simS : ESim ctx T B (fun f c => evalSeq f [index, value] c) (newV ++ newI) s.varCounter (nI + nV) [firstValue ti, firstValue tv] := by
    have := esim_seq_cons (esim_first simI) (esim_seq_cons (esim_first simV) (esim_seq_nil ctx T B (s.varCounter + nI + nV)))
    simpa using this
  have hcx : ctxOf ({ reqSt (adv (reqSt (adv s newI nI) rI) newV nV) rV with sahReq := true } : St) = ctx := hc
  rw [hcx] at es
  refine ⟨(newV ++ newI).reverse.map Cmd.simple ++
      [Cmd.simple (.sah ("${" ++ ctx.mg x.name x.global ++ "}") (firstValue ti) (firstValue tv) d)], nI + nV, 0,
    (rI.or rV).or ⟨true, false, false⟩, ?_, ?_, ?_⟩
  · rw [← es, flats_append, flats_simples]
    simp [adv, adv2, reqSt, Req.or, flats, flat, Nat.add_assoc, Bool.or_assoc]
  · rw [flats_append, flats_simples]
    refine ((simS.lines.reverse).mono (Nat.zero_le _)).append ?_
    simp only [flats, flat, List.append_nil]
    exact LinesOK.cons (sline_special1 _ _ _ _ (y := "_c") (by decide) rfl rfl) (LinesOK.nil _ _ _)
  · intro fuel c o c' hs m hi
    rcases src_sliceAssign hs with ⟨f, k, he, rfl⟩ | ⟨f, a, b, c2, k, w, id, z, i, he, ha, hb, hxv, hz, hi', hle, rfl, rfl⟩
    · exact simF_exit_of_runs (simS.run f c _ he m hi) _ _
    · obtain ⟨m1, ex, hi1, hc1, hk1, hh⟩ := runs_ok_then (simS.run f c _ he m hi)
      have hname : Sem.expand m1.ρ ("${" ++ ctx.mg x.name x.global ++ "}") = some (sliceName id) := by
        rw [(complete_var m1.ρ _ (ctx.mg_valid _ _ hx)).toExpand, (hi1.agree.read hxv).2]; rfl
      have hst : stepSimple (.sah ("${" ++ ctx.mg x.name x.global ++ "}") (firstValue ti) (firstValue tv) d) m1 = some (.normal,
          { m1 with ρ := m1.ρ.set "_c" (toString (max (m1.arr (sliceName id)).length i)),
                    arr := aset m1.arr (sliceName id) ((sahSet (c2.heap id) i w z).map Val.render) }) := by
        simp only [stepSimple, hname, hh.1.expandInt hi1.agree ha, Option.bind, hi', hh.2.1.expand hi1.agree hb, hd z hz m1.ρ]
        rw [hi1.agree.hp.heap id, sahSet_map]
      have hi2 := (hi1.heap_write id hle (sahSet (c2.heap id) i w z)).set_special (y := "_c") (by decide) (by decide)
        (toString (max (m1.arr (sliceName id)).length i))
      refine ⟨_, .normal, execCmds_append ex (execCmds_step rfl hst), trivial, hi2.out, fun _ => ⟨hi2, ⟨hc1.1, hc1.2.1, hc1.2.2⟩, ?_⟩,
        fun vs hv' => by cases hv'⟩
      intro nn hB hn
      show (m1.ρ.set "_c" (toString (max (m1.arr (sliceName id)).length i))) (flagName nn) = m.ρ (flagName nn)
      rw [Sem.set_other _ _ _ _ (fun e' => special_ne_flag (x := "_c") (by decide) nn e'.symm)]
      exact hk1.flags nn hB

/-! ### a call whose values are not used (expression statement) -/

theorem call_unused_semF {ctx : Ctx} {T : List FEntry} {B : Nat} (hT : TableOK T) (hctx : CtxOK ctx T B)
    {name : String} {rets : List ValueType} {args : List Expr} (hf : fragE (tnames T) (.call name rets args) = true)
    {s s' : St} {r : List String} (hc : ctxOf s = ctx) (h : Tr.evalExpr conv (.call name rets args) false s = .ok (r, s')) :
    ∃ new n rq, s' = reqSt (adv s new n) rq ∧ ESimW false ctx T B (fun f c => evalE f (.call name rets args) c) new s.varCounter n r := by
  unfold Tr.evalExpr at h
  simp only [fragE, Bool.and_eq_true, List.contains_iff_mem] at hf
  obtain ⟨as, s1, ha, g1⟩ := bind_ok h
  obtain ⟨vs, s2, hcall, g2⟩ := bind_ok g1
  obtain ⟨newA, nA, rA, e1, simA⟩ := args_semF hT hctx args s as s1 hf.2 hc ha
  subst e1
  have hcall' : funcCall name as rets false (reqSt (adv s newA nA) rA) = .ok (vs, s2) := hcall
  unfold funcCall at hcall'
  obtain ⟨_, s3, h3, hcall'⟩ := bind_ok hcall'
  have e3 := addLine_ok h3
  simp only [Bool.false_eq_true, if_false] at hcall'
  obtain ⟨out, s4, h4, hcall'⟩ := bind_ok hcall'
  obtain ⟨eo, e4⟩ := pure_ok h4
  obtain ⟨evs, es2⟩ := pure_ok hcall'
  simp only [Bool.false_and, Bool.false_eq_true, if_false] at g2
  obtain ⟨er, es⟩ := pure_ok g2
  obtain ⟨e, he, hen⟩ : ∃ e ∈ T, e.fd.name = name := by
    have := hf.1
    simp only [tnames, List.mem_map] at this
    exact this
  subst hen
  refine ⟨Line.callFn e.fd.name as :: newA, nA, rA, by rw [es, es2, e4, e3]; simp [adv, reqSt], ⟨?_, ?_⟩⟩
  · refine LinesOK.cons ⟨fun x hx => by simp [lineTargets] at hx, fun nm ar e' => ?_, rfl⟩ simA.lines
    simp only [Line.callFn.injEq] at e'
    rw [← e'.1]
    simp only [tnames, List.mem_map]
    exact ⟨e, he, rfl⟩
  intro fuel c res' hs m hi
  rcases src_call hs with ⟨f, k, c1, hx, rfl⟩ | ⟨f, os, c1, vals, fd, o, c2, hx, hrv, hlk, hvlen, hbody, hres⟩
  · obtain ⟨m1, ex, ho⟩ := simA.run f c _ hx m hi
    refine ⟨m1, ?_, ho⟩
    rw [map_reverse_cons]
    exact execCmds_stop_append _ ex (by simp)
  · obtain ⟨m1, ex1, hi1, hc1, hk1, hh1⟩ := simA.run f c _ hx m hi
    obtain ⟨Tr, hsuf, hnd, hcf, hmf⟩ := hi1.tables
    have heTr : e ∈ Tr := hsuf.subset he
    have hfd : fd = e.fd := by
      have := lookup_src Tr e hnd heTr
      rw [← hcf, hlk] at this
      exact (Option.some.inj this)
    subst hfd
    obtain ⟨hok, hexit⟩ := call_exec hT hctx he hi1 (hh1 rfl) hrv hvlen hbody
    have shape : (Line.callFn e.fd.name as :: newA).reverse.map Cmd.simple = newA.reverse.map Cmd.simple ++ [Cmd.simple (.callFn e.fd.name as)] :=
      map_reverse_cons _ _
    rcases hres with ⟨vs', rfl, hvl', rfl⟩ | ⟨rfl, hz, rfl⟩ | ⟨k, rfl, rfl⟩
    · obtain ⟨m3, exc, hi3, hc3, hk3, _⟩ := hok vs' (Or.inl rfl)
      exact ⟨m3, by rw [shape]; exact execCmds_append ex1 (execCmds_single exc), hi3, hc1.trans hc3, hk1.trans (hk3 _) (Nat.le_refl _), fun hw => by cases hw⟩
    · obtain ⟨m3, exc, hi3, hc3, hk3, _⟩ := hok [] (Or.inr ⟨rfl, rfl⟩)
      exact ⟨m3, by rw [shape]; exact execCmds_append ex1 (execCmds_single exc), hi3, hc1.trans hc3, hk1.trans (hk3 _) (Nat.le_refl _), fun hw => by cases hw⟩
    · obtain ⟨m3, exc, ho3⟩ := hexit k rfl
      exact ⟨m3, by rw [shape]; exact execCmds_append ex1 (execCmds_single exc), ho3⟩

theorem exprcall_semF {ctx : Ctx} {T : List FEntry} {B : Nat} (hT : TableOK T) (hctx : CtxOK ctx T B)
    {name : String} {rets : List ValueType} {args : List Expr} (hf : fragE (tnames T) (.call name rets args) = true)
    {s s' : St} (hc : ctxOf s = ctx)
    (h : (do let _ ← Tr.evalExpr conv (.call name rets args) false; pure () : BM Unit) s = .ok ((), s')) :
    StmtSemF ctx T B (fun fuel c => execS fuel (.expr (.call name rets args)) c) s s' := by
  obtain ⟨r, s1, h1, h2⟩ := bind_ok h
  obtain ⟨_, es⟩ := pure_ok h2
  obtain ⟨new, n, rq, e1, sim⟩ := call_unused_semF hT hctx hf hc h1
  subst e1
  refine ⟨new.reverse.map Cmd.simple, n, 0, rq, ?_, ?_, ?_⟩
  · rw [es, flats_simples]; simp [adv, adv2, reqSt]
  · exact linesOK_simples ((sim.lines.reverse).mono (Nat.zero_le _))
  · intro fuel c o c' hs m hi
    cases fuel with
    | zero => simp [execS] at hs
    | succ f =>
      simp only [execS] at hs
      split at hs
      · rename_i os c1 ha
        simp only [Option.some.injEq, Prod.mk.injEq] at hs
        obtain ⟨rfl, rfl⟩ := hs
        obtain ⟨m1, ex, hi1, hc1, hk1, _⟩ := sim.run f c _ ha m hi
        exact ⟨m1, .normal, ex, trivial, hi1.out, fun _ => ⟨hi1, hc1, hk1.flagsKept⟩, fun vs hv => by cases hv⟩
      · rename_i k c1 ha
        simp only [Option.some.injEq, Prod.mk.injEq] at hs
        obtain ⟨rfl, rfl⟩ := hs
        obtain ⟨m1, ex, ho⟩ := sim.run f c _ ha m hi
        exact ⟨m1, .exit k, ex, rfl, ho, fun hne => absurd rfl (hne k), fun vs hv => by cases hv⟩
      · simp at hs

/-! ### assignment of the values of a call -/

def storeLines (ctx : Ctx) : List Var → List String → List Line
  | x :: xs, t :: ts => .assign (ctx.mg x.name x.global) t :: storeLines ctx xs ts
  | _, _ => []

theorem storeValues_run : ∀ (vars : List Var) (ts : List String) (s : St),
    storeValues conv vars ts s = .ok ((), { s with code := (storeLines (ctxOf s) vars ts).reverse ++ s.code })
  | [], _, s => by simp [storeValues, storeLines, pure]
  | _ :: _, [], s => by simp [storeValues, storeLines, pure]
  | x :: xs, t :: ts, s => by
    unfold storeValues
    have : conv.varDefinition x.name t x.global s = .ok ((), { s with code := .assign ((ctxOf s).mg x.name x.global) t :: s.code }) := by
      show varAssignment x.name t x.global s = _
      simp only [varAssignment, bind, Tr.get, addLine, Tr.modify, varName_ctx]
    simp only [bind, this]
    rw [storeValues_run xs ts]
    simp [storeLines, ctxOf, inFunction]

theorem storeLines_ok (ctx : Ctx) (hi : Nat) (ds : List String) : ∀ (vars : List Var) (ts : List String),
    (vars.all (fun x => goodName2 x.name)) = true → LinesOK ctx hi ds (storeLines ctx vars ts)
  | [], _, _ => by simp [storeLines]; exact LinesOK.nil _ _ _
  | _ :: _, [], _ => by simp [storeLines]; exact LinesOK.nil _ _ _
  | x :: xs, t :: ts, hg => by
    simp only [List.all_cons, Bool.and_eq_true] at hg
    simp only [storeLines]
    refine LinesOK.cons ⟨fun y hy => ?_, fun nm ar e => (by cases e), rfl⟩ (storeLines_ok ctx hi ds xs ts hg.2)
    simp only [lineTargets, List.mem_singleton] at hy
    exact Or.inr (Or.inr (Or.inl ⟨x.name, x.global, hg.1, hy⟩))

theorem storeLits_sem (ctx : Ctx) (T : List FEntry) (B k : Nat) : ∀ (vars : List Var) (ts : List String) (vs : List Val) (n : Nat) (c : SCfg) (m : Cfg),
    (vars.all (fun x => goodName2 x.name)) = true → vs.length = vars.length → Inv ctx T c m → HoldsAllF ctx ts (vs.map Opd.lit) n m.ρ →
    ∃ m', ExecCmds ((storeLines ctx vars ts).map Cmd.simple) m .normal m' ∧ Inv ctx T (storeVars c vars vs) m' ∧ Ctl m m' ∧ FlagsKept B k m m'
  | [], ts, vs, n, c, m, _, hl, hi, _ => by
    have : vs = [] := List.eq_nil_of_length_eq_zero (by simpa using hl)
    subst this
    exact ⟨m, by simp [storeLines]; exact ExecCmds.nil, by simpa [storeVars] using hi, Ctl.refl m, FlagsKept.refl _ _ m⟩
  | x :: xs, ts, vs, n, c, m, hg, hl, hi, hh => by
    simp only [List.all_cons, Bool.and_eq_true] at hg
    match vs, ts, hl, hh with
    | v :: vs', t :: ts', hl, hh =>
      have hst := step2_assign m (ctx.mg x.name x.global) (hh.1.expand (v := v) hi.agree (by simp [resolve]))
      have hi1 := hi.write x v hg.1
      have hh1 : HoldsAllF ctx ts' (vs'.map Opd.lit) n (m.ρ.set (ctx.mg x.name x.global) v.render) :=
        hh.2.mono (Nat.le_refl _) (fun j _ => Sem.set_other _ _ _ _ (fun e => ctx.mg_ne_hn _ _ j hg.1 e.symm))
      obtain ⟨m', ex, hi', hc', hf'⟩ := storeLits_sem ctx T B k xs ts' vs' n _ _ hg.2 (by simpa using hl) hi1 hh1
      refine ⟨m', ?_, by simpa [storeVars] using hi', hc', ?_⟩
      · simp only [storeLines, List.map_cons]
        exact ExecCmds.cons (ExecCmd.simple rfl hst) ex
      · intro nn hB hn
        rw [hf' nn hB hn]
        exact Sem.set_other _ _ _ _ (fun e => ctx.mg_ne_flag _ _ nn hg.1 e.symm)
    | v :: vs', [], hl, hh => exact hh.elim
    | [], _, hl, _ => simp at hl

theorem callassign_semF {ctx : Ctx} {T : List FEntry} {B : Nat} (hT : TableOK T) (hctx : CtxOK ctx T B) {vars : List Var} {call : Expr}
    (hg : (vars.all (fun x => goodName2 x.name)) = true) (hf : fragE (tnames T) call = true) {s s' : St} (hc : ctxOf s = ctx)
    (h : assignCallValues conv vars call s = .ok ((), s')) (src : Nat → SCfg → Option (SOut × SCfg))
    (hsrc : ∀ fuel c o c', src fuel c = some (o, c') →
      (∃ f k, evalE f call c = some (.exit k c') ∧ o = .exit k) ∨
      (∃ f vs c1, evalE f call c = some (.ok (vs.map Opd.lit) c1) ∧ vs.length = vars.length ∧ o = .normal ∧ c' = storeVars c1 vars vs)) :
    StmtSemF ctx T B src s s' := by
  unfold assignCallValues at h
  obtain ⟨ts, s1, h1, h2⟩ := bind_ok h
  obtain ⟨new, n, rq, e1, sim⟩ := expr_semF hT hctx call s ts s1 hf hc h1
  subst e1
  split at h2
  · simp [Tr.fail] at h2
  · rw [storeValues_run] at h2
    injection h2 with h2
    injection h2 with _ e2
    refine ⟨new.reverse.map Cmd.simple ++ (storeLines ctx vars ts).map Cmd.simple, n, 0, rq, ?_, ?_, ?_⟩
    · rw [← e2, flats_append, flats_simples, flats_simples, ctxOf_reqSt, ctxOf_adv, hc]; simp [adv, adv2, reqSt]
    · rw [flats_append, flats_simples, flats_simples]
      exact ((sim.lines.reverse).mono (Nat.zero_le _)).append (storeLines_ok ctx _ _ vars ts hg)
    · intro fuel c o c' hs m hi
      rcases hsrc fuel c o c' hs with ⟨f, k, he, rfl⟩ | ⟨f, vs, c1, he, hvl, rfl, rfl⟩
      · exact simF_exit_of_runs (sim.run f c _ he m hi) _ _
      · obtain ⟨m1, ex, hi1, hc1, hk1, hh⟩ := runs_ok_then (sim.run f c _ he m hi)
        obtain ⟨m2, ex2, hi2, hc2, hf2⟩ := storeLits_sem ctx T B s.forCounter vars ts vs _ c1 m1 hg hvl hi1 hh
        exact ⟨m2, .normal, execCmds_append ex ex2, trivial, hi2.out,
          fun _ => ⟨hi2, hc1.trans hc2, (hk1.flagsKept).trans hf2 (Nat.le_refl _)⟩, fun vs' hv => by cases hv⟩

end Tsh.Sem2
