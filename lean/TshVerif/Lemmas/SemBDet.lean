/-
  The big-step relation of the Batch block tree is deterministic, and the executable interpreter is sound for it:
  what `execBs` computes (the thing run next to the line-level machine and lib/cmdsim.py in every check) is what the
  relation derives.
-/
import TshVerif.Sem.CmdTree
namespace Tsh.SemB
open Tsh Tsh.Batch Tsh.Sem

mutual
theorem execB_sound : ∀ (fuel : Nat) (x : BCmd) (c : Cfg) (o : Out) (c' : Cfg), execB fuel x c = some (o, c') → ExecB x c o c'
  | 0, _, _, _, _, h => by simp [execB] at h
  | f + 1, .simple l, c, o, c', h => by
    simp only [execB] at h
    exact ExecB.simple h
  | f + 1, .guarded n body, c, o, c', h => by
    simp only [execB] at h
    split at h
    · rename_i hg
      exact ExecB.guardedRun (by simpa using hg) (execBs_sound f body c o c' h)
    · rename_i hg
      simp only [Option.some.injEq, Prod.mk.injEq] at h
      obtain ⟨rfl, rfl⟩ := h
      exact ExecB.guardedSkip (by simpa using hg)
  | f + 1, .chain lbl g thn elifs els, c, o, c', h => by
    simp only [execB] at h
    split at h
    · rename_i hg
      exact ExecB.chainTrue hg (execBs_sound f thn c o c' h)
    · rename_i hg
      exact ExecB.chainFalse hg (execElifsB_sound f elifs els c o c' h)
    · simp at h
  | f + 1, .loop n pre g body, c, o, c', h => by
    simp only [execB] at h
    exact ExecB.loop (execLoopB_sound f pre g body c o c' h)
  | f + 1, .brk, c, o, c', h => by
    simp only [execB, Option.some.injEq, Prod.mk.injEq] at h
    obtain ⟨rfl, rfl⟩ := h
    exact ExecB.brk
  | f + 1, .cont, c, o, c', h => by
    simp only [execB, Option.some.injEq, Prod.mk.injEq] at h
    obtain ⟨rfl, rfl⟩ := h
    exact ExecB.cont
theorem execBs_sound : ∀ (fuel : Nat) (xs : List BCmd) (c : Cfg) (o : Out) (c' : Cfg), execBs fuel xs c = some (o, c') → ExecBs xs c o c'
  | 0, _, _, _, _, h => by simp [execBs] at h
  | f + 1, [], c, o, c', h => by
    simp only [execBs, Option.some.injEq, Prod.mk.injEq] at h
    obtain ⟨rfl, rfl⟩ := h
    exact ExecBs.nil
  | f + 1, x :: xs, c, o, c', h => by
    simp only [execBs] at h
    split at h
    · rename_i c1 h1
      exact ExecBs.cons (execB_sound f x c .normal c1 h1) (execBs_sound f xs c1 o c' h)
    · rename_i r hr
      have hx := execB_sound f x c o c' h
      refine ExecBs.stop hx ?_
      intro e; subst e
      exact hr c' h
theorem execElifsB_sound : ∀ (fuel : Nat) (es : List (String × List BCmd)) (els : Option (List BCmd)) (c : Cfg) (o : Out) (c' : Cfg),
    execElifsB fuel es els c = some (o, c') → ExecElifsB es els c o c'
  | 0, _, _, _, _, _, h => by simp [execElifsB] at h
  | f + 1, [], none, c, o, c', h => by
    simp only [execElifsB, Option.some.injEq, Prod.mk.injEq] at h
    obtain ⟨rfl, rfl⟩ := h
    exact ExecElifsB.none
  | f + 1, [], some b, c, o, c', h => by
    simp only [execElifsB] at h
    exact ExecElifsB.els (execBs_sound f b c o c' h)
  | f + 1, (g, b) :: rest, els, c, o, c', h => by
    simp only [execElifsB] at h
    split at h
    · rename_i hg
      exact ExecElifsB.hit hg (execBs_sound f b c o c' h)
    · rename_i hg
      exact ExecElifsB.miss hg (execElifsB_sound f rest els c o c' h)
    · simp at h
theorem execLoopB_sound : ∀ (fuel : Nat) (pre : List BCmd) (g : String) (body : List BCmd) (c : Cfg) (o : Out) (c' : Cfg),
    execLoopB fuel pre g body c = some (o, c') → ExecLoopB pre g body c o c'
  | 0, _, _, _, _, _, _, h => by simp [execLoopB] at h
  | f + 1, pre, g, body, c, o, c', h => by
    simp only [execLoopB] at h
    split at h
    · rename_i c1 hp
      have hpre := execBs_sound f pre c .normal c1 hp
      split at h
      · rename_i hg
        simp only [Option.some.injEq, Prod.mk.injEq] at h
        obtain ⟨rfl, rfl⟩ := h
        exact ExecLoopB.done hpre hg
      · rename_i hg
        split at h
        · rename_i c2 hb
          exact ExecLoopB.next hpre hg (execBs_sound f body c1 .normal c2 hb) (execLoopB_sound f pre g body c2 o c' h)
        · rename_i c2 hb
          exact ExecLoopB.cont hpre hg (execBs_sound f body c1 .cont c2 hb) (execLoopB_sound f pre g body c2 o c' h)
        · rename_i c2 hb
          simp only [Option.some.injEq, Prod.mk.injEq] at h
          obtain ⟨rfl, rfl⟩ := h
          exact ExecLoopB.brk hpre hg (execBs_sound f body c1 .brk _ hb)
        · rename_i k c2 hb
          simp only [Option.some.injEq, Prod.mk.injEq] at h
          obtain ⟨rfl, rfl⟩ := h
          exact ExecLoopB.exit hpre hg (execBs_sound f body c1 (.exit k) _ hb)
        · simp at h
      · simp at h
    · simp at h
end

/-! ### determinism -/

mutual
theorem execB_det {x : BCmd} {c : Cfg} {o1 o2 : Out} {c1 c2 : Cfg} (h1 : ExecB x c o1 c1) (h2 : ExecB x c o2 c2) : o1 = o2 ∧ c1 = c2 :=
  match h1, h2 with
  | .simple h1, .simple h2 => by
    rw [h1] at h2; simp only [Option.some.injEq, Prod.mk.injEq] at h2; exact h2
  | .guardedRun _ a, .guardedRun _ b => execBs_det a b
  | .guardedSkip _, .guardedSkip _ => ⟨rfl, rfl⟩
  | .guardedRun g1 _, .guardedSkip g2 => absurd g2 g1
  | .guardedSkip g1, .guardedRun g2 _ => absurd g1 g2
  | .chainTrue _ a, .chainTrue _ b => execBs_det a b
  | .chainFalse _ a, .chainFalse _ b => execElifsB_det a b
  | .chainTrue g1 _, .chainFalse g2 _ => by rw [g1] at g2; simp at g2
  | .chainFalse g1 _, .chainTrue g2 _ => by rw [g1] at g2; simp at g2
  | .loop a, .loop b => execLoopB_det a b
  | .brk, .brk => ⟨rfl, rfl⟩
  | .cont, .cont => ⟨rfl, rfl⟩
termination_by structural h1
theorem execBs_det {xs : List BCmd} {c : Cfg} {o1 o2 : Out} {c1 c2 : Cfg} (h1 : ExecBs xs c o1 c1) (h2 : ExecBs xs c o2 c2) : o1 = o2 ∧ c1 = c2 :=
  match h1, h2 with
  | .nil, .nil => ⟨rfl, rfl⟩
  | .cons a1 a2, .cons b1 b2 => by
    obtain ⟨_, e⟩ := execB_det a1 b1
    subst e
    exact execBs_det a2 b2
  | .stop a1 _, .stop b1 _ => execB_det a1 b1
  | .cons a1 _, .stop b1 hne => by
    obtain ⟨e, _⟩ := execB_det a1 b1
    exact absurd e.symm hne
  | .stop a1 hne, .cons b1 _ => by
    obtain ⟨e, _⟩ := execB_det a1 b1
    exact absurd e hne
termination_by structural h1
theorem execElifsB_det {es : List (String × List BCmd)} {els : Option (List BCmd)} {c : Cfg} {o1 o2 : Out} {c1 c2 : Cfg}
    (h1 : ExecElifsB es els c o1 c1) (h2 : ExecElifsB es els c o2 c2) : o1 = o2 ∧ c1 = c2 :=
  match h1, h2 with
  | .none, .none => ⟨rfl, rfl⟩
  | .els a, .els b => execBs_det a b
  | .hit _ a, .hit _ b => execBs_det a b
  | .miss _ a, .miss _ b => execElifsB_det a b
  | .hit g1 _, .miss g2 _ => by rw [g1] at g2; simp at g2
  | .miss g1 _, .hit g2 _ => by rw [g1] at g2; simp at g2
termination_by structural h1
theorem execLoopB_det {pre : List BCmd} {g : String} {body : List BCmd} {c : Cfg} {o1 o2 : Out} {c1 c2 : Cfg}
    (h1 : ExecLoopB pre g body c o1 c1) (h2 : ExecLoopB pre g body c o2 c2) : o1 = o2 ∧ c1 = c2 :=
  match h1, h2 with
  | .done p1 g1, .done p2 _ => ⟨rfl, (execBs_det p1 p2).2⟩
  | .done p1 g1, .next p2 g2 _ _ => by have := (execBs_det p1 p2).2; subst this; rw [g1] at g2; simp at g2
  | .done p1 g1, .cont p2 g2 _ _ => by have := (execBs_det p1 p2).2; subst this; rw [g1] at g2; simp at g2
  | .done p1 g1, .brk p2 g2 _ => by have := (execBs_det p1 p2).2; subst this; rw [g1] at g2; simp at g2
  | .done p1 g1, .exit p2 g2 _ => by have := (execBs_det p1 p2).2; subst this; rw [g1] at g2; simp at g2
  | .next p1 g1 _ _, .done p2 g2 => by have := (execBs_det p1 p2).2; subst this; rw [g1] at g2; simp at g2
  | .cont p1 g1 _ _, .done p2 g2 => by have := (execBs_det p1 p2).2; subst this; rw [g1] at g2; simp at g2
  | .brk p1 g1 _, .done p2 g2 => by have := (execBs_det p1 p2).2; subst this; rw [g1] at g2; simp at g2
  | .exit p1 g1 _, .done p2 g2 => by have := (execBs_det p1 p2).2; subst this; rw [g1] at g2; simp at g2
  | .next p1 _ a1 a2, .next p2 _ b1 b2 => by
    have := (execBs_det p1 p2).2; subst this
    obtain ⟨_, e⟩ := execBs_det a1 b1
    subst e
    exact execLoopB_det a2 b2
  | .cont p1 _ a1 a2, .cont p2 _ b1 b2 => by
    have := (execBs_det p1 p2).2; subst this
    obtain ⟨_, e⟩ := execBs_det a1 b1
    subst e
    exact execLoopB_det a2 b2
  | .brk p1 _ a1, .brk p2 _ b1 => by
    have := (execBs_det p1 p2).2; subst this
    exact ⟨rfl, (execBs_det a1 b1).2⟩
  | .exit p1 _ a1, .exit p2 _ b1 => by
    have := (execBs_det p1 p2).2; subst this
    obtain ⟨e1, e2⟩ := execBs_det a1 b1
    exact ⟨e1, e2⟩
  | .next p1 _ a1 _, .cont p2 _ b1 _ => by have := (execBs_det p1 p2).2; subst this; have := (execBs_det a1 b1).1; simp at this
  | .next p1 _ a1 _, .brk p2 _ b1 => by have := (execBs_det p1 p2).2; subst this; have := (execBs_det a1 b1).1; simp at this
  | .next p1 _ a1 _, .exit p2 _ b1 => by have := (execBs_det p1 p2).2; subst this; have := (execBs_det a1 b1).1; simp at this
  | .cont p1 _ a1 _, .next p2 _ b1 _ => by have := (execBs_det p1 p2).2; subst this; have := (execBs_det a1 b1).1; simp at this
  | .cont p1 _ a1 _, .brk p2 _ b1 => by have := (execBs_det p1 p2).2; subst this; have := (execBs_det a1 b1).1; simp at this
  | .cont p1 _ a1 _, .exit p2 _ b1 => by have := (execBs_det p1 p2).2; subst this; have := (execBs_det a1 b1).1; simp at this
  | .brk p1 _ a1, .next p2 _ b1 _ => by have := (execBs_det p1 p2).2; subst this; have := (execBs_det a1 b1).1; simp at this
  | .brk p1 _ a1, .cont p2 _ b1 _ => by have := (execBs_det p1 p2).2; subst this; have := (execBs_det a1 b1).1; simp at this
  | .brk p1 _ a1, .exit p2 _ b1 => by have := (execBs_det p1 p2).2; subst this; have := (execBs_det a1 b1).1; simp at this
  | .exit p1 _ a1, .next p2 _ b1 _ => by have := (execBs_det p1 p2).2; subst this; have := (execBs_det a1 b1).1; simp at this
  | .exit p1 _ a1, .cont p2 _ b1 _ => by have := (execBs_det p1 p2).2; subst this; have := (execBs_det a1 b1).1; simp at this
  | .exit p1 _ a1, .brk p2 _ b1 => by have := (execBs_det p1 p2).2; subst this; have := (execBs_det a1 b1).1; simp at this
termination_by structural h1
end

end Tsh.SemB
