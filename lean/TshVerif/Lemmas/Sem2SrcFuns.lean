/-
  A fact about the source semantics alone: the table of functions changes only at a top-level function
  definition.  Inside a function (`inFn`) nothing can define a function; statements of the fragment contain no
  definition.
-/
import TshVerif.Sem2.Src
namespace Tsh.Sem2.Src
open Tsh Tsh.Tr Tsh.Sem Tsh.Sem.Src

/-- same function table, same "inside a function" flag -/
def SameF (c c' : SCfg) : Prop := c'.funs = c.funs ∧ c'.inFn = c.inFn

theorem SameF.refl (c : SCfg) : SameF c c := ⟨rfl, rfl⟩
theorem SameF.trans {a b c : SCfg} (h1 : SameF a b) (h2 : SameF b c) : SameF a c := ⟨h2.1.trans h1.1, h2.2.trans h1.2⟩

theorem sameF_writeVar (c : SCfg) (x : Var) (v : Val) : SameF c (writeVar c x v) := by
  simp only [writeVar]; split <;> exact ⟨rfl, rfl⟩

theorem sameF_storeVars : ∀ (vars : List Var) (vs : List Val) (c : SCfg), SameF c (storeVars c vars vs)
  | [], _, c => by simp [storeVars]; exact SameF.refl c
  | _ :: _, [], c => by simp [storeVars]; exact SameF.refl c
  | x :: xs, v :: vs, c => by
    simp only [storeVars]
    exact (sameF_writeVar c x v).trans (sameF_storeVars xs vs _)


/-! ### statements that define no function (the shape of the conjunctions follows `fragS`) -/

mutual
def ndS (ds : List String) : Stmt → Bool
  | .funcDef _ _ _ _ _ => false
  | .ifS _ body elifs els => true && ndSs ds body && ndEl ds elifs && ndSs ds els
  | .forS init _ incr body => ndO ds init && true && ndO ds incr && ndSs ds body
  | _ => true
def ndSs (ds : List String) : List Stmt → Bool
  | [] => true
  | s :: rest => ndS ds s && ndSs ds rest
def ndEl (ds : List String) : List (Expr × List Stmt) → Bool
  | [] => true
  | (_, b) :: rest => true && ndSs ds b && ndEl ds rest
def ndO (ds : List String) : Option Stmt → Bool
  | none => true
  | some s => ndS ds s
end

mutual
theorem fragS_nd (ds : List String) : ∀ (st : Stmt), fragS ds st = true → ndS ds st = true
  | .ifS c body elifs els, h => by
    simp only [fragS, Bool.and_eq_true] at h
    simp only [ndS, Bool.true_and, Bool.and_eq_true]
    exact ⟨⟨fragSs_nd ds body h.1.1.2, fragEl_nd ds elifs h.1.2⟩, fragSs_nd ds els h.2⟩
  | .forS init c incr body, h => by
    simp only [fragS, Bool.and_eq_true] at h
    simp only [ndS, Bool.and_true, Bool.and_eq_true]
    exact ⟨⟨fragO_nd ds init h.1.1.1, fragO_nd ds incr h.1.2⟩, fragSs_nd ds body h.2⟩
  | .funcDef _ _ _ _ _, h => by simp [fragS] at h
  | .varDef _ _, _ | .varDefCall _ _, _ | .assign _ _, _ | .assignCall _ _, _ | .sliceAssign _ _ _, _ | .ret _, _ | .brk, _ | .cont, _
  | .print _, _ | .panic _, _ | .expr _, _ => rfl
theorem fragSs_nd (ds : List String) : ∀ (sts : List Stmt), fragSs ds sts = true → ndSs ds sts = true
  | [], _ => rfl
  | s :: rest, h => by
    simp only [fragSs, Bool.and_eq_true] at h
    simp only [ndSs, Bool.and_eq_true]
    exact ⟨fragS_nd ds s h.1, fragSs_nd ds rest h.2⟩
theorem fragEl_nd (ds : List String) : ∀ (el : List (Expr × List Stmt)), fragEl ds el = true → ndEl ds el = true
  | [], _ => rfl
  | (c, b) :: rest, h => by
    simp only [fragEl, Bool.and_eq_true] at h
    simp only [ndEl, Bool.true_and, Bool.and_eq_true]
    exact ⟨fragSs_nd ds b h.1.2, fragEl_nd ds rest h.2⟩
theorem fragO_nd (ds : List String) : ∀ (o : Option Stmt), fragO ds o = true → ndO ds o = true
  | none, _ => rfl
  | some s, h => by
    simp only [fragO] at h
    simp only [ndO]
    exact fragS_nd ds s h
end

/-- the claims, for one amount of fuel -/
structure FunsOK (f : Nat) : Prop where
  evalE : ∀ e c r, evalE f e c = some r → match r with | .ok _ c1 => SameF c c1 | .exit _ _ => True
  evalArgs : ∀ es c r, evalArgs f es c = some r → match r with | .ok _ c1 => SameF c c1 | .exit _ _ => True
  evalVals : ∀ es c r, evalVals f es c = some r → match r with | .ok _ c1 => SameF c c1 | .exit _ _ => True
  evalCs : ∀ es c r, evalCs f es c = some r → match r with | .ok _ c1 => SameF c c1 | .exit _ _ => True
  execS : ∀ ds st c o c', (c.inFn = true ∨ ndS ds st = true) → execS f st c = some (o, c') → (∀ k, o ≠ .exit k) → SameF c c'
  execSs : ∀ ds sts c o c', (c.inFn = true ∨ ndSs ds sts = true) → execSs f sts c = some (o, c') → (∀ k, o ≠ .exit k) → SameF c c'
  execEl : ∀ ds el bs els c o c', (c.inFn = true ∨ (ndEl ds el = true ∧ ndSs ds els = true)) → execEl f el bs els c = some (o, c') →
    (∀ k, o ≠ .exit k) → SameF c c'
  execLp : ∀ ds cond incr body c o c', (c.inFn = true ∨ (ndO ds incr = true ∧ ndSs ds body = true)) →
    execLp f cond incr body c = some (o, c') → (∀ k, o ≠ .exit k) → SameF c c'

theorem R.sameOk {c : SCfg} {α : Type} {r : R α} (h : match r with | .ok _ c1 => SameF c c1 | .exit _ _ => True) {a : α} {c1 : SCfg}
    (e : r = .ok a c1) : SameF c c1 := by subst e; exact h

/-- one operand, then a pure step -/
theorem funs_unary {f : Nat} (ih : FunsOK f) {e : Expr} {c : SCfg} {o : Opd} {c1 : SCfg} (h : evalE f e c = some (.ok [o] c1)) : SameF c c1 :=
  (ih.evalE e c _ h)

theorem funsOK_succ {f : Nat} (ih : FunsOK f) : FunsOK (f + 1) := by
  have two : ∀ (l r : Expr) (c : SCfg) (a b : Opd) (c1 c2 : SCfg), evalE f l c = some (.ok [a] c1) → evalE f r c1 = some (.ok [b] c2) → SameF c c2 :=
    fun l r c a b c1 c2 h1 h2 => (funs_unary ih h1).trans (funs_unary ih h2)
  refine ⟨?_, ?_, ?_, ?_, ?_, ?_, ?_, ?_⟩
  · -- evalE
    intro e c r h
    cases e <;> try simp only [evalE] at h
    case boolLit b => simp only [Option.some.injEq] at h; subst h; exact SameF.refl c
    case intLit n => split at h <;> simp at h; subst h; exact SameF.refl c
    case strLit s => split at h <;> simp at h; subst h; exact SameF.refl c
    case varEval x => simp only [Option.some.injEq] at h; subst h; exact SameF.refl c
    case group x => exact ih.evalE x c r h
    case itoa x =>
      split at h
      · rename_i o c1 hx; simp only [Option.some.injEq] at h; subst h; exact funs_unary ih hx
      · simp only [Option.some.injEq] at h; subst h; trivial
      · simp at h
    case unary op x vt =>
      split at h
      · split at h
        · rename_i o c1 hx
          split at h
          · simp only [Option.some.injEq] at h; subst h; exact funs_unary ih hx
          · simp at h
        · simp only [Option.some.injEq] at h; subst h; trivial
        · simp at h
      · simp at h
    case binary op l r' =>
      split at h
      · rename_i a c1 hl
        split at h
        · rename_i b c2 hr
          split at h
          · split at h
            · simp only [Option.some.injEq] at h; subst h; exact two l r' c a b c1 c2 hl hr
            · simp at h
          · simp at h
        · simp only [Option.some.injEq] at h; subst h; trivial
        · simp at h
      · simp only [Option.some.injEq] at h; subst h; trivial
      · simp at h
    case compare op l r' =>
      split at h
      · rename_i a c1 hl
        split at h
        · rename_i b c2 hr
          split at h
          · split at h
            · simp only [Option.some.injEq] at h; subst h; exact two l r' c a b c1 c2 hl hr
            · simp at h
          · simp at h
        · simp only [Option.some.injEq] at h; subst h; trivial
        · simp at h
      · simp only [Option.some.injEq] at h; subst h; trivial
      · simp at h
    case logical op l r' =>
      split at h
      · rename_i a c1 hl
        split at h
        · rename_i b c2 hr
          split at h
          · split at h
            · simp only [Option.some.injEq] at h; subst h; exact two l r' c a b c1 c2 hl hr
            · split at h
              · simp only [Option.some.injEq] at h; subst h; exact two l r' c a b c1 c2 hl hr
              · simp at h
          · simp at h
        · simp only [Option.some.injEq] at h; subst h; trivial
        · simp at h
      · simp only [Option.some.injEq] at h; subst h; trivial
      · simp at h
    case call name rets args =>
      split at h
      · rename_i os c1 ha
        have s1 : SameF c c1 := (ih.evalArgs args c _ ha)
        split at h
        · rename_i vals fd _ _
          split at h
          · split at h
            · rename_i vs c2 hb
              have s2 := ih.execSs [] fd.body _ _ c2 (Or.inl rfl) hb (fun k => by simp)
              split at h
              · simp only [Option.some.injEq] at h; subst h
                exact ⟨by show c2.funs = _; rw [s2.1]; exact s1.1, s1.2⟩
              · simp at h
            · rename_i c2 hb
              have s2 := ih.execSs [] fd.body _ _ c2 (Or.inl rfl) hb (fun k => by simp)
              split at h
              · simp only [Option.some.injEq] at h; subst h
                exact ⟨by show c2.funs = _; rw [s2.1]; exact s1.1, s1.2⟩
              · simp at h
            · simp only [Option.some.injEq] at h; subst h; trivial
            · simp at h
          · simp at h
        · simp at h
      · simp only [Option.some.injEq] at h; subst h; trivial
      · simp at h
    case sliceNew dt vals =>
      split at h
      · rename_i os c1 ha
        split at h
        · split at h
          · simp only [Option.some.injEq] at h; subst h
            exact (ih.evalArgs vals c _ ha).trans ⟨rfl, rfl⟩
          · simp at h
        · simp at h
      · simp only [Option.some.injEq] at h; subst h; trivial
      · simp at h
    case sliceEval value index dt =>
      split at h
      · rename_i a c1 hl
        split at h
        · rename_i b c2 hr
          split at h
          · split at h
            · split at h
              · simp only [Option.some.injEq] at h; subst h; exact two value index c a b c1 c2 hl hr
              · simp at h
            · simp at h
          · simp at h
        · simp only [Option.some.injEq] at h; subst h; trivial
        · simp at h
      · simp only [Option.some.injEq] at h; subst h; trivial
      · simp at h
    case len x =>
      split at h
      · rename_i a c1 hx
        split at h
        · split at h
          · simp only [Option.some.injEq] at h; subst h; exact funs_unary ih hx
          · simp at h
        · split at h
          · simp at h
          · simp only [Option.some.injEq] at h; subst h; exact funs_unary ih hx
        · simp at h
      · simp only [Option.some.injEq] at h; subst h; trivial
      · simp at h
    case copy dst src =>
      split at h
      · rename_i a c1 hx
        split at h
        · split at h
          · simp only [Option.some.injEq] at h; subst h
            exact (funs_unary ih hx).trans ⟨rfl, rfl⟩
          · simp at h
        · simp at h
      · simp only [Option.some.injEq] at h; subst h; trivial
      · simp at h
    case substr value start stop =>
      cases stop with
      | none =>
        simp only [evalE] at h
        split at h
        · rename_i a c1 h1
          split at h
          · rename_i v c2 h2
            split at h
            · split at h
              · split at h
                · simp only [Option.some.injEq] at h; subst h; exact two start value c a v c1 c2 h1 h2
                · simp at h
              · simp at h
            · simp at h
          · simp only [Option.some.injEq] at h; subst h; trivial
          · simp at h
        · simp only [Option.some.injEq] at h; subst h; trivial
        · simp at h
      | some st =>
        simp only [evalE] at h
        split at h
        · rename_i a c1 h1
          split at h
          · rename_i b c2 h2
            split at h
            · rename_i v c3 h3
              split at h
              · split at h
                · split at h
                  · simp only [Option.some.injEq] at h; subst h
                    exact (two start st c a b c1 c2 h1 h2).trans (funs_unary ih h3)
                  · simp at h
                · simp at h
              · simp at h
            · simp only [Option.some.injEq] at h; subst h; trivial
            · simp at h
          · simp only [Option.some.injEq] at h; subst h; trivial
          · simp at h
        · simp only [Option.some.injEq] at h; subst h; trivial
        · simp at h
    all_goals simp at h
  · -- evalArgs
    intro es c r h
    cases es with
    | nil => simp only [Src.evalArgs, Option.some.injEq] at h; subst h; exact SameF.refl c
    | cons e rest =>
      simp only [Src.evalArgs] at h
      split at h
      · rename_i o c1 he
        split at h
        · rename_i os c2 hr
          simp only [Option.some.injEq] at h; subst h
          exact (funs_unary ih he).trans ((ih.evalArgs rest c1 _ hr))
        · simp only [Option.some.injEq] at h; subst h; trivial
        · simp at h
      · simp only [Option.some.injEq] at h; subst h; trivial
      · simp at h
  · -- evalVals
    intro es c r h
    cases es with
    | nil => simp only [evalVals, Option.some.injEq] at h; subst h; exact SameF.refl c
    | cons e rest =>
      simp only [evalVals] at h
      split at h
      · rename_i o c1 he
        split at h
        · split at h
          · rename_i vs c2 hr
            simp only [Option.some.injEq] at h; subst h
            exact (funs_unary ih he).trans ((ih.evalVals rest c1 _ hr))
          · simp only [Option.some.injEq] at h; subst h; trivial
          · simp at h
        · simp at h
      · simp only [Option.some.injEq] at h; subst h; trivial
      · simp at h
  · -- evalCs
    intro es c r h
    cases es with
    | nil => simp only [evalCs, Option.some.injEq] at h; subst h; exact SameF.refl c
    | cons p rest =>
      obtain ⟨e, b⟩ := p
      simp only [evalCs] at h
      split at h
      · rename_i o c1 he
        split at h
        · rename_i os c2 hr
          simp only [Option.some.injEq] at h; subst h
          exact (funs_unary ih he).trans ((ih.evalCs rest c1 _ hr))
        · simp only [Option.some.injEq] at h; subst h; trivial
        · simp at h
      · simp only [Option.some.injEq] at h; subst h; trivial
      · simp at h
  · -- execS
    intro ds st c o c' hctx h hne
    have valsCase : ∀ (vars : List Var) (vals : List Expr), (if (vars.length == vals.length) = true then
          match evalVals f vals c with
          | some (.ok vs c1) => some (SOut.normal, storeVars c1 vars vs)
          | some (.exit k c1) => some (SOut.exit k, c1)
          | none => none
        else none) = some (o, c') → SameF c c' := by
      intro vars vals h
      split at h
      · split at h
        · rename_i vs c1 hv
          simp only [Option.some.injEq, Prod.mk.injEq] at h
          obtain ⟨_, rfl⟩ := h
          exact ((ih.evalVals vals c _ hv)).trans (sameF_storeVars vars vs c1)
        · simp only [Option.some.injEq, Prod.mk.injEq] at h
          exact absurd h.1.symm (hne _)
        · simp at h
      · simp at h
    have callCase : ∀ (vars : List Var) (call : Expr), (match evalE f call c with
          | some (.ok os c1) =>
              match resolveAll c1 os with
              | some vs => if (vs.length == vars.length) = true then some (SOut.normal, storeVars c1 vars vs) else none
              | none => none
          | some (.exit k c1) => some (SOut.exit k, c1)
          | none => none) = some (o, c') → SameF c c' := by
      intro vars call h
      split at h
      · rename_i os c1 he
        split at h
        · split at h
          · simp only [Option.some.injEq, Prod.mk.injEq] at h
            obtain ⟨_, rfl⟩ := h
            exact ((ih.evalE call c _ he)).trans (sameF_storeVars vars _ c1)
          · simp at h
        · simp at h
      · simp only [Option.some.injEq, Prod.mk.injEq] at h
        exact absurd h.1.symm (hne _)
      · simp at h
    cases st <;> try simp only [execS] at h
    case varDef vars vals => exact valsCase vars vals h
    case assign vars vals => exact valsCase vars vals h
    case varDefCall vars call => exact callCase vars call h
    case assignCall vars call => exact callCase vars call h
    case funcDef name pub rets params body =>
      rcases hctx with hin | hfr
      · simp [hin] at h
      · simp [ndS] at hfr
    case ret vals =>
      split at h
      · rename_i os c1 ha
        split at h
        · simp only [Option.some.injEq, Prod.mk.injEq] at h
          obtain ⟨_, rfl⟩ := h
          exact (ih.evalArgs vals c _ ha)
        · simp at h
      · simp only [Option.some.injEq, Prod.mk.injEq] at h
        exact absurd h.1.symm (hne _)
      · simp at h
    case ifS cond body elifs els =>
      split at h
      · rename_i ov c1 hce
        have s1 := funs_unary ih hce
        split at h
        · rename_i os c2 hcs
          have s2 := s1.trans ((ih.evalCs elifs c1 _ hcs))
          split at h
          · rename_i b bs _ _
            have hctx2 : c2.inFn = true ∨ (ndSs ds body = true ∧ ndEl ds elifs = true ∧ ndSs ds els = true) := by
              rcases hctx with hin | hfr
              · exact Or.inl (by rw [s2.2]; exact hin)
              · simp only [ndS, Bool.and_eq_true] at hfr
                exact Or.inr ⟨hfr.1.1.2, hfr.1.2, hfr.2⟩
            split at h
            · exact s2.trans (ih.execSs ds body c2 o c' (hctx2.imp id (fun x => x.1)) h hne)
            · exact s2.trans (ih.execEl ds elifs bs els c2 o c' (hctx2.imp id (fun x => ⟨x.2.1, x.2.2⟩)) h hne)
          · simp at h
        · simp only [Option.some.injEq, Prod.mk.injEq] at h
          exact absurd h.1.symm (hne _)
        · simp at h
      · simp only [Option.some.injEq, Prod.mk.injEq] at h
        exact absurd h.1.symm (hne _)
      · simp at h
    case forS init cond incr body =>
      have hloop : ∀ c1, SameF c c1 → execLp f cond incr body c1 = some (o, c') → SameF c c' := by
        intro c1 s1 hl
        refine s1.trans (ih.execLp ds cond incr body c1 o c' ?_ hl hne)
        rcases hctx with hin | hfr
        · exact Or.inl (by rw [s1.2]; exact hin)
        · simp only [ndS, Bool.and_eq_true] at hfr
          exact Or.inr ⟨hfr.1.2, hfr.2⟩
      cases init with
      | none => exact hloop c (SameF.refl c) h
      | some i =>
        simp only at h
        split at h
        · rename_i c1 hi
          refine hloop c1 (ih.execS ds i c _ c1 ?_ hi (fun k => by simp)) h
          rcases hctx with hin | hfr
          · exact Or.inl hin
          · simp only [ndS, Bool.and_eq_true, ndO] at hfr
            exact Or.inr hfr.1.1.1
        · simp only [Option.some.injEq, Prod.mk.injEq] at h
          exact absurd h.1.symm (hne _)
        · simp at h
    case brk => simp only [Option.some.injEq, Prod.mk.injEq] at h; obtain ⟨_, rfl⟩ := h; exact SameF.refl c
    case cont => simp only [Option.some.injEq, Prod.mk.injEq] at h; obtain ⟨_, rfl⟩ := h; exact SameF.refl c
    case print es =>
      split at h
      · rename_i os c1 ha
        split at h
        · simp only [Option.some.injEq, Prod.mk.injEq] at h
          obtain ⟨_, rfl⟩ := h
          exact ((ih.evalArgs es c _ ha)).trans ⟨rfl, rfl⟩
        · simp at h
      · simp only [Option.some.injEq, Prod.mk.injEq] at h
        exact absurd h.1.symm (hne _)
      · simp at h
    case panic e =>
      split at h
      · split at h
        · simp only [Option.some.injEq, Prod.mk.injEq] at h
          exact absurd h.1.symm (hne _)
        · simp at h
      · simp only [Option.some.injEq, Prod.mk.injEq] at h
        exact absurd h.1.symm (hne _)
      · simp at h
    case sliceAssign x index value =>
      split at h
      · rename_i a c1 h1
        split at h
        · rename_i b c2 h2
          split at h
          · split at h
            · split at h
              · simp only [Option.some.injEq, Prod.mk.injEq] at h
                obtain ⟨_, rfl⟩ := h
                exact (two index value c a b c1 c2 h1 h2).trans ⟨rfl, rfl⟩
              · simp at h
            · simp at h
          · simp at h
        · simp only [Option.some.injEq, Prod.mk.injEq] at h
          exact absurd h.1.symm (hne _)
        · simp at h
      · simp only [Option.some.injEq, Prod.mk.injEq] at h
        exact absurd h.1.symm (hne _)
      · simp at h
    case expr e =>
      cases e <;> simp only [execS] at h
      case call name rets args =>
        split at h
        · rename_i os c1 he
          simp only [Option.some.injEq, Prod.mk.injEq] at h
          obtain ⟨_, rfl⟩ := h
          exact (ih.evalE _ c _ he)
        · simp only [Option.some.injEq, Prod.mk.injEq] at h
          exact absurd h.1.symm (hne _)
        · simp at h
      all_goals simp at h
    all_goals simp at h
  · -- execSs
    intro ds sts c o c' hctx h hne
    cases sts with
    | nil => simp only [execSs, Option.some.injEq, Prod.mk.injEq] at h; obtain ⟨_, rfl⟩ := h; exact SameF.refl c
    | cons st rest =>
      simp only [execSs] at h
      have hst : c.inFn = true ∨ ndS ds st = true := hctx.imp id (fun x => by simp only [ndSs, Bool.and_eq_true] at x; exact x.1)
      split at h
      · rename_i c1 h1
        have s1 := ih.execS ds st c _ c1 hst h1 (fun k => by simp)
        refine s1.trans (ih.execSs ds rest c1 o c' ?_ h hne)
        rcases hctx with hin | hfr
        · exact Or.inl (by rw [s1.2]; exact hin)
        · simp only [ndSs, Bool.and_eq_true] at hfr; exact Or.inr hfr.2
      · exact ih.execS ds st c o c' hst h hne
  · -- execEl
    intro ds el bs els c o c' hctx h hne
    cases el with
    | nil =>
      unfold execEl at h
      exact ih.execSs ds els c o c' (hctx.imp id (fun x => x.2)) h hne
    | cons p rest =>
      obtain ⟨e, body⟩ := p
      cases bs with
      | nil =>
        simp only [execEl] at h
        exact ih.execSs ds els c o c' (hctx.imp id (fun x => x.2)) h hne
      | cons b bs' =>
        simp only [execEl] at h
        split at h
        · exact ih.execSs ds body c o c' (hctx.imp id (fun x => by simp only [ndEl, Bool.and_eq_true] at x; exact x.1.1.2)) h hne
        · exact ih.execEl ds rest bs' els c o c' (hctx.imp id (fun x => by simp only [ndEl, Bool.and_eq_true] at x; exact ⟨x.1.2, x.2⟩)) h hne
        · simp at h
  · -- execLp
    intro ds cond incr body c o c' hctx h hne
    simp only [execLp] at h
    split at h
    · rename_i ov c0 hce
      have s0 := funs_unary ih hce
      have hctx0 : c0.inFn = true ∨ (ndO ds incr = true ∧ ndSs ds body = true) := hctx.imp (fun x => by rw [s0.2]; exact x) id
      split at h
      · split at h
        · rename_i cb hb
          simp only [Option.some.injEq, Prod.mk.injEq] at h
          obtain ⟨_, rfl⟩ := h
          exact s0.trans (ih.execSs ds body c0 _ _ (hctx0.imp id (fun x => x.2)) hb (fun k => by simp))
        · simp only [Option.some.injEq, Prod.mk.injEq] at h
          exact absurd h.1.symm (hne _)
        · rename_i vs cb hb
          simp only [Option.some.injEq, Prod.mk.injEq] at h
          obtain ⟨_, rfl⟩ := h
          exact s0.trans (ih.execSs ds body c0 _ _ (hctx0.imp id (fun x => x.2)) hb (fun k => by simp))
        · rename_i ob cb hnb hne' hnr hb
          have sb := s0.trans (ih.execSs ds body c0 ob cb (hctx0.imp id (fun x => x.2)) hb (fun k e => by subst e; simp at hne'))
          have hctxb : cb.inFn = true ∨ (ndO ds incr = true ∧ ndSs ds body = true) := hctx.imp (fun x => by rw [sb.2]; exact x) id
          cases incr with
          | none => exact sb.trans (ih.execLp ds cond none body cb o c' hctxb h hne)
          | some i =>
            simp only at h
            split at h
            · rename_i c2 hi
              have si := sb.trans (ih.execS ds i cb _ c2 (hctxb.imp id (fun x => by simpa [ndO] using x.1)) hi (fun k => by simp))
              exact si.trans (ih.execLp ds cond (some i) body c2 o c' (hctx.imp (fun x => by rw [si.2]; exact x) id) h hne)
            · simp only [Option.some.injEq, Prod.mk.injEq] at h
              exact absurd h.1.symm (hne _)
            · simp at h
        · simp at h
      · simp only [Option.some.injEq, Prod.mk.injEq] at h
        obtain ⟨_, rfl⟩ := h
        exact s0
      · simp at h
    · simp only [Option.some.injEq, Prod.mk.injEq] at h
      exact absurd h.1.symm (hne _)
    · simp at h

theorem funsOK_zero : FunsOK 0 := by
  refine ⟨?_, ?_, ?_, ?_, ?_, ?_, ?_, ?_⟩ <;> intros <;> simp_all [evalE, Src.evalArgs, evalVals, evalCs, execS, execSs, execEl, execLp]

theorem funsOK : ∀ f, FunsOK f
  | 0 => funsOK_zero
  | f + 1 => funsOK_succ (funsOK f)

end Tsh.Sem2.Src
