/-
  The expression parser establishes `PT.expr` (Model/PTyped.lean) of every expression it returns: one postcondition per
  function of the mutual block of Model/Parser.lean, proved together by induction on the fuel.
-/
import TshVerif.Lemmas.ParserPost
import TshVerif.Model.PTyped
namespace Tsh.Parser
open Tsh Tsh.Tr Tsh.LexTables

/-! ### contexts hold only known types -/

structure CtxOK (c : Ctx) : Prop where
  vars : ∀ e ∈ c.vars, PT.known e.2.vt = true
  funcs : ∀ e ∈ c.funcs, e.2.rets.all PT.basic = true ∧ e.2.params.all (fun p => PT.basic p.vt) = true

theorem assocGet_elem {β : Type} {m : List (String × β)} {k : String} {v : β} (h : assocGet m k = some v) :
    ∃ e ∈ m, e.2 = v := by
  unfold assocGet at h
  cases hf : m.find? (fun e => e.1 == k) with
  | none => simp [hf] at h
  | some e =>
    simp only [hf, Option.map_some, Option.some.injEq] at h
    exact ⟨e, List.mem_of_find?_eq_some hf, h⟩

theorem findVar_mem {c : Ctx} {name pfx : String} {g : Bool} {v : Var} (h : c.findVar name pfx g = some v) :
    ∃ e ∈ c.vars, e.2 = v := by
  unfold Ctx.findVar at h
  split at h
  · simp at h
  · split at h
    · rename_i v' hv
      simp only [Option.some.injEq] at h
      subst h
      exact assocGet_elem hv
    · split at h
      · exact assocGet_elem h
      · simp at h

theorem findFunc_mem {c : Ctx} {name pfx : String} {f : FuncInfo} (h : c.findFunc name pfx = some f) :
    ∃ e ∈ c.funcs, e.2 = f := by
  unfold Ctx.findFunc at h
  split at h
  · exact assocGet_elem h
  · simp at h

theorem CtxOK.var {c : Ctx} (hc : CtxOK c) {name pfx : String} {g : Bool} {v : Var}
    (h : c.findVar name pfx g = some v) : PT.known v.vt = true := by
  obtain ⟨e, he, rfl⟩ := findVar_mem h
  exact hc.vars e he

theorem CtxOK.func {c : Ctx} (hc : CtxOK c) {name pfx : String} {f : FuncInfo}
    (h : c.findFunc name pfx = some f) :
    f.rets.all PT.basic = true ∧ f.params.all (fun p => PT.basic p.vt) = true := by
  obtain ⟨e, he, rfl⟩ := findFunc_mem h
  exact hc.funcs e he

theorem basic_known {vt : ValueType} (h : PT.basic vt = true) : PT.known vt = true := by
  obtain ⟨dt, sl⟩ := vt
  cases dt <;> simp_all [PT.basic, PT.known]

theorem all_basic_known {ts : List ValueType} (h : ts.all PT.basic = true) : ts.all PT.known = true := by
  simp only [List.all_eq_true] at h ⊢
  exact fun t ht => basic_known (h t ht)

/-! ### postconditions -/

def exprP (e : Expr) : Prop := PT.expr e = true
def argsP (es : List Expr) : Prop := PT.args_ es = true
def chainP (e : Expr) : Prop := PT.chain e = true

/-- a call that yields several values -/
def isMulti (e : Expr) : Prop := ∃ n rets args, e = .call n rets args ∧ rets.length > 1

/-- `evaluateValues`: single values, or (only as the first and only value) one call with several values -/
def valsP (first : Bool) (vals : List Expr) : Prop :=
  vals ≠ [] ∧ (PT.vals1 vals = true ∨ (first = true ∧ ∃ c, vals = [c] ∧ exprP c ∧ isMulti c))

theorem chain_expr {e : Expr} (h : PT.chain e = true) : PT.expr e = true := by
  cases e with
  | app n args nx => cases nx <;> simpa [PT.chain, PT.expr] using h
  | _ => simp [PT.chain] at h

theorem args_snoc {acc : List Expr} {e : Expr} (ha : PT.args_ acc = true) (he : PT.expr e = true)
    (hu : (Expr.valueType e).dt ≠ DataType.unknown) : PT.args_ (acc ++ [e]) = true := by
  induction acc with
  | nil => simp [PT.args_, he, hu]
  | cons x xs ih =>
    simp only [PT.args_, Bool.and_eq_true] at ha
    simp [PT.args_, ha.1.1, ha.1.2, ih ha.2]

/-- `evaluateBuiltInFunction`: typed arguments, as many as the builtin takes -/
def builtinP (mn : Nat) (mx : Option Nat) (args : List Expr) : Prop :=
  argsP args ∧ mn ≤ args.length ∧ ∀ m, mx = some m → args.length ≤ m

/-- the postconditions of all functions of the expression block at one fuel level -/
structure ExprIH (fuel : Nat) : Prop where
  values : ∀ ctx first, CtxOK ctx → Post (evalValues fuel ctx first) (valsP first)
  builtinArgs : ∀ ctx, CtxOK ctx → Post (evalBuiltinArgs fuel ctx) argsP
  builtin : ∀ ctx tt mn mx, CtxOK ctx → Post (evalBuiltin fuel ctx tt mn mx) (builtinP mn mx)
  arguments : ∀ ctx ps, CtxOK ctx → Post (evalArguments fuel ctx ps) argsP
  argLoop : ∀ ctx ps acc, CtxOK ctx → argsP acc → Post (evalArgLoop fuel ctx ps acc) argsP
  argTail : ∀ ctx ps acc, CtxOK ctx → argsP acc → Post (evalArgTail fuel ctx ps acc) argsP
  functionCall : ∀ ctx, CtxOK ctx → Post (evalFunctionCall fuel ctx) exprP
  appCall : ∀ ctx, CtxOK ctx → Post (evalAppCall fuel ctx) chainP
  sliceInst : ∀ ctx, CtxOK ctx → Post (evalSliceInstantiation fuel ctx) exprP
  sliceElems : ∀ ctx dt, CtxOK ctx → Post (evalSliceElems fuel ctx dt) (fun es => PT.elems dt es = true)
  subscript : ∀ ctx, CtxOK ctx → Post (evalSubscript fuel ctx) exprP
  single : ∀ ctx, CtxOK ctx → Post (evalSingle fuel ctx) exprP
  unary : ∀ ctx, CtxOK ctx → Post (evalUnary fuel ctx) exprP
  binary : ∀ ctx lv, CtxOK ctx → Post (evalBinary fuel ctx lv) exprP
  binaryLoop : ∀ ctx lv l, CtxOK ctx → exprP l → Post (evalBinaryLoop fuel ctx lv l) exprP
  comparison : ∀ ctx, CtxOK ctx → Post (evalComparison fuel ctx) exprP
  logical : ∀ ctx lv, CtxOK ctx → Post (evalLogical fuel ctx lv) exprP
  logicalLoop : ∀ ctx lv l, CtxOK ctx → exprP l → Post (evalLogicalLoop fuel ctx lv l) exprP
  expression : ∀ ctx, CtxOK ctx → Post (evalExpression fuel ctx) exprP

theorem varEvaluation_post (ctx : Ctx) (hc : CtxOK ctx) : Post (evalVarEvaluation ctx) exprP := by
  unfold evalVarEvaluation
  refine Post.bindAny ?_; intro t
  apply Post.ite' <;> intro _
  · exact Post.err
  refine Post.bindAny ?_; intro s
  split
  · rename_i v hv
    exact Post.pure' (by simp [exprP, PT.expr, hc.var hv])
  · exact Post.err

theorem valueType_post : Post evalValueType (fun vt => PT.basic vt = true) := by
  unfold evalValueType
  refine Post.bindAny ?_; intro t
  refine Post.bindAny ?_; rintro ⟨isSlice, t'⟩
  dsimp only
  apply Post.ite' <;> intro _
  · exact Post.err
  refine Post.bindAny ?_; intro _
  split
  · rename_i dt hdt
    refine Post.pure' ?_
    unfold typeOfName at hdt
    unfold PT.basic
    split at hdt
    · simp at hdt; simp [← hdt]
    · split at hdt
      · simp at hdt; simp [← hdt]
      · split at hdt
        · simp at hdt; simp [← hdt]
        · split at hdt
          · simp at hdt; simp [← hdt]
          · simp at hdt
  · exact Post.err

/-! ### the functions, one fuel level up -/

set_option hygiene false in
macro "pm_ih" : tactic => `(tactic| first
  | exact ih.expression ctx hc | exact ih.values ctx _ hc | exact ih.builtinArgs ctx hc | exact ih.builtin ctx _ _ _ hc
  | exact ih.arguments ctx _ hc | exact ih.functionCall ctx hc | exact ih.appCall ctx hc | exact ih.sliceInst ctx hc
  | exact ih.sliceElems ctx _ hc | exact ih.subscript ctx hc | exact ih.single ctx hc | exact ih.unary ctx hc
  | exact ih.binary ctx _ hc | exact ih.comparison ctx hc | exact ih.logical ctx _ hc
  | exact varEvaluation_post ctx hc | exact valueType_post)

/-- bind whose first computation has a known postcondition -/
local macro "pm_bind" : tactic => `(tactic| first
  | refine Post.bind' (by pm_ih) ?_
  | refine Post.bindAny ?_)

variable {fuel : Nat}

theorem hasValue_of {e : Expr} (he : PT.expr e = true) (hc1 : PT.callArity1 e = true)
    (hchk : ¬((Expr.valueType e).dt == .unknown ||
      ((Expr.valueType e).dt == .multiple && !(match e with | .call _ _ _ | .app _ _ _ => true | _ => false))) = true) :
    PT.hasValue e = true := by
  cases e with
  | call n rets args =>
    simp only [PT.callArity1, beq_iff_eq] at hc1
    simp only [PT.expr, Bool.and_eq_true] at he
    match rets, hc1, he.2 with
    | [t], _, hb =>
      simp only [List.all_cons, List.all_nil, Bool.and_true] at hb
      obtain ⟨dt, sl⟩ := t
      cases dt <;> simp_all [PT.hasValue, PT.basic, Expr.valueType, fnValueType, PT.isApp]
  | app n args nx => simp [PT.hasValue, Expr.valueType, PT.isApp]
  | _ => simp_all [PT.hasValue, PT.isApp]

theorem values_succ (ih : ExprIH fuel) (ctx : Ctx) (first : Bool) (hc : CtxOK ctx) :
    Post (evalValues (fuel + 1) ctx first) (valsP first) := by
  unfold evalValues
  pm_bind; intro e he
  pm_bind; intro next
  dsimp only
  pm_if
  · exact Post.err
  rename_i h0
  pm_if
  · exact Post.err
  rename_i hfirst
  pm_if
  · exact Post.err
  rename_i hchk
  -- the shape facts about `e`
  have shape : (PT.callArity1 e = true ∧ PT.hasValue e = true) ∨
      (∃ n rets args, e = .call n rets args ∧ rets.length > 1) := by
    cases e with
    | call n rets args =>
      by_cases h1 : rets.length = 1
      · exact Or.inl ⟨by simp [PT.callArity1, h1], hasValue_of he (by simp [PT.callArity1, h1]) hchk⟩
      · refine Or.inr ⟨n, rets, args, rfl, ?_⟩
        have : rets.length ≠ 0 := by
          intro h; simp [h] at h0
        omega
    | _ => exact Or.inl ⟨rfl, hasValue_of he rfl hchk⟩
  pm_if
  · refine Post.pure' ⟨by simp, ?_⟩
    rcases shape with ⟨h1, h2⟩ | ⟨n, rets, args, rfl, hr⟩
    · have he' : PT.expr e = true := he
      exact Or.inl (by simp [PT.vals1, he', h1, h2])
    · refine Or.inr ⟨?_, _, rfl, he, n, rets, args, rfl, hr⟩
      have : ((rets.length : Int) > 1) := by omega
      simpa [this] using hfirst
  pm_bind; intro _
  pm_if
  · exact Post.err
  rename_i hle
  pm_bind; intro rest hrest
  refine Post.pure' ⟨by simp, Or.inl ?_⟩
  have hr : PT.vals1 rest = true := by
    rcases hrest.2 with h | h
    · exact h
    · simp at h
  rcases shape with ⟨h1, h2⟩ | ⟨n, rets, args, rfl, hr'⟩
  · have he' : PT.expr e = true := he
    simp [PT.vals1, he', h1, h2, hr]
  · exfalso
    apply hle
    simp only [gt_iff_lt]
    omega

theorem allowedBinary_ok {vt : ValueType} {op : String} (h : (allowedBinary vt).contains op = true) :
    binaryAllowed vt op = true := by
  unfold allowedBinary at h
  unfold binaryAllowed
  obtain ⟨dt, sl⟩ := vt
  cases sl <;> cases dt <;> simp_all [or_assoc]

theorem allowedCompare_ok {vt : ValueType} {op : String} (h : (allowedCompare vt).contains op = true) :
    PT.cmpAllowed vt op = true := by
  unfold allowedCompare at h
  unfold PT.cmpAllowed
  obtain ⟨dt, sl⟩ := vt
  cases sl <;> cases dt <;> simp_all [or_assoc]

theorem builtinArgs_succ (ih : ExprIH fuel) (ctx : Ctx) (hc : CtxOK ctx) :
    Post (evalBuiltinArgs (fuel + 1) ctx) argsP := by
  unfold evalBuiltinArgs
  pm_bind; intro e he
  pm_if
  · exact Post.err
  pm_bind; intro next
  pm_if
  · pm_bind; intro _
    pm_bind; intro rest hr
    exact Post.pure' (by simp_all [argsP, exprP, PT.args_])
  pm_if
  · exact Post.pure' (by simp_all [argsP, exprP, PT.args_])
  · exact Post.err

theorem builtin_succ (ih : ExprIH fuel) (ctx : Ctx) (tt mn : Nat) (mx : Option Nat) (hc : CtxOK ctx) :
    Post (evalBuiltin (fuel + 1) ctx tt mn mx) (builtinP mn mx) := by
  unfold evalBuiltin
  pm_bind; intro kw
  pm_if
  · exact Post.err
  pm_bind; intro o
  pm_if
  · exact Post.err
  pm_bind; intro n
  refine Post.bind' (P := argsP) ?_ ?_
  · pm_if
    · pm_ih
    · exact Post.pure' rfl
  intro args ha
  pm_if
  · exact Post.err
  pm_if
  · exact Post.err
  rename_i hmin hmax
  pm_bind; intro c
  pm_if
  · exact Post.err
  · refine Post.pure' ⟨ha, by omega, ?_⟩
    intro m hm
    subst hm
    simpa using hmax

theorem arguments_succ (ih : ExprIH fuel) (ctx : Ctx) (ps : Option (List Var)) (hc : CtxOK ctx) :
    Post (evalArguments (fuel + 1) ctx ps) argsP := by
  unfold evalArguments
  pm_bind; intro o
  pm_if
  · exact Post.err
  refine Post.bind' (ih.argLoop ctx _ _ hc rfl) ?_
  intro args ha
  dsimp only
  have jp : Post (do
      let c ← eat
      if (c.ty != TT_CLOSING_ROUND_BRACKET) = true then err else pure args) argsP := by
    pm_bind; intro c
    pm_if
    · exact Post.err
    · exact Post.pure' ha
  split
  · pm_if
    · exact Post.errBind
    · exact jp
  · exact jp

theorem argLoop_succ (ih : ExprIH fuel) (ctx : Ctx) (ps : Option (List Var)) (acc : List Expr) (hc : CtxOK ctx)
    (hacc : argsP acc) : Post (evalArgLoop (fuel + 1) ctx ps acc) argsP := by
  unfold evalArgLoop
  pm_bind; intro n
  pm_if
  · exact Post.pure' hacc
  pm_bind; intro e he
  dsimp only
  pm_if
  · exact Post.err
  have hs : argsP (acc ++ [e]) := args_snoc hacc he (by simp_all)
  split
  · pm_if
    · exact Post.err
    split
    · rename_i hlen _ hnone
      refine Post.unreachable ?_
      simp only [List.getElem?_eq_none_iff, List.length_append, List.length_cons, List.length_nil] at hnone
      simp only [List.length_append, List.length_cons, List.length_nil, gt_iff_lt, Nat.not_lt] at hlen
      omega
    · pm_if
      · exact Post.err
      · exact ih.argTail ctx _ _ hc hs
  · exact ih.argTail ctx _ _ hc hs

theorem argTail_succ (ih : ExprIH fuel) (ctx : Ctx) (ps : Option (List Var)) (acc : List Expr) (hc : CtxOK ctx)
    (hacc : argsP acc) : Post (evalArgTail (fuel + 1) ctx ps acc) argsP := by
  unfold evalArgTail
  pm_bind; intro n
  pm_if
  · exact Post.err
  pm_if
  · pm_bind; intro _
    exact ih.argLoop ctx _ _ hc hacc
  · exact ih.argLoop ctx _ _ hc hacc

theorem functionCall_succ (ih : ExprIH fuel) (ctx : Ctx) (hc : CtxOK ctx) :
    Post (evalFunctionCall (fuel + 1) ctx) exprP := by
  unfold evalFunctionCall
  pm_bind; intro first
  pm_bind; intro dot
  pm_bind; rintro ⟨alias, nameTok⟩
  pm_if
  · exact Post.err
  pm_bind; intro s
  dsimp only
  split
  · exact Post.err
  · rename_i f hf
    pm_bind; intro args ha
    pm_bind; intro _
    refine Post.pure' ?_
    have := (hc.func hf).1
    simp_all [exprP, argsP, PT.expr]

theorem appCall_succ (ih : ExprIH fuel) (ctx : Ctx) (hc : CtxOK ctx) :
    Post (evalAppCall (fuel + 1) ctx) chainP := by
  unfold evalAppCall
  pm_bind; intro at_
  pm_if
  · exact Post.err
  pm_bind; intro n
  pm_if
  · exact Post.err
  pm_bind; intro args ha
  pm_bind; intro p
  pm_if
  · pm_bind; intro _
    pm_bind; intro next hn
    exact Post.pure' (by simp_all [chainP, argsP, PT.chain])
  · exact Post.pure' (by simp_all [chainP, argsP, PT.chain])

theorem sliceInst_succ (ih : ExprIH fuel) (ctx : Ctx) (hc : CtxOK ctx) :
    Post (evalSliceInstantiation (fuel + 1) ctx) exprP := by
  unfold evalSliceInstantiation
  pm_bind; intro vt hvt
  pm_if
  · exact Post.err
  pm_bind; intro o
  pm_if
  · exact Post.err
  pm_bind; intro n
  refine Post.bind' (P := fun es => PT.elems vt.dt es = true) ?_ ?_
  · pm_if
    · pm_ih
    · exact Post.pure' rfl
  intro vals hv
  pm_bind; intro c
  pm_if
  · exact Post.err
  · refine Post.pure' ?_
    simp only [exprP, PT.expr, hv, Bool.true_and]
    simpa [PT.basic, basicDt] using hvt

theorem sliceElems_succ (ih : ExprIH fuel) (ctx : Ctx) (dt : DataType) (hc : CtxOK ctx) :
    Post (evalSliceElems (fuel + 1) ctx dt) (fun es => PT.elems dt es = true) := by
  unfold evalSliceElems
  pm_bind; intro e he
  pm_if
  · exact Post.err
  pm_bind; intro n
  pm_if
  · pm_bind; intro _
    pm_bind; intro rest hr
    exact Post.pure' (by simp_all [exprP, PT.elems])
  pm_if
  · exact Post.pure' (by simp_all [exprP, PT.elems])
  · exact Post.err

theorem subscript_succ (ih : ExprIH fuel) (ctx : Ctx) (hc : CtxOK ctx) :
    Post (evalSubscript (fuel + 1) ctx) exprP := by
  unfold evalSubscript
  pm_bind; intro vt0
  refine Post.bind' (P := exprP) ?_ ?_
  · pm_if
    · pm_ih
    pm_if
    · pm_ih
    · exact Post.err
  intro value hv
  dsimp only
  pm_if
  · exact Post.err
  pm_bind; intro o
  pm_if
  · exact Post.err
  pm_bind; intro n
  refine Post.bind' (P := exprP) ?_ ?_
  · pm_if
    · pm_bind; intro _
      exact Post.pure' rfl
    · pm_ih
  intro start hs
  pm_if
  · exact Post.err
  pm_bind; intro n2
  pm_bind; intro gotRange
  pm_if
  · exact Post.err
  pm_bind; intro n3
  refine Post.bind' (P := fun stop => (Expr.valueType stop).isInt = true → exprP stop) ?_ ?_
  · pm_if
    · pm_bind; intro _
      refine Post.pure' ?_
      intro _
      split
      · simp_all [exprP, PT.expr, Expr.valueType, ValueType.isInt, ValueType.isString, ValueType.equals, binaryAllowed]
      · exact hs
    · pm_bind; intro e he
      pm_bind; intro c
      pm_if
      · exact Post.err
      · refine Post.pure' ?_
        intro hi
        simp_all [exprP, PT.expr, Expr.valueType, ValueType.isInt, ValueType.equals, binaryAllowed]
  intro stop hstop
  pm_if
  · exact Post.err
  pm_if
  · refine Post.pure' ?_
    cases gotRange <;> simp_all [exprP, PT.expr, ValueType.isString]
  · refine Post.pure' ?_
    simp_all [exprP, PT.expr]

theorem unary_succ (ih : ExprIH fuel) (ctx : Ctx) (hc : CtxOK ctx) :
    Post (evalUnary (fuel + 1) ctx) exprP := by
  unfold evalUnary
  pm_bind; intro t
  dsimp only
  have fin : ∀ e, exprP e → Post (if (t.ty == TT_UNARY_OPERATOR && t.val == "!") = true then
          if (!(Expr.valueType e).isBool) = true then err else pure (Expr.unary "!" e (Expr.valueType e))
        else pure e) exprP := by
    intro e he
    pm_if
    · pm_if
      · exact Post.err
      · exact Post.pure' (by simp_all [exprP, PT.expr])
    · exact Post.pure' he
  pm_if
  · pm_bind; intro _
    pm_bind; intro e he
    exact fin e he
  · pm_bind; intro e he
    exact fin e he

theorem binary_succ (ih : ExprIH fuel) (ctx : Ctx) (lv : Nat) (hc : CtxOK ctx) :
    Post (evalBinary (fuel + 1) ctx lv) exprP := by
  unfold evalBinary
  refine Post.bind' (P := exprP) ?_ ?_
  · pm_if
    · pm_ih
    · pm_ih
  intro left hl
  exact ih.binaryLoop ctx _ _ hc hl

theorem binaryLoop_succ (ih : ExprIH fuel) (ctx : Ctx) (lv : Nat) (l : Expr) (hc : CtxOK ctx) (hl : exprP l) :
    Post (evalBinaryLoop (fuel + 1) ctx lv l) exprP := by
  unfold evalBinaryLoop
  dsimp only
  pm_bind; intro t
  pm_if
  · exact Post.pure' hl
  pm_bind; intro _
  refine Post.bind' (P := exprP) ?_ ?_
  · pm_if
    · pm_ih
    · pm_ih
  intro right hr
  pm_if
  · exact Post.err
  pm_if
  · exact Post.err
  refine ih.binaryLoop ctx _ _ hc ?_
  have := allowedBinary_ok (vt := Expr.valueType l) (op := t.val) (by simp_all)
  simp_all [exprP, PT.expr]

theorem comparison_succ (ih : ExprIH fuel) (ctx : Ctx) (hc : CtxOK ctx) :
    Post (evalComparison (fuel + 1) ctx) exprP := by
  unfold evalComparison
  pm_bind; intro left hl
  pm_bind; intro t
  pm_if
  · pm_bind; intro _
    pm_bind; intro right hr
    dsimp only
    pm_if
    · exact Post.err
    pm_if
    · exact Post.err
    refine Post.pure' ?_
    have := allowedCompare_ok (vt := Expr.valueType left) (op := t.val) (by simp_all)
    simp_all [exprP, PT.expr]
  · exact Post.pure' hl

theorem logical_succ (ih : ExprIH fuel) (ctx : Ctx) (lv : Nat) (hc : CtxOK ctx) :
    Post (evalLogical (fuel + 1) ctx lv) exprP := by
  unfold evalLogical
  refine Post.bind' (P := exprP) ?_ ?_
  · pm_if
    · pm_ih
    · pm_ih
  intro left hl
  exact ih.logicalLoop ctx _ _ hc hl

theorem logicalLoop_succ (ih : ExprIH fuel) (ctx : Ctx) (lv : Nat) (l : Expr) (hc : CtxOK ctx) (hl : exprP l) :
    Post (evalLogicalLoop (fuel + 1) ctx lv l) exprP := by
  unfold evalLogicalLoop
  dsimp only
  pm_bind; intro t
  pm_if
  · exact Post.pure' hl
  pm_if
  · exact Post.err
  pm_bind; intro _
  refine Post.bind' (P := exprP) ?_ ?_
  · pm_if
    · pm_ih
    · pm_ih
  intro right hr
  pm_if
  · exact Post.err
  refine ih.logicalLoop ctx _ _ hc ?_
  simp_all [exprP, PT.expr]
  omega

theorem expression_succ (ih : ExprIH fuel) (ctx : Ctx) (hc : CtxOK ctx) :
    Post (evalExpression (fuel + 1) ctx) exprP := by
  unfold evalExpression
  pm_ih

theorem args1 {a : Expr} (h : argsP [a]) : exprP a := by
  simp [argsP, PT.args_] at h; exact h.1

theorem len_leaf {v : Expr} (hv : exprP v)
    (h : ¬(!(Expr.valueType v).isSlice && !(Expr.valueType v).isString) = true) : exprP (.len v) := by
  cases hsl : (Expr.valueType v).isSlice <;> simp_all [exprP, PT.expr]

theorem len1 {args : List Expr} (h1 : 1 ≤ args.length) (h2 : ∀ m, some 1 = some m → args.length ≤ m) : ∃ p, args = [p] := by
  have := h2 1 rfl
  match args, h1, this with
  | [p], _, _ => exact ⟨p, rfl⟩
  | [], h, _ => simp at h
  | _ :: _ :: _, _, h => simp at h

theorem len2 {args : List Expr} (h1 : 2 ≤ args.length) (h2 : ∀ m, some 2 = some m → args.length ≤ m) : ∃ p q, args = [p, q] := by
  have := h2 2 rfl
  match args, h1, this with
  | [p, q], _, _ => exact ⟨p, q, rfl⟩
  | [], h, _ => simp at h
  | [_], h, _ => simp at h
  | _ :: _ :: _ :: _, _, h => simp at h

theorem single_succ (ih : ExprIH fuel) (ctx : Ctx) (hc : CtxOK ctx) :
    Post (evalSingle (fuel + 1) ctx) exprP := by
  unfold evalSingle
  pm_bind; intro t
  pm_if
  · pm_bind; intro _
    exact Post.pure' rfl
  pm_if
  · pm_bind; intro _
    split
    · exact Post.pure' rfl
    · exact Post.err
  pm_if
  · pm_bind; intro _
    exact Post.pure' rfl
  pm_if
  · pm_bind; intro _
    exact Post.pure' rfl
  pm_if
  · pm_bind; intro _
    pm_bind; intro child hch
    pm_bind; intro c
    pm_if
    · exact Post.err
    · exact Post.pure' (by simpa [exprP, PT.expr] using hch)
  pm_if
  · pm_ih
  pm_if
  · pm_bind; rintro args ⟨ha, hmin, hmax⟩
    split
    · exact Post.pure' rfl
    · pm_if
      · exact Post.err
      · exact Post.pure' (by simp_all [exprP, argsP, PT.expr, PT.args_])
  pm_if
  · pm_bind; rintro args ⟨ha, hmin, hmax⟩
    split
    · pm_if
      · exact Post.err
      · exact Post.pure' (by simp_all [exprP, argsP, PT.expr, PT.args_])
    · rename_i hno
      first
        | (obtain ⟨p, rfl⟩ := len1 hmin hmax; exact Post.unreachable (hno p rfl))
        | (obtain ⟨p, q, rfl⟩ := len2 hmin hmax; exact Post.unreachable (hno p q rfl))
  pm_if
  · pm_bind; rintro args ⟨ha, hmin, hmax⟩
    split
    · split
      · pm_if
        · exact Post.err
        pm_if
        · exact Post.err
        pm_if
        · exact Post.err
        · exact Post.pure' (by simp_all [exprP, argsP, PT.expr, PT.args_, Expr.valueType])
      · exact Post.err
    · rename_i hno
      first
        | (obtain ⟨p, rfl⟩ := len1 hmin hmax; exact Post.unreachable (hno p rfl))
        | (obtain ⟨p, q, rfl⟩ := len2 hmin hmax; exact Post.unreachable (hno p q rfl))
  pm_if
  · pm_bind; rintro args ⟨ha, hmin, hmax⟩
    split
    · pm_if
      · exact Post.err
      · exact Post.pure' (by simp_all [exprP, argsP, PT.expr, PT.args_])
    · rename_i hno
      first
        | (obtain ⟨p, rfl⟩ := len1 hmin hmax; exact Post.unreachable (hno p rfl))
        | (obtain ⟨p, q, rfl⟩ := len2 hmin hmax; exact Post.unreachable (hno p q rfl))
  pm_if
  · pm_bind; rintro args ⟨ha, hmin, hmax⟩
    split
    · pm_if
      · exact Post.err
      · exact Post.pure' (by simp_all [exprP, argsP, PT.expr, PT.args_])
    · rename_i hno
      first
        | (obtain ⟨p, rfl⟩ := len1 hmin hmax; exact Post.unreachable (hno p rfl))
        | (obtain ⟨p, q, rfl⟩ := len2 hmin hmax; exact Post.unreachable (hno p q rfl))
  pm_if
  · pm_bind; rintro args ⟨ha, hmin, hmax⟩
    split
    · pm_if
      · exact Post.err
      · exact Post.pure' (len_leaf (args1 ha) ‹_›)
    · rename_i hno
      first
        | (obtain ⟨p, rfl⟩ := len1 hmin hmax; exact Post.unreachable (hno p rfl))
        | (obtain ⟨p, q, rfl⟩ := len2 hmin hmax; exact Post.unreachable (hno p q rfl))
  pm_if
  · exact (ih.appCall ctx hc).mono (fun e h => chain_expr h)
  pm_if
  · pm_bind; intro n
    pm_if
    · pm_ih
    pm_if
    · pm_ih
    · pm_ih
  · exact Post.err

theorem exprIH_all : ∀ fuel, ExprIH fuel := by
  intro fuel
  induction fuel with
  | zero =>
    constructor <;> intros <;>
      first
        | (unfold evalValues; exact Post.div) | (unfold evalBuiltinArgs; exact Post.div) | (unfold evalBuiltin; exact Post.div)
        | (unfold evalArguments; exact Post.div) | (unfold evalArgLoop; exact Post.div) | (unfold evalArgTail; exact Post.div)
        | (unfold evalFunctionCall; exact Post.div) | (unfold evalAppCall; exact Post.div)
        | (unfold evalSliceInstantiation; exact Post.div) | (unfold evalSliceElems; exact Post.div)
        | (unfold evalSubscript; exact Post.div) | (unfold evalSingle; exact Post.div) | (unfold evalUnary; exact Post.div)
        | (unfold evalBinary; exact Post.div) | (unfold evalBinaryLoop; exact Post.div) | (unfold evalComparison; exact Post.div)
        | (unfold evalLogical; exact Post.div) | (unfold evalLogicalLoop; exact Post.div) | (unfold evalExpression; exact Post.div)
  | succ fuel ih =>
    exact {
      values := fun ctx first hc => values_succ ih ctx first hc
      builtinArgs := fun ctx hc => builtinArgs_succ ih ctx hc
      builtin := fun ctx tt mn mx hc => builtin_succ ih ctx tt mn mx hc
      arguments := fun ctx ps hc => arguments_succ ih ctx ps hc
      argLoop := fun ctx ps acc hc ha => argLoop_succ ih ctx ps acc hc ha
      argTail := fun ctx ps acc hc ha => argTail_succ ih ctx ps acc hc ha
      functionCall := fun ctx hc => functionCall_succ ih ctx hc
      appCall := fun ctx hc => appCall_succ ih ctx hc
      sliceInst := fun ctx hc => sliceInst_succ ih ctx hc
      sliceElems := fun ctx dt hc => sliceElems_succ ih ctx dt hc
      subscript := fun ctx hc => subscript_succ ih ctx hc
      single := fun ctx hc => single_succ ih ctx hc
      unary := fun ctx hc => unary_succ ih ctx hc
      binary := fun ctx lv hc => binary_succ ih ctx lv hc
      binaryLoop := fun ctx lv l hc hl => binaryLoop_succ ih ctx lv l hc hl
      comparison := fun ctx hc => comparison_succ ih ctx hc
      logical := fun ctx lv hc => logical_succ ih ctx lv hc
      logicalLoop := fun ctx lv l hc hl => logicalLoop_succ ih ctx lv l hc hl
      expression := fun ctx hc => expression_succ ih ctx hc }

end Tsh.Parser
