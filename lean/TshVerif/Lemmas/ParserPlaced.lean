import TshVerif.Lemmas.ParserTypedStmt
namespace Tsh.Parser
open Tsh Tsh.Tr Tsh.LexTables

/-! ### placement: break / continue / return / function definitions stand where the scope stack says -/

/-- the scope stack of a context inside a program: `program` at the bottom and nowhere else -/
def ScOK (ctx : Ctx) : Prop := ∃ rest, ctx.scopes = rest ++ [Scope.program] ∧ Scope.program ∉ rest

/-- the statement context a scope stack stands for (`break` is also let through inside a `switch`: brkAnywhere) -/
def sc (ctx : Ctx) : SCtx := { inLoop := ctx.findScope .for_, inFunc := ctx.findScope .function, brkAnywhere := true }

theorem ScOK.push {ctx : Ctx} (h : ScOK ctx) {s : Scope} (hs : s ≠ .program) : ScOK (ctx.push s) := by
  obtain ⟨rest, h1, h2⟩ := h
  refine ⟨s :: rest, by simp [Ctx.push, h1], ?_⟩
  simp only [List.mem_cons, not_or]
  exact ⟨fun e => hs e.symm, h2⟩

theorem ScOK.first {ctx : Ctx} (h : ctx.scopes = []) : ScOK (ctx.push .program) :=
  ⟨[], by simp [Ctx.push, h], by simp⟩

theorem ScOK.global {ctx : Ctx} (h : ScOK ctx) (hg : ctx.global = true) :
    ctx.findScope .for_ = false ∧ ctx.findScope .function = false := by
  obtain ⟨rest, h1, h2⟩ := h
  have : rest = [] := by
    cases rest with
    | nil => rfl
    | cons x xs =>
      simp only [Ctx.global, h1, List.cons_append, List.head?_cons, beq_iff_eq, Option.some.injEq] at hg
      exact absurd (hg ▸ List.mem_cons_self ..) h2
  subst this
  simp [Ctx.findScope, h1]

theorem sc_push_if (ctx : Ctx) : sc (ctx.push .if_) = sc ctx := by
  simp [sc, Ctx.push, Ctx.findScope]
theorem sc_push_switch (ctx : Ctx) : sc (ctx.push .switch_) = sc ctx := by
  simp [sc, Ctx.push, Ctx.findScope]
theorem sc_push_for (ctx : Ctx) : sc (ctx.push .for_) = { sc ctx with inLoop := true } := by
  simp [sc, Ctx.push, Ctx.findScope]

/-- scope stacks are not touched by registrations -/
theorem addVars_scopes {pfx : String} {g : Bool} : ∀ {vs : List Var} {c c' : Ctx}, c.addVars pfx g vs = some c' → c'.scopes = c.scopes := by
  intro vs
  induction vs with
  | nil => intro c c' h; simp [Ctx.addVars] at h; rw [← h]
  | cons v vs ih =>
    intro c c' h
    simp only [Ctx.addVars, List.foldlM_cons] at h
    cases hb : c.buildName v.name pfx g false with
    | none => simp [hb] at h
    | some k =>
      simp only [hb, Option.bind_eq_bind, Option.bind_some] at h
      exact ih (c := { c with vars := assocSet c.vars k v }) h

theorem addFunc_scopes {pfx : String} {g : Bool} {f : FuncInfo} {c c' : Ctx} (h : c.addFunc pfx g f = some c') : c'.scopes = c.scopes := by
  unfold Ctx.addFunc at h
  split at h
  · simp only [Option.some.injEq] at h; rw [← h]
  · simp at h

theorem registerDefs_scopes {pfx : String} {g : Bool} {st : Stmt} {c c' : Ctx} (h : Parser.registerDefs c pfx g st = some c') :
    c'.scopes = c.scopes := by
  unfold Parser.registerDefs at h
  split at h
  · exact addVars_scopes h
  · exact addVars_scopes h
  · exact addFunc_scopes h
  · simp only [Option.some.injEq] at h; rw [← h]

theorem registerDefs_name {pfx : String} {g : Bool} {c c' : Ctx} {n : String} {p : Bool} {r : List ValueType} {ps : List Var} {b : List Stmt}
    (h : Parser.registerDefs c pfx g (.funcDef n p r ps b) = some c') : n ≠ "" := by
  simp only [Parser.registerDefs, Ctx.addFunc, Ctx.buildName] at h
  intro hn
  subst hn
  simp at h

theorem sc_of_scopes {c c' : Ctx} (h : c'.scopes = c.scopes) : sc c' = sc c := by
  simp [sc, Ctx.findScope, h]

theorem ScOK_of_scopes {c c' : Ctx} (h : c'.scopes = c.scopes) (hs : ScOK c) : ScOK c' := by
  obtain ⟨rest, h1, h2⟩ := hs
  exact ⟨rest, by rw [h, h1], h2⟩

/-- a statement is placed, provided that - if it is a function definition - its name is not empty (the block loop
    registers every definition under its name and fails for the empty one) -/
def placedQ (ctx : Ctx) (st : Stmt) : Prop :=
  (∀ n p r ps b, st = .funcDef n p r ps b → n ≠ "") → Stmt.placed (sc ctx) st = true

def placedSs (ctx : Ctx) (ss : List Stmt) : Prop := placedStmts (sc ctx) ss = true

theorem placedStmts_append {c : SCtx} {a b : List Stmt} (ha : placedStmts c a = true) (hb : placedStmts c b = true) :
    placedStmts c (a ++ b) = true := by
  induction a with
  | nil => simpa using hb
  | cons x xs ih =>
    simp only [placedStmts, Bool.and_eq_true] at ha
    simp only [List.cons_append, placedStmts, Bool.and_eq_true]
    exact ⟨ha.1, ih ha.2⟩

theorem placedElifs_snoc {c : SCtx} {a : List (Expr × List Stmt)} {e : Expr} {b : List Stmt} (ha : placedElifs c a = true)
    (hb : placedStmts c b = true) : placedElifs c (a ++ [(e, b)]) = true := by
  induction a with
  | nil => simp [placedElifs, hb]
  | cons x xs ih =>
    obtain ⟨e', body⟩ := x
    simp only [placedElifs, Bool.and_eq_true] at ha
    simp only [List.cons_append, placedElifs, Bool.and_eq_true]
    exact ⟨ha.1, ih ha.2⟩

structure PlaceIH (fuel : Nat) : Prop where
  blockContent : ∀ terms cb ctx scope, CtxOK ctx → ((scope = .program ∧ ctx.scopes = []) ∨ (scope ≠ .program ∧ ScOK ctx)) →
    Post (evalBlockContent fuel terms cb ctx scope) (placedSs (ctx.push scope))
  blockLoop : ∀ terms cb ctx acc, CtxOK ctx → ScOK ctx → placedSs ctx acc → Post (evalBlockLoop fuel terms cb ctx acc) (placedSs ctx)
  block : ∀ cb ctx scope, CtxOK ctx → scope ≠ .program → ScOK ctx → Post (evalBlock fuel cb ctx scope) (placedSs (ctx.push scope))
  functionDefinition : ∀ ctx, CtxOK ctx → ScOK ctx → Post (evalFunctionDefinition fuel ctx) (placedQ ctx)
  if_ : ∀ ctx, CtxOK ctx → ScOK ctx → Post (evalIf fuel ctx) (placedQ ctx)
  ifRest : ∀ ctx c body elifs els, CtxOK ctx → ScOK ctx → placedSs ctx body → placedElifs (sc ctx) elifs = true → placedSs ctx els →
    Post (evalIfRest fuel ctx c body elifs els) (placedQ ctx)
  switch : ∀ ctx, CtxOK ctx → ScOK ctx → Post (evalSwitch fuel ctx) (placedQ ctx)
  cases : ∀ ctx tag first elifs dflt, CtxOK ctx → ScOK ctx → (∀ c b, first = some (c, b) → placedSs ctx b) →
    placedElifs (sc ctx) elifs = true → (∀ d, dflt = some d → placedSs ctx d) → Post (evalCases fuel ctx tag first elifs dflt) (placedQ ctx)
  for_ : ∀ ctx, CtxOK ctx → ScOK ctx → Post (evalFor fuel ctx) (placedQ ctx)
  statement : ∀ ctx, CtxOK ctx → ScOK ctx → Post (evalStatement fuel ctx) (placedQ ctx)

variable {fuel : Nat}

theorem placedQ_of {ctx : Ctx} {st : Stmt} (h : Stmt.placed (sc ctx) st = true) : placedQ ctx st := fun _ => h

theorem pblockContent_succ (ih : PlaceIH fuel) (terms : List Nat) (cb : List Stmt → Bool → Bool) (ctx : Ctx) (scope : Scope)
    (hc : CtxOK ctx) (hs : (scope = .program ∧ ctx.scopes = []) ∨ (scope ≠ .program ∧ ScOK ctx)) :
    Post (evalBlockContent (fuel + 1) terms cb ctx scope) (placedSs (ctx.push scope)) := by
  unfold evalBlockContent
  refine ih.blockLoop _ _ _ _ (hc.push scope) ?_ rfl
  rcases hs with ⟨rfl, h⟩ | ⟨h1, h2⟩
  · exact ScOK.first h
  · exact h2.push h1

theorem pblockLoop_succ (ih : PlaceIH fuel) (S : ∀ fuel, StmtIH fuel) (terms : List Nat) (cb : List Stmt → Bool → Bool) (ctx : Ctx)
    (acc : List Stmt) (hc : CtxOK ctx) (hs : ScOK ctx) (hacc : placedSs ctx acc) :
    Post (evalBlockLoop (fuel + 1) terms cb ctx acc) (placedSs ctx) := by
  unfold evalBlockLoop
  pm_bind; intro t
  pm_if
  · pm_if
    · exact Post.pure' hacc
    · exact Post.err
  refine Post.bind' (P := fun (x : Ctx × List Stmt) => CtxOK x.1 ∧ x.1.scopes = ctx.scopes ∧ placedSs ctx x.2) ?_ ?_
  · pm_if
    · exact Post.pure' ⟨hc, rfl, hacc⟩
    · refine Post.bind' (((S fuel).statement ctx hc).and (ih.statement ctx hc hs)) ?_
      rintro st ⟨hst, hpl⟩
      pm_bind; intro s
      refine Post.bind' (P := fun c => CtxOK c ∧ c.scopes = ctx.scopes ∧ Stmt.placed (sc ctx) st = true) (Post.ofOpt (fun c h =>
        ⟨hc.registerDefs hst h, registerDefs_scopes h, hpl (by
          intro n p r ps b he; subst he; exact registerDefs_name h)⟩)) ?_
      rintro ctx' ⟨hc', hsc', hp'⟩
      pm_zeta
      pm_if
      · refine Post.pure' ⟨hc', hsc', ?_⟩
        exact placedStmts_append hacc (by simp [placedStmts, hp'])
      · exact Post.err
  rintro ⟨ctx', acc'⟩ ⟨hc', hsc', hacc'⟩
  dsimp only at hc' hsc' hacc' ⊢
  have e1 : sc ctx' = sc ctx := sc_of_scopes hsc'
  have hs' : ScOK ctx' := ScOK_of_scopes hsc' hs
  have fin : Post (evalBlockLoop fuel terms cb ctx' acc') (placedSs ctx) := by
    have := ih.blockLoop terms cb ctx' acc' hc' hs' (by unfold placedSs; rw [e1]; exact hacc')
    unfold placedSs at this ⊢
    rw [e1] at this
    exact this
  pm_bind; intro n
  pm_if
  · pm_bind; intro _
    exact fin
  pm_if
  · exact fin
  · exact Post.err

theorem pblock_succ (ih : PlaceIH fuel) (cb : List Stmt → Bool → Bool) (ctx : Ctx) (scope : Scope)
    (hc : CtxOK ctx) (hne : scope ≠ .program) (hs : ScOK ctx) : Post (evalBlock (fuel + 1) cb ctx scope) (placedSs (ctx.push scope)) := by
  unfold evalBlock
  pm_bind; intro b
  pm_if
  · exact Post.err
  pm_bind; intro n
  pm_if
  · exact Post.err
  refine Post.bind' (ih.blockContent _ _ _ _ hc (Or.inr ⟨hne, hs⟩)) ?_
  intro ss hss
  pm_bind; intro e
  pm_if
  · exact Post.err
  · exact Post.pure' hss

theorem pfunctionDefinition_succ (ih : PlaceIH fuel) (ctx : Ctx) (hc : CtxOK ctx) (hs : ScOK ctx) :
    Post (evalFunctionDefinition (fuel + 1) ctx) (placedQ ctx) := by
  unfold evalFunctionDefinition
  pm_bind; intro f
  pm_if
  · exact Post.err
  rename_i hglobal
  pm_if
  · exact Post.err
  pm_bind; intro nameTok
  pm_if
  · exact Post.err
  pm_bind; intro s
  pm_zeta
  pm_if
  · exact Post.err
  pm_bind; intro o
  pm_zeta
  have hc1 : CtxOK { ctx with vars := ctx.vars.filter fun e => e.2.global } := hc.filterVars _
  refine Post.bind' (P := fun ps => ps.all (fun p => PT.basic p.vt) = true) ?_ ?_
  · pm_if
    · pm_bind; intro _
      refine Post.bind' (params_post _ fuel [] rfl) ?_
      intro ps hps
      pm_bind; intro c
      pm_if
      · exact Post.err
      · exact Post.pure' hps
    · exact Post.pure' rfl
  intro params hparams
  pm_bind; intro r
  pm_zeta
  pm_jp; intro jp hjp
  suffices key : ∀ u, Post (jp u) (placedQ ctx) by
    pm_if
    · pm_bind; intro _
      exact key _
    · exact key _
  intro u; subst hjp; pm_beta
  refine Post.bind' (returnTypes_post fuel _ [] rfl) ?_
  intro rets hrets
  refine Post.bind' (P := fun c => CtxOK c ∧ c.scopes = ctx.scopes) (Post.ofOpt (fun c h =>
    ⟨hc1.addVars (basic_params_known hparams) h, addVars_scopes (c := { ctx with vars := ctx.vars.filter fun e => e.2.global }) h⟩)) ?_
  rintro ctx2 ⟨hc2, hsc2⟩
  pm_zeta
  pm_bind; intro s2
  pm_bind; intro _
  have hs2 : ScOK ctx2 := ScOK_of_scopes hsc2 hs
  refine Post.bind' (ih.block _ _ _ hc2 (by decide) hs2) ?_
  intro body hbody
  pm_bind; intro s3
  pm_bind; intro _
  refine Post.pure' ?_
  intro hname
  have hg : ctx.global = true := by simpa using hglobal
  obtain ⟨g1, g2⟩ := hs.global hg
  have hn := hname _ _ _ _ _ rfl
  have hb : placedStmts { inLoop := false, inFunc := true, brkAnywhere := true } body = true := by
    have : sc (ctx2.push .function) = { inLoop := false, inFunc := true, brkAnywhere := true } := by
      simp [sc, Ctx.push, Ctx.findScope, hsc2]
      simpa [Ctx.findScope] using g1
    unfold placedSs at hbody
    rw [this] at hbody
    exact hbody
  simp [Stmt.placed, sc, g1, g2, hn, hb]

theorem pif_succ (ih : PlaceIH fuel) (E : ∀ fuel, ExprIH fuel) (ctx : Ctx) (hc : CtxOK ctx) (hs : ScOK ctx) :
    Post (evalIf (fuel + 1) ctx) (placedQ ctx) := by
  unfold evalIf
  pm_bind; intro t
  pm_if
  · exact Post.err
  pm_bind; intro _
  refine Post.bind' ((E fuel).expression ctx hc) ?_
  intro c _
  pm_if
  · exact Post.err
  refine Post.bind' (ih.block _ _ _ hc (by decide) hs) ?_
  intro body hbody
  exact ih.ifRest _ _ _ _ _ hc hs (by unfold placedSs at hbody ⊢; rwa [sc_push_if] at hbody) rfl rfl

theorem pifRest_succ (ih : PlaceIH fuel) (E : ∀ fuel, ExprIH fuel) (ctx : Ctx) (c : Expr) (body : List Stmt)
    (elifs : List (Expr × List Stmt)) (els : List Stmt) (hc : CtxOK ctx) (hs : ScOK ctx) (hbody : placedSs ctx body)
    (helifs : placedElifs (sc ctx) elifs = true) (hels : placedSs ctx els) :
    Post (evalIfRest (fuel + 1) ctx c body elifs els) (placedQ ctx) := by
  unfold evalIfRest
  pm_bind; intro t
  pm_if
  · refine Post.pure' (placedQ_of ?_)
    unfold placedSs at hbody hels
    simp [Stmt.placed, hbody, helifs, hels]
  pm_bind; intro _
  pm_bind; intro n
  pm_if
  · refine Post.bind' (ih.block _ _ _ hc (by decide) hs) ?_
    intro b hb
    exact ih.ifRest _ _ _ _ _ hc hs hbody helifs (by unfold placedSs at hb ⊢; rwa [sc_push_if] at hb)
  · pm_bind; intro _
    refine Post.bind' ((E fuel).expression ctx hc) ?_
    intro ec _
    pm_if
    · exact Post.err
    refine Post.bind' (ih.block _ _ _ hc (by decide) hs) ?_
    intro b hb
    refine ih.ifRest _ _ _ _ _ hc hs hbody (placedElifs_snoc helifs ?_) hels
    unfold placedSs at hb; rwa [sc_push_if] at hb

theorem pswitch_succ (ih : PlaceIH fuel) (E : ∀ fuel, ExprIH fuel) (ctx : Ctx) (hc : CtxOK ctx) (hs : ScOK ctx) :
    Post (evalSwitch (fuel + 1) ctx) (placedQ ctx) := by
  unfold evalSwitch
  pm_bind; intro sw
  pm_if
  · exact Post.err
  pm_bind; intro t
  refine Post.bind' (P := fun _ => True) ?_ ?_
  · pm_if
    · exact Post.pure' trivial
    · exact ((E fuel).expression ctx hc).mono (fun _ _ => trivial)
  intro tag _
  pm_if
  · exact Post.err
  pm_if
  · exact Post.err
  pm_bind; intro b
  pm_if
  · exact Post.err
  pm_bind; intro n
  pm_if
  · exact Post.err
  refine Post.bind' (skipNewlines_any fuel) ?_
  intro _ _
  exact ih.cases _ _ _ _ _ hc hs (by simp) rfl (by simp)

theorem pcases_succ (ih : PlaceIH fuel) (E : ∀ fuel, ExprIH fuel) (ctx : Ctx) (tag : Expr) (first : Option (Expr × List Stmt))
    (elifs : List (Expr × List Stmt)) (dflt : Option (List Stmt)) (hc : CtxOK ctx) (hs : ScOK ctx)
    (hfirst : ∀ c b, first = some (c, b) → placedSs ctx b) (helifs : placedElifs (sc ctx) elifs = true)
    (hdflt : ∀ d, dflt = some d → placedSs ctx d) : Post (evalCases (fuel + 1) ctx tag first elifs dflt) (placedQ ctx) := by
  unfold evalCases
  pm_bind; intro t
  pm_if
  · pm_bind; intro _
    refine Post.pure' (placedQ_of ?_)
    have hd : placedStmts (sc ctx) (dflt.getD []) = true := by
      cases dflt with
      | none => rfl
      | some d => exact hdflt d rfl
    cases first with
    | none => simp [Stmt.placed, placedStmts, helifs, hd]
    | some p =>
      obtain ⟨c, b⟩ := p
      have := hfirst c b rfl
      unfold placedSs at this
      simp [Stmt.placed, this, helifs, hd]
  refine Post.bind' (P := fun _ => True) ?_ ?_
  · pm_if
    · pm_bind; intro _
      refine Post.bind' ((E fuel).expression ctx hc) ?_
      intro e _
      exact Post.pure' trivial
    pm_if
    · pm_bind; intro _
      exact Post.pure' trivial
    · exact Post.err
  intro cmp _
  pm_bind; intro colon
  pm_if
  · exact Post.err
  refine Post.bind' (ih.blockContent _ _ _ _ hc (Or.inr ⟨by decide, hs⟩)) ?_
  intro stmts hstmts
  have hst : placedSs ctx stmts := by unfold placedSs at hstmts ⊢; rwa [sc_push_switch] at hstmts
  split
  · rename_i e
    pm_if
    · exact Post.err
    pm_zeta
    split
    · refine ih.cases _ _ _ _ _ hc hs ?_ helifs hdflt
      intro c b h
      simp only [Option.some.injEq, Prod.mk.injEq] at h
      exact h.2 ▸ hst
    · exact ih.cases _ _ _ _ _ hc hs hfirst (placedElifs_snoc helifs hst) hdflt
  · split
    · refine ih.cases _ _ _ _ _ hc hs hfirst helifs ?_
      intro d h
      simp only [Option.some.injEq] at h
      exact h ▸ hst
    · exact Post.err

theorem placed_incDec (c : SCtx) (v : Var) (b : Bool) : Stmt.placed c (incDecStmt v b) = true := by
  simp [incDecStmt, Stmt.placed]

theorem pfor_succ (ih : PlaceIH fuel) (S : ∀ fuel, StmtIH fuel) (E : ∀ fuel, ExprIH fuel) (ctx : Ctx) (hc : CtxOK ctx) (hs : ScOK ctx) :
    Post (evalFor (fuel + 1) ctx) (placedQ ctx) := by
  unfold evalFor
  pm_bind; intro f
  pm_if
  · exact Post.err
  pm_bind; intro t0
  pm_bind; intro t1
  pm_bind; intro t2
  pm_bind; intro s
  pm_zeta
  pm_if
  · pm_bind; intro _
    pm_if
    · exact Post.err
    pm_bind; intro n
    pm_bind; intro valueName
    pm_bind; intro si
    pm_if
    · exact Post.err
    pm_bind; intro r
    pm_if
    · exact Post.err
    refine Post.bind' ((E fuel).expression ctx hc) ?_
    intro iterable hit
    pm_zeta
    pm_zeta
    pm_bind; intro el
    have hidx : PT.varsKnown [(⟨t0.val, vtInt, false, false⟩ : Var)] = true := rfl
    refine Post.bind' (P := fun c => CtxOK c ∧ c.scopes = ctx.scopes) (Post.ofOpt (fun c h => ⟨hc.addVars hidx h, addVars_scopes h⟩)) ?_
    rintro ctx1 ⟨hc1, hsc1⟩
    have hkn : PT.known ⟨(Expr.valueType iterable).dt, false⟩ = true := known_elem (expr_known iterable hit)
    refine Post.bind' (P := fun (x : Ctx × List Stmt) => CtxOK x.1 ∧ x.1.scopes = ctx.scopes ∧ ∀ c, placedStmts c x.2 = true) ?_ ?_
    · pm_if
      · pm_zeta
        refine Post.bind' (P := fun c => CtxOK c ∧ c.scopes = ctx.scopes) (Post.ofOpt (fun c h =>
          ⟨hc1.addVars (by simp [PT.varsKnown, hkn]) h, (addVars_scopes h).trans hsc1⟩)) ?_
        rintro ctx2 ⟨hc2, hsc2⟩
        exact Post.pure' ⟨hc2, hsc2, fun c => by simp [placedStmts, Stmt.placed]⟩
      · exact Post.pure' ⟨hc1, hsc1, fun c => rfl⟩
    rintro ⟨ctx3, pre⟩ ⟨hc3, hsc3, hpre⟩
    dsimp only at hc3 hsc3 hpre ⊢
    refine Post.bind' (ih.block _ _ _ hc3 (by decide) (ScOK_of_scopes hsc3 hs)) ?_
    intro body hbody
    refine Post.pure' (placedQ_of ?_)
    have e3 : sc (ctx3.push .for_) = { sc ctx with inLoop := true } := by
      rw [sc_push_for, sc_of_scopes hsc3]
    unfold placedSs at hbody
    rw [e3] at hbody
    simp [Stmt.placed, placedOpt, placed_incDec, placedStmts_append (hpre _) hbody]
  · pm_bind; intro three
    refine Post.bind' (P := fun (x : Ctx × Option Stmt × Expr × Option Stmt) =>
        CtxOK x.1 ∧ x.1.scopes = ctx.scopes ∧ (∀ c, placedOpt c x.2.1 = true) ∧ (∀ c, placedOpt c x.2.2.2 = true)) ?_ ?_
    · pm_if
      · exact Post.pure' ⟨hc, rfl, fun _ => rfl, fun _ => rfl⟩
      pm_if
      · pm_bind; intro n
        refine Post.bind' (P := fun (x : Ctx × Option Stmt) => CtxOK x.1 ∧ x.1.scopes = ctx.scopes ∧ ∀ c, placedOpt c x.2 = true) ?_ ?_
        · pm_if
          · refine Post.bind' (((S fuel).statement ctx hc).and (ih.statement ctx hc hs)) ?_
            rintro st ⟨hst, _⟩
            split
            · refine Post.bind' (P := fun c => CtxOK c ∧ c.scopes = ctx.scopes) (Post.ofOpt (fun c h => ⟨hc.addVars (by
                simp only [stmtP, PT.stmt, Bool.and_eq_true] at hst; exact hst.2) h, addVars_scopes h⟩)) ?_
              rintro c ⟨hc', hsc'⟩
              exact Post.pure' ⟨hc', hsc', fun _ => rfl⟩
            · refine Post.bind' (P := fun c => CtxOK c ∧ c.scopes = ctx.scopes) (Post.ofOpt (fun c h => ⟨hc.addVars (by
                simp only [stmtP, PT.stmt, Bool.and_eq_true] at hst; exact hst.1.2) h, addVars_scopes h⟩)) ?_
              rintro c ⟨hc', hsc'⟩
              exact Post.pure' ⟨hc', hsc', fun _ => rfl⟩
            · exact Post.pure' ⟨hc, rfl, fun _ => rfl⟩
            · exact Post.err
          · exact Post.pure' ⟨hc, rfl, fun _ => rfl⟩
        rintro ⟨ctx1, init⟩ ⟨hc1, hsc1, hinit⟩
        dsimp only at hc1 hsc1 hinit ⊢
        pm_bind; intro sc1
        pm_if
        · exact Post.err
        pm_bind; intro n2
        refine Post.bind' (P := fun _ => True) ?_ ?_
        · pm_if
          · exact ((E fuel).expression ctx1 hc1).mono (fun _ _ => trivial)
          · exact Post.pure' trivial
        intro cond _
        pm_bind; intro sc2
        pm_if
        · exact Post.err
        pm_bind; intro n3
        refine Post.bind' (P := fun (o : Option Stmt) => ∀ c, placedOpt c o = true) ?_ ?_
        · pm_if
          · refine Post.bind' (ih.statement ctx1 hc1 (ScOK_of_scopes hsc1 hs)) ?_
            intro st _
            split
            · exact Post.pure' (fun _ => rfl)
            · exact Post.err
          · exact Post.pure' (fun _ => rfl)
        intro incr hincr
        exact Post.pure' ⟨hc1, hsc1, hinit, hincr⟩
      · refine Post.bind' ((E fuel).expression ctx hc) ?_
        intro c _
        exact Post.pure' ⟨hc, rfl, fun _ => rfl, fun _ => rfl⟩
    rintro ⟨ctx1, init, cond, incr⟩ ⟨hc1, hsc1, hinit, hincr⟩
    dsimp only at hc1 hsc1 hinit hincr ⊢
    pm_if
    · exact Post.err
    refine Post.bind' (ih.block _ _ _ hc1 (by decide) (ScOK_of_scopes hsc1 hs)) ?_
    intro body hbody
    refine Post.pure' (placedQ_of ?_)
    have e3 : sc (ctx1.push .for_) = { sc ctx with inLoop := true } := by
      rw [sc_push_for, sc_of_scopes hsc1]
    unfold placedSs at hbody
    rw [e3] at hbody
    simp [Stmt.placed, hinit, hincr, hbody]

theorem pstatement_succ (ih : PlaceIH fuel) (S : ∀ fuel, StmtIH fuel) (E : ∀ fuel, ExprIH fuel) (ctx : Ctx) (hc : CtxOK ctx) (hs : ScOK ctx) :
    Post (evalStatement (fuel + 1) ctx) (placedQ ctx) := by
  have simple : ∀ {m : PM Stmt}, Post m stmtP → (∀ st, stmtP st → Stmt.placed (sc ctx) st = true) → Post m (placedQ ctx) :=
    fun h hp => h.mono (fun st hst => placedQ_of (hp st hst))
  unfold evalStatement
  pm_bind; intro t
  pm_if
  · exact (varDefinition_post E fuel ctx hc).mono (fun st h => placedQ_of (placed_of_simple h.2 _))
  pm_if
  · exact ih.functionDefinition ctx hc hs
  pm_if
  · pm_bind; intro _
    pm_if
    · exact Post.err
    rename_i hfn
    refine Post.bind' ((E fuel).values ctx true hc) ?_
    intro vals _
    refine Post.pure' (placedQ_of ?_)
    simpa [Stmt.placed, sc] using hfn
  pm_if
  · exact ih.if_ ctx hc hs
  pm_if
  · exact ih.switch ctx hc hs
  pm_if
  · exact ih.for_ ctx hc hs
  pm_if
  · pm_bind; intro _
    pm_if
    · exact Post.pure' (placedQ_of (by simp [Stmt.placed, sc]))
    · exact Post.err
  pm_if
  · pm_bind; intro _
    pm_if
    · rename_i hfor
      exact Post.pure' (placedQ_of (by simpa [Stmt.placed, sc] using hfor))
    · exact Post.err
  pm_if
  · refine Post.bind' ((E fuel).builtin ctx _ _ _ hc) ?_
    intro args ha
    exact Post.pure' (placedQ_of rfl)
  pm_if
  · refine Post.bind' ((E fuel).builtin ctx _ _ _ hc) ?_
    rintro args ⟨ha, hmin, hmax⟩
    split
    · pm_if
      · exact Post.err
      pm_if
      · exact Post.err
      · exact Post.pure' (placedQ_of rfl)
    · pm_if
      · exact Post.err
      pm_if
      · exact Post.err
      pm_if
      · exact Post.err
      · exact Post.pure' (placedQ_of rfl)
    · rename_i hno2 hno3
      refine Post.unreachable ?_
      have h3 := hmax 3 rfl
      match args, hmin, h3 with
      | [p, d], _, _ => exact hno2 p d rfl
      | [p, d, a], _, _ => exact hno3 p d a rfl
      | [], h, _ => simp at h
      | [_], h, _ => simp at h
      | _ :: _ :: _ :: _ :: _, _, h => simp at h
  pm_if
  · refine Post.bind' ((E fuel).builtin ctx _ _ _ hc) ?_
    rintro args ⟨ha, hmin, hmax⟩
    split
    · exact Post.pure' (placedQ_of rfl)
    · rename_i hno
      obtain ⟨p, rfl⟩ := len1 hmin hmax
      exact Post.unreachable (hno p rfl)
  pm_bind; intro short
  pm_if
  · exact (varDefinition_post E fuel ctx hc).mono (fun st h => placedQ_of (placed_of_simple h.2 _))
  pm_bind; intro s
  pm_bind; intro t1
  pm_if
  · exact (incDec_post ctx hc).mono (fun st h => placedQ_of (placed_of_simple h.2 _))
  pm_if
  · exact (compound_post E fuel ctx hc).mono (fun st h => placedQ_of (placed_of_simple h.2 _))
  pm_if
  · exact (varAssignment_post E fuel ctx hc).mono (fun st h => placedQ_of (placed_of_simple h.2 _))
  pm_if
  · exact (sliceAssignment_post E fuel ctx hc).mono (fun st h => placedQ_of (placed_of_simple h.2 _))
  refine Post.bind' ((E fuel).expression ctx hc) ?_
  intro e he
  split <;> first
    | exact Post.err
    | exact Post.pure' (placedQ_of rfl)

theorem placeIH_all (S : ∀ fuel, StmtIH fuel) (E : ∀ fuel, ExprIH fuel) : ∀ fuel, PlaceIH fuel := by
  intro fuel
  induction fuel with
  | zero =>
    constructor <;> intros <;>
      first
        | (unfold evalBlockContent; exact Post.div) | (unfold evalBlockLoop; exact Post.div) | (unfold evalBlock; exact Post.div)
        | (unfold evalFunctionDefinition; exact Post.div) | (unfold evalIf; exact Post.div) | (unfold evalIfRest; exact Post.div)
        | (unfold evalSwitch; exact Post.div) | (unfold evalCases; exact Post.div) | (unfold evalFor; exact Post.div)
        | (unfold evalStatement; exact Post.div)
  | succ fuel ih =>
    exact {
      blockContent := fun terms cb ctx scope hc hs => pblockContent_succ ih terms cb ctx scope hc hs
      blockLoop := fun terms cb ctx acc hc hs ha => pblockLoop_succ ih S terms cb ctx acc hc hs ha
      block := fun cb ctx scope hc hn hs => pblock_succ ih cb ctx scope hc hn hs
      functionDefinition := fun ctx hc hs => pfunctionDefinition_succ ih ctx hc hs
      if_ := fun ctx hc hs => pif_succ ih E ctx hc hs
      ifRest := fun ctx c body elifs els hc hs h1 h2 h3 => pifRest_succ ih E ctx c body elifs els hc hs h1 h2 h3
      switch := fun ctx hc hs => pswitch_succ ih E ctx hc hs
      cases := fun ctx tag first elifs dflt hc hs h1 h2 h3 => pcases_succ ih E ctx tag first elifs dflt hc hs h1 h2 h3
      for_ := fun ctx hc hs => pfor_succ ih S E ctx hc hs
      statement := fun ctx hc hs => pstatement_succ ih S E ctx hc hs }
