/-
  The expression theorem for the Batch target: `exprB_sem`.
-/
import TshVerif.Lemmas.SemBExpr
namespace Tsh.SemB
open Tsh Tsh.Tr Tsh.Batch Tsh.Sem

theorem bindB_ok {α β : Type} {x : BM α} {f : α → BM β} {s : St} {b : β} {s'' : St}
    (h : (x >>= f) s = .ok (b, s'')) : ∃ a s', x s = .ok (a, s') ∧ f a s' = .ok (b, s'') := by
  simp only [bind] at h
  cases hx : x s with
  | ok p => obtain ⟨a, s'⟩ := p; simp [hx] at h; exact ⟨a, s', rfl, h⟩
  | error m => simp [hx] at h
  | panic m => simp [hx] at h

theorem pureB_ok {α : Type} {a b : α} {s s' : St} (h : (pure a : BM α) s = .ok (b, s')) : b = a ∧ s' = s := by
  simp [pure] at h; exact ⟨h.1.symm, h.2.symm⟩

theorem addLf_adv {s s1 : St} {u : Unit} (h : addLf s = .ok (u, s1)) : Adv s s1 [] 0 := by
  unfold addLf at h
  simp only [bind, Tr.get] at h
  by_cases hl : s.lfSet = true
  · simp [hl, pure] at h
    rw [← h]; exact Adv.refl s
  · simp [hl, addStartLine, Tr.modify] at h
    rw [← h]; exact ⟨rfl, rfl, rfl, rfl, rfl, rfl, rfl, rfl, rfl, by simp,
      ⟨⟨rfl, rfl, rfl, rfl, rfl, rfl, rfl, rfl, rfl⟩, [.raw ")", .raw "", .raw "(set LF=^"], rfl, by simp [lfLine]⟩⟩

theorem stringToString_ok {lit t : String} {s s1 : St} (h : stringToString lit s = .ok (t, s1)) :
    t = escapeB lit ∧ Adv s s1 [] 0 := by
  unfold stringToString at h
  obtain ⟨u, s', h1, h2⟩ := bindB_ok h
  obtain ⟨e1, e2⟩ := pureB_ok h2
  subst e1; subst e2
  exact ⟨rfl, addLf_adv h1⟩

theorem exprB_sem : ∀ (e : Expr) (used : Bool) (s : St) (r : List String) (s' : St) (env : Src.Env) (v : Src.Val),
    s.funcs = [] → Tr.evalExpr conv e used s = .ok (r, s') → Src32.evalExpr env e = some v → ExprSemB env v.render s r s'
  | .boolLit b, used, s, r, s', env, v, h0, hc, hs => by
    unfold Tr.evalExpr at hc
    obtain ⟨er, es⟩ := pureB_ok hc
    subst er
    rw [es]
    simp only [Src32.evalExpr, Option.some.injEq] at hs
    subst hs
    exact semB_leaf env _ _ _ _ (Adv.refl s) (fun ρ _ k ρ' _ => completeD_bool ρ' b)
  | .intLit n, used, s, r, s', env, v, h0, hc, hs => by
    unfold Tr.evalExpr at hc
    obtain ⟨er, es⟩ := pureB_ok hc
    subst er
    rw [es]
    simp only [Src32.evalExpr] at hs
    split at hs
    · simp only [Option.some.injEq] at hs
      subst hs
      exact semB_leaf env _ _ _ _ (Adv.refl s) (fun ρ _ k ρ' _ => completeD_int ρ' n)
    · simp at hs
  | .strLit lit, used, s, r, s', env, v, h0, hc, hs => by
    unfold Tr.evalExpr at hc
    obtain ⟨t, s1, h1, hc⟩ := bindB_ok hc
    obtain ⟨er, es⟩ := pureB_ok hc
    subst er
    rw [es]
    have h1' : stringToString lit s = .ok (t, s1) := h1
    obtain ⟨et, ad⟩ := stringToString_ok h1'
    subst et
    simp only [Src32.evalExpr] at hs
    split at hs
    · rename_i hp
      simp only [Option.some.injEq] at hs
      subst hs
      refine semB_leaf env _ _ _ _ ad (fun ρ _ k ρ' _ => ?_)
      rw [escapeB_plain lit hp]
      exact completeD_plain ρ' _ (plainLitB_not_special lit hp)
    · simp at hs
  | .varEval x, used, s, r, s', env, v, h0, hc, hs => by
    unfold Tr.evalExpr at hc
    obtain ⟨t, s1, h1, hc⟩ := bindB_ok hc
    obtain ⟨er, es⟩ := pureB_ok hc
    subst er
    rw [es]
    have h1' : varEvaluation x.name x.global s = .ok (t, s1) := h1
    simp only [varEvaluation, bind, Tr.get, pure, varEvalString, varName_topB s h0] at h1'
    injection h1' with h1'
    injection h1' with e1 e2
    subst e1; subst e2
    simp only [Src32.evalExpr] at hs
    refine semB_leaf env _ _ _ _ (Adv.refl s) (fun ρ ha k ρ' hρ' => ?_)
    obtain ⟨hg, hv⟩ := ha _ _ hs
    have : ρ' x.name = v.render := by rw [hρ' _ (fun j _ => good_ne_helper _ j hg)]; exact hv
    rw [← this]
    apply completeD_var
    simp only [goodName, Bool.and_eq_true] at hg
    exact hg.1
  | .group x, used, s, r, s', env, v, h0, hc, hs => by
    unfold Tr.evalExpr at hc
    simp only [Src32.evalExpr] at hs
    exact exprB_sem x used s r s' env v h0 hc hs
  | .itoa x, used, s, r, s', env, v, h0, hc, hs => by
    unfold Tr.evalExpr at hc
    obtain ⟨a, s1, ha, hc⟩ := bindB_ok hc
    obtain ⟨er, es⟩ := pureB_ok hc
    subst er
    rw [es]
    simp only [Src32.evalExpr] at hs
    split at hs
    · rename_i n hx
      simp only [Option.some.injEq] at hs
      subst hs
      have ix := exprB_sem x true s a s1 env _ h0 ha hx
      obtain ⟨t, new, k, rfl, e, sem⟩ := ix
      exact ⟨t, new, k, rfl, e, sem⟩
    · simp at hs
  | .unary op x vt, used, s, r, s', env, v, h0, hc, hs => by
    unfold Tr.evalExpr at hc
    obtain ⟨a, s1, ha, hc⟩ := bindB_ok hc
    obtain ⟨t, s2, hop, hc⟩ := bindB_ok hc
    obtain ⟨er, es⟩ := pureB_ok hc
    subst er
    rw [es]
    simp only [Src32.evalExpr] at hs
    split at hs
    · rename_i hopb
      have hopeq : op = "!" := by simpa using hopb
      subst hopeq
      split at hs
      · rename_i b hx
        simp only [Option.some.injEq] at hs
        subst hs
        have ix := exprB_sem x true s a s1 env _ h0 ha hx
        have hop' : unaryOp (firstValue a) "!" s1 = .ok (t, s2) := hop
        rw [unaryOp_specB _ _ (ix.funcs h0)] at hop'
        injection hop' with hop'
        injection hop' with e1 e2
        subst e1; subst e2
        exact semB_unary ix (fun tx => .ifSet "" tx "equ" "1" (helperName s1.varCounter) "0" "1") (fun _ => rfl)
          (fun ρ out k tx hx => stepB_not out _ hx)
      · simp at hs
    · simp at hs
  | .binary op l r, used, s, res, s', env, v, h0, hc, hs => by
    unfold Tr.evalExpr at hc
    obtain ⟨a, s1, ha, hc⟩ := bindB_ok hc
    obtain ⟨b, s2, hb, hc⟩ := bindB_ok hc
    obtain ⟨t, s3, hop, hc⟩ := bindB_ok hc
    obtain ⟨er, es⟩ := pureB_ok hc
    subst er
    rw [es]
    have hop' : binaryOp (firstValue a) op (firstValue b) (Expr.valueType l) s2 = .ok (t, s3) := hop
    simp only [Src32.evalExpr] at hs
    split at hs
    · rename_i va vb hl hr
      have il := exprB_sem l true s a s1 env va h0 ha hl
      have ir := exprB_sem r true s1 b s2 env vb (il.funcs h0) hb hr
      have h2 := ir.funcs (il.funcs h0)
      unfold Src32.binVal at hs
      split at hs
      · simp at hs
      · rename_i hsl
        have hsl' : (Expr.valueType l).isSlice = false := by simpa using hsl
        split at hs
        · rename_i x y hdt
          split at hs
          · rename_i hrd
            simp only [Bool.and_eq_true] at hrd
            cases hz : arith32 op x y with
            | none => simp [hz] at hs
            | some z =>
              simp only [hz, Option.map, Option.some.injEq] at hs
              subst hs
              rw [arithOp_specB _ _ _ _ _ h2 hsl' hdt (arith32_op_ok hz)] at hop'
              injection hop' with hop'
              injection hop' with e1 e2
              subst e1; subst e2
              exact semB_binary il ir (fun tl tr => .setA (helperName s2.varCounter) tl op tr) (fun _ _ => rfl)
                (fun ρ out k tl tr h1 h2 => stepB_arith out _ h1 h2 hrd.1 hrd.2 hz)
          · simp at hs
        · rename_i x y hdt
          split at hs
          · rename_i hplus
            have : op = "+" := by simpa using hplus
            subst this
            simp only [Option.some.injEq] at hs
            subst hs
            rw [concatOp_specB _ _ _ _ h2 hsl' hdt] at hop'
            injection hop' with hop'
            injection hop' with e1 e2
            subst e1; subst e2
            exact semB_binary il ir (fun tl tr => .set (helperName s2.varCounter) (tl ++ tr)) (fun _ _ => rfl)
              (fun ρ out k tl tr h1 h2 => stepB_concat out _ h1 h2)
          · simp at hs
        · simp at hs
    · simp at hs
  | .compare op l r, used, s, res, s', env, v, h0, hc, hs => by
    unfold Tr.evalExpr at hc
    obtain ⟨a, s1, ha, hc⟩ := bindB_ok hc
    obtain ⟨b, s2, hb, hc⟩ := bindB_ok hc
    obtain ⟨t, s3, hop, hc⟩ := bindB_ok hc
    obtain ⟨er, es⟩ := pureB_ok hc
    subst er
    rw [es]
    have hop' : comparisonOpWith (compareOpString op (Expr.valueType l)).1 (compareOpString op (Expr.valueType l)).2
        (firstValue a) op (firstValue b) (Expr.valueType l) s2 = .ok (t, s3) := hop
    simp only [Src32.evalExpr] at hs
    split at hs
    · rename_i va vb hl hr
      have il := exprB_sem l true s a s1 env va h0 ha hl
      have ir := exprB_sem r true s1 b s2 env vb (il.funcs h0) hb hr
      have h2 := ir.funcs (il.funcs h0)
      unfold Src32.cmpVal at hs
      split at hs
      · simp at hs
      · rename_i hsl
        have hsl' : (Expr.valueType l).isSlice = false := by simpa using hsl
        have hvt : ∀ d, (Expr.valueType l).dt = d → Expr.valueType l = ⟨d, false⟩ := by
          intro d hd
          cases hv : Expr.valueType l with
          | mk dt sl => rw [hv] at hd hsl'; simp at hd hsl'; subst hd; subst hsl'; rfl
        split at hs
        · -- bool
          rename_i x y hdt
          rw [hvt _ hdt] at hop'
          split at hs
          · rename_i he
            have : op = "==" := by simpa using he
            subst this
            simp only [Option.some.injEq] at hs
            subst hs
            rw [compareOp_specB _ _ _ _ _ _ _ h2 (by simp [compareOpString])] at hop'
            injection hop' with hop'
            injection hop' with e1 e2
            subst e1; subst e2
            refine semB_binary il ir (fun tl tr => .ifSet (compareOpString "==" ⟨.bool, false⟩).2 tl (compareOpString "==" ⟨.bool, false⟩).1 tr (helperName s2.varCounter) "1" "0") (fun _ _ => rfl)
              (fun ρ out k tl tr h1 h2 => ?_)
            have := stepB_cmp_bool (os := "equ") (v := (x == y)) out (helperName s2.varCounter) h1 h2
              (by cases x <;> cases y <;> simp [numIf])
            simpa [compareOpString, Src.Val.render] using this
          · split at hs
            · rename_i hne he
              have : op = "!=" := by simpa using he
              subst this
              simp only [Option.some.injEq] at hs
              subst hs
              rw [compareOp_specB _ _ _ _ _ _ _ h2 (by simp [compareOpString])] at hop'
              injection hop' with hop'
              injection hop' with e1 e2
              subst e1; subst e2
              refine semB_binary il ir (fun tl tr => .ifSet (compareOpString "!=" ⟨.bool, false⟩).2 tl (compareOpString "!=" ⟨.bool, false⟩).1 tr (helperName s2.varCounter) "1" "0") (fun _ _ => rfl)
                (fun ρ out k tl tr h1 h2 => ?_)
              have := stepB_cmp_bool (os := "neq") (v := (x != y)) out (helperName s2.varCounter) h1 h2
                (by cases x <;> cases y <;> simp [numIf])
              simpa [compareOpString, Src.Val.render] using this
            · simp at hs
        · -- int
          rename_i x y hdt
          rw [hvt _ hdt] at hop'
          split at hs
          · rename_i hrd
            simp only [Bool.and_eq_true] at hrd
            cases hz : Src.intCmp op x y with
            | none => simp [hz] at hs
            | some z =>
              simp only [hz, Option.map, Option.some.injEq] at hs
              subst hs
              obtain ⟨g1, g2, g3⟩ := intCmp_numIf hz
              rw [compareOp_specB _ _ _ _ _ _ _ h2 g1, g2] at hop'
              injection hop' with hop'
              injection hop' with e1 e2
              subst e1; subst e2
              exact semB_binary il ir (fun tl tr => .ifSet "" tl (compareOpString op ⟨.int, false⟩).1 tr (helperName s2.varCounter) "1" "0") (fun _ _ => rfl)
                (fun ρ out k tl tr h1 h2 => stepB_cmp_num out _ h1 h2 hrd.1 hrd.2 g3)
          · simp at hs
        · -- string
          rename_i x y hdt
          rw [hvt _ hdt] at hop'
          split at hs
          · rename_i he
            have : op = "==" := by simpa using he
            subst this
            simp only [Option.some.injEq] at hs
            subst hs
            rw [compareOp_specB _ _ _ _ _ _ _ h2 (by simp [compareOpString])] at hop'
            injection hop' with hop'
            injection hop' with e1 e2
            subst e1; subst e2
            refine semB_binary il ir (fun tl tr => .ifSet (compareOpString "==" ⟨.string, false⟩).2 tl (compareOpString "==" ⟨.string, false⟩).1 tr (helperName s2.varCounter) "1" "0") (fun _ _ => rfl)
              (fun ρ out k tl tr h1 h2 => ?_)
            have := stepB_cmp_streq out (helperName s2.varCounter) h1 h2
            simpa [compareOpString, Src.Val.render] using this
          · split at hs
            · rename_i hne he
              have : op = "!=" := by simpa using he
              subst this
              simp only [Option.some.injEq] at hs
              subst hs
              rw [compareOp_specB _ _ _ _ _ _ _ h2 (by simp [compareOpString])] at hop'
              injection hop' with hop'
              injection hop' with e1 e2
              subst e1; subst e2
              refine semB_binary il ir (fun tl tr => .ifSet (compareOpString "!=" ⟨.string, false⟩).2 tl (compareOpString "!=" ⟨.string, false⟩).1 tr (helperName s2.varCounter) "1" "0") (fun _ _ => rfl)
                (fun ρ out k tl tr h1 h2 => ?_)
              have := stepB_cmp_strne out (helperName s2.varCounter) h1 h2
              simpa [compareOpString, Src.Val.render] using this
            · simp at hs
        · simp at hs
    · simp at hs
  | .logical op l r, used, s, res, s', env, v, h0, hc, hs => by
    unfold Tr.evalExpr at hc
    obtain ⟨a, s1, ha, hc⟩ := bindB_ok hc
    obtain ⟨b, s2, hb, hc⟩ := bindB_ok hc
    obtain ⟨t, s3, hop, hc⟩ := bindB_ok hc
    obtain ⟨er, es⟩ := pureB_ok hc
    subst er
    rw [es]
    have hop' : logicalOp (firstValue a) op (firstValue b) s2 = .ok (t, s3) := hop
    simp only [Src32.evalExpr] at hs
    split at hs
    · rename_i x y hl hr
      have il := exprB_sem l true s a s1 env _ h0 ha hl
      have ir := exprB_sem r true s1 b s2 env _ (il.funcs h0) hb hr
      have h2 := ir.funcs (il.funcs h0)
      split at hs
      · rename_i he
        have : op = "&&" := by simpa using he
        subst this
        simp only [Option.some.injEq] at hs
        subst hs
        rw [andOp_specB _ _ _ h2] at hop'
        injection hop' with hop'
        injection hop' with e1 e2
        subst e1; subst e2
        exact semB_binary il ir (fun tl tr => .andSet tl tr (helperName s2.varCounter)) (fun _ _ => rfl)
          (fun ρ out k tl tr h1 h2 => stepB_and out _ h1 h2)
      · split at hs
        · rename_i hne he
          have : op = "||" := by simpa using he
          subst this
          simp only [Option.some.injEq] at hs
          subst hs
          rw [orOp_specB _ _ _ h2] at hop'
          injection hop' with hop'
          injection hop' with e1 e2
          subst e1; subst e2
          exact semB_binary il ir (fun tl tr => .orSet tl tr (helperName s2.varCounter)) (fun _ _ => rfl)
            (fun ρ out k tl tr h1 h2 => stepB_or out _ h1 h2)
        · simp at hs
    · simp at hs
  | .call _ _ _, _, _, _, _, _, _, _, _, hs => by simp [Src32.evalExpr] at hs
  | .app _ _ _, _, _, _, _, _, _, _, _, hs => by simp [Src32.evalExpr] at hs
  | .sliceNew _ _, _, _, _, _, _, _, _, _, hs => by simp [Src32.evalExpr] at hs
  | .sliceEval _ _ _, _, _, _, _, _, _, _, _, hs => by simp [Src32.evalExpr] at hs
  | .substr _ _ _, _, _, _, _, _, _, _, _, hs => by simp [Src32.evalExpr] at hs
  | .len _, _, _, _, _, _, _, _, _, hs => by simp [Src32.evalExpr] at hs
  | .exists_ _, _, _, _, _, _, _, _, _, hs => by simp [Src32.evalExpr] at hs
  | .read _, _, _, _, _, _, _, _, _, hs => by simp [Src32.evalExpr] at hs
  | .input _, _, _, _, _, _, _, _, _, hs => by simp [Src32.evalExpr] at hs
  | .copy _ _, _, _, _, _, _, _, _, _, hs => by simp [Src32.evalExpr] at hs
  | .write _ _ _, _, _, _, _, _, _, _, _, hs => by simp [Src32.evalExpr] at hs
  | .bad _, _, _, _, _, _, _, _, _, hs => by simp [Src32.evalExpr] at hs

end Tsh.SemB
